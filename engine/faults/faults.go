//go:build verif

// Package faults enumerates per-connection failure cases against the real
// proxy stack (shared by C10 and C11): a client abort after every byte offset
// of an HTTP/1.1 and an HTTP/2 session, an injected error at every server-side
// I/O operation, hostile byte streams, stalls. Each case is one execution in a
// fresh bubble; the caller supplies the oracle.
package faults

import (
	"errors"
	"fmt"
	"io"
	"net"
	"net/http"
	"strings"
	"syscall"
	"testing"
	"testing/synctest"
	"time"

	utls "github.com/refraction-networking/utls"
	"verif/bubble"
	"verif/memnet"
	"verif/ref/h2wire"
)

var (
	// presets without extension shuffling and without ECH GREASE: the byte length of the session is the same in every run
	HelloH2 = bubble.Hello{Name: "chrome102", ID: &utls.HelloChrome_102, ALPN: []string{"h2", "http/1.1"}, SNI: "localhost"}
	HelloH1 = bubble.Hello{Name: "firefox105", ID: &utls.HelloFirefox_105, ALPN: []string{"http/1.1"}, SNI: "localhost"}
)

type Case struct {
	Kind  string // abort-close abort-reset iofault hello-mutation hello-truncation h2-mutation plain-http stall slow-reader slow-backend odd-backend abort-many h2-flood
	Proto string // h1 h2
	K     int    // byte offset / op index / mutation index
	Err   string // for iofault
	Val   int    // substituted value / field variant
}

func (c Case) String() string {
	return fmt.Sprintf("%s/%s/k=%d/err=%s/val=%d", c.Kind, c.Proto, c.K, c.Err, c.Val)
}

var IOErrors = map[string]error{
	"EOF":        io.EOF,
	"ECONNRESET": &net.OpError{Op: "read", Net: "tcp", Err: syscall.ECONNRESET},
	"timeout":    &net.OpError{Op: "read", Net: "tcp", Err: memnet.ErrTimeout},
	"EPIPE":      &net.OpError{Op: "write", Net: "tcp", Err: syscall.EPIPE},
	"generic":    errors.New("injected failure"),
}

var IOErrorNames = []string{"EOF", "ECONNRESET", "timeout", "EPIPE", "generic"}

// Bystander: see Run.
var Bystander bool

// Env is what the oracle sees after the case has run and the system is quiescent.
type Env struct {
	St       *bubble.Stack
	Victim   *bubble.Client
	Baseline []string // SUT goroutines before the victim connected
	Case     Case
	Problem  string // set by Run: something another client saw go wrong while the case ran
	Ops      int    // server-side I/O operations performed on the victim's connection
	Bytes    int64  // bytes the victim's client put on the wire
	// ClosesWhileClientStayed: for the case kinds in which the client stays connected and silent, the number of Close
	// calls the proxy had made on the connection after 40 s of fake time, BEFORE the client finally went away (-1: the
	// client did not stay)
	ClosesWhileClientStayed int
}

// session drives the victim through a fixed scenario; every step tolerates a dead connection.
func session(cl *bubble.Client, proto string, extra func(step int)) {
	step := 0
	next := func() {
		synctest.Wait()
		if extra != nil {
			extra(step)
		}
		step++
	}
	next() // handshake
	if proto == "h1" {
		cl.SendH1(bubble.Req{Path: "/a", Host: "localhost", Lines: [][2]string{{"X-A", "1"}}})
		next()
		cl.SendH1(bubble.Req{Method: "POST", Path: "/b", Host: "localhost", Body: []byte("0123456789abcdef")})
		next()
	} else {
		cl.StartH2(h2wire.Setting{ID: 3, Val: 100}, h2wire.Setting{ID: 4, Val: 65535})
		cl.Write(h2wire.WindowUpdate(0, 1000))
		next()
		cl.SendH2(1, bubble.Req{Path: "/a", Host: "localhost"})
		next()
		cl.Write(h2wire.SettingsAck())
		cl.SendH2(3, bubble.Req{Method: "POST", Path: "/b", Host: "localhost", Body: []byte("0123456789abcdef")})
		next()
	}
}

// Measure runs the clean session once and returns (client bytes on the wire, server-side op count, first record).
func Measure(t *testing.T, proto string, opts bubble.StackOpts) (nbytes int64, nops int, hello []byte, err error) {
	res := bubble.Run(t, func() {
		st := bubble.NewStack(opts)
		defer st.Shutdown()
		cl := st.Connect("victim", nil, helloFor(proto))
		session(cl, proto, nil)
		if done, herr := cl.Handshake(); !done || herr != nil {
			err = fmt.Errorf("clean session: handshake %v %v", done, herr)
			return
		}
		if st.Backend.Count() != 2 {
			err = fmt.Errorf("clean %s session: backend saw %d requests, want 2", proto, st.Backend.Count())
		}
		nbytes = cl.Raw.WroteN
		hello = cl.FirstRecord()
		cl.Close()
		synctest.Wait()
		nops = cl.Srv.NumOps()
	})
	if res.Panic != nil {
		err = fmt.Errorf("panic: %v %s", res.Panic, res.Stack)
	}
	return
}

func helloFor(proto string) bubble.Hello {
	if proto == "h2" {
		return HelloH2
	}
	return HelloH1
}

// Run executes one case and calls oracle in the final quiescent state (still inside the bubble).
func Run(t *testing.T, cs Case, opts bubble.StackOpts, hello []byte, oracle func(*Env)) bubble.RunResult {
	return bubble.Run(t, func() {
		st := bubble.NewStack(opts)
		synctest.Wait()
		env := &Env{St: st, Case: cs, Baseline: bubble.SUT(), ClosesWhileClientStayed: -1}
		var cl *bubble.Client
		// Bystander (set by the check that wants it): another client's HTTP/2 connection has a request in flight - held at
		// the backend - while the case runs, and is answered right after the victim's connection has failed: its response
		// must arrive complete (buffers, writers or pools shared between connections would show here).
		var by *bubble.Client
		var byRelease chan struct{}
		if Bystander && (cs.Kind == "iofault" || cs.Kind == "abort-close" || cs.Kind == "abort-reset" || cs.Kind == "abort-many") && cs.Proto != "plain" {
			byRelease = make(chan struct{})
			st.Backend.Hold = func(r *bubble.RecReq) {
				if r.Path == "/bystander" {
					<-byRelease
				}
			}
			by = st.Connect("bystander", nil, HelloH2)
			synctest.Wait()
			by.StartH2()
			by.SendH2(1, bubble.Req{Path: "/bystander", Host: "localhost"})
			synctest.Wait()
		}
		switch cs.Kind {
		case "abort-close", "abort-reset":
			h := helloFor(cs.Proto)
			h.Prep = func(c, sv *memnet.Conn) {
				k := int64(cs.K)
				if cs.Kind == "abort-close" {
					c.CutAfter(k, func() { c.Close() })
				} else {
					c.CutAfter(k, func() { c.Reset(syscall.ECONNRESET) })
				}
				if k == 0 {
					// nothing may be sent at all: abort right away
					if cs.Kind == "abort-close" {
						c.Close()
					} else {
						c.Reset(syscall.ECONNRESET)
					}
				}
			}
			cl = st.Connect("victim", nil, h)
			session(cl, cs.Proto, nil)
			// if the offset lies beyond what this session sent, the abort happens now
			if cs.Kind == "abort-close" {
				cl.Abort(nil)
			} else {
				cl.Abort(syscall.ECONNRESET)
			}
		case "iofault":
			injected := IOErrors[cs.Err]
			prep := func(c, sv *memnet.Conn) {
				sv.Fault = func(kind string, idx int) error {
					if idx == cs.K {
						return injected
					}
					return nil
				}
			}
			if cs.Proto == "plain" { // a plain HTTP request on the TLS port; the server's k-th I/O operation fails
				cl = st.DialRawWith("victim", nil, prep)
				cl.Raw.Write([]byte("GET / HTTP/1.1\r\nHost: x\r\n\r\n"))
				synctest.Wait()
				cl.Raw.Close()
				break
			}
			h := helloFor(cs.Proto)
			h.Prep = prep
			cl = st.Connect("victim", nil, h)
			session(cl, cs.Proto, nil)
			cl.Close()
		case "hello-mutation", "hello-truncation":
			cl = st.DialRaw("victim", nil)
			b := append([]byte(nil), hello...)
			if cs.Kind == "hello-mutation" {
				switch cs.Val {
				case 0:
					b[cs.K] = 0x00
				case 1:
					b[cs.K] = 0xff
				default:
					b[cs.K] ^= 0x01
				}
			} else {
				b = b[:cs.K]
			}
			cl.Raw.Write(b)
			synctest.Wait()
			cl.Raw.Close()
		case "plain-http":
			cl = st.DialRaw("victim", nil)
			reqs := []string{"GET / HTTP/1.1\r\nHost: x\r\n\r\n", "POST /x HTTP/1.0\r\n\r\n", "PRI * HTTP/2.0\r\n\r\nSM\r\n\r\n", "\x16\x03\x01", "\x16\x03\x01\x00\x00", "\x80\x2e\x01\x00\x02"}
			cl.Raw.Write([]byte(reqs[cs.K%len(reqs)]))
			synctest.Wait()
			if cs.Val == 1 {
				cl.Raw.Close()
			}
		case "stall":
			h := helloFor(cs.Proto)
			h.Manual = true
			cl = st.Connect("victim", nil, h)
			synctest.Wait()
			cl.Raw.Deliver(cs.K)
			synctest.Wait()
		case "hello-fragmented":
			// a legal way to send a ClientHello: the handshake message split over two TLS records, the first one carrying
			// K bytes of it; then the ordinary session
			h := helloFor(cs.Proto)
			h.Filter = func(off int64, b []byte) []byte {
				if off != 0 || len(b) < 6 || b[0] != 22 {
					return b
				}
				n := int(b[3])<<8 | int(b[4])
				if len(b) < 5+n || cs.K <= 0 || cs.K >= n {
					return b
				}
				out := append([]byte{22, b[1], b[2], byte(cs.K >> 8), byte(cs.K)}, b[5:5+cs.K]...)
				out = append(out, 22, b[1], b[2], byte((n-cs.K)>>8), byte(n-cs.K))
				out = append(out, b[5+cs.K:]...)
				return out
			}
			cl = st.Connect("victim", nil, h)
			session(cl, cs.Proto, nil)
			cl.Close()
		case "stall-after-handshake":
			// the TLS handshake completes, the client sends the first K bytes of what it owes next (the HTTP/2 connection
			// preface, or an HTTP/1.1 request) and falls silent without disconnecting
			cl = st.Connect("victim", nil, helloFor(cs.Proto))
			synctest.Wait()
			first := []byte("GET /stalled HTTP/1.1\r\nHost: localhost\r\n\r\n")
			if cs.Proto == "h2" {
				first = append([]byte(h2wire.Preface), h2wire.Settings()...)
			}
			if cs.K > len(first) {
				cs.K = len(first)
			}
			if cs.K > 0 {
				cl.Write(first[:cs.K])
			}
			synctest.Wait()
		case "slow-reader":
			// the client asks for a large response and stops reading; the proxy's writes block (bounded socket buffer);
			// after a while the client goes away (Val 0: close, 1: reset) or (Val 2) starts reading again and finishes
			st.Backend.Respond = func(r *bubble.RecReq) *bubble.Resp {
				if r.Path == "/big" {
					return &bubble.Resp{Status: 200, Body: make([]byte, 300000)}
				}
				return nil
			}
			h := helloFor(cs.Proto)
			h.Prep = func(c, sv *memnet.Conn) { sv.SetWriteCap(4096) }
			cl = st.Connect("victim", nil, h)
			synctest.Wait()
			cl.PauseReads()
			if cs.Proto == "h1" {
				cl.SendH1(bubble.Req{Path: "/big", Host: "localhost"})
			} else {
				cl.StartH2(h2wire.Setting{ID: 4, Val: 1 << 30})
				cl.Write(h2wire.WindowUpdate(0, 1<<30))
				cl.SendH2(1, bubble.Req{Path: "/big", Host: "localhost"})
			}
			synctest.Wait()
			time.Sleep(time.Duration(cs.K) * time.Second)
			synctest.Wait()
			switch cs.Val {
			case 0:
				cl.Abort(nil)
			case 1:
				cl.Abort(syscall.ECONNRESET)
			default:
				cl.ResumeReads()
				synctest.Wait()
				cl.Close()
			}
		case "abort-many":
			// K requests in flight on one h2 connection, each handler blocked writing a large response into the client's
			// closed flow-control window; then the client goes away (Val 0: close, 1: reset): K handlers fail at once, after
			// the connection's serve loop has ended
			st.Backend.Respond = func(r *bubble.RecReq) *bubble.Resp {
				if r.Path == "/many" {
					return &bubble.Resp{Status: 200, Body: make([]byte, 200000)}
				}
				return nil
			}
			cl = st.Connect("victim", nil, HelloH2)
			synctest.Wait()
			cl.StartH2()
			synctest.Wait()
			for i := 0; i < cs.K; i++ {
				cl.SendH2(uint32(1+2*i), bubble.Req{Path: "/many", Host: "localhost"})
			}
			synctest.Wait()
			if cs.Val == 0 {
				cl.Abort(nil)
			} else {
				cl.Abort(syscall.ECONNRESET)
			}
		case "odd-backend":
			// the third party misbehaves: K = the status code the backend answers with (any three-digit code is legal on the
			// wire); Val 0: small body, 1: 64 KiB of response headers, 2: a response body shorter than its Content-Length
			st.Backend.Respond = func(r *bubble.RecReq) *bubble.Resp {
				if r.Path != "/odd" {
					return nil
				}
				rs := &bubble.Resp{Status: cs.K, Body: []byte("odd")}
				if cs.Val == 1 {
					rs.Header = http.Header{}
					for i := 0; i < 64; i++ {
						rs.Header.Add(fmt.Sprintf("X-Big-%d", i), strings.Repeat("v", 1000))
					}
				}
				return rs
			}
			cl = st.Connect("victim", nil, helloFor(cs.Proto))
			synctest.Wait()
			if cs.Proto == "h1" {
				cl.SendH1(bubble.Req{Path: "/odd", Host: "localhost"})
			} else {
				cl.StartH2()
				cl.SendH2(1, bubble.Req{Path: "/odd", Host: "localhost"})
			}
			synctest.Wait()
			cl.Close()
		case "slow-backend":
			// the backend takes K seconds to answer - past the proxy's write / read / idle timeouts when K is large enough.
			// Val 0: GET; 1: POST with a complete body; 2: POST whose body the client never finishes
			release := make(chan struct{})
			st.Backend.Hold = func(r *bubble.RecReq) {
				if r.Path == "/slow" {
					<-release
				}
			}
			cl = st.Connect("victim", nil, helloFor(cs.Proto))
			synctest.Wait()
			method, body := "GET", []byte(nil)
			if cs.Val > 0 {
				method, body = "POST", []byte("0123456789")
			}
			if cs.Proto == "h1" {
				if cs.Val == 2 {
					cl.Write([]byte("POST /slow HTTP/1.1\r\nHost: localhost\r\nContent-Length: 100\r\n\r\n0123456789"))
				} else {
					cl.SendH1(bubble.Req{Method: method, Path: "/slow", Host: "localhost", Body: body})
				}
			} else {
				cl.StartH2()
				if cs.Val == 2 {
					blk := cl.Enc.Block(h2wire.HF{":method", "POST"}, h2wire.HF{":scheme", "https"}, h2wire.HF{":authority", "localhost"}, h2wire.HF{":path", "/slow"})
					cl.Write(h2wire.Headers(1, blk, false, true, nil, -1))
					cl.Write(h2wire.Data(1, body, false, -1))
				} else {
					cl.SendH2(1, bubble.Req{Method: method, Path: "/slow", Host: "localhost", Body: body})
				}
			}
			synctest.Wait()
			time.Sleep(time.Duration(cs.K) * time.Second)
			synctest.Wait()
			close(release)
			synctest.Wait()
			cl.Close()
		case "h2-flood":
			// a legal but abusive volume of one frame kind on one connection (K: 0 PRIORITY on new ids, 1 PRIORITY on one id,
			// 2 PING, 3 SETTINGS, 4 WINDOW_UPDATE(0,1), 5 HEADERS+RST_STREAM pairs), then a PING
			cl = st.Connect("victim", nil, HelloH2)
			synctest.Wait()
			cl.StartH2()
			synctest.Wait()
			n := cs.Val
			var buf []byte
			for i := 0; i < n; i++ {
				switch cs.K {
				case 0:
					buf = append(buf, h2wire.Priority(uint32(3+2*i), h2wire.Prio{Dep: 0, Weight: uint8(i)})...)
				case 1:
					buf = append(buf, h2wire.Priority(7, h2wire.Prio{Dep: uint32(i%5) * 2, Excl: i%2 == 0, Weight: uint8(i)})...)
				case 2:
					buf = append(buf, h2wire.Ping(false, [8]byte{byte(i), byte(i >> 8)})...)
				case 3:
					buf = append(buf, h2wire.Settings(h2wire.Setting{ID: 4, Val: uint32(65535 + i)})...)
				case 4:
					buf = append(buf, h2wire.WindowUpdate(0, 1)...)
				default:
					id := uint32(1 + 2*i)
					blk := cl.Enc.Block(h2wire.HF{":method", "GET"}, h2wire.HF{":scheme", "https"}, h2wire.HF{":authority", "localhost"}, h2wire.HF{":path", "/flood"})
					buf = append(buf, h2wire.Headers(id, blk, true, true, nil, -1)...)
					buf = append(buf, h2wire.RST(id, 8)...)
				}
				if len(buf) > 32000 {
					cl.Write(buf)
					buf = buf[:0]
					synctest.Wait()
				}
			}
			cl.Write(buf)
			synctest.Wait()
			cl.Write(h2wire.Ping(false, [8]byte{9, 9, 9}))
			synctest.Wait()
		case "h1-upgrade":
			// a protocol upgrade: the backend accepts it (101), the connection becomes a tunnel (net/http hands it over to
			// the reverse proxy: it ends "hijacked", not "closed"), one message each way, then the client leaves.
			// K: 0 the client closes, 1 the backend side closes first, 2 the backend declines with 200
			var tunnel *bubble.EchoTunnel
			st.Backend.Respond = func(r *bubble.RecReq) *bubble.Resp {
				if r.Path != "/ws" {
					return nil // every other request (the control clients') is answered as usual
				}
				if r.Header.Get("Upgrade") == "" || cs.K == 2 {
					return &bubble.Resp{Status: 200, Body: []byte("plain")}
				}
				tunnel = bubble.NewEchoTunnel()
				return &bubble.Resp{Status: 101, Header: http.Header{"Upgrade": {r.Header.Get("Upgrade")}, "Connection": {"Upgrade"}}, Tunnel: tunnel}
			}
			cl = st.Connect("victim", nil, HelloH1)
			synctest.Wait()
			cl.Write([]byte("GET /ws HTTP/1.1\r\nHost: localhost\r\nConnection: Upgrade\r\nUpgrade: websocket\r\n\r\n"))
			synctest.Wait()
			cl.Write([]byte("hello\n"))
			synctest.Wait()
			if cs.K == 1 && tunnel != nil {
				tunnel.Close()
				synctest.Wait()
			}
			cl.Close()
			synctest.Wait()
			if tunnel != nil {
				tunnel.Close()
			}
		case "h2-short-frame":
			// one frame of type K/256 whose payload has Val octets (0..9: at, below and above the size of every mandatory
			// field), with no flag or with every flag that type defines (K%256), on stream 1 (stream 0 for the connection
			// frame types); whatever the server answers, it goes on serving others
			cl = st.Connect("victim", nil, HelloH2)
			synctest.Wait()
			cl.StartH2()
			synctest.Wait()
			typ, flags := byte(cs.K/256), byte(cs.K%256)
			sid := uint32(1)
			if typ == 4 || typ == 6 || typ == 7 {
				sid = 0
			}
			payload := make([]byte, cs.Val)
			for i := range payload {
				payload[i] = byte(i + 1)
			}
			cl.Write(h2wire.Append(nil, typ, flags, sid, payload))
			synctest.Wait()
			cl.SendH2(101, bubble.Req{Path: "/after", Host: "localhost"})
			synctest.Wait()
			cl.Close()
			synctest.Wait()
		case "h2-rare":
			// one rare but legal (or cleanly refusable) HTTP/2 sequence on a connection, then a plain request and a PING
			cl = st.Connect("victim", nil, HelloH2)
			synctest.Wait()
			cl.StartH2()
			synctest.Wait()
			H2Rare(cl, cs.K)
			synctest.Wait()
			cl.SendH2(101, bubble.Req{Path: "/after", Host: "localhost"})
			synctest.Wait()
			cl.Write(h2wire.Ping(false, [8]byte{9, 9, 9}))
			synctest.Wait()
		case "h2-mutation":
			cl = st.Connect("victim", nil, HelloH2)
			synctest.Wait()
			cl.Write(h2Mutation(cl, cs.K, cs.Val))
			synctest.Wait()
			cl.Write(h2wire.Ping(false, [8]byte{1}))
			synctest.Wait()
		default:
			panic("unknown case kind " + cs.Kind)
		}
		synctest.Wait()
		if by != nil {
			close(byRelease)
			synctest.Wait()
			col := bubble.NewH2Collector()
			col.Add(by.Dec, by.TakeFrames())
			if r := col.Resps[1]; r == nil || !r.Ended || r.Status != "200" || string(r.Body) != "backend:/bystander" {
				env.Problem = fmt.Sprintf("another client's request that was in flight during the case was not answered correctly afterwards: %+v (connection error: %v)", r, by.ReadErr())
			}
			by.Close()
			synctest.Wait()
		}
		// let every armed timer fire (handshake timeout 10 s, http2 goaway/settings timers)
		time.Sleep(40 * time.Second)
		synctest.Wait()
		if cs.Kind == "stall" || cs.Kind == "plain-http" || cs.Kind == "h2-mutation" || cs.Kind == "h2-flood" || cs.Kind == "h2-rare" || cs.Kind == "h2-short-frame" || cs.Kind == "stall-after-handshake" {
			if cl.Srv != nil && !(cs.Kind == "plain-http" && cs.Val == 1) {
				env.ClosesWhileClientStayed = cl.Srv.NumCloses()
			}
			cl.Close() // the stalled client finally goes away
			if cl.Raw != nil {
				cl.Raw.Close()
			}
			synctest.Wait()
			time.Sleep(5 * time.Second)
			synctest.Wait()
		}
		env.Victim = cl
		if cl != nil && cl.Srv != nil {
			env.Ops = cl.Srv.NumOps()
			env.Bytes = cl.Raw.WroteN
		}
		oracle(env)
		st.Shutdown()
	})
}

// H2MutationCount is the number of (frame, field) mutation indices.
const H2Frames = 7

var h2FieldVariants = 24

// h2Mutation builds the h2 transcript preface+SETTINGS, WINDOW_UPDATE, HEADERS(1), PRIORITY, HEADERS(3)+DATA, PING
// with frame index k/len mutated in header field variant val.
func h2Mutation(cl *bubble.Client, k, val int) []byte {
	blk1 := cl.Enc.Block(h2wire.HF{":method", "GET"}, h2wire.HF{":scheme", "https"}, h2wire.HF{":authority", "localhost"}, h2wire.HF{":path", "/m1"}, h2wire.HF{"x-long", "0123456789abcdef0123456789abcdef"})
	blk3 := cl.Enc.Block(h2wire.HF{":method", "POST"}, h2wire.HF{":scheme", "https"}, h2wire.HF{":authority", "localhost"}, h2wire.HF{":path", "/m3"})
	cut := len(blk1) / 2
	frames := [][]byte{
		h2wire.Settings(h2wire.Setting{ID: 3, Val: 100}),
		h2wire.WindowUpdate(0, 1000),
		h2wire.Headers(1, blk1[:cut], true, false, nil, -1), // header block continued in the next frame
		h2wire.Continuation(1, blk1[cut:], true),
		h2wire.Priority(5, h2wire.Prio{Dep: 0, Weight: 10}),
		h2wire.Headers(3, blk3, false, true, nil, -1),
		h2wire.Data(3, []byte("hello world"), true, -1),
	}
	f := append([]byte(nil), frames[k%len(frames)]...)
	ln := int(f[0])<<16 | int(f[1])<<8 | int(f[2])
	setLen := func(n int) { f[0], f[1], f[2] = byte(n>>16), byte(n>>8), byte(n) }
	setSID := func(n uint32) { f[5], f[6], f[7], f[8] = byte(n>>24), byte(n>>16), byte(n>>8), byte(n) }
	switch {
	case val == 0:
		setLen(ln + 1)
	case val == 1:
		if ln > 0 {
			setLen(ln - 1)
		} else {
			setLen(2)
		}
	case val == 2:
		setLen(0)
	case val == 3:
		setLen(1<<24 - 1)
	case val >= 4 && val <= 15: // type -> 0..10, 0xfa
		tys := []byte{0, 1, 2, 3, 4, 5, 6, 7, 8, 9, 10, 0xfa}
		f[3] = tys[val-4]
	case val >= 16 && val <= 19: // flag bits
		f[4] ^= []byte{0x1, 0x4, 0x8, 0x20}[val-16]
	case val == 20:
		setSID(0)
	case val == 21:
		setSID(2)
	case val == 22:
		setSID(0x7fffffff)
	case val == 23: // truncation of the frame: half of it
		f = f[:len(f)/2+1]
	}
	var out []byte
	out = append(out, h2wire.Preface...)
	for i, fr := range frames {
		if i == k%len(frames) {
			out = append(out, f...)
		} else {
			out = append(out, fr...)
		}
	}
	return out
}

// H2ShortFrames lists the (type<<8|flags, payload length) pairs of case kind "h2-short-frame".
func H2ShortFrames() (out [][2]int) {
	all := map[byte]byte{0: 0x09, 1: 0x2d, 2: 0, 3: 0, 4: 0x01, 5: 0x0c, 6: 0x01, 7: 0, 8: 0, 9: 0x04}
	for typ := byte(0); typ <= 9; typ++ {
		fl := []byte{0}
		if all[typ] != 0 {
			fl = append(fl, all[typ])
		}
		if typ == 1 {
			fl = append(fl, 0x28, 0x08, 0x20) // PADDED|PRIORITY, PADDED, PRIORITY (without END_HEADERS)
		}
		for _, f := range fl {
			for n := 0; n <= 9; n++ {
				out = append(out, [2]int{int(typ)<<8 | int(f), n})
			}
		}
	}
	return
}

// H2FieldVariants is the number of header-field mutation variants per frame.
func H2FieldVariants() int { return h2FieldVariants }

// H2RareNames describes the sequences of case kind "h2-rare" (K indexes this list).
var H2RareNames = []string{
	"upload ending in an announced trailer section",
	"upload ending in a trailer section that was not announced",
	"upload ending in an empty trailer HEADERS frame",
	"upload whose trailer section carries a pseudo-header field (stream error)",
	"second SETTINGS frame in the middle of the connection, then a request",
	"request whose priority field names its own stream (stream error)",
	"extension frames of type 0x0a, 0x0b, 0x10 and 0xff on stream 0 and on an open stream",
	"request whose header block is split over HEADERS and three CONTINUATION frames, one of them empty",
	"WINDOW_UPDATE, PRIORITY and RST_STREAM for a stream that is already closed",
	"SETTINGS{ENABLE_PUSH=0, MAX_FRAME_SIZE=2^24-1, HEADER_TABLE_SIZE=0, MAX_HEADER_LIST_SIZE=0} then a request",
	"HEAD request, and a GET with a zero-length DATA frame carrying END_STREAM",
	"PRIORITY frames for ten idle streams, then requests on two of them in descending-then-ascending order",
	"request cancelled by RST_STREAM(NO_ERROR) right after its HEADERS, then the same path again",
	"client GOAWAY(NO_ERROR) with a request in flight",
}

// H2Rare sends sequence k on an established HTTP/2 client connection.
func H2Rare(cl *bubble.Client, k int) {
	hdr := func(method, path string, extra ...h2wire.HF) []byte {
		fs := append([]h2wire.HF{{Name: ":method", Value: method}, {Name: ":scheme", Value: "https"}, {Name: ":authority", Value: "localhost"}, {Name: ":path", Value: path}}, extra...)
		return cl.Enc.Block(fs...)
	}
	upload := func(id uint32, announce bool, trailer []h2wire.HF) {
		var extra []h2wire.HF
		if announce {
			extra = append(extra, h2wire.HF{Name: "trailer", Value: "x-sum"})
		}
		cl.Write(h2wire.Headers(id, hdr("POST", "/rare-upload", extra...), false, true, nil, -1))
		cl.Write(h2wire.Data(id, []byte("payload-1"), false, -1))
		cl.Write(h2wire.Data(id, []byte("payload-2"), false, -1))
		cl.Write(h2wire.Headers(id, cl.Enc.Block(trailer...), true, true, nil, -1))
	}
	switch k {
	case 0:
		upload(1, true, []h2wire.HF{{Name: "x-sum", Value: "1"}})
	case 1:
		upload(1, false, []h2wire.HF{{Name: "x-sum", Value: "1"}, {Name: "x-other", Value: "2"}})
	case 2:
		upload(1, false, nil)
	case 3:
		upload(1, true, []h2wire.HF{{Name: ":path", Value: "/x"}, {Name: "x-sum", Value: "1"}})
	case 4:
		cl.SendH2(1, bubble.Req{Path: "/rare-1", Host: "localhost"})
		synctest.Wait()
		cl.Write(h2wire.Settings(h2wire.Setting{ID: 4, Val: 100000}, h2wire.Setting{ID: 3, Val: 7}))
		synctest.Wait()
		cl.Write(h2wire.WindowUpdate(0, 5))
		cl.SendH2(3, bubble.Req{Path: "/rare-2", Host: "localhost"})
	case 5:
		cl.Write(h2wire.Headers(1, hdr("GET", "/rare-selfdep"), true, true, &h2wire.Prio{Dep: 1, Weight: 3}, -1))
	case 6:
		cl.Write(h2wire.Headers(1, hdr("POST", "/rare-open"), false, true, nil, -1))
		for _, typ := range []byte{0x0a, 0x0b, 0x10, 0xff} {
			cl.Write(h2wire.Append(nil, typ, 0, 0, []byte{0, 0, 1, 2, 3}))
			cl.Write(h2wire.Append(nil, typ, 0xff, 1, nil))
		}
		cl.Write(h2wire.Data(1, []byte("x"), true, -1))
	case 7:
		blk := hdr("GET", "/rare-continuation", h2wire.HF{Name: "x-long", Value: strings.Repeat("v", 300)})
		a, b := len(blk)/3, 2*len(blk)/3
		cl.Write(h2wire.Headers(1, blk[:a], true, false, nil, -1))
		cl.Write(h2wire.Continuation(1, blk[a:b], false))
		cl.Write(h2wire.Continuation(1, nil, false))
		cl.Write(h2wire.Continuation(1, blk[b:], true))
	case 8:
		cl.SendH2(1, bubble.Req{Path: "/rare-closed", Host: "localhost"})
		synctest.Wait()
		cl.Write(h2wire.WindowUpdate(1, 10))
		cl.Write(h2wire.Priority(1, h2wire.Prio{Dep: 0, Weight: 9}))
		cl.Write(h2wire.RST(1, 8))
	case 9:
		cl.Write(h2wire.Settings(h2wire.Setting{ID: 2, Val: 0}, h2wire.Setting{ID: 5, Val: 1<<24 - 1}, h2wire.Setting{ID: 1, Val: 0}, h2wire.Setting{ID: 6, Val: 0}))
		synctest.Wait()
		cl.SendH2(1, bubble.Req{Path: "/rare-settings", Host: "localhost"})
	case 10:
		cl.Write(h2wire.Headers(1, hdr("HEAD", "/rare-head"), true, true, nil, -1))
		cl.Write(h2wire.Headers(3, hdr("GET", "/rare-emptydata"), false, true, nil, -1))
		cl.Write(h2wire.Data(3, nil, true, -1))
	case 11:
		for i := 0; i < 10; i++ {
			cl.Write(h2wire.Priority(uint32(1+2*i), h2wire.Prio{Dep: uint32(2 * i), Excl: i%2 == 1, Weight: uint8(20 * i)}))
		}
		synctest.Wait()
		cl.SendH2(7, bubble.Req{Path: "/rare-prio-7", Host: "localhost"})
		cl.SendH2(15, bubble.Req{Path: "/rare-prio-15", Host: "localhost"})
	case 12:
		cl.Write(h2wire.Headers(1, hdr("GET", "/rare-cancel"), true, true, nil, -1))
		cl.Write(h2wire.RST(1, 0))
		synctest.Wait()
		cl.SendH2(3, bubble.Req{Path: "/rare-cancel", Host: "localhost"})
	case 13:
		cl.Write(h2wire.Headers(1, hdr("POST", "/rare-goaway"), false, true, nil, -1))
		synctest.Wait()
		cl.Write(h2wire.GoAway(0, 0, nil))
		synctest.Wait()
		cl.Write(h2wire.Data(1, []byte("x"), true, -1))
	default:
		panic(fmt.Sprintf("h2-rare: no sequence %d", k))
	}
}
