//go:build verif

// Package raceload is a free-running workload (no bubble, no gates, real goroutines) for the race-detector passes:
// many concurrent connections with every outcome, requests on both protocols, aborts, and a shutdown racing with traffic.
package raceload

import (
	"fmt"
	"testing"
	"time"

	utls "github.com/refraction-networking/utls"
	"github.com/wi1dcard/fingerproxy"
	"verif/bubble"
	"verif/memnet"
	"verif/ref/h2wire"
)

func waitFor(cond func() bool) {
	for i := 0; i < 3000 && !cond(); i++ {
		time.Sleep(time.Millisecond)
	}
}

// Mixed runs `rounds` rounds of 8 concurrent connections (h2, h1, no-ALPN, garbage, aborted handshake, abort after
// handshake), then cancels the server while a last round is in progress.
func Mixed(t *testing.T, rounds int) {
	st := bubble.NewStack(bubble.StackOpts{Injectors: fingerproxy.DefaultHeaderInjectors(), HandshakeTimeout: 10 * time.Second})
	hellos := []bubble.Hello{
		{Name: "chrome", ID: &utls.HelloChrome_102, ALPN: []string{"h2", "http/1.1"}, SNI: "localhost"},
		{Name: "firefox", ID: &utls.HelloFirefox_105, ALPN: []string{"http/1.1"}, SNI: "localhost"},
		{Name: "safari", ID: &utls.HelloSafari_16_0, ALPN: []string{"h2", "http/1.1"}, SNI: "localhost"},
		{Name: "go-noalpn", SNI: "example.com"},
	}
	served := 0
	round := func(r int, cancelMidway bool) {
		var cls []*bubble.Client
		for i := 0; i < 6; i++ {
			cls = append(cls, st.Connect(fmt.Sprintf("r%dc%d", r, i), memnet.TCPAddr("198.51.100.7", 44444), hellos[(r+i)%len(hellos)]))
		}
		g := st.DialRaw(fmt.Sprintf("r%dgarbage", r), nil)
		g.RawWrite([]byte("GET / HTTP/1.1\r\nHost: x\r\n\r\n"))
		ab := hellos[r%len(hellos)]
		ab.Manual = true
		a := st.Connect(fmt.Sprintf("r%dabort", r), nil, ab)
		if cancelMidway {
			st.Cancel()
		}
		for i, cl := range cls {
			cl := cl
			waitFor(func() bool { d, _ := cl.Handshake(); return d })
			if d, err := cl.Handshake(); !d || err != nil {
				continue
			}
			path := fmt.Sprintf("/race-%d-%d", r, i)
			if cl.Proto == "h2" {
				cl.StartH2(h2wire.Setting{ID: 3, Val: uint32(100 + i)})
				cl.SendH2(1, bubble.Req{Path: path, Host: "localhost"})
				cl.Write(h2wire.Priority(5, h2wire.Prio{Dep: 0, Weight: uint8(i)}))
				cl.SendH2(3, bubble.Req{Path: path + "b", Host: "localhost"})
				served += 2
			} else {
				cl.SendH1(bubble.Req{Path: path, Host: "localhost"})
				served++
			}
			if i == 5 {
				cl.Abort(nil) // abort right after sending
			}
		}
		a.Deliver(50)
		a.Abort(nil)
		g.Abort(nil)
		if !cancelMidway {
			want := served
			waitFor(func() bool { return st.Backend.Count() >= want-rounds })
		}
		for _, cl := range cls {
			cl.Close()
		}
	}
	for r := 0; r < rounds; r++ {
		round(r, false)
	}
	round(rounds, true)
	<-st.ServeDone
	t.Logf("race workload: %d rounds, backend saw %d requests, counter %v", rounds, st.Backend.Count(), st.Counter())
	if st.Backend.Count() < served/2 {
		t.Errorf("race workload did not run as intended: only %d of about %d requests were served", st.Backend.Count(), served)
	}
}
