//go:build verif

package hpack

import (
	"io"
	"reflect"
)

// Export shim for check C18 (accessors and copy-constructors only, no codec
// logic): the private dynamic tables and the carried-over state of Encoder
// and Decoder.

// VerifC18Table is a copy of a dynamicTable's private fields.
type VerifC18Table struct {
	Ents           []HeaderField // as stored: Ents[0] is the OLDEST entry
	Size           uint32
	MaxSize        uint32
	AllowedMaxSize uint32
	EvictCount     uint64
	ByName         map[string]uint64    // unique ids as stored
	ByNameValue    map[[2]string]uint64 // unique ids as stored
}

func verifC18Dump(dt *dynamicTable) VerifC18Table {
	t := VerifC18Table{
		Ents:           append([]HeaderField(nil), dt.table.ents...),
		Size:           dt.size,
		MaxSize:        dt.maxSize,
		AllowedMaxSize: dt.allowedMaxSize,
		EvictCount:     dt.table.evictCount,
		ByName:         make(map[string]uint64, len(dt.table.byName)),
		ByNameValue:    make(map[[2]string]uint64, len(dt.table.byNameValue)),
	}
	for k, v := range dt.table.byName {
		t.ByName[k] = v
	}
	for k, v := range dt.table.byNameValue {
		t.ByNameValue[[2]string{k.name, k.value}] = v
	}
	return t
}

func verifC18CloneDT(dt *dynamicTable) dynamicTable {
	var c dynamicTable
	c.size, c.maxSize, c.allowedMaxSize = dt.size, dt.maxSize, dt.allowedMaxSize
	c.table.ents = append([]HeaderField(nil), dt.table.ents...)
	c.table.evictCount = dt.table.evictCount
	c.table.byName = make(map[string]uint64, len(dt.table.byName))
	c.table.byNameValue = make(map[pairNameValue]uint64, len(dt.table.byNameValue))
	for k, v := range dt.table.byName {
		c.table.byName[k] = v
	}
	for k, v := range dt.table.byNameValue {
		c.table.byNameValue[k] = v
	}
	return c
}

// VerifC18DecoderTable returns a copy of the decoder's dynamic table.
func VerifC18DecoderTable(d *Decoder) VerifC18Table { return verifC18Dump(&d.dynTab) }

// VerifC18EncoderTable returns a copy of the encoder's dynamic table.
func VerifC18EncoderTable(e *Encoder) VerifC18Table { return verifC18Dump(&e.dynTab) }

// VerifC18DecoderQuick returns the scalar table state without copying entries.
func VerifC18DecoderQuick(d *Decoder) (n int, size, maxSize, allowed uint32) {
	return len(d.dynTab.table.ents), d.dynTab.size, d.dynTab.maxSize, d.dynTab.allowedMaxSize
}

// VerifC18DecoderEnts exposes the decoder's entries (oldest first) WITHOUT copying; read only.
func VerifC18DecoderEnts(d *Decoder) []HeaderField { return d.dynTab.table.ents }

// VerifC18DecoderCarry returns the state a Decoder carries between Writes / blocks.
func VerifC18DecoderCarry(d *Decoder) (firstField bool, saved int) {
	return d.firstField, d.saveBuf.Len()
}

// VerifC18EncoderCarry returns the state an Encoder carries between fields / blocks.
func VerifC18EncoderCarry(e *Encoder) (minSize, maxSizeLimit uint32, tableSizeUpdate bool) {
	return e.minSize, e.maxSizeLimit, e.tableSizeUpdate
}

// VerifC18CloneDecoder returns an independent Decoder in the same state, emitting to emit.
func VerifC18CloneDecoder(d *Decoder, emit func(HeaderField)) *Decoder {
	c := &Decoder{emit: emit, emitEnabled: d.emitEnabled, maxStrLen: d.maxStrLen, firstField: d.firstField}
	c.dynTab = verifC18CloneDT(&d.dynTab)
	c.saveBuf.Write(d.saveBuf.Bytes())
	return c
}

// VerifC18CloneEncoder returns an independent Encoder in the same state, writing to w.
func VerifC18CloneEncoder(e *Encoder, w io.Writer) *Encoder {
	c := &Encoder{minSize: e.minSize, maxSizeLimit: e.maxSizeLimit, tableSizeUpdate: e.tableSizeUpdate, w: w}
	c.dynTab = verifC18CloneDT(&e.dynTab)
	return c
}

// VerifC18RestoreDecoder overwrites dst's complete state (except the emit func)
// with a copy of src's, reusing dst's storage. dst must not be src.
func VerifC18RestoreDecoder(dst, src *Decoder) {
	dst.emitEnabled, dst.maxStrLen, dst.firstField = src.emitEnabled, src.maxStrLen, src.firstField
	dst.buf = nil
	dst.saveBuf.Reset()
	if src.saveBuf.Len() > 0 {
		dst.saveBuf.Write(src.saveBuf.Bytes())
	}
	d, s := &dst.dynTab, &src.dynTab
	d.size, d.maxSize, d.allowedMaxSize = s.size, s.maxSize, s.allowedMaxSize
	d.table.ents = append(d.table.ents[:0], s.table.ents...)
	d.table.evictCount = s.table.evictCount
	if len(d.table.byName) > 0 {
		clear(d.table.byName)
	}
	if len(d.table.byNameValue) > 0 {
		clear(d.table.byNameValue)
	}
	if len(s.table.byName) > 0 {
		for k, v := range s.table.byName {
			d.table.byName[k] = v
		}
	}
	if len(s.table.byNameValue) > 0 {
		for k, v := range s.table.byNameValue {
			d.table.byNameValue[k] = v
		}
	}
}

// VerifC18UnknownFields lists fields of the codec's state structures that the clone / state-key code of the check
// does not know (added by a change to the code under test): cloning would drop them and the state key would ignore
// them, so the search could silently merge or corrupt states. The check reports this as a harness error.
func VerifC18UnknownFields() []string {
	known := map[string][]string{
		"Decoder":          {"dynTab", "emit", "emitEnabled", "maxStrLen", "buf", "saveBuf", "firstField"},
		"Encoder":          {"dynTab", "minSize", "maxSizeLimit", "tableSizeUpdate", "w", "buf"},
		"dynamicTable":     {"table", "size", "maxSize", "allowedMaxSize"},
		"headerFieldTable": {"ents", "evictCount", "byName", "byNameValue"},
	}
	var out []string
	for _, v := range []any{Decoder{}, Encoder{}, dynamicTable{}, headerFieldTable{}} {
		t := reflect.TypeOf(v)
		ok := map[string]bool{}
		for _, n := range known[t.Name()] {
			ok[n] = true
		}
		for i := 0; i < t.NumField(); i++ {
			if !ok[t.Field(i).Name] {
				out = append(out, t.Name()+"."+t.Field(i).Name)
			}
		}
	}
	return out
}

// VerifC18DecoderEmit returns the decoder's emit function (kept across a generic state restore).
func VerifC18DecoderEmit(d *Decoder) func(HeaderField) { return d.emit }

// VerifC18SetEncoderWriter points the encoder at another writer.
func VerifC18SetEncoderWriter(e *Encoder, w io.Writer) { e.w = w }
