//go:build verif

package fingerproxy

import (
	"crypto/tls"

	"github.com/wi1dcard/fingerproxy/pkg/certwatcher"
)

// VerifC14DefaultTLSConfig is the binary's defaultTLSConfig (fingerproxy.go), which installs the
// certificate watcher into the TLS configuration of the proxy server.
func VerifC14DefaultTLSConfig(cw *certwatcher.CertWatcher) *tls.Config { return defaultTLSConfig(cw) }
