//go:build verif

package fingerproxy

import (
	"context"
	"crypto/tls"
	"flag"
	"io"
	"net/http"
	"net/url"

	"github.com/wi1dcard/fingerproxy/pkg/proxyserver"
	"github.com/wi1dcard/fingerproxy/pkg/reverseproxy"
)

// VerifFlags mirrors the CLI flags the default constructors read.
type VerifFlags struct {
	PreserveHost, Probe, Verbose           bool
	MaxPrio                                *uint // nil: leave the flag uninitialised (library use)
	Flush, Idle, Read, Write, TLSHandshake string
}

// VerifSetFlags points the package's flag variables at the given values
// (what initFlags+parseFlags do from the command line).
func VerifSetFlags(f VerifFlags) {
	flagPreserveHost = &f.PreserveHost
	flagEnableKubernetesProbe = &f.Probe
	flagVerboseLogs = &f.Verbose
	flagMaxHTTP2PriorityFrames = f.MaxPrio
	flagReverseProxyFlushInterval = &f.Flush
	flagTimeoutHTTPIdle = &f.Idle
	flagTimeoutHTTPRead = &f.Read
	flagTimeoutHTTPWrite = &f.Write
	flagTimeoutTLSHandshake = &f.TLSHandshake
}

func VerifDefaultProxyServer(ctx context.Context, handler http.Handler, tlsConfig *tls.Config) *proxyserver.Server {
	return defaultProxyServer(ctx, handler, tlsConfig)
}

func VerifDefaultReverseProxyHTTPHandler(to *url.URL, inj []reverseproxy.HeaderInjector) http.Handler {
	return defaultReverseProxyHTTPHandler(to, inj)
}

// VerifParseCommandLine registers the binary's flags on a fresh flag set (initFlags, as Run does) and parses args.
func VerifParseCommandLine(args []string) error {
	flag.CommandLine = flag.NewFlagSet("fingerproxy", flag.ContinueOnError)
	flag.CommandLine.SetOutput(io.Discard)
	initFlags()
	return flag.CommandLine.Parse(args)
}
