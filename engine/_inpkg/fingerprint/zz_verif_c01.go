//go:build verif

package fingerprint

import (
	"github.com/dreadl0ck/tlsx"
	"github.com/wi1dcard/fingerproxy/pkg/ja3"
)

// VerifC01JA3Bare returns the JA3 string (before hashing) the code under test
// builds for a record: the same two calls JA3Fingerprint makes, minus the MD5.
// Diagnostics only (names the field that differs); the verdict of check C01 is
// taken on JA3Fingerprint itself.
func VerifC01JA3Bare(rec []byte) (string, error) {
	h := &tlsx.ClientHelloBasic{}
	if err := h.Unmarshal(rec); err != nil {
		return "", err
	}
	return string(ja3.Bare(h)), nil
}
