//go:build verif

package reverseproxy

import "net/http/httputil"

// VerifReverseProxy exposes the internal reverse proxy (to install a recording transport).
func (f *HTTPHandler) VerifReverseProxy() *httputil.ReverseProxy { return f.reverseProxy }
