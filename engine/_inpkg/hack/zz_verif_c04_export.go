//go:build verif

package hack

import "net"

// Export shim for check C04 (no logic): the complete private state of a
// HijackClientHelloConn apart from the wrapped conn and the log func is
// (bytes held in buf, expectedLen).

// verifC04Int lets the shim compile whatever integer type expectedLen has.
type verifC04Int interface {
	~int | ~int16 | ~int32 | ~int64 | ~uint | ~uint16 | ~uint32 | ~uint64
}

func verifC04Get[T verifC04Int](v T) int64     { return int64(v) }
func verifC04Set[T verifC04Int](p *T, v int64) { *p = T(v) }

// VerifC04Snapshot returns a copy of the accumulated bytes and expectedLen.
func (c *HijackClientHelloConn) VerifC04Snapshot() (buf []byte, expectedLen int64) {
	return append([]byte(nil), c.buf.Bytes()...), verifC04Get(c.expectedLen)
}

// VerifC04Restore builds a wrapper around conn whose private state is the given snapshot.
func VerifC04Restore(conn net.Conn, buf []byte, expectedLen int64) *HijackClientHelloConn {
	c := NewHijackClientHelloConn(conn)
	c.buf.Write(buf)
	verifC04Set(&c.expectedLen, expectedLen)
	return c
}
