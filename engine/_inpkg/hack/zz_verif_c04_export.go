//go:build verif

package hack

// Check C04 copies and keys a HijackClientHelloConn by reflection over every field it has (verif/deep), so nothing here
// names a private field: a refactoring that renames or adds fields is followed without a change to the harness.
