// Package vsync is substituted for "sync" (by build overlay, never on disk)
// in packages whose critical sections contain scheduling gates. Its Mutex and
// RWMutex block on channels, so a goroutine waiting for a lock whose holder
// is parked at a gate is durably blocked for testing/synctest, and the
// explorer simply sees that goroutine as not enabled. RWMutex is exclusive
// for readers too (a strictly stronger lock; no recursive read locking is
// used in the packages concerned).
package vsync

import (
	"sync"
	"sync/atomic"

	"github.com/wi1dcard/fingerproxy/pkg/vhook"
)

type (
	WaitGroup = sync.WaitGroup
	Once      = sync.Once
	Map       = sync.Map
	Pool      = sync.Pool
	Locker    = sync.Locker
	Cond      = sync.Cond
)

func NewCond(l Locker) *Cond { return sync.NewCond(l) }

type Mutex struct {
	p atomic.Pointer[chan struct{}]
}

func (m *Mutex) ch() chan struct{} {
	if c := m.p.Load(); c != nil {
		return *c
	}
	c := make(chan struct{}, 1)
	if m.p.CompareAndSwap(nil, &c) {
		return c
	}
	return *m.p.Load()
}

func (m *Mutex) Lock() { m.ch() <- struct{}{} }
func (m *Mutex) TryLock() bool {
	select {
	case m.ch() <- struct{}{}:
		return true
	default:
		return false
	}
}
func (m *Mutex) Unlock() {
	select {
	case <-m.ch():
	default:
		panic("vsync: unlock of unlocked mutex")
	}
	// a lock release is a scheduling point (only for checks that list the site): the goroutine can be parked
	// between leaving a critical section and whatever it does with the result
	vhook.Point("vsync.Unlock", m)
}

type RWMutex struct{ m Mutex }

func (m *RWMutex) Lock()          { m.m.Lock() }
func (m *RWMutex) Unlock()        { m.m.Unlock() }
func (m *RWMutex) RLock()         { m.m.Lock() }
func (m *RWMutex) RUnlock()       { m.m.Unlock() }
func (m *RWMutex) TryLock() bool  { return m.m.TryLock() }
func (m *RWMutex) TryRLock() bool { return m.m.TryLock() }
func (m *RWMutex) RLocker() Locker { return rlocker{m} }

type rlocker struct{ m *RWMutex }

func (r rlocker) Lock()   { r.m.RLock() }
func (r rlocker) Unlock() { r.m.RUnlock() }
