//go:build verif

package http2

import "sync"

// VerifResetPools replaces the pool of error channels. A channel created in
// one testing/synctest bubble must never be reused in a later bubble (the Go
// runtime aborts the process); the harness calls this between executions,
// when no goroutine of the previous execution is running any more.
func VerifResetPools() {
	errChanPool = sync.Pool{
		New: func() interface{} { return make(chan error, 1) },
	}
}
