//go:build verif

package http2

import (
	"net/http"
	"sort"
)

// Export shim for check C12 (flow control). Accessors only: the check's
// oracle is the wire-level ledger (verif/ref/ledger); these values are used
// only to build canonical state keys (equal key => equal future) for the
// explicit-state search, and for the lasso detection of the cycle
// amplification. They are read by the harness at quiescence
// (synctest.Wait returned: the serve goroutine is parked in its select).

// VerifC12Conn is an opaque handle on the serverConn that serves w.
type VerifC12Conn struct{ sc *serverConn }

// VerifC12ConnOf must be called from inside a handler (before it returns).
func VerifC12ConnOf(w http.ResponseWriter) VerifC12Conn {
	rw, ok := w.(*responseWriter)
	if !ok || rw.rws == nil {
		return VerifC12Conn{}
	}
	return VerifC12Conn{sc: rw.rws.conn}
}

type VerifC12Stream struct {
	ID           uint32
	State        int
	Out          int32 // outflow.n
	InAvail      int32 // inflow.avail
	InUnsent     int32 // inflow.unsent
	BodyLen      int   // pipe.Len(): buffered (or discarded-but-unreturned) bytes; -1 = no body
	ResetQueued  bool
	QueuedWrites int // frames waiting in this stream's write queue (round-robin scheduler only, else -1)
}

type VerifC12Flow struct {
	Valid        bool
	ConnOut      int32
	ConnInAvail  int32
	ConnInUnsent int32
	MaxFrameSize int32
	InitialSend  int32
	InGoAway     bool
	GoAwayCode   uint32
	Streams      []VerifC12Stream // sorted by ID
	SchedOrder   []uint32         // round-robin ring from head (nil for other schedulers)
}

func (h VerifC12Conn) Valid() bool { return h.sc != nil }

// Snapshot reads the flow-control state. Only call at quiescence.
func (h VerifC12Conn) Snapshot() VerifC12Flow {
	sc := h.sc
	if sc == nil {
		return VerifC12Flow{}
	}
	f := VerifC12Flow{Valid: true, ConnOut: sc.flow.n, ConnInAvail: sc.inflow.avail, ConnInUnsent: sc.inflow.unsent,
		MaxFrameSize: sc.maxFrameSize, InitialSend: sc.initialStreamSendWindowSize, InGoAway: sc.inGoAway, GoAwayCode: uint32(sc.goAwayCode)}
	rr, _ := sc.writeSched.(*roundRobinWriteScheduler)
	for id, st := range sc.streams {
		s := VerifC12Stream{ID: id, State: int(st.state), Out: st.flow.n, InAvail: st.inflow.avail, InUnsent: st.inflow.unsent, BodyLen: -1, ResetQueued: st.resetQueued, QueuedWrites: -1}
		if st.body != nil {
			s.BodyLen = st.body.Len()
		}
		if rr != nil {
			if q := rr.streams[id]; q != nil {
				s.QueuedWrites = len(q.s)
			}
		}
		f.Streams = append(f.Streams, s)
	}
	sort.Slice(f.Streams, func(i, j int) bool { return f.Streams[i].ID < f.Streams[j].ID })
	if rr != nil && rr.head != nil {
		rev := map[*writeQueue]uint32{}
		for id, q := range rr.streams {
			rev[q] = id
		}
		q := rr.head
		for {
			f.SchedOrder = append(f.SchedOrder, rev[q])
			q = q.next
			if q == rr.head || q == nil {
				break
			}
		}
	}
	return f
}

// VerifC12TransportSnapshot reads the flow-control state of a Transport connection. Only call at quiescence.
func VerifC12TransportSnapshot(cc *ClientConn) VerifC12Flow {
	// TryLock: at quiescence nobody should hold cc.mu (it is never held across a blocking call); if somebody does, the
	// caller gets Valid == false instead of joining a deadlock
	if !cc.mu.TryLock() {
		return VerifC12Flow{}
	}
	defer cc.mu.Unlock()
	f := VerifC12Flow{Valid: true, ConnOut: cc.flow.n, ConnInAvail: cc.inflow.avail, ConnInUnsent: cc.inflow.unsent,
		MaxFrameSize: int32(cc.maxFrameSize), InitialSend: int32(cc.initialWindowSize)}
	for id, cs := range cc.streams {
		f.Streams = append(f.Streams, VerifC12Stream{ID: id, Out: cs.flow.n, InAvail: cs.inflow.avail, InUnsent: cs.inflow.unsent, BodyLen: cs.bufPipe.Len(), QueuedWrites: -1})
	}
	sort.Slice(f.Streams, func(i, j int) bool { return f.Streams[i].ID < f.Streams[j].ID })
	return f
}
