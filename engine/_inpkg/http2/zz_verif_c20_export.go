//go:build verif

// Export shim for check C20 (write schedulers). Overlaid into pkg/http2 at
// build time; nothing here changes behaviour: constructors for the
// stream/serverConn shells the schedulers read (exactly the fields the
// upstream writesched tests set), accessors for FrameWriteRequest, and a
// read-only snapshot of the schedulers' private linked structures.
// All identifiers carry the VerifC20 prefix (other checks add their own shims
// to this package).
package http2

import (
	"fmt"
	"reflect"
	"sort"
	"strings"
)

// ---- shells ------------------------------------------------------------

type VerifC20Shell struct {
	sc      *serverConn
	streams map[uint32]*stream
}

func VerifC20NewShell(maxFrame, connWin int32) *VerifC20Shell {
	sc := &serverConn{maxFrameSize: maxFrame}
	sc.flow.add(connWin)
	return &VerifC20Shell{sc: sc, streams: map[uint32]*stream{}}
}

// NewStream mirrors serverConn.newStream: flow linked to the conn-level flow.
func (sh *VerifC20Shell) NewStream(id uint32, win int32) {
	st := &stream{id: id, sc: sh.sc}
	st.flow.conn = &sh.sc.flow
	st.flow.add(win)
	sh.streams[id] = st
}

func (sh *VerifC20Shell) SetMaxFrame(n int32)          { sh.sc.maxFrameSize = n }
func (sh *VerifC20Shell) AddConnWindow(d int32) bool   { return sh.sc.flow.add(d) }
func (sh *VerifC20Shell) ConnWindow() int32            { return sh.sc.flow.n }
func (sh *VerifC20Shell) StreamWindow(id uint32) int32 { return sh.streams[id].flow.n }
func (sh *VerifC20Shell) HasStream(id uint32) bool     { return sh.streams[id] != nil }
func (sh *VerifC20Shell) AddStreamWindow(id uint32, d int32) bool {
	return sh.streams[id].flow.add(d)
}

// ---- frames --------------------------------------------------------------

func VerifC20Control(tag uint32) FrameWriteRequest {
	return FrameWriteRequest{write: writeWindowUpdate{streamID: 0, n: tag}}
}

func VerifC20RST(id uint32, tag uint32) FrameWriteRequest {
	return FrameWriteRequest{write: streamError(id, ErrCode(tag))}
}

func (sh *VerifC20Shell) Headers(id uint32, tag int) FrameWriteRequest {
	return FrameWriteRequest{write: &writeResHeaders{streamID: id, httpResCode: tag}, stream: sh.streams[id]}
}

func (sh *VerifC20Shell) Data(id uint32, p []byte, endStream bool, done chan error) FrameWriteRequest {
	return FrameWriteRequest{write: &writeData{streamID: id, p: p, endStream: endStream}, stream: sh.streams[id], done: done}
}

type VerifC20Frame struct {
	Kind      string // "ctl" "rst" "hdr" "data" "zero" "other"
	Tag       int
	StreamID  uint32 // wr.StreamID()
	Stream    any    // the *stream, nil interface when wr.stream == nil
	W         any    // wr.write
	P         []byte
	EndStream bool
	Done      chan error
}

func VerifC20Info(wr FrameWriteRequest) VerifC20Frame {
	f := VerifC20Frame{Kind: "other", Tag: -1, W: wr.write, Done: wr.done}
	if wr.write == nil {
		f.Kind = "zero"
		return f
	}
	f.StreamID = wr.StreamID()
	if wr.stream != nil {
		f.Stream = wr.stream
	}
	switch w := wr.write.(type) {
	case writeWindowUpdate:
		f.Kind, f.Tag = "ctl", int(w.n)
	case StreamError:
		f.Kind, f.Tag = "rst", int(w.Code)
	case *writeResHeaders:
		f.Kind, f.Tag = "hdr", w.httpResCode
	case *writeData:
		f.Kind, f.P, f.EndStream = "data", w.p, w.endStream
	}
	return f
}

// ---- constructors ----------------------------------------------------------

func VerifC20NewRoundRobin() WriteScheduler { return newRoundRobinWriteScheduler() }

// ---- snapshots (read-only, every walk bounded) ----------------------------------

type VerifC20Queue struct {
	Label      string
	Frames     []FrameWriteRequest
	Next, Prev string
}

type VerifC20Node struct {
	Label                    string
	ID                       uint32
	Weight                   uint8
	State                    int
	Bytes, SubtreeBytes      int64
	Parent, Kids, Prev, Next string
	Frames                   []FrameWriteRequest
	InMap                    bool
}

type VerifC20Snap struct {
	Kind    string // "rr" "random" "priority"
	Control []FrameWriteRequest
	// rr: Head + Queues (map entries "s<id>" first, then every queue reachable through links "x<k>")
	// random: Queues = map entries
	Head   string
	Queues []VerifC20Queue
	// priority
	Nodes         []VerifC20Node
	MapIDs        []uint32
	MaxID         uint32
	Closed, Idle  []string
	ThrottleLimit int32
	Pool          []int // len(q.s) of every pooled queue
	// Uncovered lists, with their values, the fields of the scheduler structures that the hand-written dump above does
	// not know (a field ADDED by a change to the code under test): without them two states with equal dumps could have
	// different futures and the search would merge them unsoundly. "<unsupported>" marks a field whose value cannot be
	// canonicalised.
	Uncovered string
}

var verifC20Known = map[string]map[string]bool{
	"writeQueue":               {"s": true, "prev": true, "next": true},
	"roundRobinWriteScheduler": {"control": true, "streams": true, "head": true, "queuePool": true},
	"randomWriteScheduler":     {"zero": true, "sq": true, "queuePool": true},
	"priorityWriteScheduler": {"root": true, "nodes": true, "maxID": true, "closedNodes": true, "idleNodes": true, "maxClosedNodesInTree": true,
		"maxIdleNodesInTree": true, "writeThrottleLimit": true, "enableWriteThrottle": true, "tmp": true, "queuePool": true},
	"priorityNode": {"q": true, "id": true, "weight": true, "state": true, "bytes": true, "subtreeBytes": true, "parent": true, "kids": true, "prev": true, "next": true},
}

func verifC20Uncovered(ws WriteScheduler) string {
	var out []string
	// pass 1: a canonical name (its first path through known fields) for every object reachable through known fields
	names := map[uintptr]string{}
	var index func(v reflect.Value, path string, depth int)
	index = func(v reflect.Value, path string, depth int) {
		if depth > 64 {
			return
		}
		switch v.Kind() {
		case reflect.Ptr, reflect.Interface:
			if v.IsNil() {
				return
			}
			if v.Kind() == reflect.Ptr {
				if first, ok := names[v.Pointer()]; ok {
					// one object reachable through two places of the structure: tree links (parent / kids / prev /
					// next, the node map, the closed and idle lists) do that by design; a write queue in two places
					// (two streams, or a stream and the pool) is sharing the dump of contents alone would not show
					if v.Elem().Kind() == reflect.Struct && v.Elem().Type().Name() == "writeQueue" && first != path {
						out = append(out, "alias:"+path+"=="+first)
					}
					return
				}
				names[v.Pointer()] = path
			}
			index(v.Elem(), path, depth+1)
		case reflect.Struct:
			known := verifC20Known[v.Type().Name()]
			if known == nil {
				return
			}
			for i := 0; i < v.NumField(); i++ {
				f := v.Type().Field(i)
				if known[f.Name] && f.Name != "s" && f.Name != "tmp" {
					index(v.Field(i), path+"."+f.Name, depth+1)
				}
			}
		case reflect.Map:
			keys := v.MapKeys()
			sort.Slice(keys, func(i, j int) bool { return keys[i].Uint() < keys[j].Uint() })
			for _, k := range keys {
				index(v.MapIndex(k), fmt.Sprintf("%s[%d]", path, k.Uint()), depth+1)
			}
		case reflect.Slice, reflect.Array:
			for i := 0; i < v.Len(); i++ {
				index(v.Index(i), fmt.Sprintf("%s[%d]", path, i), depth+1)
			}
		}
	}
	index(reflect.ValueOf(ws), "ws", 0)
	// value of a field the dump does not know, canonically: scalars by value, pointers by the name of what they point at
	// (or, for an object not reachable through known fields, by its contents), slices / arrays / maps / structs by parts
	var value func(v reflect.Value, depth int) string
	value = func(v reflect.Value, depth int) string {
		if depth > 16 {
			return "<unsupported>"
		}
		switch v.Kind() {
		case reflect.Bool:
			return fmt.Sprint(v.Bool())
		case reflect.Int, reflect.Int8, reflect.Int16, reflect.Int32, reflect.Int64:
			return fmt.Sprint(v.Int())
		case reflect.Uint, reflect.Uint8, reflect.Uint16, reflect.Uint32, reflect.Uint64, reflect.Uintptr:
			return fmt.Sprint(v.Uint())
		case reflect.String:
			return fmt.Sprintf("%q", v.String())
		case reflect.Ptr:
			if v.IsNil() {
				return "nil"
			}
			if n, ok := names[v.Pointer()]; ok {
				return "->" + n
			}
			return "->new{" + value(v.Elem(), depth+1) + "}"
		case reflect.Slice, reflect.Array:
			if v.Kind() == reflect.Slice && v.IsNil() {
				return "nil"
			}
			var parts []string
			for i := 0; i < v.Len(); i++ {
				parts = append(parts, value(v.Index(i), depth+1))
			}
			return "[" + strings.Join(parts, ",") + "]"
		case reflect.Map:
			if v.IsNil() {
				return "nil"
			}
			var parts []string
			for _, k := range v.MapKeys() {
				parts = append(parts, value(k, depth+1)+":"+value(v.MapIndex(k), depth+1))
			}
			sort.Strings(parts)
			return "{" + strings.Join(parts, ",") + "}"
		case reflect.Struct:
			if v.Type().Name() == "FrameWriteRequest" {
				return "<unsupported>" // frames are identified by the harness, not by their fields
			}
			var parts []string
			for i := 0; i < v.NumField(); i++ {
				parts = append(parts, v.Type().Field(i).Name+"="+value(v.Field(i), depth+1))
			}
			return "{" + strings.Join(parts, ",") + "}"
		}
		return "<unsupported>"
	}
	seen := map[uintptr]bool{}
	var walk func(v reflect.Value, path string, depth int)
	walk = func(v reflect.Value, path string, depth int) {
		if depth > 64 {
			return
		}
		switch v.Kind() {
		case reflect.Ptr, reflect.Interface:
			if v.IsNil() {
				return
			}
			if v.Kind() == reflect.Ptr {
				if seen[v.Pointer()] {
					return
				}
				seen[v.Pointer()] = true
			}
			walk(v.Elem(), path, depth+1)
		case reflect.Struct:
			known := verifC20Known[v.Type().Name()]
			if known == nil {
				return
			}
			for i := 0; i < v.NumField(); i++ {
				f := v.Type().Field(i)
				fv := v.Field(i)
				if known[f.Name] {
					if f.Name == "s" || f.Name == "tmp" {
						continue
					}
					walk(fv, path+"."+f.Name, depth+1)
					continue
				}
				out = append(out, fmt.Sprintf("%s.%s=%s", path, f.Name, value(fv, 0)))
			}
		case reflect.Map:
			keys := v.MapKeys()
			sort.Slice(keys, func(i, j int) bool { return keys[i].Uint() < keys[j].Uint() })
			for _, k := range keys {
				walk(v.MapIndex(k), fmt.Sprintf("%s[%d]", path, k.Uint()), depth+1)
			}
		case reflect.Slice, reflect.Array:
			for i := 0; i < v.Len(); i++ {
				walk(v.Index(i), fmt.Sprintf("%s[%d]", path, i), depth+1)
			}
		}
	}
	walk(reflect.ValueOf(ws), "ws", 0)
	sort.Strings(out)
	return strings.Join(out, ";")
}

func verifC20Copy(s []FrameWriteRequest) []FrameWriteRequest {
	return append([]FrameWriteRequest(nil), s...)
}

func verifC20Pool(p writeQueuePool) []int {
	var r []int
	for _, q := range p {
		if q == nil {
			r = append(r, -1)
		} else {
			r = append(r, len(q.s))
		}
	}
	return r
}

func VerifC20Snapshot(ws WriteScheduler) VerifC20Snap {
	snap := verifC20Snapshot(ws)
	snap.Uncovered = verifC20Uncovered(ws)
	return snap
}

func verifC20Snapshot(ws WriteScheduler) VerifC20Snap {
	switch s := ws.(type) {
	case *roundRobinWriteScheduler:
		return verifC20SnapRR(s)
	case *randomWriteScheduler:
		snap := VerifC20Snap{Kind: "random", Control: verifC20Copy(s.zero.s), Pool: verifC20Pool(s.queuePool)}
		ids := make([]uint32, 0, len(s.sq))
		for id := range s.sq {
			ids = append(ids, id)
		}
		sort.Slice(ids, func(i, j int) bool { return ids[i] < ids[j] })
		for _, id := range ids {
			snap.Queues = append(snap.Queues, VerifC20Queue{Label: fmt.Sprintf("s%d", id), Frames: verifC20Copy(s.sq[id].s)})
		}
		return snap
	case *priorityWriteScheduler:
		return verifC20SnapPrio(s)
	}
	return VerifC20Snap{Kind: "unknown"}
}

func verifC20SnapRR(s *roundRobinWriteScheduler) VerifC20Snap {
	snap := VerifC20Snap{Kind: "rr", Control: verifC20Copy(s.control.s), Pool: verifC20Pool(s.queuePool)}
	label := map[*writeQueue]string{}
	var order []*writeQueue
	ids := make([]uint32, 0, len(s.streams))
	for id := range s.streams {
		ids = append(ids, id)
	}
	sort.Slice(ids, func(i, j int) bool { return ids[i] < ids[j] })
	for _, id := range ids {
		q := s.streams[id]
		if q == nil {
			continue
		}
		if _, ok := label[q]; !ok {
			label[q] = fmt.Sprintf("s%d", id)
			order = append(order, q)
		}
	}
	extra := 0
	add := func(q *writeQueue) {
		if q == nil {
			return
		}
		if _, ok := label[q]; !ok {
			label[q] = fmt.Sprintf("x%d", extra)
			extra++
			order = append(order, q)
		}
	}
	add(s.head)
	for i := 0; i < len(order) && i < 64; i++ { // closure over links, bounded
		add(order[i].next)
		add(order[i].prev)
	}
	lab := func(q *writeQueue) string {
		if q == nil {
			return ""
		}
		if l, ok := label[q]; ok {
			return l
		}
		return "?"
	}
	snap.Head = lab(s.head)
	for _, q := range order {
		snap.Queues = append(snap.Queues, VerifC20Queue{Label: label[q], Frames: verifC20Copy(q.s), Next: lab(q.next), Prev: lab(q.prev)})
	}
	return snap
}

func verifC20SnapPrio(s *priorityWriteScheduler) VerifC20Snap {
	snap := VerifC20Snap{Kind: "priority", MaxID: s.maxID, ThrottleLimit: s.writeThrottleLimit, Pool: verifC20Pool(s.queuePool)}
	label := map[*priorityNode]string{}
	inMap := map[*priorityNode]bool{}
	var order []*priorityNode
	label[&s.root] = "0"
	order = append(order, &s.root)
	ids := make([]uint32, 0, len(s.nodes))
	for id := range s.nodes {
		ids = append(ids, id)
	}
	sort.Slice(ids, func(i, j int) bool { return ids[i] < ids[j] })
	snap.MapIDs = ids
	for _, id := range ids {
		n := s.nodes[id]
		if n == nil {
			continue
		}
		inMap[n] = true
		if _, ok := label[n]; !ok {
			label[n] = fmt.Sprintf("%d", id)
			order = append(order, n)
		}
	}
	extra := 0
	add := func(n *priorityNode) {
		if n == nil {
			return
		}
		if _, ok := label[n]; !ok {
			label[n] = fmt.Sprintf("x%d(%d)", extra, n.id)
			extra++
			order = append(order, n)
		}
	}
	for _, n := range s.closedNodes {
		add(n)
	}
	for _, n := range s.idleNodes {
		add(n)
	}
	for i := 0; i < len(order) && i < 256; i++ {
		add(order[i].parent)
		add(order[i].kids)
		add(order[i].prev)
		add(order[i].next)
	}
	lab := func(n *priorityNode) string {
		if n == nil {
			return ""
		}
		if l, ok := label[n]; ok {
			return l
		}
		return "?"
	}
	for _, n := range s.closedNodes {
		snap.Closed = append(snap.Closed, lab(n))
	}
	for _, n := range s.idleNodes {
		snap.Idle = append(snap.Idle, lab(n))
	}
	snap.Control = verifC20Copy(s.root.q.s)
	for _, n := range order {
		snap.Nodes = append(snap.Nodes, VerifC20Node{Label: label[n], ID: n.id, Weight: n.weight, State: int(n.state), Bytes: n.bytes,
			SubtreeBytes: n.subtreeBytes, Parent: lab(n.parent), Kids: lab(n.kids), Prev: lab(n.prev), Next: lab(n.next),
			Frames: verifC20Copy(n.q.s), InMap: inMap[n]})
	}
	return snap
}
