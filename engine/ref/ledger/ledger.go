// Package ledger is the peer-side HTTP/2 flow-control ledger used as the
// invariant of check C12. It is written from RFC 7540 §5.1, §6.1, §6.5, §6.9
// (and RFC 9113 §6.9) and from the property statement only; it shares no code
// with pkg/http2. It plays the role of the *peer* of the endpoint under test
// (the "subject"): it sees the frames on the wire in both directions, plus a
// few application-level notes from the harness (how many bytes the subject's
// application handed to the stack / took out of it), and keeps
//
//   - the windows the peer granted the subject (the subject's SEND side), and
//   - the windows the subject granted the peer (the subject's RECEIVE side).
//
// Wherever the RFC leaves the subject a choice the ledger accepts every
// admissible outcome:
//
//   - a SETTINGS change made by the peer binds the subject from the subject's
//     SETTINGS ACK on (RFC 7540 §6.5.3); between the peer's SETTINGS and the ACK
//     a DATA frame is accepted if it fits under ANY prefix of the
//     not-yet-acknowledged changes;
//   - a peer that exceeds a window may be answered with a stream error or a
//     connection error of type FLOW_CONTROL_ERROR (§6.9.1);
//   - which of several streams gets a scarce connection window is the
//     scheduler's business: only "some stream could have sent a byte and none
//     did" is a stall;
//   - after the PEER has broken a rule, window accounting is undefined and is
//     suspended (only the required error answer is checked).
package ledger

import (
	"fmt"
	"sort"
	"strings"

	"verif/ref/h2wire"
)

const (
	MaxWindow        = 1<<31 - 1
	DefaultWindow    = 65535
	DefaultMaxFrame  = 16384
	ErrFlowControl   = 3
	SettingIWS       = 4
	SettingMaxFrame  = 5
	DefaultCreditCap = 4096
)

// Violation of the property by the subject.
type Violation struct {
	Kind   string // stable identifier (goes into the finding signature)
	Stream uint32
	Msg    string
	Cause  string // optional refinement filled in by the harness (distinguishes defects that share a Kind)
}

func (v Violation) String() string { return fmt.Sprintf("%s(stream %d): %s", v.Kind, v.Stream, v.Msg) }

type Stream struct {
	ID uint32
	// wire state
	PeerEnded, SubjEnded bool // END_STREAM seen from the peer / from the subject
	PeerReset, SubjReset bool // RST_STREAM seen from the peer / from the subject
	SubjResetCode        uint32
	// subject's send side
	SendWin int64 // bytes the subject may still send on this stream (acknowledged settings applied)
	Sent    int64 // DATA payload bytes received from the subject
	// subject's receive side
	RecvWin      int64 // bytes the peer may still send on this stream
	Consumed     int64 // flow-controlled bytes the peer sent (within the windows)
	Granted      int64 // sum of WINDOW_UPDATE increments from the subject for this stream
	DataAccepted int64 // body bytes (without padding) the peer sent while the stream could take them
	// application notes
	AppWritten  int64 // bytes the subject's application handed to the stack for sending
	AppRead     int64 // body bytes the subject's application took out of the stack
	BodyClosed  bool  // the application closed the request body
	HandlerDone bool  // the application returned
}

// Closed reports whether the stream is closed as far as the wire shows.
func (s *Stream) Closed() bool {
	return s.PeerReset || s.SubjReset || (s.PeerEnded && s.SubjEnded)
}

// Held is the number of body bytes accepted into the subject's buffer that its application has not read.
func (s *Stream) Held() int64 { return s.DataAccepted - s.AppRead }

// Queued is the number of bytes the application handed over that are not on the wire yet.
func (s *Stream) Queued() int64 { return s.AppWritten - s.Sent }

type pending struct {
	iws, maxFrame int64 // -1 = not changed by this SETTINGS frame
}

type Ledger struct {
	Observed  map[string]int // counts of OutsideStatement observations
	scratch   []Violation
	CreditCap int64 // B: un-returned credit must stay < B + bytes still held unread
	// SubjOpens: the subject is the client (it opens the streams with HEADERS); otherwise the peer opens them.
	SubjOpens bool
	// pattern of the bytes the subject's application sends (nil = content not checked)
	SendPattern func(stream uint32, off int64) byte

	// subject's send side
	ConnSend int64
	IWS      int64 // peer's acknowledged SETTINGS_INITIAL_WINDOW_SIZE
	MaxFrame int64 // peer's acknowledged SETTINGS_MAX_FRAME_SIZE
	pend     []pending

	// subject's receive side
	ConnRecv     int64
	ConnInit     int64 // ConnRecv at the end of the handshake
	ConnConsumed int64
	ConnGranted  int64 // after the handshake
	SubjIWS      int64 // subject's SETTINGS_INITIAL_WINDOW_SIZE (windows of new streams)
	SubjMaxFrame int64
	handshake    bool

	Streams   map[uint32]*Stream
	MaxOpened uint32 // highest stream id the peer has opened (ids at or below it that are not in Streams are closed and forgotten)

	// expectations created by peer misbehaviour
	expectConn   string            // non-empty: a connection error FLOW_CONTROL_ERROR is required, because ...
	expectStream map[uint32]string // a stream or connection error FLOW_CONTROL_ERROR is required for the stream
	gotStreamFCE map[uint32]bool
	GoAwaySeen   bool
	GoAwayCode   uint32
	ConnClosed   bool // the subject closed the connection
	PeerViolated bool // the peer broke a rule: accounting suspended
	// body bytes the subject's application read out of a stream that was already closed on the wire
	// (only used to name the cause of an over-return)
	ReadAfterClose int64
	SettingsAcks   int

	viol []Violation
}

func New() *Ledger {
	return &Ledger{CreditCap: DefaultCreditCap, ConnSend: DefaultWindow, IWS: DefaultWindow, MaxFrame: DefaultMaxFrame,
		ConnRecv: DefaultWindow, SubjIWS: DefaultWindow, SubjMaxFrame: DefaultMaxFrame, handshake: true,
		Streams: map[uint32]*Stream{}, expectStream: map[uint32]string{}, gotStreamFCE: map[uint32]bool{}}
}

// OutsideStatement lists disagreements with RFC 7540 that property C12 as stated does NOT forbid (it demands: never send
// beyond the peer's windows, deliver queued data, treat a peer exceeding the ADVERTISED windows as a flow-control error,
// return credit so that UN-returned credit stays bounded). Returning MORE credit than was consumed, or not rejecting a
// send-window overflow attempt (WINDOW_UPDATE / SETTINGS_INITIAL_WINDOW_SIZE past 2^31-1) is recorded in Observed, ends
// the history (the RFC does not define what follows), and is not reported as a violation.
var OutsideStatement = map[string]bool{"conn-credit-over-returned": true, "stream-credit-over-returned": true, "overflow-not-rejected": true}

func (l *Ledger) bad(kind string, stream uint32, format string, a ...any) {
	if OutsideStatement[kind] {
		if l.Observed == nil {
			l.Observed = map[string]int{}
		}
		l.Observed[kind]++
		l.PeerViolated = true // terminal: do not expand this history further
		// keep a placeholder so that callers that patch the Cause of the last violation have something to write to
		l.scratch = append(l.scratch[:0], Violation{})
		l.viol = append(l.viol, Violation{Kind: "\x00observed"})
		return
	}
	l.viol = append(l.viol, Violation{Kind: kind, Stream: stream, Msg: fmt.Sprintf(format, a...)})
}

// EndHandshake freezes the initial connection receive window (65535 plus the
// subject's opening WINDOW_UPDATE).
func (l *Ledger) EndHandshake() {
	l.handshake = false
	l.ConnInit = l.ConnRecv
}

// Dead reports whether the connection has been terminated (GOAWAY with an error code, or closed by the subject).
func (l *Ledger) Dead() bool { return (l.GoAwaySeen && l.GoAwayCode != 0) || l.ConnClosed }

// SubjClosedConn records that the subject closed the transport connection.
func (l *Ledger) SubjClosedConn() { l.ConnClosed = true }

// connErrorAnswered: a connection error of type FLOW_CONTROL_ERROR was signalled. RFC 7540 §5.4.1: the endpoint
// SHOULD send GOAWAY and MUST close the connection; closing without a GOAWAY is therefore admissible, a GOAWAY
// with a different error code is not.
func (l *Ledger) connErrorAnswered() bool {
	if l.GoAwaySeen && l.GoAwayCode != 0 {
		return l.GoAwayCode == ErrFlowControl
	}
	return l.ConnClosed
}

// Terminal: nothing more can be concluded from this history.
func (l *Ledger) Terminal() bool { return l.Dead() || l.PeerViolated }

func (l *Ledger) PendingSettings() int { return len(l.pend) }

func (l *Ledger) stream(id uint32) *Stream { return l.Streams[id] }

func (l *Ledger) IDs() []uint32 {
	ids := make([]uint32, 0, len(l.Streams))
	for id := range l.Streams {
		ids = append(ids, id)
	}
	sort.Slice(ids, func(i, j int) bool { return ids[i] < ids[j] })
	return ids
}

// ---------------------------------------------------------------- peer → subject

// PeerFrame records a frame the peer put on the wire.
func (l *Ledger) PeerFrame(f h2wire.Frame) {
	switch f.Type {
	case h2wire.TSettings:
		if f.Flags&h2wire.FAck != 0 {
			return
		}
		p := pending{iws: -1, maxFrame: -1}
		for _, s := range f.SettingsList() {
			switch s.ID {
			case SettingIWS:
				p.iws = int64(s.Val)
			case SettingMaxFrame:
				p.maxFrame = int64(s.Val)
			}
		}
		// would this change push an open send window past 2^31-1? (§6.9.2: connection error FLOW_CONTROL_ERROR)
		if p.iws >= 0 && !l.Terminal() {
			for _, id := range l.IDs() {
				s := l.Streams[id]
				if s.Closed() || s.SubjEnded {
					continue
				}
				// window after all earlier pending changes and this one (SendWin is relative to the acknowledged IWS)
				w := s.SendWin + (p.iws - l.IWS)
				if w > MaxWindow {
					l.expectConn = fmt.Sprintf("SETTINGS_INITIAL_WINDOW_SIZE=%d moves the send window of stream %d from %d to %d > 2^31-1", p.iws, id, s.SendWin, w)
					l.PeerViolated = true
					break
				}
			}
		}
		l.pend = append(l.pend, p)
	case h2wire.TWindowUpdate:
		incr := int64(f.WindowIncrement())
		if incr == 0 {
			l.PeerViolated = true // PROTOCOL_ERROR territory, not ours
			return
		}
		if f.Stream == 0 {
			if l.ConnSend+incr > MaxWindow {
				if !l.Terminal() {
					l.expectConn = fmt.Sprintf("WINDOW_UPDATE(0,%d) moves the connection send window from %d past 2^31-1", incr, l.ConnSend)
				}
				l.PeerViolated = true
				return
			}
			l.ConnSend += incr
			return
		}
		s := l.stream(f.Stream)
		if s == nil || s.Closed() {
			return // §6.9: may arrive on closed streams, ignored
		}
		if s.SendWin+incr > MaxWindow {
			if !l.Terminal() {
				l.expectStream[f.Stream] = fmt.Sprintf("WINDOW_UPDATE(%d,%d) moves the stream send window from %d past 2^31-1", f.Stream, incr, s.SendWin)
			}
			l.PeerViolated = true
			return
		}
		s.SendWin += incr
	case h2wire.THeaders:
		if s := l.stream(f.Stream); s != nil {
			if f.Flags&h2wire.FEndStream != 0 { // response headers or trailers ending the peer's side
				s.PeerEnded = true
			}
			return
		}
		if l.SubjOpens {
			return
		}
		l.open(f)
	case h2wire.TRSTStream:
		if s := l.stream(f.Stream); s != nil {
			s.PeerReset = true
		}
	case h2wire.TData:
		l.peerData(f)
	}
}

// open creates the record of a new stream (HEADERS from whoever opens streams).
func (l *Ledger) open(f h2wire.Frame) *Stream {
	// SendWin is kept relative to the ACKNOWLEDGED IWS; the delta of every SETTINGS still pending is added at its ACK
	// (the subject processes those SETTINGS before a later HEADERS, so the new stream ends up at the newest value).
	s := &Stream{ID: f.Stream, SendWin: l.IWS, RecvWin: l.SubjIWS, PeerEnded: f.Flags&h2wire.FEndStream != 0}
	l.Streams[f.Stream] = s
	if f.Stream > l.MaxOpened {
		l.MaxOpened = f.Stream
	}
	return s
}

func (l *Ledger) peerData(f h2wire.Frame) {
	body, flowLen := f.DataBody()
	L := int64(flowLen)
	s := l.stream(f.Stream)
	if s == nil && (f.Stream > l.MaxOpened || f.Stream%2 == 0) {
		l.PeerViolated = true // DATA on an idle stream: PROTOCOL_ERROR territory
		return
	}
	if l.Terminal() {
		return
	}
	end := f.Flags&h2wire.FEndStream != 0
	if s == nil || s.Closed() || s.PeerEnded {
		// The stream cannot take it (STREAM_CLOSED), but the bytes count against the connection window (§6.9, §5.1)
		// and the subject must give them back.
		if L > l.ConnRecv {
			l.expectStream[f.Stream] = fmt.Sprintf("DATA(%d) of %d flow-controlled bytes exceeds the advertised connection window %d", f.Stream, L, l.ConnRecv)
			l.PeerViolated = true
			return
		}
		l.ConnRecv -= L
		l.ConnConsumed += L
		return
	}
	if L > s.RecvWin || L > l.ConnRecv {
		l.expectStream[f.Stream] = fmt.Sprintf("DATA(%d) of %d flow-controlled bytes exceeds the advertised windows (stream %d, connection %d)", f.Stream, L, s.RecvWin, l.ConnRecv)
		l.PeerViolated = true
		return
	}
	s.RecvWin -= L
	l.ConnRecv -= L
	s.Consumed += L
	l.ConnConsumed += L
	if !s.BodyClosed {
		s.DataAccepted += int64(len(body))
	}
	if end {
		s.PeerEnded = true
	}
}

// ---------------------------------------------------------------- subject → peer

// SubjFrame records a frame the subject put on the wire and checks it.
func (l *Ledger) SubjFrame(f h2wire.Frame) {
	switch f.Type {
	case h2wire.TSettings:
		if f.Flags&h2wire.FAck != 0 {
			l.SettingsAcks++
			if len(l.pend) == 0 {
				return
			}
			p := l.pend[0]
			l.pend = l.pend[1:]
			if p.iws >= 0 {
				d := p.iws - l.IWS
				l.IWS = p.iws
				for _, s := range l.Streams {
					if !s.Closed() {
						s.SendWin += d
					}
				}
			}
			if p.maxFrame >= 0 {
				l.MaxFrame = p.maxFrame
			}
			return
		}
		for _, s := range f.SettingsList() {
			switch s.ID {
			case SettingIWS:
				l.SubjIWS = int64(s.Val)
			case SettingMaxFrame:
				l.SubjMaxFrame = int64(s.Val)
			}
		}
	case h2wire.TWindowUpdate:
		incr := int64(f.WindowIncrement())
		if f.Stream == 0 {
			l.ConnRecv += incr
			if !l.handshake {
				l.ConnGranted += incr
			}
			if l.ConnRecv > MaxWindow {
				l.bad("grant-exceeds-max-window", 0, "WINDOW_UPDATE(0,%d) raises the connection window the subject advertises to %d > 2^31-1", incr, l.ConnRecv)
			}
			return
		}
		if s := l.stream(f.Stream); s != nil {
			s.RecvWin += incr
			s.Granted += incr
			if s.RecvWin > MaxWindow {
				l.bad("grant-exceeds-max-window", f.Stream, "WINDOW_UPDATE(%d,%d) raises the stream window the subject advertises to %d > 2^31-1", f.Stream, incr, s.RecvWin)
			}
		}
	case h2wire.THeaders:
		s := l.stream(f.Stream)
		if s == nil && l.SubjOpens && f.Stream > l.MaxOpened {
			s = l.open(f)
			s.PeerEnded = false
		}
		if s != nil && f.Flags&h2wire.FEndStream != 0 {
			l.subjEnd(s)
		}
	case h2wire.TRSTStream:
		s := l.stream(f.Stream)
		code := f.RSTCode()
		if code == ErrFlowControl {
			l.gotStreamFCE[f.Stream] = true
			if _, ok := l.expectStream[f.Stream]; !ok && l.expectConn == "" {
				l.bad("spurious-flow-control-error", f.Stream, "RST_STREAM(%d, FLOW_CONTROL_ERROR) although the peer stayed within every window it was given", f.Stream)
			}
		}
		if s != nil {
			s.SubjReset = true
			s.SubjResetCode = code
		}
	case h2wire.TGoAway:
		_, code := f.GoAwayFields()
		if !l.GoAwaySeen || l.GoAwayCode == 0 {
			l.GoAwayCode = code
		}
		l.GoAwaySeen = true
		if code == ErrFlowControl && l.expectConn == "" && len(l.expectStream) == 0 {
			l.bad("spurious-flow-control-error", 0, "GOAWAY(FLOW_CONTROL_ERROR) although the peer stayed within every window it was given")
		}
	case h2wire.TData:
		l.subjData(f)
	}
}

func (l *Ledger) subjEnd(s *Stream) {
	s.SubjEnded = true
	if q := s.Queued(); q > 0 && !s.PeerReset {
		l.bad("truncated-body", s.ID, "END_STREAM after %d of the %d bytes the application wrote", s.Sent, s.AppWritten)
	}
}

func (l *Ledger) subjData(f h2wire.Frame) {
	body, flowLen := f.DataBody()
	L := int64(flowLen)
	s := l.stream(f.Stream)
	if s == nil {
		l.bad("data-on-unknown-stream", f.Stream, "DATA on stream %d which the peer never opened", f.Stream)
		return
	}
	// admissible limits: any prefix of the not-yet-acknowledged SETTINGS
	maxFrame, iwsBest := l.MaxFrame, l.IWS
	mf, iw := l.MaxFrame, l.IWS
	for _, p := range l.pend {
		if p.maxFrame >= 0 {
			mf = p.maxFrame
		}
		if p.iws >= 0 {
			iw = p.iws
		}
		if mf > maxFrame {
			maxFrame = mf
		}
		if iw > iwsBest {
			iwsBest = iw
		}
	}
	streamWin := s.SendWin + (iwsBest - l.IWS)
	if L > maxFrame {
		l.bad("data-exceeds-max-frame-size", s.ID, "DATA of %d bytes on stream %d, peer's SETTINGS_MAX_FRAME_SIZE is %d", L, s.ID, maxFrame)
	}
	if L > 0 {
		if !s.PeerReset && L > streamWin {
			l.bad("data-exceeds-stream-window", s.ID, "DATA of %d bytes on stream %d whose send window is %d", L, s.ID, streamWin)
		}
		if L > l.ConnSend {
			l.bad("data-exceeds-connection-window", s.ID, "DATA of %d bytes on stream %d, connection send window is %d", L, s.ID, l.ConnSend)
		}
	}
	if s.SubjEnded {
		l.bad("data-after-end-stream", s.ID, "DATA on stream %d after the subject's END_STREAM", s.ID)
	}
	if l.SendPattern != nil {
		for i, b := range body {
			if want := l.SendPattern(s.ID, s.Sent+int64(i)); b != want {
				l.bad("body-corrupted", s.ID, "stream %d body offset %d: got byte %#x, the application wrote %#x", s.ID, s.Sent+int64(i), b, want)
				break
			}
		}
	}
	s.SendWin -= L
	l.ConnSend -= L
	s.Sent += int64(len(body))
	if s.Sent > s.AppWritten {
		l.bad("body-invented", s.ID, "stream %d carried %d body bytes, the application wrote %d", s.ID, s.Sent, s.AppWritten)
	}
	if f.Flags&h2wire.FEndStream != 0 {
		l.subjEnd(s)
	}
}

// Forget drops the record of a closed stream (long histories).
func (l *Ledger) Forget(id uint32) {
	if s := l.Streams[id]; s != nil && s.Closed() {
		delete(l.Streams, id)
		delete(l.expectStream, id)
		delete(l.gotStreamFCE, id)
	}
}

// ---------------------------------------------------------------- application notes

func (l *Ledger) AppWrite(stream uint32, n int64) {
	if s := l.stream(stream); s != nil {
		s.AppWritten += n
	}
}
func (l *Ledger) AppRead(stream uint32, n int64) {
	if s := l.stream(stream); s != nil {
		s.AppRead += n
		if s.Closed() {
			l.ReadAfterClose += n
		}
	}
}
func (l *Ledger) AppCloseBody(stream uint32) {
	if s := l.stream(stream); s != nil {
		s.BodyClosed = true
	}
}
func (l *Ledger) AppReturn(stream uint32) {
	if s := l.stream(stream); s != nil {
		s.HandlerDone = true
	}
}

// ---------------------------------------------------------------- quiescent-state invariants

// ConnUnreturned is the connection-level credit the subject owes: bytes the
// peer sent minus what has been granted back.
func (l *Ledger) ConnUnreturned() int64 { return l.ConnConsumed - l.ConnGranted }

// HeldOpen is the number of accepted body bytes that sit unread in streams
// that are still open on the wire or whose application may still read them.
// (Either the stack keeps their credit until then, or it gives it back
// earlier: both are admissible.)
func (l *Ledger) HeldOpen() int64 {
	var h int64
	for _, s := range l.Streams {
		if !(s.Closed() && s.HandlerDone) {
			h += s.Held()
		}
	}
	return h
}

// Quiesce must be called when the subject has nothing left to do (all its
// goroutines are blocked waiting for the peer or the application). It checks
// the state invariants and returns (and clears) every violation found since
// the last call.
func (l *Ledger) Quiesce() []Violation {
	// 1. answers required by peer misbehaviour
	if l.expectConn != "" {
		if !l.connErrorAnswered() {
			l.bad("overflow-not-rejected", 0, "%s, and the subject neither answered GOAWAY(FLOW_CONTROL_ERROR) nor closed the connection", l.expectConn)
			l.viol[len(l.viol)-1].Cause = trigger(l.expectConn) + " (connection error required)"
		}
		l.expectConn = "-"
	}
	for id, why := range l.expectStream {
		if why == "-" {
			continue
		}
		if !(l.gotStreamFCE[id] || l.connErrorAnswered()) {
			kind := "overflow-not-rejected"
			if strings.HasPrefix(why, "DATA") {
				kind = "window-excess-not-rejected"
			}
			l.bad(kind, id, "%s, and the subject answered neither RST_STREAM(FLOW_CONTROL_ERROR) nor GOAWAY(FLOW_CONTROL_ERROR) nor closed the connection", why)
			l.viol[len(l.viol)-1].Cause = trigger(why) + " (stream or connection error required)"
		}
		l.expectStream[id] = "-"
	}
	if !l.Terminal() && len(l.pend) == 0 {
		// 2. no stall on the send side
		if l.ConnSend > 0 {
			for _, id := range l.IDs() {
				s := l.Streams[id]
				if s.Closed() || s.SubjEnded {
					continue
				}
				if s.Queued() > 0 && s.SendWin > 0 {
					l.bad("stall", id, "stream %d has %d bytes queued, its send window is %d and the connection send window is %d, yet nothing is sent", id, s.Queued(), s.SendWin, l.ConnSend)
				}
			}
		}
		// 3. credit accounting on the receive side
		if !l.handshake {
			u := l.ConnUnreturned()
			held := l.HeldOpen()
			if u < 0 {
				l.bad("conn-credit-over-returned", 0, "the subject has granted %d connection-window bytes back but the peer only sent %d", l.ConnGranted, l.ConnConsumed)
				if -u <= l.ReadAfterClose {
					l.viol[len(l.viol)-1].Cause = "credit returned twice for body bytes the application read after its stream was closed"
				} else {
					l.viol[len(l.viol)-1].Cause = "more than the bytes read after stream close"
				}
			}
			if u >= l.CreditCap+held {
				l.bad("conn-credit-not-returned", 0, "un-returned connection credit is %d (peer sent %d, %d granted back) with only %d bytes held unread in open streams: exceeds the bound %d+held", u, l.ConnConsumed, l.ConnGranted, held, l.CreditCap)
			}
			for _, id := range l.IDs() {
				s := l.Streams[id]
				us := s.Consumed - s.Granted
				if us < 0 {
					l.bad("stream-credit-over-returned", id, "stream %d: %d bytes granted back, the peer only sent %d", id, s.Granted, s.Consumed)
				}
				if s.Closed() || s.PeerEnded || s.SubjEnded || s.BodyClosed || s.HandlerDone {
					continue // nobody can or wants to use stream credit any more
				}
				if us >= l.CreditCap+s.Held() {
					l.bad("stream-credit-not-returned", id, "stream %d: un-returned stream credit is %d (peer sent %d, %d granted back) with %d bytes held unread: exceeds the bound %d+held", id, us, s.Consumed, s.Granted, s.Held(), l.CreditCap)
				}
			}
		}
	}
	v := l.viol[:0:0]
	for _, x := range l.viol {
		if x.Kind != "\x00observed" {
			v = append(v, x)
		}
	}
	l.viol = nil
	return v
}

// trigger names the kind of frame that created an expectation ("WINDOW_UPDATE", "SETTINGS_INITIAL_WINDOW_SIZE", "DATA").
func trigger(why string) string {
	if i := strings.IndexAny(why, "=( "); i > 0 {
		return why[:i]
	}
	return why
}

// Key is a canonical description of the ledger state (for state keys).
func (l *Ledger) Key() string {
	var b strings.Builder
	fmt.Fprintf(&b, "cs%d iws%d mf%d p%d cr%d cu%d ga%v/%d cc%v pv%v|", l.ConnSend, l.IWS, l.MaxFrame, len(l.pend), l.ConnRecv, l.ConnUnreturned(), l.GoAwaySeen, l.GoAwayCode, l.ConnClosed, l.PeerViolated)
	for _, id := range l.IDs() {
		s := l.Streams[id]
		if s.Closed() {
			fmt.Fprintf(&b, "%d:x|", id) // how it was closed does not matter any more
			continue
		}
		fmt.Fprintf(&b, "%d:%v%v sw%d q%d rw%d u%d h%d bc%v hd%v|", id, s.PeerEnded, s.SubjEnded, s.SendWin, s.Queued(), s.RecvWin, s.Consumed-s.Granted, s.Held(), s.BodyClosed, s.HandlerDone)
	}
	return b.String()
}
