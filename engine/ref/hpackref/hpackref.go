// Package hpackref is a deliberately boring reference model of RFC 7541
// (HPACK), written from the RFC text for check C18. It is independent of
// github.com/wi1dcard/fingerproxy/pkg/http2/hpack (the code under test).
//
// What it contains
//   - the static table (RFC 7541 Appendix A), typed in from the RFC and
//     cross-checked against golang.org/x/net/http2/hpack v0.19.0 (DATA only);
//   - the Huffman code (Appendix B): the 256 (code,length) pairs are DATA
//     extracted through x/net's exported AppendHuffmanString /
//     HuffmanEncodeLength; the decoder / encoder logic here is a bit-by-bit walk;
//   - the dynamic table of section 2.3.2 / 4 as a plain slice, newest first;
//   - a whole-block decoder (sections 3, 5, 6) that returns the SET of
//     admissible outcomes: a definite result plus an "either" flag where the RFC
//     leaves the decision to the implementation.
//
// Nothing here is incremental: a header block is the concatenation of its
// fragments (RFC 7540 section 4.3), so the reference always sees the whole block.
package hpackref

import (
	"fmt"
	"strings"

	xhpack "golang.org/x/net/http2/hpack"
)

// Field is a header field as seen by the user of the codec.
type Field struct {
	Name, Value string
	Sensitive   bool // never-indexed representation (section 6.2.3)
}

// Size is the table size of an entry (section 4.1).
func (f Field) Size() uint64 { return uint64(len(f.Name)) + uint64(len(f.Value)) + 32 }

func (f Field) String() string {
	s := ""
	if f.Sensitive {
		s = "!"
	}
	return fmt.Sprintf("%s%q=%q", s, f.Name, f.Value)
}

// Static is the static table, index 1..61 (Static[0] is unused).
var Static = [62]Field{
	{},
	{Name: ":authority"},
	{Name: ":method", Value: "GET"},
	{Name: ":method", Value: "POST"},
	{Name: ":path", Value: "/"},
	{Name: ":path", Value: "/index.html"},
	{Name: ":scheme", Value: "http"},
	{Name: ":scheme", Value: "https"},
	{Name: ":status", Value: "200"},
	{Name: ":status", Value: "204"},
	{Name: ":status", Value: "206"},
	{Name: ":status", Value: "304"},
	{Name: ":status", Value: "400"},
	{Name: ":status", Value: "404"},
	{Name: ":status", Value: "500"},
	{Name: "accept-charset"},
	{Name: "accept-encoding", Value: "gzip, deflate"},
	{Name: "accept-language"},
	{Name: "accept-ranges"},
	{Name: "accept"},
	{Name: "access-control-allow-origin"},
	{Name: "age"},
	{Name: "allow"},
	{Name: "authorization"},
	{Name: "cache-control"},
	{Name: "content-disposition"},
	{Name: "content-encoding"},
	{Name: "content-language"},
	{Name: "content-length"},
	{Name: "content-location"},
	{Name: "content-range"},
	{Name: "content-type"},
	{Name: "cookie"},
	{Name: "date"},
	{Name: "etag"},
	{Name: "expect"},
	{Name: "expires"},
	{Name: "from"},
	{Name: "host"},
	{Name: "if-match"},
	{Name: "if-modified-since"},
	{Name: "if-none-match"},
	{Name: "if-range"},
	{Name: "if-unmodified-since"},
	{Name: "last-modified"},
	{Name: "link"},
	{Name: "location"},
	{Name: "max-forwards"},
	{Name: "proxy-authenticate"},
	{Name: "proxy-authorization"},
	{Name: "range"},
	{Name: "referer"},
	{Name: "refresh"},
	{Name: "retry-after"},
	{Name: "server"},
	{Name: "set-cookie"},
	{Name: "strict-transport-security"},
	{Name: "transfer-encoding"},
	{Name: "user-agent"},
	{Name: "vary"},
	{Name: "via"},
	{Name: "www-authenticate"},
}

// StaticLen is the number of static entries.
const StaticLen = 61

// ---------------------------------------------------------------- Huffman

// HuffCode / HuffLen: code of symbol s is the HuffLen[s] low bits of HuffCode[s].
var (
	HuffCode [256]uint32
	HuffLen  [256]uint8
	// byLen[l] maps a code of exactly l bits to symbol+1 (0 = none)
	byLen [31]map[uint32]uint16
)

const eosLen = 30 // EOS is thirty 1-bits (Appendix B, symbol 256)

func init() {
	for s := 0; s < 256; s++ {
		// eight copies of one symbol occupy exactly len(code) whole octets
		l := xhpack.HuffmanEncodeLength(strings.Repeat(string([]byte{byte(s)}), 8))
		b := xhpack.AppendHuffmanString(nil, string([]byte{byte(s)}))
		var v uint64
		for _, x := range b {
			v = v<<8 | uint64(x)
		}
		v >>= uint(len(b)*8) - uint(l) // drop the padding
		HuffCode[s] = uint32(v)
		HuffLen[s] = uint8(l)
	}
	for i := range byLen {
		byLen[i] = map[uint32]uint16{}
	}
	for s := 0; s < 256; s++ {
		byLen[HuffLen[s]][HuffCode[s]] = uint16(s) + 1
	}
}

// ValidateData checks the imported DATA for the structural facts the RFC
// states: lengths 5..30, prefix-free, complete together with EOS = 30 ones;
// and the typed-in static table against x/net's decoder. An error is a harness
// problem, never a verdict.
func ValidateData() error {
	// Kraft sum in units of 2^-30: must be 2^30 - 1 (the missing 1 is EOS)
	var kraft uint64
	for s := 0; s < 256; s++ {
		l := HuffLen[s]
		if l < 5 || l > 30 {
			return fmt.Errorf("huffman length of symbol %d is %d", s, l)
		}
		if HuffCode[s]>>l != 0 {
			return fmt.Errorf("huffman code of symbol %d wider than its length", s)
		}
		kraft += 1 << (30 - l)
	}
	if kraft != 1<<30-1 {
		return fmt.Errorf("huffman code is not complete: kraft=%d", kraft)
	}
	for a := 0; a < 256; a++ {
		if HuffLen[a] == eosLen && HuffCode[a] == 1<<eosLen-1 {
			return fmt.Errorf("symbol %d has the EOS code", a)
		}
		for b := 0; b < 256; b++ {
			if a != b && HuffLen[a] <= HuffLen[b] && HuffCode[b]>>(HuffLen[b]-HuffLen[a]) == HuffCode[a] {
				return fmt.Errorf("huffman code of %d is a prefix of %d", a, b)
			}
		}
	}
	// a few codes quoted from Appendix B
	for _, c := range []struct {
		sym  byte
		code uint32
		l    uint8
	}{{'0', 0x0, 5}, {'a', 0x3, 5}, {'e', 0x5, 5}, {' ', 0x14, 6}, {'A', 0x21, 6}, {':', 0x5c, 7}, {'X', 0xfc, 8}, {0, 0x1ff8, 13}, {10, 0x3ffffffc, 30}, {22, 0x3ffffffe, 30}, {255, 0x3ffffee, 26}} {
		if HuffCode[c.sym] != c.code || HuffLen[c.sym] != c.l {
			return fmt.Errorf("huffman code of %d: got %x/%d want %x/%d", c.sym, HuffCode[c.sym], HuffLen[c.sym], c.code, c.l)
		}
	}
	var got []xhpack.HeaderField
	d := xhpack.NewDecoder(4096, func(f xhpack.HeaderField) { got = append(got, f) })
	for i := 1; i <= StaticLen; i++ {
		got = got[:0]
		if _, err := d.Write([]byte{0x80 | byte(i)}); err != nil {
			return fmt.Errorf("x/net rejects static index %d: %v", i, err)
		}
		if len(got) != 1 || got[0].Name != Static[i].Name || got[0].Value != Static[i].Value {
			return fmt.Errorf("static table entry %d: typed %v, x/net %v", i, Static[i], got)
		}
	}
	return nil
}

// ErrHuffman classes (section 5.2)
const (
	HuffOK         = ""
	HuffEOS        = "huffman-eos-in-string"
	HuffPadLong    = "huffman-padding-longer-than-7"
	HuffPadNotOnes = "huffman-padding-not-eos-prefix"
)

// HuffmanDecode decodes v bit by bit. The second result is "" or the reason
// the RFC requires a decoding error.
func HuffmanDecode(v []byte) (string, string) {
	var out []byte
	var cur uint32
	var n int
	for _, b := range v {
		for bit := 7; bit >= 0; bit-- {
			cur = cur<<1 | uint32(b>>uint(bit))&1
			n++
			if s := byLen[n][cur]; s != 0 {
				out = append(out, byte(s-1))
				cur, n = 0, 0
				continue
			}
			if n == eosLen {
				// the code is complete, so 30 undecoded bits can only be EOS
				return "", HuffEOS
			}
		}
	}
	// what is left is padding: at most 7 bits, all ones
	if n > 7 {
		if cur == 1<<uint(n)-1 {
			return "", HuffPadLong
		}
		// an incomplete symbol which is not all ones: neither valid padding nor a symbol
		return "", HuffPadNotOnes
	}
	if cur != 1<<uint(n)-1 {
		return "", HuffPadNotOnes
	}
	return string(out), HuffOK
}

// HuffmanEncode is the straightforward encoder: concatenate codes, pad with ones.
func HuffmanEncode(s string) []byte {
	var out []byte
	var acc uint64
	var n uint
	for i := 0; i < len(s); i++ {
		acc = acc<<HuffLen[s[i]] | uint64(HuffCode[s[i]])
		n += uint(HuffLen[s[i]])
		for n >= 8 {
			out = append(out, byte(acc>>(n-8)))
			n -= 8
		}
		acc &= 1<<n - 1
	}
	if n > 0 {
		pad := 8 - n
		out = append(out, byte(acc<<pad)|byte(1<<pad-1))
	}
	return out
}

// ---------------------------------------------------------------- dynamic table

// Table is the dynamic table plus the two size bounds.
type Table struct {
	Ents  []Field // Ents[0] is the newest entry = index 62
	Size  uint64  // sum of entry sizes
	Max   uint64  // current maximum size (changed by size updates)
	Limit uint64  // protocol limit (SETTINGS_HEADER_TABLE_SIZE): a size update above it is an error
	// Evictions counts entries dropped so far (statistics only)
	Evictions int
}

func NewTable(limit uint64) *Table { return &Table{Max: limit, Limit: limit} }

func (t *Table) Clone() *Table {
	c := *t
	c.Ents = append([]Field(nil), t.Ents...)
	return &c
}

// SetMax: section 4.3 — evict from the end until size <= max.
func (t *Table) SetMax(v uint64) {
	t.Max = v
	for t.Size > t.Max {
		t.dropOldest()
	}
}

func (t *Table) dropOldest() {
	last := t.Ents[len(t.Ents)-1]
	t.Ents = t.Ents[:len(t.Ents)-1]
	t.Size -= last.Size()
	t.Evictions++
}

// Add: section 4.4 — evict until the new entry fits; an entry larger than Max
// empties the table and is not added.
func (t *Table) Add(f Field) {
	f.Sensitive = false
	for len(t.Ents) > 0 && t.Size+f.Size() > t.Max {
		t.dropOldest()
	}
	if f.Size() > t.Max {
		return
	}
	t.Ents = append([]Field{f}, t.Ents...)
	t.Size += f.Size()
}

// At resolves an index of the combined address space (section 2.3.3).
func (t *Table) At(i uint64) (Field, bool) {
	if i == 0 {
		return Field{}, false
	}
	if i <= StaticLen {
		return Static[i], true
	}
	k := i - StaticLen - 1
	if k >= uint64(len(t.Ents)) {
		return Field{}, false
	}
	return t.Ents[k], true
}

// ---------------------------------------------------------------- block decoder

// Rep describes one representation of the parsed block.
type Rep struct {
	Kind  string // "I" indexed, "Li" literal incremental, "Ln" literal without indexing, "Lv" never indexed, "U" size update
	Off   int    // offset of its first octet
	End   int    // offset after its last octet
	NameI bool   // literal with indexed name
	Huff  bool   // some string literal used Huffman coding
	// MaxStr is the largest of the encoded and decoded lengths of its string literals
	MaxStr int
}

// Result of decoding one block. If Accept is false the block MUST be rejected
// (Reason says why). If Accept is true and Either is "" the block MUST be
// accepted with exactly Fields and the table t was advanced to. If Either is
// non-empty the implementation may also reject (the RFC leaves it a choice at
// the named point); if it accepts, Fields / table are as given.
type Result struct {
	Accept bool
	Reason string
	Either string
	Fields []Field
	Reps   []Rep // representations completely parsed (the last one may be the failing one)
}

// limits every implementation able to carry a 32-bit value must support:
// up to 5 continuation octets and values below 2^32 (section 5.1 allows
// rejecting anything beyond "implementation limits").
const (
	mustSupportContinuation = 5
	mustSupportValue        = 1<<32 - 1
)

type parser struct {
	b      []byte
	pos    int
	either string
}

var errTrunc = "truncated"

// integer of section 5.1 with an n-bit prefix. ok=false: block ends inside it.
func (p *parser) integer(n uint) (v uint64, ok bool) {
	if p.pos >= len(p.b) {
		return 0, false
	}
	mask := uint64(1)<<n - 1
	v = uint64(p.b[p.pos]) & mask
	p.pos++
	if v < mask {
		return v, true
	}
	var shift uint
	cont := 0
	over := false // value does not fit 64 bits: certainly beyond what must be supported
	for {
		if p.pos >= len(p.b) {
			return 0, false
		}
		o := p.b[p.pos]
		p.pos++
		cont++
		add := uint64(o & 0x7f)
		if shift >= 57 {
			if add != 0 {
				over = true
			}
		} else if inc := add << shift; v+inc < v {
			over = true
		} else {
			v += inc
		}
		shift += 7
		if o&0x80 == 0 {
			break
		}
	}
	if over {
		v = ^uint64(0)
	}
	if cont > mustSupportContinuation || v > mustSupportValue {
		if p.either == "" {
			p.either = "integer-beyond-must-support"
		}
	}
	return v, true
}

// str reads a string literal (section 5.2). reason != "" is a mandatory error.
func (p *parser) str() (s string, huff bool, span int, reason string) {
	if p.pos >= len(p.b) {
		return "", false, 0, errTrunc
	}
	huff = p.b[p.pos]&0x80 != 0
	l, ok := p.integer(7)
	if !ok {
		return "", huff, 0, errTrunc
	}
	if l > uint64(len(p.b)-p.pos) {
		return "", huff, 0, errTrunc
	}
	raw := p.b[p.pos : p.pos+int(l)]
	p.pos += int(l)
	if !huff {
		return string(raw), false, len(raw), ""
	}
	s, why := HuffmanDecode(raw)
	return s, true, max(len(raw), len(s)), why
}

// DecodeBlock decodes one complete header block against t, which is advanced
// (clone it first if you need the old one). On rejection t is left in the
// state reached before the failing representation.
func DecodeBlock(t *Table, block []byte) Result {
	p := &parser{b: block}
	var res Result
	seenField := false
	updates := 0
	fail := func(kind string, off int, why string) Result {
		res.Reps = append(res.Reps, Rep{Kind: kind, Off: off, End: p.pos})
		res.Accept = false
		res.Reason = why
		res.Either = ""
		return res
	}
	for p.pos < len(block) {
		off := p.pos
		b := block[p.pos]
		switch {
		case b&0x80 != 0: // 6.1 indexed
			idx, ok := p.integer(7)
			if !ok {
				return fail("I", off, errTrunc)
			}
			f, ok := t.At(idx)
			if !ok {
				if idx == 0 {
					return fail("I", off, "index-0")
				}
				return fail("I", off, "index-beyond-table")
			}
			res.Fields = append(res.Fields, Field{Name: f.Name, Value: f.Value})
			res.Reps = append(res.Reps, Rep{Kind: "I", Off: off, End: p.pos})
			seenField = true
		case b&0xe0 == 0x20: // 6.3 size update
			v, ok := p.integer(5)
			if !ok {
				return fail("U", off, errTrunc)
			}
			if v > t.Limit {
				return fail("U", off, "size-update-above-limit")
			}
			if seenField {
				// 4.2: MUST occur at the beginning of the block; whether a decoder
				// enforces that is not stated as a decoding error
				if p.either == "" {
					p.either = "size-update-after-field"
				}
			} else {
				updates++
				if updates > 2 && p.either == "" {
					// 4.2 derives "at most two"; a third is not something a decoder must take
					p.either = "more-than-two-size-updates"
				}
			}
			t.SetMax(v)
			res.Reps = append(res.Reps, Rep{Kind: "U", Off: off, End: p.pos})
		default: // 6.2 literals
			kind, n := "Li", uint(6)
			if b&0xc0 != 0x40 {
				n = 4
				kind = "Ln"
				if b&0xf0 == 0x10 {
					kind = "Lv"
				}
			}
			idx, ok := p.integer(n)
			if !ok {
				return fail(kind, off, errTrunc)
			}
			var f Field
			rep := Rep{Kind: kind, Off: off}
			if idx != 0 {
				e, ok := t.At(idx)
				if !ok {
					// the rest of the representation is not looked at: whatever it is, the block is bad
					return fail(kind, off, "index-beyond-table")
				}
				f.Name = e.Name
				rep.NameI = true
			} else {
				s, h, span, why := p.str()
				if why != "" {
					return fail(kind, off, why)
				}
				f.Name = s
				rep.Huff = rep.Huff || h
				rep.MaxStr = max(rep.MaxStr, span)
			}
			s, h, span, why := p.str()
			if why != "" {
				return fail(kind, off, why)
			}
			f.Value = s
			rep.Huff = rep.Huff || h
			rep.MaxStr = max(rep.MaxStr, span)
			if kind == "Li" {
				t.Add(f)
			}
			f.Sensitive = kind == "Lv"
			res.Fields = append(res.Fields, f)
			rep.End = p.pos
			res.Reps = append(res.Reps, rep)
			seenField = true
		}
	}
	res.Accept = true
	res.Either = p.either
	return res
}

// Shape is a compact description of the representation kinds, for signatures.
func Shape(reps []Rep) string {
	var sb strings.Builder
	for i, r := range reps {
		if i > 0 {
			sb.WriteByte('>')
		}
		sb.WriteString(r.Kind)
	}
	return sb.String()
}
