// Package h2frameref is the reference model for check C19: an independent,
// deliberately boring HTTP/2 frame decoder written from RFC 7540 §4, §5.4,
// §6, which, for one frame of an input byte string, returns
//
//   - the typed fields of the frame (what a correct reader must hand out), and
//   - the SET of admissible outcomes of a reader: "accept" and/or the
//     connection / stream errors the RFC assigns to the defects the frame has.
//
// Wherever the RFC leaves a choice (several defects in one frame; a stream
// error that an endpoint may escalate to a connection error, §5.4.1; semantic
// checks a framing layer may or may not perform) every choice is in the set.
//
// It shares no code with pkg/http2. Frame splitting uses verif/ref/h2wire.
// Header blocks are decoded with golang.org/x/net/http2/hpack (module cache),
// which is trusted here: HPACK itself is the subject of another check.
package h2frameref

import (
	"bytes"
	"encoding/binary"
	"fmt"
	"sort"
	"strings"

	"golang.org/x/net/http2/hpack"
	"verif/ref/h2wire"
)

// RFC 7540 §7 error codes used by the framing layer.
const (
	CodeProtocol    = 0x1
	CodeFlowControl = 0x3
	CodeFrameSize   = 0x6
	CodeCompression = 0x9
)

const MaxFrameSize = 1<<24 - 1

// Fields is the canonical, typed content of one frame. Unused members are zero.
type Fields struct {
	Type   uint8
	Flags  uint8
	Stream uint32 // 31 bits; the reserved bit is ignored (§4.1)
	Length uint32 // payload length on the wire, padding included

	// DATA: data; HEADERS / PUSH_PROMISE / CONTINUATION: header block fragment;
	// PING: opaque data; GOAWAY: debug data; unknown types: the whole payload.
	Data []byte
	// PadLen is the value of the Pad Length field, -1 when the frame is not padded.
	PadLen int
	// Pad holds the padding octets (nil when not padded).
	Pad []byte

	HasPrio bool // HEADERS with PRIORITY flag, or a PRIORITY frame
	Dep     uint32
	Excl    bool
	Weight  uint8

	Code    uint32 // RST_STREAM, GOAWAY
	Last    uint32 // GOAWAY last-stream-id (31 bits)
	Promise uint32 // PUSH_PROMISE promised stream id (31 bits)
	Incr    uint32 // WINDOW_UPDATE increment (31 bits)

	Settings []h2wire.Setting

	// HeaderList is set only for a reassembled header block (meta mode).
	HeaderList []h2wire.HF
	Meta       bool
}

func (f *Fields) String() string {
	if f == nil {
		return "<nil>"
	}
	n := h2wire.TypeNames[f.Type]
	if n == "" {
		n = fmt.Sprintf("T%#x", f.Type)
	}
	s := fmt.Sprintf("%s{flags=%#x stream=%d len=%d", n, f.Flags, f.Stream, f.Length)
	if f.PadLen >= 0 {
		s += fmt.Sprintf(" pad=%d", f.PadLen)
	}
	if f.HasPrio {
		s += fmt.Sprintf(" prio=%d/%v/%d", f.Dep, f.Excl, f.Weight)
	}
	switch f.Type {
	case h2wire.TRSTStream:
		s += fmt.Sprintf(" code=%#x", f.Code)
	case h2wire.TGoAway:
		s += fmt.Sprintf(" last=%d code=%#x", f.Last, f.Code)
	case h2wire.TPushPromise:
		s += fmt.Sprintf(" promise=%d", f.Promise)
	case h2wire.TWindowUpdate:
		s += fmt.Sprintf(" incr=%d", f.Incr)
	case h2wire.TSettings:
		s += fmt.Sprintf(" settings=%v", f.Settings)
	}
	if f.Meta {
		s += fmt.Sprintf(" fields=%v", f.HeaderList)
	}
	if len(f.Data) <= 24 {
		s += fmt.Sprintf(" data=%x", f.Data)
	} else {
		s += fmt.Sprintf(" data=%x..(%d)", f.Data[:16], len(f.Data))
	}
	return s + "}"
}

// Diff names the first member in which a and b differ ("" if equal).
// Pad is compared only when both sides know it (a reader API need not expose padding octets).
func Diff(a, b *Fields) string {
	switch {
	case a.Type != b.Type:
		return "type"
	case a.Flags != b.Flags:
		return "flags"
	case a.Stream != b.Stream:
		return "stream"
	case a.Length != b.Length:
		return "length"
	case !bytes.Equal(a.Data, b.Data):
		return "payload"
	case a.PadLen != b.PadLen:
		return "padlen"
	case a.Pad != nil && b.Pad != nil && !bytes.Equal(a.Pad, b.Pad):
		return "padding"
	case a.HasPrio != b.HasPrio:
		return "hasprio"
	case a.Dep != b.Dep:
		return "dep"
	case a.Excl != b.Excl:
		return "exclusive"
	case a.Weight != b.Weight:
		return "weight"
	case a.Code != b.Code:
		return "code"
	case a.Last != b.Last:
		return "laststream"
	case a.Promise != b.Promise:
		return "promise"
	case a.Incr != b.Incr:
		return "increment"
	case a.Meta != b.Meta:
		return "meta"
	}
	if len(a.Settings) != len(b.Settings) {
		return "settings"
	}
	for i := range a.Settings {
		if a.Settings[i] != b.Settings[i] {
			return "settings"
		}
	}
	if len(a.HeaderList) != len(b.HeaderList) {
		return "headerlist"
	}
	for i := range a.HeaderList {
		if a.HeaderList[i] != b.HeaderList[i] {
			return "headerlist"
		}
	}
	return ""
}

// Err is one admissible HTTP/2 error. A stream error is always on the stream
// of the frame that caused it.
type Err struct {
	Conn bool
	Code uint32
}

func (e Err) String() string {
	k := "StreamError"
	if e.Conn {
		k = "ConnectionError"
	}
	return fmt.Sprintf("%s(%#x)", k, e.Code)
}

// Verdict is the set of admissible outcomes of reading the next frame.
type Verdict struct {
	// Accept: handing out the frame (with exactly Fields) is admissible.
	Accept bool
	Fields *Fields
	// Errs: admissible HTTP/2 errors, with the RFC reason. Hard defects and soft (optional) checks.
	Errs map[Err]string
	// Hard is true if the frame has at least one defect that a reader MUST reject (then Accept is false).
	Hard bool
	// TooLarge: the declared length exceeds the read limit ("frame too large" is admissible).
	TooLarge bool
	// EOF: the input ends before the frame does (io.EOF / io.ErrUnexpectedEOF are admissible).
	EOF bool
	// Consumed is the number of input bytes of this frame (0 if EOF / TooLarge).
	Consumed int
	// Stream is the 31-bit stream id of the frame header (valid if at least the header was present).
	Stream uint32
	// Unspecified: the property statement / this model does not define the expectation from here on
	// (after a PUSH_PROMISE without END_HEADERS: see Reader).
	Unspecified bool
}

func (v *Verdict) add(conn bool, code uint32, why string) {
	if v.Errs == nil {
		v.Errs = map[Err]string{}
	}
	e := Err{conn, code}
	if _, ok := v.Errs[e]; !ok {
		v.Errs[e] = why
	}
}

// hard defect that MUST be a connection error.
func (v *Verdict) connDefect(code uint32, why string) { v.Hard = true; v.add(true, code, why) }

// hard defect that is a stream error, or — by §5.4.1 "an endpoint MAY choose to treat a stream error as a
// connection error" — a connection error with the same code. On stream 0 only the connection error exists.
func (v *Verdict) streamDefect(code uint32, why string) {
	v.Hard = true
	v.add(true, code, why)
	if v.Stream != 0 {
		v.add(false, code, why)
	}
}

// soft: a check the RFC assigns to the endpoint but not necessarily to its framing layer:
// rejecting is admissible, accepting is too.
func (v *Verdict) soft(conn bool, code uint32, why string) {
	v.add(conn, code, why+" (optional at the framing layer)")
	if !conn {
		v.add(true, code, why+" (optional at the framing layer)")
	}
}

// Admissible renders the set for messages.
func (v *Verdict) Admissible() string {
	var s []string
	if v.Accept {
		s = append(s, "accept "+v.Fields.String())
	}
	for e, why := range v.Errs {
		s = append(s, e.String()+" ["+why+"]")
	}
	if v.TooLarge {
		s = append(s, "ErrFrameTooLarge")
	}
	if v.EOF {
		s = append(s, "io.EOF/io.ErrUnexpectedEOF")
	}
	sort.Strings(s)
	return "{" + strings.Join(s, "; ") + "}"
}

// Reader is the reference reader state: the read limit and the HEADERS/CONTINUATION
// contiguity state of §6.2 / §6.10.
type Reader struct {
	limit  uint32
	expect uint32 // != 0: a header block on this stream is open; only CONTINUATION on it may follow
	// ppOpen: a PUSH_PROMISE without END_HEADERS was accepted. RFC 7540 §6.6 requires CONTINUATION to
	// follow; the property statement only speaks of HEADERS/CONTINUATION interleavings, so from here on
	// this model declares the expectation Unspecified (callers then only check the universal invariants).
	ppOpen  bool
	history [][]byte // header blocks decoded so far (HPACK state = replay of them)
}

// NewReader: limit is the value given to the reader's "set max read frame size";
// values above 2^24-1 mean 2^24-1 (a length field has 24 bits).
func NewReader(limit uint32) *Reader {
	if limit > MaxFrameSize {
		limit = MaxFrameSize
	}
	return &Reader{limit: limit}
}

func (r *Reader) Limit() uint32  { return r.limit }
func (r *Reader) Expect() uint32 { return r.expect }

// Accepted must be called when the reader under test accepted the frame of verdict v:
// it advances the contiguity state.
func (r *Reader) Accepted(f *Fields) {
	switch f.Type {
	case h2wire.THeaders, h2wire.TContinuation:
		if f.Flags&h2wire.FEndHeaders != 0 {
			r.expect = 0
		} else {
			r.expect = f.Stream
		}
	case h2wire.TPushPromise:
		if f.Flags&h2wire.FEndHeaders == 0 {
			r.ppOpen = true
		}
	}
}

// Next gives the verdict for the frame at the start of in. It does not change the state.
func (r *Reader) Next(in []byte) Verdict {
	var v Verdict
	if r.ppOpen {
		v.Unspecified = true
	}
	if len(in) < 9 {
		v.EOF = true
		return v
	}
	length := uint32(in[0])<<16 | uint32(in[1])<<8 | uint32(in[2])
	typ, flags := in[3], in[4]
	stream := binary.BigEndian.Uint32(in[5:9]) & 0x7fffffff
	v.Stream = stream

	// §6.2 / §6.10 contiguity: applies to every frame, whatever else is wrong with it
	if r.expect != 0 {
		if typ != h2wire.TContinuation {
			v.connDefect(CodeProtocol, "§6.2: frame other than CONTINUATION inside a header block")
		} else if stream != r.expect {
			v.connDefect(CodeProtocol, "§6.2: CONTINUATION on a different stream inside a header block")
		}
	} else if typ == h2wire.TContinuation {
		v.connDefect(CodeProtocol, "§6.10: CONTINUATION not preceded by HEADERS/PUSH_PROMISE/CONTINUATION without END_HEADERS")
	}

	if length > r.limit {
		// §4.2: FRAME_SIZE_ERROR; the reader's own "too large" error is the API's way to say so
		v.TooLarge = true
		v.Hard = true
		v.add(true, CodeFrameSize, "§4.2: frame exceeds the advertised maximum size")
		if stream != 0 && typ != h2wire.THeaders && typ != h2wire.TPushPromise && typ != h2wire.TContinuation && typ != h2wire.TSettings {
			v.add(false, CodeFrameSize, "§4.2: frame exceeds the advertised maximum size")
		}
		if len(in) < 9+int(length) {
			v.EOF = true
		}
		return v
	}
	if len(in) < 9+int(length) {
		v.EOF = true
		v.Hard = true
		return v
	}
	p := in[9 : 9+int(length)]
	v.Consumed = 9 + int(length)
	f := &Fields{Type: typ, Flags: flags, Stream: stream, Length: length, PadLen: -1}

	// padded(need): handles the Pad Length field of DATA / HEADERS / PUSH_PROMISE.
	// fixed = octets of mandatory fields after the Pad Length octet. Returns body (fixed fields + fragment, padding removed).
	padded := func(fixed int, sizeConnOnly, padConnOnly bool, what string) (body []byte, ok bool) {
		need := fixed
		isPadded := flags&h2wire.FPadded != 0
		if isPadded {
			need++
		}
		if len(p) < need {
			// §4.2: "too small to contain mandatory frame data" -> FRAME_SIZE_ERROR; connection error for
			// frames carrying a header block
			if sizeConnOnly {
				v.connDefect(CodeFrameSize, "§4.2: "+what+" too small to contain its mandatory fields")
			} else {
				v.streamDefect(CodeFrameSize, "§4.2: "+what+" too small to contain its mandatory fields")
			}
			if isPadded && len(p) >= 1 && int(p[0]) > len(p)-need {
				// the padding rule is violated as well (padding exceeds what remains)
				if padConnOnly {
					v.connDefect(CodeProtocol, what+": padding exceeds the remaining payload")
				} else {
					v.streamDefect(CodeProtocol, what+": padding exceeds the remaining payload")
				}
			}
			return nil, false
		}
		body = p
		if isPadded {
			pl := int(p[0])
			body = p[1:]
			if pl > len(body)-fixed {
				if padConnOnly {
					v.connDefect(CodeProtocol, what+": padding length >= payload length")
				} else {
					v.streamDefect(CodeProtocol, what+": padding exceeds the size remaining for the fragment")
				}
				return nil, false
			}
			f.PadLen = pl
			f.Pad = append([]byte{}, body[len(body)-pl:]...)
			body = body[:len(body)-pl]
		}
		return body, true
	}

	switch typ {
	case h2wire.TData: // §6.1
		if stream == 0 {
			v.connDefect(CodeProtocol, "§6.1: DATA on stream 0")
		}
		if body, ok := padded(0, false, true, "DATA"); ok {
			f.Data = body
		}
	case h2wire.THeaders: // §6.2
		if stream == 0 {
			v.connDefect(CodeProtocol, "§6.2: HEADERS on stream 0")
		}
		fixed := 0
		if flags&h2wire.FPriority != 0 {
			fixed = 5
		}
		if body, ok := padded(fixed, true, false, "HEADERS"); ok {
			if fixed == 5 {
				d := binary.BigEndian.Uint32(body)
				f.HasPrio, f.Dep, f.Excl, f.Weight = true, d&0x7fffffff, d>>31 == 1, body[4]
				body = body[5:]
				if f.Dep == stream && stream != 0 {
					v.soft(false, CodeProtocol, "§5.3.1: stream depends on itself")
				}
			}
			f.Data = body
		}
	case h2wire.TPriority: // §6.3
		if stream == 0 {
			v.connDefect(CodeProtocol, "§6.3: PRIORITY on stream 0")
		}
		if len(p) != 5 {
			v.streamDefect(CodeFrameSize, "§6.3: PRIORITY length != 5")
		} else {
			d := binary.BigEndian.Uint32(p)
			f.HasPrio, f.Dep, f.Excl, f.Weight = true, d&0x7fffffff, d>>31 == 1, p[4]
			if f.Dep == stream && stream != 0 {
				v.soft(false, CodeProtocol, "§5.3.1: stream depends on itself")
			}
		}
	case h2wire.TRSTStream: // §6.4
		if stream == 0 {
			v.connDefect(CodeProtocol, "§6.4: RST_STREAM on stream 0")
		}
		if len(p) != 4 {
			v.connDefect(CodeFrameSize, "§6.4: RST_STREAM length != 4")
		} else {
			f.Code = binary.BigEndian.Uint32(p)
		}
	case h2wire.TSettings: // §6.5
		if stream != 0 {
			v.connDefect(CodeProtocol, "§6.5: SETTINGS on a stream")
		}
		if flags&h2wire.FAck != 0 && len(p) != 0 {
			v.connDefect(CodeFrameSize, "§6.5: SETTINGS ACK with payload")
		}
		if len(p)%6 != 0 {
			v.connDefect(CodeFrameSize, "§6.5: SETTINGS length not a multiple of 6")
		} else {
			for i := 0; i+6 <= len(p); i += 6 {
				s := h2wire.Setting{ID: binary.BigEndian.Uint16(p[i:]), Val: binary.BigEndian.Uint32(p[i+2:])}
				f.Settings = append(f.Settings, s)
				// §6.5.2 value rules: the endpoint must enforce them; whether the framing layer does is its choice
				switch s.ID {
				case 2:
					if s.Val > 1 {
						v.soft(true, CodeProtocol, "§6.5.2: ENABLE_PUSH not 0/1")
					}
				case 4:
					if s.Val > 1<<31-1 {
						v.soft(true, CodeFlowControl, "§6.5.2: INITIAL_WINDOW_SIZE > 2^31-1")
					}
				case 5:
					if s.Val < 1<<14 || s.Val > MaxFrameSize {
						v.soft(true, CodeProtocol, "§6.5.2: MAX_FRAME_SIZE out of range")
					}
				}
			}
		}
	case h2wire.TPushPromise: // §6.6
		if stream == 0 {
			v.connDefect(CodeProtocol, "§6.6: PUSH_PROMISE on stream 0")
		}
		if body, ok := padded(4, true, false, "PUSH_PROMISE"); ok {
			f.Promise = binary.BigEndian.Uint32(body) & 0x7fffffff
			f.Data = body[4:]
			if f.Promise == 0 {
				v.soft(true, CodeProtocol, "§6.6: illegal promised stream identifier 0")
			}
		}
	case h2wire.TPing: // §6.7
		if len(p) != 8 {
			v.connDefect(CodeFrameSize, "§6.7: PING length != 8")
		} else {
			f.Data = p
		}
		if stream != 0 {
			v.connDefect(CodeProtocol, "§6.7: PING on a stream")
		}
	case h2wire.TGoAway: // §6.8
		if stream != 0 {
			v.connDefect(CodeProtocol, "§6.8: GOAWAY on a stream")
		}
		if len(p) < 8 {
			v.connDefect(CodeFrameSize, "§4.2/§6.8: GOAWAY shorter than 8 octets")
		} else {
			f.Last = binary.BigEndian.Uint32(p) & 0x7fffffff
			f.Code = binary.BigEndian.Uint32(p[4:])
			f.Data = p[8:]
		}
	case h2wire.TWindowUpdate: // §6.9
		if len(p) != 4 {
			v.connDefect(CodeFrameSize, "§6.9: WINDOW_UPDATE length != 4")
		} else {
			f.Incr = binary.BigEndian.Uint32(p) & 0x7fffffff
			if f.Incr == 0 {
				v.streamDefect(CodeProtocol, "§6.9: WINDOW_UPDATE increment 0")
			}
		}
	case h2wire.TContinuation: // §6.10
		if stream == 0 {
			v.connDefect(CodeProtocol, "§6.10: CONTINUATION on stream 0")
		}
		f.Data = p
	default: // §4.1: unknown types are ignored by the endpoint; a reader hands them out opaque
		f.Data = p
	}
	if !v.Hard {
		v.Accept = true
		f.Data = append([]byte{}, f.Data...)
		v.Fields = f
	}
	return v
}

// NextMeta is Next for a reader that reassembles header blocks: if the next frame is a HEADERS
// frame, the CONTINUATION frames up to END_HEADERS are consumed with it and the verdict is about the
// whole unit: accept with the decoded field list, or the first framing defect found, or
// COMPRESSION_ERROR (§4.3) if the block does not decode. Other frames: same as Next.
// On an accept-verdict the contiguity state is already advanced past the unit (do not call Accepted).
func (r *Reader) NextMeta(in []byte) (v Verdict, unit bool) {
	v = r.Next(in)
	if !v.Accept || v.Fields.Type != h2wire.THeaders || v.Unspecified {
		return v, false
	}
	head := *v.Fields
	soft := v.Errs
	block := append([]byte{}, head.Data...)
	consumed := v.Consumed
	save := r.expect
	r.Accepted(&head)
	for r.expect != 0 {
		c := r.Next(in[consumed:])
		if !c.Accept {
			// the unit fails with the defect of this frame (any of its admissible errors)
			r.expect = save
			for e, why := range soft {
				c.add(e.Conn, e.Code, why)
			}
			// a block that already fails to decode may be reported first
			if hfs, err := r.decode(block); err != nil && !strings.Contains(err.Error(), "truncated") {
				c.add(true, CodeCompression, "§4.3: header block does not decode")
				if why := MalformedList(hfs); why != "" {
					c.soft(false, CodeProtocol, "§8.1.2: "+why)
				}
			}
			c.Consumed = 0
			return c, true
		}
		block = append(block, c.Fields.Data...)
		consumed += c.Consumed
		r.Accepted(c.Fields)
	}
	out := Verdict{Stream: head.Stream, Consumed: consumed, Errs: soft}
	hfs, err := r.decode(block)
	if err != nil {
		out.connDefect(CodeCompression, "§4.3: header block does not decode: "+err.Error())
		if why := MalformedList(hfs); why != "" {
			// fields before the undecodable part are already malformed: reporting that first is admissible
			out.soft(false, CodeProtocol, "§8.1.2: "+why)
		}
		return out, true
	}
	r.history = append(r.history, block)
	head.Meta = true
	head.Data = nil
	head.HeaderList = hfs
	out.Accept = true
	out.Fields = &head
	if why := MalformedList(head.HeaderList); why != "" {
		// §8.1.2.6: malformed request/response -> stream error PROTOCOL_ERROR; a message-level rule, optional for a codec
		out.soft(false, CodeProtocol, "§8.1.2: "+why)
	}
	return out, true
}

// decode decodes block in the HPACK context left by the blocks accepted so far; on error it returns the
// fields emitted before the error.
func (r *Reader) decode(block []byte) ([]h2wire.HF, error) {
	d := hpack.NewDecoder(4096, nil)
	// A reader bounds the strings it is willing to decode by its header list limit; the documented default of
	// the reader under test is 16 MB. A string whose declared length exceeds it may be refused (COMPRESSION_ERROR)
	// as soon as the length is known, i.e. before the block is complete.
	d.SetMaxStringLength(16 << 20)
	for _, b := range r.history {
		d.SetEmitFunc(func(hpack.HeaderField) {})
		d.Write(b)
		d.Close()
	}
	var out []h2wire.HF
	d.SetEmitFunc(func(h hpack.HeaderField) { out = append(out, h2wire.HF{Name: h.Name, Value: h.Value}) })
	_, err := d.Write(block)
	if err == nil {
		err = d.Close()
	}
	return out, err
}

// MalformedList says why a decoded field list is not a plainly well-formed HTTP/2 header list
// (§8.1.2: lower-case token names, pseudo-header fields first, only defined pseudo-header fields,
// no duplicates of them, request and response pseudo-header fields not mixed, legal value octets).
// Deliberately conservative: anything unusual is "malformed" (which only widens the admissible set).
func MalformedList(l []h2wire.HF) string {
	seenRegular := false
	seen := map[string]bool{}
	req, resp := false, false
	for _, h := range l {
		if h.Name == "" {
			return "empty name"
		}
		for i := 0; i < len(h.Value); i++ {
			c := h.Value[i]
			if c < 0x20 && c != '\t' || c == 0x7f {
				return "control octet in value"
			}
		}
		if h.Name[0] == ':' {
			if seenRegular {
				return "pseudo-header after regular header"
			}
			switch h.Name {
			case ":method", ":path", ":scheme", ":authority", ":protocol":
				req = true
			case ":status":
				resp = true
			default:
				return "unknown pseudo-header"
			}
			if seen[h.Name] {
				return "duplicate pseudo-header"
			}
			seen[h.Name] = true
			continue
		}
		seenRegular = true
		for i := 0; i < len(h.Name); i++ {
			c := h.Name[i]
			ok := c >= 'a' && c <= 'z' || c >= '0' && c <= '9' || strings.IndexByte("!#$%&'*+-.^_`|~", c) >= 0
			if !ok {
				return "name is not a lower-case token"
			}
		}
	}
	if req && resp {
		return "request and response pseudo-headers mixed"
	}
	return ""
}
