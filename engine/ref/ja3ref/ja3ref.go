// Package ja3ref is the reference model for the JA3 clause of property C01,
// written from the property statement (and the Salesforce JA3 README it
// paraphrases): over a ClientHello parsed by verif/ref/chello,
//
//	JA3 string = version "," ciphers "," extension types "," supported groups "," ec point formats
//
// every number decimal, lists in wire order joined by "-", GREASE code points
// (RFC 8701) removed from the first three lists; the fingerprint is the
// lower-case hex MD5 of that string. Independent of pkg/ja3 and tlsx.
package ja3ref

import (
	"crypto/md5"
	"encoding/hex"
	"strconv"
	"strings"

	"verif/ref/chello"
)

func join16(vs []uint16, dropGREASE bool) string {
	var parts []string
	for _, v := range vs {
		if dropGREASE && chello.IsGREASE(v) {
			continue
		}
		parts = append(parts, strconv.Itoa(int(v)))
	}
	return strings.Join(parts, "-")
}

// Fields returns the five JA3 fields (version, ciphers, extensions, groups, points).
func Fields(p *chello.Parsed) [5]string {
	var pts []string
	for _, v := range p.Points {
		pts = append(pts, strconv.Itoa(int(v)))
	}
	return [5]string{
		strconv.Itoa(int(p.Version)),
		join16(p.Ciphers, true),
		join16(p.ExtTypes(), true),
		join16(p.Groups, true),
		strings.Join(pts, "-"),
	}
}

// FieldNames names the entries of Fields.
var FieldNames = [5]string{"version", "ciphers", "extensions", "groups", "points"}

// String is the JA3 string ("bare").
func String(p *chello.Parsed) string {
	f := Fields(p)
	return strings.Join(f[:], ",")
}

// Digest is the MD5 hex digest of s.
func Digest(s string) string {
	sum := md5.Sum([]byte(s))
	return hex.EncodeToString(sum[:])
}

// Admissible returns the set of admissible X-JA3-Fingerprint values for the
// hello. The statement determines the value completely, so the set is a
// singleton.
func Admissible(p *chello.Parsed) []string { return []string{Digest(String(p))} }
