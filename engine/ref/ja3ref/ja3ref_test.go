package ja3ref

import (
	"testing"

	"verif/ref/chello"
)

// The two examples of the Salesforce JA3 README with their published digests.
func TestReadmeExamples(t *testing.T) {
	h := &chello.Hello{Version: 769, Ciphers: []uint16{47, 53, 5, 10, 49161, 49162, 49171, 49172, 50, 56, 19, 4},
		Exts: []chello.Ext{chello.SNI("example.com"), chello.Groups(23, 24, 25), chello.PointFormats(0)}}
	p, err := chello.Parse(h.Record())
	if err != nil {
		t.Fatal(err)
	}
	if s := String(p); s != "769,47-53-5-10-49161-49162-49171-49172-50-56-19-4,0-10-11,23-24-25,0" {
		t.Errorf("string %q", s)
	}
	if d := Admissible(p)[0]; d != "ada70206e40642a3e4461f35503241d5" {
		t.Errorf("digest %s", d)
	}
	h = &chello.Hello{Version: 769, Ciphers: []uint16{4, 5, 10, 9, 100, 98, 3, 6, 19, 18, 99}, NoExtBlock: true}
	p, err = chello.Parse(h.Record())
	if err != nil {
		t.Fatal(err)
	}
	if s := String(p); s != "769,4-5-10-9-100-98-3-6-19-18-99,,," {
		t.Errorf("string %q", s)
	}
	if d := Admissible(p)[0]; d != "de350869b8c85de67a350c8d186f11e6" {
		t.Errorf("digest %s", d)
	}
	// GREASE removed from the first three lists only
	h = &chello.Hello{Version: 771, Ciphers: []uint16{0x0a0a, 4865, 0xfafa}, Exts: []chello.Ext{chello.Raw(0x2a2a), chello.Groups(0x3a3a, 29), chello.PointFormats(0, 10), chello.Raw(0xeaea, 0)}}
	p, _ = chello.Parse(h.Record())
	if s := String(p); s != "771,4865,10-11,29,0-10" {
		t.Errorf("string %q", s)
	}
}
