// Package h2wire is an independent HTTP/2 frame writer and parser (RFC 7540
// §4, §6), written from the RFC and sharing no code with pkg/http2's Framer.
// Header blocks are encoded/decoded with golang.org/x/net/http2/hpack from
// the module cache (not the in-repo copy).
package h2wire

import (
	"bytes"
	"encoding/binary"
	"fmt"

	"golang.org/x/net/http2/hpack"
)

const Preface = "PRI * HTTP/2.0\r\n\r\nSM\r\n\r\n"

const (
	TData         = 0
	THeaders      = 1
	TPriority     = 2
	TRSTStream    = 3
	TSettings     = 4
	TPushPromise  = 5
	TPing         = 6
	TGoAway       = 7
	TWindowUpdate = 8
	TContinuation = 9

	FEndStream  = 0x1
	FAck        = 0x1
	FEndHeaders = 0x4
	FPadded     = 0x8
	FPriority   = 0x20
)

var TypeNames = map[uint8]string{0: "DATA", 1: "HEADERS", 2: "PRIORITY", 3: "RST_STREAM", 4: "SETTINGS", 5: "PUSH_PROMISE", 6: "PING", 7: "GOAWAY", 8: "WINDOW_UPDATE", 9: "CONTINUATION"}

type Frame struct {
	Type    uint8
	Flags   uint8
	Stream  uint32
	Payload []byte
}

func (f Frame) String() string {
	n := TypeNames[f.Type]
	if n == "" {
		n = fmt.Sprintf("T%#x", f.Type)
	}
	return fmt.Sprintf("%s(s=%d f=%#x len=%d)", n, f.Stream, f.Flags, len(f.Payload))
}

// Raw appends a frame with arbitrary header fields (length is declared as given, not len(payload), if declLen>=0).
func Raw(dst []byte, declLen int, typ, flags uint8, stream uint32, payload []byte) []byte {
	l := len(payload)
	if declLen >= 0 {
		l = declLen
	}
	dst = append(dst, byte(l>>16), byte(l>>8), byte(l), typ, flags)
	dst = binary.BigEndian.AppendUint32(dst, stream)
	return append(dst, payload...)
}

func Append(dst []byte, typ, flags uint8, stream uint32, payload []byte) []byte {
	return Raw(dst, -1, typ, flags, stream, payload)
}

type Setting struct {
	ID  uint16
	Val uint32
}

func Settings(ss ...Setting) []byte {
	var p []byte
	for _, s := range ss {
		p = binary.BigEndian.AppendUint16(p, s.ID)
		p = binary.BigEndian.AppendUint32(p, s.Val)
	}
	return Append(nil, TSettings, 0, 0, p)
}

func SettingsAck() []byte { return Append(nil, TSettings, FAck, 0, nil) }

func WindowUpdate(stream, incr uint32) []byte {
	return Append(nil, TWindowUpdate, 0, stream, binary.BigEndian.AppendUint32(nil, incr))
}

type Prio struct {
	Dep    uint32
	Excl   bool
	Weight uint8
}

func (p Prio) bytes() []byte {
	d := p.Dep & 0x7fffffff
	if p.Excl {
		d |= 0x80000000
	}
	return append(binary.BigEndian.AppendUint32(nil, d), p.Weight)
}

func Priority(stream uint32, p Prio) []byte { return Append(nil, TPriority, 0, stream, p.bytes()) }

// Headers builds one HEADERS frame. prio may be nil. padLen<0 means not padded.
func Headers(stream uint32, block []byte, endStream, endHeaders bool, prio *Prio, padLen int) []byte {
	var fl uint8
	var p []byte
	if padLen >= 0 {
		fl |= FPadded
		p = append(p, byte(padLen))
	}
	if prio != nil {
		fl |= FPriority
		p = append(p, prio.bytes()...)
	}
	p = append(p, block...)
	if padLen > 0 {
		p = append(p, make([]byte, padLen)...)
	}
	if endStream {
		fl |= FEndStream
	}
	if endHeaders {
		fl |= FEndHeaders
	}
	return Append(nil, THeaders, fl, stream, p)
}

func Continuation(stream uint32, block []byte, endHeaders bool) []byte {
	var fl uint8
	if endHeaders {
		fl = FEndHeaders
	}
	return Append(nil, TContinuation, fl, stream, block)
}

func Data(stream uint32, data []byte, endStream bool, padLen int) []byte {
	var fl uint8
	var p []byte
	if padLen >= 0 {
		fl |= FPadded
		p = append(p, byte(padLen))
	}
	p = append(p, data...)
	if padLen > 0 {
		p = append(p, make([]byte, padLen)...)
	}
	if endStream {
		fl |= FEndStream
	}
	return Append(nil, TData, fl, stream, p)
}

func RST(stream, code uint32) []byte {
	return Append(nil, TRSTStream, 0, stream, binary.BigEndian.AppendUint32(nil, code))
}

func Ping(ack bool, data [8]byte) []byte {
	var fl uint8
	if ack {
		fl = FAck
	}
	return Append(nil, TPing, fl, 0, data[:])
}

func GoAway(last, code uint32, debug []byte) []byte {
	p := binary.BigEndian.AppendUint32(nil, last)
	p = binary.BigEndian.AppendUint32(p, code)
	return Append(nil, TGoAway, 0, 0, append(p, debug...))
}

// HF is a header field.
type HF struct{ Name, Value string }

// Encoder encodes header blocks with one HPACK dynamic table per connection.
type Encoder struct {
	buf bytes.Buffer
	enc *hpack.Encoder
}

func NewEncoder() *Encoder {
	e := &Encoder{}
	e.enc = hpack.NewEncoder(&e.buf)
	return e
}

func (e *Encoder) Block(fields ...HF) []byte {
	e.buf.Reset()
	for _, f := range fields {
		e.enc.WriteField(hpack.HeaderField{Name: f.Name, Value: f.Value})
	}
	return append([]byte(nil), e.buf.Bytes()...)
}

// Parser splits a byte stream into frames.
type Parser struct {
	buf []byte
}

func (p *Parser) Feed(b []byte) []Frame {
	p.buf = append(p.buf, b...)
	var out []Frame
	for len(p.buf) >= 9 {
		l := int(p.buf[0])<<16 | int(p.buf[1])<<8 | int(p.buf[2])
		if len(p.buf) < 9+l {
			break
		}
		f := Frame{Type: p.buf[3], Flags: p.buf[4], Stream: binary.BigEndian.Uint32(p.buf[5:9]) & 0x7fffffff}
		f.Payload = append([]byte(nil), p.buf[9:9+l]...)
		out = append(out, f)
		p.buf = p.buf[9+l:]
	}
	return out
}

// Pending is the number of bytes of an incomplete frame.
func (p *Parser) Pending() int { return len(p.buf) }

// Accessors for parsed frames.

func (f Frame) U32(off int) uint32 {
	if len(f.Payload) < off+4 {
		return 0
	}
	return binary.BigEndian.Uint32(f.Payload[off:])
}

// RSTCode returns the error code of an RST_STREAM frame.
func (f Frame) RSTCode() uint32 { return f.U32(0) }

// GoAwayFields returns last-stream-id and error code.
func (f Frame) GoAwayFields() (uint32, uint32) { return f.U32(0) & 0x7fffffff, f.U32(4) }

// WindowIncrement returns the increment of a WINDOW_UPDATE.
func (f Frame) WindowIncrement() uint32 { return f.U32(0) & 0x7fffffff }

// SettingsList parses a SETTINGS payload.
func (f Frame) SettingsList() []Setting {
	var out []Setting
	for i := 0; i+6 <= len(f.Payload); i += 6 {
		out = append(out, Setting{binary.BigEndian.Uint16(f.Payload[i:]), binary.BigEndian.Uint32(f.Payload[i+2:])})
	}
	return out
}

// DataBody returns the data of a DATA frame without padding, and the flow-controlled length.
func (f Frame) DataBody() ([]byte, int) {
	p := f.Payload
	if f.Flags&FPadded != 0 && len(p) > 0 {
		pl := int(p[0])
		p = p[1:]
		if pl <= len(p) {
			p = p[:len(p)-pl]
		}
	}
	return p, len(f.Payload)
}

// HeaderBlockFragment returns the block fragment of HEADERS / CONTINUATION / PUSH_PROMISE.
func (f Frame) HeaderBlockFragment() []byte {
	p := f.Payload
	if f.Type == TContinuation {
		return p
	}
	pl := 0
	if f.Flags&FPadded != 0 && len(p) > 0 {
		pl = int(p[0])
		p = p[1:]
	}
	if f.Type == THeaders && f.Flags&FPriority != 0 && len(p) >= 5 {
		p = p[5:]
	}
	if pl <= len(p) {
		p = p[:len(p)-pl]
	}
	return p
}

// Decoder decodes header blocks sent by the server.
type Decoder struct{ dec *hpack.Decoder }

func NewDecoder() *Decoder { return &Decoder{dec: hpack.NewDecoder(4096, nil)} }

// NewDecoderSize returns a decoder whose dynamic table is limited to n bytes (what a client that advertised
// SETTINGS_HEADER_TABLE_SIZE = n uses).
func NewDecoderSize(n uint32) *Decoder { return &Decoder{dec: hpack.NewDecoder(n, nil)} }

func (d *Decoder) Decode(block []byte) ([]HF, error) {
	fs, err := d.dec.DecodeFull(block)
	var out []HF
	for _, f := range fs {
		out = append(out, HF{f.Name, f.Value})
	}
	return out, err
}
