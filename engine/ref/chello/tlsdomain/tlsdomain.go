// Package tlsdomain decides domain membership of a synthesized ClientHello
// record with the REAL TLS stack (DESIGN §3 rule 1): the record is fed to a
// crypto/tls server over an in-memory connection.
//
//	Accepted(rec)    : the server parsed the hello and reached its
//	                   GetConfigForClient callback (the callback aborts the
//	                   handshake, so the call costs only the parse);
//	ServerHello(rec) : stricter, used to qualify witnesses: a server with a
//	                   permissive configuration (TLS 1.0-1.3, every cipher suite
//	                   crypto/tls implements, ECDSA + RSA certificates, ALPN
//	                   h2/http/1.1 like fingerproxy) negotiated parameters and
//	                   answered with a ServerHello (or HelloRetryRequest) rather
//	                   than an alert — i.e. nothing in the hello prevents the
//	                   handshake from completing with a client that holds the
//	                   matching secrets.
//
// Nothing is cached: every call runs the real parser on the given bytes.
package tlsdomain

import (
	"bytes"
	"crypto/ecdsa"
	"crypto/elliptic"
	"crypto/rand"
	"crypto/rsa"
	"crypto/tls"
	"crypto/x509"
	"crypto/x509/pkix"
	"errors"
	"io"
	"math/big"
	"net"
	"sync"
	"time"
)

// feedConn is an in-memory net.Conn: reads deliver the given bytes then EOF,
// writes are recorded. Nothing blocks, so a handshake runs synchronously.
type feedConn struct {
	r     *bytes.Reader
	wrote []byte
}

type addr struct{}

func (addr) Network() string { return "mem" }
func (addr) String() string  { return "mem" }

func (c *feedConn) Read(b []byte) (int, error) {
	if c.r.Len() == 0 {
		return 0, io.EOF
	}
	return c.r.Read(b)
}
func (c *feedConn) Write(b []byte) (int, error) {
	if len(c.wrote) < 1<<16 {
		c.wrote = append(c.wrote, b...)
	}
	return len(b), nil
}
func (c *feedConn) Close() error                     { return nil }
func (c *feedConn) LocalAddr() net.Addr              { return addr{} }
func (c *feedConn) RemoteAddr() net.Addr             { return addr{} }
func (c *feedConn) SetDeadline(time.Time) error      { return nil }
func (c *feedConn) SetReadDeadline(time.Time) error  { return nil }
func (c *feedConn) SetWriteDeadline(time.Time) error { return nil }

var errAbort = errors.New("tlsdomain: hello accepted, handshake aborted on purpose")

// Accepted reports whether crypto/tls accepts rec as a ClientHello: the server
// reaches GetConfigForClient.
func Accepted(rec []byte) bool {
	reached := false
	cfg := &tls.Config{GetConfigForClient: func(*tls.ClientHelloInfo) (*tls.Config, error) {
		reached = true
		return nil, errAbort
	}}
	_ = tls.Server(&feedConn{r: bytes.NewReader(rec)}, cfg).Handshake()
	return reached
}

var (
	once sync.Once
	full *tls.Config
)

func selfSigned(key any, pub any) tls.Certificate {
	tmpl := &x509.Certificate{
		SerialNumber: big.NewInt(7),
		Subject:      pkix.Name{CommonName: "localhost"},
		NotBefore:    time.Date(1999, 1, 1, 0, 0, 0, 0, time.UTC),
		NotAfter:     time.Date(2100, 1, 1, 0, 0, 0, 0, time.UTC),
		KeyUsage:     x509.KeyUsageDigitalSignature | x509.KeyUsageKeyEncipherment,
		ExtKeyUsage:  []x509.ExtKeyUsage{x509.ExtKeyUsageServerAuth},
		DNSNames:     []string{"localhost"},
	}
	der, err := x509.CreateCertificate(rand.Reader, tmpl, tmpl, pub, key)
	if err != nil {
		panic(err)
	}
	return tls.Certificate{Certificate: [][]byte{der}, PrivateKey: key}
}

func fullConfig() *tls.Config {
	once.Do(func() {
		ek, err := ecdsa.GenerateKey(elliptic.P256(), rand.Reader)
		if err != nil {
			panic(err)
		}
		rk, err := rsa.GenerateKey(rand.Reader, 2048)
		if err != nil {
			panic(err)
		}
		var suites []uint16
		for _, s := range tls.CipherSuites() {
			suites = append(suites, s.ID)
		}
		for _, s := range tls.InsecureCipherSuites() {
			suites = append(suites, s.ID)
		}
		full = &tls.Config{
			Certificates: []tls.Certificate{selfSigned(ek, &ek.PublicKey), selfSigned(rk, &rk.PublicKey)},
			MinVersion:   tls.VersionTLS10,
			MaxVersion:   tls.VersionTLS13,
			CipherSuites: suites,
			NextProtos:   []string{"h2", "http/1.1"},
		}
		// pick the certificate by key type only: the synthesized hellos carry arbitrary server names
		full.GetCertificate = func(chi *tls.ClientHelloInfo) (*tls.Certificate, error) {
			anon := *chi
			anon.ServerName = ""
			for i := range full.Certificates {
				if anon.SupportsCertificate(&full.Certificates[i]) == nil {
					return &full.Certificates[i], nil
				}
			}
			return &full.Certificates[0], nil
		}
	})
	return full
}

// ServerHello reports whether a permissively configured crypto/tls server
// answers rec with a ServerHello / HelloRetryRequest (first record written is a
// handshake record whose first message has type 2) instead of an alert.
func ServerHello(rec []byte) bool {
	base := fullConfig()
	reached := false
	cfg := base.Clone()
	cfg.GetConfigForClient = func(*tls.ClientHelloInfo) (*tls.Config, error) { reached = true; return nil, nil }
	c := &feedConn{r: bytes.NewReader(rec)}
	_ = tls.Server(c, cfg).Handshake()
	w := c.wrote
	return reached && len(w) >= 6 && w[0] == 22 && w[5] == 2
}
