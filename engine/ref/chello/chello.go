// Package chello is a TLS ClientHello builder and an independent, from-scratch
// ClientHello parser (record -> handshake -> lists -> extensions with bodies).
//
// It is a reference model: it is written from RFC 5246 §7.4.1.2, RFC 8446
// §4.1.2 / §4.2 and RFC 6066 / 7301 / 8422 only and shares no code with tlsx,
// utls or crypto/tls (no imports besides errors/fmt).
//
// Wire format (RFC 8446 §5.1, §4, §4.1.2):
//
//	record    : type(1)=22 | legacy_record_version(2) | length(2) | fragment
//	handshake : msg_type(1)=1 | length(3) | body
//	body      : legacy_version(2) | random(32) | session_id<0..32> (u8 len)
//	            | cipher_suites<2..2^16-2> (u16 len) | compression<1..2^8-1> (u8 len)
//	            | [ extensions<..> (u16 len) : { type(2) | data<..> (u16 len) }* ]
package chello

import (
	"errors"
	"fmt"
)

// Extension type numbers used by the builder helpers and the parser.
const (
	ExtSNI               uint16 = 0
	ExtStatusRequest     uint16 = 5
	ExtSupportedGroups   uint16 = 10
	ExtECPointFormats    uint16 = 11
	ExtSignatureAlgs     uint16 = 13
	ExtALPN              uint16 = 16
	ExtSCT               uint16 = 18
	ExtPadding           uint16 = 21
	ExtEMS               uint16 = 23
	ExtCompressCert      uint16 = 27
	ExtRecordSizeLimit   uint16 = 28
	ExtSessionTicket     uint16 = 35
	ExtPreSharedKey      uint16 = 41
	ExtSupportedVersions uint16 = 43
	ExtPSKModes          uint16 = 45
	ExtSigAlgsCert       uint16 = 50
	ExtKeyShare          uint16 = 51
	ExtALPS              uint16 = 17513
	ExtRenegotiationInfo uint16 = 0xff01
)

// IsGREASE reports whether v is one of the 16 GREASE code points of RFC 8701
// (0x0A0A, 0x1A1A, ... 0xFAFA): both bytes equal, low nibble 0xA.
func IsGREASE(v uint16) bool {
	hi, lo := byte(v>>8), byte(v)
	return hi == lo && lo&0x0f == 0x0a
}

// Ext is one extension as it appears on the wire.
type Ext struct {
	Type uint16
	Body []byte
}

// Hello describes a ClientHello to build. Zero values give a minimal hello:
// record version 0x0301, no session id, compression {0}.
type Hello struct {
	RecordVersion uint16 // 0 -> 0x0301
	Version       uint16 // legacy_version (client_version)
	Random        [32]byte
	SessionID     []byte
	Ciphers       []uint16
	Compression   []byte // nil -> {0}
	NoExtBlock    bool   // true: the hello ends after compression methods (no extensions field at all)
	Exts          []Ext
}

func u16(b []byte, v int) []byte { return append(b, byte(v>>8), byte(v)) }

// Message returns the handshake message (type, 3-byte length, body).
func (h *Hello) Message() []byte {
	body := make([]byte, 0, 256)
	body = u16(body, int(h.Version))
	body = append(body, h.Random[:]...)
	body = append(body, byte(len(h.SessionID)))
	body = append(body, h.SessionID...)
	body = u16(body, 2*len(h.Ciphers))
	for _, c := range h.Ciphers {
		body = u16(body, int(c))
	}
	comp := h.Compression
	if comp == nil {
		comp = []byte{0}
	}
	body = append(body, byte(len(comp)))
	body = append(body, comp...)
	if !h.NoExtBlock {
		n := 0
		for _, e := range h.Exts {
			n += 4 + len(e.Body)
		}
		body = u16(body, n)
		for _, e := range h.Exts {
			body = u16(body, int(e.Type))
			body = u16(body, len(e.Body))
			body = append(body, e.Body...)
		}
	}
	msg := make([]byte, 0, len(body)+4)
	msg = append(msg, 1, byte(len(body)>>16), byte(len(body)>>8), byte(len(body)))
	return append(msg, body...)
}

// Record returns the hello wrapped in one TLS record. It panics if the
// message does not fit a record (2^14 bytes): the unit of capture of the code
// under test is the first record, so larger hellos are outside every alphabet.
func (h *Hello) Record() []byte {
	msg := h.Message()
	if len(msg) > 1<<14 {
		panic(fmt.Sprintf("chello: hello of %d bytes does not fit one record", len(msg)))
	}
	rv := h.RecordVersion
	if rv == 0 {
		rv = 0x0301
	}
	rec := make([]byte, 0, len(msg)+5)
	rec = append(rec, 22, byte(rv>>8), byte(rv))
	rec = u16(rec, len(msg))
	return append(rec, msg...)
}

// ---- extension body builders (valid bodies per the defining RFC) -----------

// SNI: RFC 6066 §3: ServerNameList<1..2^16-1> of { name_type(1)=0 | HostName<1..2^16-1> }.
func SNI(host string) Ext {
	b := u16(nil, 3+len(host))
	b = append(b, 0)
	b = u16(b, len(host))
	return Ext{ExtSNI, append(b, host...)}
}

// ALPN: RFC 7301 §3.1: ProtocolNameList<2..2^16-1> of ProtocolName<1..2^8-1>.
func ALPN(protos ...string) Ext { return Ext{ExtALPN, protoList(protos)} }

// ALPS (draft-vvv-tls-alps): same shape as ALPN.
func ALPS(protos ...string) Ext { return Ext{ExtALPS, protoList(protos)} }

func protoList(protos []string) []byte {
	n := 0
	for _, p := range protos {
		n += 1 + len(p)
	}
	b := u16(nil, n)
	for _, p := range protos {
		b = append(b, byte(len(p)))
		b = append(b, p...)
	}
	return b
}

func u16list16(vs []uint16) []byte { // u16 length prefix + u16 items
	b := u16(nil, 2*len(vs))
	for _, v := range vs {
		b = u16(b, int(v))
	}
	return b
}

// SupportedVersions: RFC 8446 §4.2.1: versions<2..254> (u8 length).
func SupportedVersions(vs ...uint16) Ext {
	b := []byte{byte(2 * len(vs))}
	for _, v := range vs {
		b = u16(b, int(v))
	}
	return Ext{ExtSupportedVersions, b}
}

// SigAlgs: RFC 8446 §4.2.3: supported_signature_algorithms<2..2^16-2>.
func SigAlgs(a ...uint16) Ext { return Ext{ExtSignatureAlgs, u16list16(a)} }

// SigAlgsCert: RFC 8446 §4.2.3 (signature_algorithms_cert), same shape.
func SigAlgsCert(a ...uint16) Ext { return Ext{ExtSigAlgsCert, u16list16(a)} }

// Groups: RFC 8422 §5.1.1 / RFC 8446 §4.2.7: named_group_list<2..2^16-1>.
func Groups(g ...uint16) Ext { return Ext{ExtSupportedGroups, u16list16(g)} }

// PointFormats: RFC 8422 §5.1.2: ec_point_format_list<1..2^8-1>.
func PointFormats(p ...uint8) Ext {
	return Ext{ExtECPointFormats, append([]byte{byte(len(p))}, p...)}
}

// KS is one KeyShareEntry.
type KS struct {
	Group uint16
	Data  []byte
}

// KeyShare: RFC 8446 §4.2.8: client_shares<0..2^16-1> of { group(2) | key_exchange<1..2^16-1> }.
func KeyShare(es ...KS) Ext {
	var in []byte
	for _, e := range es {
		in = u16(in, int(e.Group))
		in = u16(in, len(e.Data))
		in = append(in, e.Data...)
	}
	return Ext{ExtKeyShare, append(u16(nil, len(in)), in...)}
}

// PSKModes: RFC 8446 §4.2.9: ke_modes<1..255>.
func PSKModes(m ...uint8) Ext { return Ext{ExtPSKModes, append([]byte{byte(len(m))}, m...)} }

// Padding: RFC 7685: n zero bytes.
func Padding(n int) Ext { return Ext{ExtPadding, make([]byte, n)} }

// StatusRequest: RFC 6066 §8: status_type(1)=ocsp | responder_id_list<0..2^16-1> | request_extensions<0..2^16-1>.
func StatusRequest() Ext { return Ext{ExtStatusRequest, []byte{1, 0, 0, 0, 0}} }

// EMS: RFC 7627: empty.
func EMS() Ext { return Ext{ExtEMS, nil} }

// SCT: RFC 6962 §3.3.1: empty in a ClientHello.
func SCT() Ext { return Ext{ExtSCT, nil} }

// SessionTicket: RFC 5077 §3.2: opaque ticket (may be empty).
func SessionTicket(ticket []byte) Ext { return Ext{ExtSessionTicket, ticket} }

// RenegotiationInfo: RFC 5746 §3.2: renegotiated_connection<0..255> (empty on an initial handshake).
func RenegotiationInfo() Ext { return Ext{ExtRenegotiationInfo, []byte{0}} }

// CompressCert: RFC 8879 §3: algorithms<2..2^8-2> (u8 length, u16 items).
func CompressCert(algs ...uint16) Ext {
	b := []byte{byte(2 * len(algs))}
	for _, a := range algs {
		b = u16(b, int(a))
	}
	return Ext{ExtCompressCert, b}
}

// RecordSizeLimit: RFC 8449 §4: uint16.
func RecordSizeLimit(n uint16) Ext { return Ext{ExtRecordSizeLimit, u16(nil, int(n))} }

// PreSharedKey: RFC 8446 §4.2.11: identities<7..2^16-1> of { identity<1..2^16-1> | obfuscated_ticket_age(4) },
// binders<33..2^16-1> of PskBinderEntry<32..255>. Must be the last extension.
func PreSharedKey(identity []byte, age uint32, binder []byte) Ext {
	id := u16(nil, len(identity))
	id = append(id, identity...)
	id = append(id, byte(age>>24), byte(age>>16), byte(age>>8), byte(age))
	b := u16(nil, len(id))
	b = append(b, id...)
	bd := append([]byte{byte(len(binder))}, binder...)
	b = u16(b, len(bd))
	return Ext{ExtPreSharedKey, append(b, bd...)}
}

// Raw is an extension with an arbitrary body.
func Raw(typ uint16, body ...byte) Ext { return Ext{typ, body} }

// ---- parser ---------------------------------------------------------------

// Parsed is the result of parsing one record that contains one complete
// ClientHello. Lists are in wire order, nothing is filtered.
type Parsed struct {
	RecordVersion uint16
	Version       uint16 // legacy_version of the hello
	SessionID     []byte
	Ciphers       []uint16
	Compression   []byte
	HasExtBlock   bool
	Exts          []Ext // every extension, wire order, bodies aliased into the input

	HasSNI     bool   // server_name extension present
	SNIListLen int    // value of the ServerNameList length field
	SNIHost    string // first host_name entry ("" if none)

	HasALPN bool
	ALPN    []string

	HasSupportedVersions bool
	SupportedVersions    []uint16

	HasSigAlgs bool
	SigAlgs    []uint16

	HasGroups bool
	Groups    []uint16

	HasPoints bool
	Points    []uint8
}

// ExtTypes returns the extension types in wire order.
func (p *Parsed) ExtTypes() []uint16 {
	r := make([]uint16, len(p.Exts))
	for i, e := range p.Exts {
		r[i] = e.Type
	}
	return r
}

type rd struct {
	b   []byte
	err error
}

func (r *rd) take(n int, what string) []byte {
	if r.err != nil {
		return nil
	}
	if n < 0 || len(r.b) < n {
		r.err = fmt.Errorf("chello: short %s: need %d have %d", what, n, len(r.b))
		return nil
	}
	v := r.b[:n]
	r.b = r.b[n:]
	return v
}
func (r *rd) u8(what string) int {
	v := r.take(1, what)
	if v == nil {
		return 0
	}
	return int(v[0])
}
func (r *rd) u16(what string) int {
	v := r.take(2, what)
	if v == nil {
		return 0
	}
	return int(v[0])<<8 | int(v[1])
}
func (r *rd) u24(what string) int {
	v := r.take(3, what)
	if v == nil {
		return 0
	}
	return int(v[0])<<16 | int(v[1])<<8 | int(v[2])
}
func (r *rd) vec8(what string) *rd {
	n := r.u8(what + " length")
	b := r.take(n, what)
	return &rd{b: b, err: r.err}
}
func (r *rd) vec16(what string) *rd {
	n := r.u16(what + " length")
	b := r.take(n, what)
	return &rd{b: b, err: r.err}
}
func (r *rd) empty() bool { return len(r.b) == 0 }

func u16items(r *rd, what string) ([]uint16, error) {
	if r.err != nil {
		return nil, r.err
	}
	if len(r.b)%2 != 0 {
		return nil, fmt.Errorf("chello: odd %s length %d", what, len(r.b))
	}
	out := make([]uint16, 0, len(r.b)/2)
	for i := 0; i+1 < len(r.b); i += 2 {
		out = append(out, uint16(r.b[i])<<8|uint16(r.b[i+1]))
	}
	return out, nil
}

// Parse parses a record holding exactly one complete ClientHello. It is
// strict: every length field must be consistent and nothing may trail. The
// bodies of the extensions this package interprets (server_name, ALPN,
// supported_versions, signature_algorithms, supported_groups,
// ec_point_formats) must be well-formed; other bodies are kept opaque.
func Parse(rec []byte) (*Parsed, error) {
	r := &rd{b: rec}
	if r.u8("record type") != 22 && r.err == nil {
		return nil, errors.New("chello: not a handshake record")
	}
	p := &Parsed{}
	p.RecordVersion = uint16(r.u16("record version"))
	frag := r.vec16("record fragment")
	if r.err != nil {
		return nil, r.err
	}
	if !r.empty() {
		return nil, errors.New("chello: bytes after the record")
	}
	if frag.u8("handshake type") != 1 && frag.err == nil {
		return nil, errors.New("chello: not a ClientHello")
	}
	n := frag.u24("handshake length")
	hb := frag.take(n, "handshake body")
	h := &rd{b: hb}
	if frag.err != nil {
		return nil, frag.err
	}
	if !frag.empty() {
		return nil, errors.New("chello: bytes after the ClientHello inside the record")
	}
	p.Version = uint16(h.u16("legacy_version"))
	h.take(32, "random")
	sid := h.vec8("session_id")
	p.SessionID = sid.b
	cs := h.vec16("cipher_suites")
	var err error
	if p.Ciphers, err = u16items(cs, "cipher_suites"); err != nil {
		return nil, err
	}
	cm := h.vec8("compression_methods")
	p.Compression = cm.b
	if h.err != nil {
		return nil, h.err
	}
	if h.empty() {
		return p, nil // no extensions field
	}
	p.HasExtBlock = true
	xs := h.vec16("extensions")
	if h.err != nil {
		return nil, h.err
	}
	if !h.empty() {
		return nil, errors.New("chello: bytes after the extensions block")
	}
	for !xs.empty() {
		typ := uint16(xs.u16("extension type"))
		body := xs.vec16("extension body")
		if xs.err != nil {
			return nil, xs.err
		}
		p.Exts = append(p.Exts, Ext{typ, body.b})
		if err := p.interpret(typ, &rd{b: body.b}); err != nil {
			return nil, err
		}
	}
	return p, nil
}

func (p *Parsed) interpret(typ uint16, b *rd) error {
	switch typ {
	case ExtSNI:
		l := b.u16("server_name_list length")
		lb := b.take(l, "server_name_list")
		list := &rd{b: lb}
		if b.err != nil {
			return b.err
		}
		if !b.empty() {
			return errors.New("chello: bytes after server_name_list")
		}
		p.HasSNI, p.SNIListLen = true, l
		seenHost := false
		for !list.empty() {
			nt := list.u8("name_type")
			name := list.vec16("server name")
			if list.err != nil {
				return list.err
			}
			if nt == 0 && !seenHost {
				p.SNIHost, seenHost = string(name.b), true
			}
		}
	case ExtALPN:
		list := b.vec16("protocol_name_list")
		if b.err != nil {
			return b.err
		}
		if !b.empty() {
			return errors.New("chello: bytes after protocol_name_list")
		}
		p.HasALPN = true
		for !list.empty() {
			n := list.vec8("protocol name")
			if list.err != nil {
				return list.err
			}
			p.ALPN = append(p.ALPN, string(n.b))
		}
	case ExtSupportedVersions:
		list := b.vec8("supported_versions")
		if b.err != nil {
			return b.err
		}
		if !b.empty() {
			return errors.New("chello: bytes after supported_versions")
		}
		v, err := u16items(list, "supported_versions")
		if err != nil {
			return err
		}
		p.HasSupportedVersions, p.SupportedVersions = true, v
	case ExtSignatureAlgs:
		list := b.vec16("signature_algorithms")
		if b.err != nil {
			return b.err
		}
		if !b.empty() {
			return errors.New("chello: bytes after signature_algorithms")
		}
		v, err := u16items(list, "signature_algorithms")
		if err != nil {
			return err
		}
		p.HasSigAlgs, p.SigAlgs = true, v
	case ExtSupportedGroups:
		list := b.vec16("named_group_list")
		if b.err != nil {
			return b.err
		}
		if !b.empty() {
			return errors.New("chello: bytes after named_group_list")
		}
		v, err := u16items(list, "named_group_list")
		if err != nil {
			return err
		}
		p.HasGroups, p.Groups = true, v
	case ExtECPointFormats:
		list := b.vec8("ec_point_format_list")
		if b.err != nil {
			return b.err
		}
		if !b.empty() {
			return errors.New("chello: bytes after ec_point_format_list")
		}
		p.HasPoints, p.Points = true, append([]uint8(nil), list.b...)
	}
	return nil
}
