// Package seqs has the boring enumerators shared by checks C01 and C02:
// all sequences over a finite alphabet up to a length, all permutations.
// Order is deterministic: by length, then lexicographic in alphabet index.
package seqs

// All calls f with every sequence of length 0..maxLen over alphabet indices
// 0..n-1. With dupFree no index occurs twice. The slice passed to f is reused.
func All(n, maxLen int, dupFree bool, f func(idx []int)) {
	for l := 0; l <= maxLen; l++ {
		cur := make([]int, l)
		used := make([]bool, n)
		var rec func(pos int)
		rec = func(pos int) {
			if pos == l {
				f(cur)
				return
			}
			for i := 0; i < n; i++ {
				if dupFree && used[i] {
					continue
				}
				used[i] = true
				cur[pos] = i
				rec(pos + 1)
				used[i] = false
			}
		}
		if dupFree && l > n {
			return
		}
		rec(0)
	}
}

// U16 maps index sequences to uint16 sequences over alphabet a and collects them.
func U16(a []uint16, minLen, maxLen int, dupFree bool) [][]uint16 {
	var out [][]uint16
	All(len(a), maxLen, dupFree, func(idx []int) {
		if len(idx) < minLen {
			return
		}
		s := make([]uint16, len(idx))
		for i, x := range idx {
			s[i] = a[x]
		}
		out = append(out, s)
	})
	return out
}

// U8 is U16 for bytes.
func U8(a []uint8, minLen, maxLen int, dupFree bool) [][]uint8 {
	var out [][]uint8
	All(len(a), maxLen, dupFree, func(idx []int) {
		if len(idx) < minLen {
			return
		}
		s := make([]uint8, len(idx))
		for i, x := range idx {
			s[i] = a[x]
		}
		out = append(out, s)
	})
	return out
}

// Perms calls f with every permutation of 0..n-1 (lexicographic; identity first).
func Perms(n int, f func(p []int)) {
	All(n, n, true, func(idx []int) {
		if len(idx) == n {
			f(idx)
		}
	})
}
