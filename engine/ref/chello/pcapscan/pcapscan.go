// Package pcapscan extracts candidate TLS ClientHello records from capture
// files WITHOUT a pcap library: it scans the raw bytes for
//
//	16 03 0x LL LL 01 HH HH HH   with LL LL == HH HH HH + 4
//
// and returns every such window that verif/ref/chello parses strictly (all
// length fields consistent, nothing trailing). A hello split over several
// packets is interleaved with packet headers in the file and fails the strict
// parse, so it is simply not returned. The records are only extra SEEDS for
// checks C01/C02; whether one is in the domain is decided afterwards by the
// real TLS stack.
package pcapscan

import (
	"os"
	"path/filepath"
	"sort"

	"verif/ref/chello"
)

// Hello is one extracted record.
type Hello struct {
	File   string
	Offset int
	Record []byte
}

// Scan returns the ClientHello records found in data.
func Scan(data []byte) (out [][]byte, offs []int) {
	for i := 0; i+9 <= len(data); i++ {
		if data[i] != 22 || data[i+1] != 3 || data[i+2] > 4 || data[i+5] != 1 {
			continue
		}
		rl := int(data[i+3])<<8 | int(data[i+4])
		hl := int(data[i+6])<<16 | int(data[i+7])<<8 | int(data[i+8])
		if rl != hl+4 || i+5+rl > len(data) {
			continue
		}
		rec := data[i : i+5+rl]
		if _, err := chello.Parse(rec); err != nil {
			continue
		}
		out = append(out, append([]byte(nil), rec...))
		offs = append(offs, i)
		i += 5 + rl - 1
	}
	return
}

// Dir scans every regular file of dir (sorted by name).
func Dir(dir string) ([]Hello, error) {
	ents, err := os.ReadDir(dir)
	if err != nil {
		return nil, err
	}
	var names []string
	for _, e := range ents {
		if !e.IsDir() {
			names = append(names, e.Name())
		}
	}
	sort.Strings(names)
	var hs []Hello
	for _, n := range names {
		b, err := os.ReadFile(filepath.Join(dir, n))
		if err != nil {
			return nil, err
		}
		recs, offs := Scan(b)
		for i, r := range recs {
			hs = append(hs, Hello{File: n, Offset: offs[i], Record: r})
		}
	}
	return hs, nil
}
