package certenv

import (
	"crypto/ecdsa"
	"crypto/elliptic"
	"crypto/rand"
	"crypto/x509"
	"crypto/x509/pkix"
	"encoding/pem"
	"fmt"
	"math/big"
	"os"
	"path/filepath"
	"time"
)

// Material holds the PEM encodings of the key-pair generations 1..N.
type Material struct {
	CertPEM, KeyPEM [][]byte // index = generation (0 unused)
	CertDER         [][]byte
	Keys            []*ecdsa.PrivateKey
	ChainDER        [][][]byte // chain material only: the DER certificates of generation g's certificate file, leaf first
}

// NewChainMaterial creates n "generations" that share ONE leaf certificate and ONE key and differ only in the rest of
// the certificate file: generation 1 is the leaf alone, generation g > 1 is the leaf followed by g-1 further
// certificates (intermediates of its own). An update from one to another changes what a client is sent without
// changing the leaf or the key.
func NewChainMaterial(n int) *Material {
	base := NewMaterial(1)
	m := &Material{CertPEM: make([][]byte, n+1), KeyPEM: make([][]byte, n+1), CertDER: make([][]byte, n+1), Keys: make([]*ecdsa.PrivateKey, n+1), ChainDER: make([][][]byte, n+1)}
	for g := 1; g <= n; g++ {
		m.KeyPEM[g], m.Keys[g], m.CertDER[g] = base.KeyPEM[1], base.Keys[1], base.CertDER[1]
		m.ChainDER[g] = [][]byte{base.CertDER[1]}
		m.CertPEM[g] = append([]byte{}, base.CertPEM[1]...)
		for i := 1; i < g; i++ {
			extra := NewMaterial(1) // a self-signed certificate of its own stands in for an intermediate
			m.ChainDER[g] = append(m.ChainDER[g], extra.CertDER[1])
			m.CertPEM[g] = append(m.CertPEM[g], extra.CertPEM[1]...)
		}
	}
	return m
}

// NewMaterial creates n self-signed ECDSA P-256 certificates "gen-1".."gen-n". gen-1 (the pair the proxy starts with)
// is valid for a century; the later generations are a pair that has expired (even ones) and a pair that is not valid
// yet (odd ones): both are matching pairs like any other - what the proxy presents is what is on disk, whether a
// client will like its dates is not the proxy's call.
func NewMaterial(n int) *Material {
	m := &Material{CertPEM: make([][]byte, n+1), KeyPEM: make([][]byte, n+1), CertDER: make([][]byte, n+1), Keys: make([]*ecdsa.PrivateKey, n+1)}
	for g := 1; g <= n; g++ {
		key, err := ecdsa.GenerateKey(elliptic.P256(), rand.Reader)
		if err != nil {
			panic(err)
		}
		tmpl := &x509.Certificate{
			SerialNumber: big.NewInt(int64(g)),
			Subject:      pkix.Name{CommonName: fmt.Sprintf("gen-%d", g)},
			NotBefore:    notBefore(g),
			NotAfter:     notAfter(g),
			KeyUsage:     x509.KeyUsageDigitalSignature | x509.KeyUsageKeyEncipherment,
			ExtKeyUsage:  []x509.ExtKeyUsage{x509.ExtKeyUsageServerAuth},
			DNSNames:     []string{"localhost"},
		}
		der, err := x509.CreateCertificate(rand.Reader, tmpl, tmpl, &key.PublicKey, key)
		if err != nil {
			panic(err)
		}
		kb, err := x509.MarshalECPrivateKey(key)
		if err != nil {
			panic(err)
		}
		m.CertDER[g] = der
		m.Keys[g] = key
		m.CertPEM[g] = pem.EncodeToMemory(&pem.Block{Type: "CERTIFICATE", Bytes: der})
		m.KeyPEM[g] = pem.EncodeToMemory(&pem.Block{Type: "EC PRIVATE KEY", Bytes: kb})
	}
	return m
}

func notBefore(g int) time.Time {
	switch {
	case g == 1:
		return time.Date(1999, 1, 1, 0, 0, 0, 0, time.UTC)
	case g%2 == 0:
		return time.Date(1990, 1, 1, 0, 0, 0, 0, time.UTC)
	}
	return time.Date(2200, 1, 1, 0, 0, 0, 0, time.UTC)
}

func notAfter(g int) time.Time {
	switch {
	case g == 1:
		return time.Date(2100, 1, 1, 0, 0, 0, 0, time.UTC)
	case g%2 == 0:
		return time.Date(1995, 1, 1, 0, 0, 0, 0, time.UTC)
	}
	return time.Date(2300, 1, 1, 0, 0, 0, 0, time.UTC)
}

// Bytes is the file content for a model content.
func (m *Material) Bytes(f File, c Content) []byte {
	full := func() []byte {
		if f == Cert {
			return m.CertPEM[c.Gen]
		}
		return m.KeyPEM[c.Gen]
	}
	switch c.Kind {
	case Full:
		return full()
	case Half:
		b := full()
		return b[:len(b)/2]
	case Garbage:
		return []byte("this is not PEM\n")
	}
	return nil
}

// Disk performs the update steps on a real directory.
type Disk struct {
	Base   string
	Layout Layout
	Mat    *Material
	serial int
}

const (
	certName = "tls.crt"
	keyName  = "tls.key"
)

func fname(f File) string {
	if f == Cert {
		return certName
	}
	return keyName
}

// NewDisk creates the layout under base (which must exist and be empty) holding generation 1.
func NewDisk(base string, l Layout, mat *Material) (*Disk, error) {
	d := &Disk{Base: base, Layout: l, Mat: mat, serial: 1}
	if l == Plain {
		for _, f := range []File{Cert, Key} {
			if err := os.WriteFile(d.Path(f), mat.Bytes(f, Content{Full, 1}), 0o600); err != nil {
				return nil, err
			}
		}
		return d, nil
	}
	if err := d.mkGen(1, 1); err != nil {
		return nil, err
	}
	if err := os.Symlink(genDir(1), filepath.Join(base, "..data")); err != nil {
		return nil, err
	}
	for _, f := range []File{Cert, Key} {
		if err := os.Symlink(filepath.Join("..data", fname(f)), d.Path(f)); err != nil {
			return nil, err
		}
	}
	return d, nil
}

func genDir(serial int) string { return fmt.Sprintf("..gen_%d", serial) }

func (d *Disk) mkGen(serial, g int) error {
	dir := filepath.Join(d.Base, genDir(serial))
	if err := os.Mkdir(dir, 0o700); err != nil {
		return err
	}
	for _, f := range []File{Cert, Key} {
		if err := os.WriteFile(filepath.Join(dir, fname(f)), d.Mat.Bytes(f, Content{Full, g}), 0o600); err != nil {
			return err
		}
	}
	return nil
}

// Path is the watched path of f.
func (d *Disk) Path(f File) string { return filepath.Join(d.Base, fname(f)) }

func rewrite(path string, flags int, b []byte) error {
	fd, err := os.OpenFile(path, os.O_WRONLY|os.O_TRUNC|flags, 0o600)
	if err != nil {
		return err
	}
	if len(b) > 0 {
		if _, err := fd.Write(b); err != nil {
			fd.Close()
			return err
		}
	}
	return fd.Close()
}

// Do performs one step with real system calls.
func (d *Disk) Do(s Step) error {
	p := d.Path(s.F)
	switch s.Op {
	case OpTrunc:
		return rewrite(p, 0, nil)
	case OpPartial:
		return rewrite(p, os.O_CREATE, d.Mat.Bytes(s.F, Content{Half, s.Gen}))
	case OpFull:
		return rewrite(p, os.O_CREATE, d.Mat.Bytes(s.F, Content{Full, s.Gen}))
	case OpGarbage:
		return rewrite(p, os.O_CREATE, d.Mat.Bytes(s.F, Content{Kind: Garbage}))
	case OpRename:
		if d.Layout != Plain {
			return fmt.Errorf("rename step in %s layout", d.Layout)
		}
		tmp := filepath.Join(d.Base, ".new-"+fname(s.F))
		if err := os.WriteFile(tmp, d.Mat.Bytes(s.F, Content{Full, s.Gen}), 0o600); err != nil {
			return err
		}
		return os.Rename(tmp, p)
	case OpSwap:
		if d.Layout != K8s {
			return fmt.Errorf("dirswap step in %s layout", d.Layout)
		}
		old := d.serial
		d.serial++
		if err := d.mkGen(d.serial, s.Gen); err != nil {
			return err
		}
		tmp := filepath.Join(d.Base, "..data_tmp")
		if err := os.Symlink(genDir(d.serial), tmp); err != nil {
			return err
		}
		if err := os.Rename(tmp, filepath.Join(d.Base, "..data")); err != nil {
			return err
		}
		order := []File{Cert, Key}
		if s.KeyFirst {
			order = []File{Key, Cert}
		}
		odir := filepath.Join(d.Base, genDir(old))
		for _, f := range order {
			if err := os.Remove(filepath.Join(odir, fname(f))); err != nil {
				return err
			}
		}
		return os.Remove(odir)
	case OpUnlink:
		if d.Layout != Plain {
			return fmt.Errorf("unlink step in %s layout", d.Layout)
		}
		return os.Remove(p)
	}
	return fmt.Errorf("not an update step: %v", s)
}

// Read returns the current content of the path of f classified against the material
// (ok=false: the path does not exist). Used to cross-check the model's idea of the disk.
func (d *Disk) Read(f File) (Content, bool, error) {
	b, err := os.ReadFile(d.Path(f))
	if err != nil {
		if os.IsNotExist(err) {
			return Content{}, false, nil
		}
		return Content{}, false, err
	}
	if len(b) == 0 {
		return Content{Kind: Empty}, true, nil
	}
	for g := 1; g < len(d.Mat.CertPEM); g++ {
		full := d.Mat.Bytes(f, Content{Full, g})
		if string(b) == string(full) {
			return Content{Full, g}, true, nil
		}
		if string(b) == string(full[:len(full)/2]) {
			return Content{Half, g}, true, nil
		}
	}
	return Content{Kind: Garbage}, true, nil
}
