// Package certenv is the environment model of check C14: a tiny file system
// (the two watched paths, the inodes behind them, their contents), the Linux
// inotify behaviour for watches placed on those inodes, and the thin
// path<->watch-descriptor layer fsnotify 1.7.0 puts on top of inotify.
//
// It is written from inotify(7) and from reading fsnotify's inotify backend
// and is deliberately boring. It is NOT trusted: checks/c14/realfs replays
// every operation history up to a depth on a real directory with the real
// fsnotify watcher and compares the event sequences with the ones this model
// allows (a disagreement is a harness error, never a violation).
//
// Nothing in here knows about pkg/certwatcher.
package certenv

import (
	"fmt"
	"sort"
	"strconv"
	"strings"
)

// File is one of the two watched paths.
type File int

const (
	Cert File = 0
	Key  File = 1
)

func (f File) String() string {
	if f == Cert {
		return "cert"
	}
	return "key"
}

// Kind of content of a file.
type Kind int

const (
	Full    Kind = iota // complete PEM of generation Gen
	Half                // first half of the PEM of generation Gen (half-written)
	Empty               // truncated
	Garbage             // not PEM at all
)

type Content struct {
	Kind Kind
	Gen  int
}

func (c Content) String() string {
	switch c.Kind {
	case Full:
		return fmt.Sprintf("g%d", c.Gen)
	case Half:
		return fmt.Sprintf("half%d", c.Gen)
	case Empty:
		return "empty"
	}
	return "garbage"
}

// Layout of the directory the two paths live in.
type Layout int

const (
	// Plain: dir/tls.crt and dir/tls.key are regular files.
	Plain Layout = iota
	// K8s: dir/tls.crt -> ..data/tls.crt, dir/..data -> ..gen_N, dir/..gen_N/tls.crt is the regular
	// file (how the kubelet projects a secret volume).
	K8s
)

func (l Layout) String() string {
	if l == Plain {
		return "plain"
	}
	return "k8s"
}

type OpKind int

const (
	OpTrunc   OpKind = iota // in place: open(O_WRONLY|O_TRUNC); close                       -> empty file
	OpPartial               // in place: open(O_WRONLY|O_CREAT|O_TRUNC); write(first half of g) -> half-written file
	OpFull                  // in place: open(O_WRONLY|O_CREAT|O_TRUNC); write(all of g)
	OpGarbage               // in place: open(O_WRONLY|O_CREAT|O_TRUNC); write("garbage")
	OpRename                // write a new file next to f, rename(2) it over f   (plain layout)
	OpSwap                  // new ..gen_N directory with pair g, rename a new ..data symlink over the old one, unlink the old directory (k8s layout)
	OpUnlink                // unlink(f): NOT one of the three supported update styles; used for the "files are missing" clause (plain layout)
	OpAdd                   // not an update: watcher.Add(path of f); used only by the model validation
)

// Step is one update step of a history.
type Step struct {
	Op       OpKind
	F        File
	Gen      int
	KeyFirst bool // OpSwap: the old key file is unlinked before the old cert file
}

func (s Step) String() string {
	switch s.Op {
	case OpTrunc:
		return fmt.Sprintf("trunc(%s)", s.F)
	case OpPartial:
		return fmt.Sprintf("partial(%s,g%d)", s.F, s.Gen)
	case OpFull:
		return fmt.Sprintf("write(%s,g%d)", s.F, s.Gen)
	case OpGarbage:
		return fmt.Sprintf("garbage(%s)", s.F)
	case OpRename:
		return fmt.Sprintf("rename(new(%s,g%d)->%s)", s.F, s.Gen, s.F)
	case OpSwap:
		o := "cert-first"
		if s.KeyFirst {
			o = "key-first"
		}
		return fmt.Sprintf("dirswap(g%d,unlink-%s)", s.Gen, o)
	case OpUnlink:
		return fmt.Sprintf("unlink(%s)", s.F)
	case OpAdd:
		return fmt.Sprintf("Add(%s)", s.F)
	}
	return "?"
}

// Style of the step: "inplace", "rename", "dirswap", "unlink" (unsupported), "add".
func (s Step) Style() string {
	switch s.Op {
	case OpRename:
		return "rename"
	case OpSwap:
		return "dirswap"
	case OpUnlink:
		return "unlink"
	case OpAdd:
		return "add"
	}
	return "inplace"
}

// Supported reports whether the step belongs to one of the three update styles of the property statement.
func (s Step) Supported() bool { return s.Op != OpUnlink && s.Op != OpAdd }

// AlphaOpt selects optional parts of the alphabet.
type AlphaOpt struct {
	Unlink  bool // unlink(f) (plain layout)
	Halves  bool // half-written file
	Garbage bool // non-PEM content
}

// Alphabet lists the update steps available in a layout.
//   - in place (both layouts; in the k8s layout the write goes through the symlinks to the current generation's files)
//   - rename over, unlink (plain layout only: in the k8s layout the visible names are symlinks that are never replaced)
//   - directory swap (k8s layout only), with both orders of unlinking the old files
func Alphabet(l Layout, gens []int, o AlphaOpt) []Step {
	var a []Step
	for _, f := range []File{Cert, Key} {
		a = append(a, Step{Op: OpTrunc, F: f})
		if o.Halves {
			a = append(a, Step{Op: OpPartial, F: f, Gen: gens[0]})
		}
		for _, g := range gens {
			a = append(a, Step{Op: OpFull, F: f, Gen: g})
		}
		if o.Garbage {
			a = append(a, Step{Op: OpGarbage, F: f})
		}
		if l == Plain {
			for _, g := range gens {
				a = append(a, Step{Op: OpRename, F: f, Gen: g})
			}
			if o.Unlink {
				a = append(a, Step{Op: OpUnlink, F: f})
			}
		}
	}
	if l == K8s {
		for _, g := range gens {
			a = append(a, Step{Op: OpSwap, Gen: g}, Step{Op: OpSwap, Gen: g, KeyFirst: true})
		}
	}
	return a
}

// ---- inotify / fsnotify model ------------------------------------------------

type Mask int

const (
	InModify Mask = iota
	InAttrib
	InDeleteSelf
	InIgnored
)

// Raw is one inotify event in the kernel queue.
type Raw struct {
	Wd   int
	Mask Mask
}

// Op mirrors fsnotify.Op.
type Op uint32

const (
	Create Op = 1 << iota
	Write
	Remove
	Rename
	Chmod
)

func (o Op) String() string {
	var p []string
	for _, x := range []struct {
		o Op
		s string
	}{{Create, "CREATE"}, {Write, "WRITE"}, {Remove, "REMOVE"}, {Rename, "RENAME"}, {Chmod, "CHMOD"}} {
		if o&x.o != 0 {
			p = append(p, x.s)
		}
	}
	return strings.Join(p, "|")
}

// Event mirrors fsnotify.Event. Name is "cert", "key" or "" (a watch fsnotify no longer knows the path of);
// the harness maps it to the real path.
type Event struct {
	Name string
	Op   Op
}

func (e Event) String() string { return e.Op.String() + ":" + e.Name }

// Model is the state of the environment.
type Model struct {
	Layout  Layout
	ino     [2]int          // inode the path of f currently resolves to (0: the path does not exist)
	content map[int]Content // live inodes
	nextIno int
	nextWd  int
	kwd     map[int]int    // kernel: watch descriptor -> inode
	kino    map[int]int    // kernel: inode -> watch descriptor
	pathWd  map[string]int // fsnotify: path name -> wd
	wdPath  map[int]string // fsnotify: wd -> path name
	Queue   []Raw          // inotify queue (including what fsnotify has read but not yet handed to the application)

	Coexisted map[int]bool // generations g for which (cert g, key g) were on disk at the same instant
	LastValid int          // the valid pair the disk held most recently (at the end of a step)
	Merges    int          // number of events merged into the queue tail
}

func New(l Layout) *Model {
	m := &Model{Layout: l, content: map[int]Content{}, kwd: map[int]int{}, kino: map[int]int{}, pathWd: map[string]int{}, wdPath: map[int]string{},
		Coexisted: map[int]bool{}}
	for f := range m.ino {
		m.ino[f] = m.newInode(Content{Full, 1})
	}
	m.noteDisk()
	return m
}

func (m *Model) newInode(c Content) int {
	m.nextIno++
	m.content[m.nextIno] = c
	return m.nextIno
}

// Disk returns what the two paths hold (ok=false: the path does not exist).
func (m *Model) Disk(f File) (Content, bool) {
	if m.ino[f] == 0 {
		return Content{}, false
	}
	return m.content[m.ino[f]], true
}

// ValidPair returns g if the disk holds the complete matching pair g right now, else 0.
func (m *Model) ValidPair() int {
	c, ok1 := m.Disk(Cert)
	k, ok2 := m.Disk(Key)
	if ok1 && ok2 && c.Kind == Full && k.Kind == Full && c.Gen == k.Gen {
		return c.Gen
	}
	return 0
}

func (m *Model) noteDisk() {
	if g := m.ValidPair(); g != 0 {
		m.Coexisted[g] = true
		m.LastValid = g
	}
}

// push appends a raw event; merge is asked when the event is identical to the queue tail
// (inotify merges it if the tail has not been read yet: an environment choice).
func (m *Model) push(r Raw, merge func() bool) {
	if n := len(m.Queue); n > 0 && m.Queue[n-1] == r && merge != nil && merge() {
		m.Merges++
		return
	}
	m.Queue = append(m.Queue, r)
}

func (m *Model) modified(ino int, merge func() bool) {
	if wd, ok := m.kino[ino]; ok {
		m.push(Raw{wd, InModify}, merge)
	}
}

// the last link of the inode is gone (nobody has it open): link count change, then the inode is destroyed
func (m *Model) unlinked(ino int, merge func() bool) {
	if ino == 0 {
		return
	}
	delete(m.content, ino)
	if wd, ok := m.kino[ino]; ok {
		m.push(Raw{wd, InAttrib}, merge)
		m.push(Raw{wd, InDeleteSelf}, merge)
		m.push(Raw{wd, InIgnored}, merge)
		delete(m.kino, ino)
		delete(m.kwd, wd)
	}
}

// rewrite in place = open(O_CREAT|O_TRUNC) + optional write
func (m *Model) rewrite(f File, c Content, merge func() bool) {
	if m.ino[f] == 0 {
		// O_CREAT creates a new, unwatched file
		m.ino[f] = m.newInode(c)
		return
	}
	ino := m.ino[f]
	m.modified(ino, merge) // O_TRUNC (the kernel reports it even when the file was already empty: validated by realfs)
	m.content[ino] = Content{Kind: Empty}
	if c.Kind != Empty {
		m.modified(ino, merge) // the write
		m.content[ino] = c
	}
}

// Apply performs one update step. It returns an error text if the step is not applicable
// (the real file system would fail it too, e.g. truncating a missing file).
func (m *Model) Apply(s Step, merge func() bool) string {
	switch s.Op {
	case OpTrunc:
		if m.ino[s.F] == 0 {
			return "ENOENT"
		}
		m.rewrite(s.F, Content{Kind: Empty}, merge)
	case OpPartial:
		m.rewrite(s.F, Content{Half, s.Gen}, merge)
	case OpFull:
		m.rewrite(s.F, Content{Full, s.Gen}, merge)
	case OpGarbage:
		m.rewrite(s.F, Content{Kind: Garbage}, merge)
	case OpRename:
		old := m.ino[s.F]
		m.ino[s.F] = m.newInode(Content{Full, s.Gen})
		m.unlinked(old, merge)
	case OpSwap:
		oc, ok := m.ino[Cert], m.ino[Key]
		m.ino[Cert] = m.newInode(Content{Full, s.Gen})
		m.ino[Key] = m.newInode(Content{Full, s.Gen})
		m.noteDisk()
		if s.KeyFirst {
			m.unlinked(ok, merge)
			m.unlinked(oc, merge)
		} else {
			m.unlinked(oc, merge)
			m.unlinked(ok, merge)
		}
	case OpUnlink:
		if m.ino[s.F] == 0 {
			return "ENOENT"
		}
		old := m.ino[s.F]
		m.ino[s.F] = 0
		m.unlinked(old, merge)
	default:
		return "not an update step"
	}
	m.noteDisk()
	return ""
}

// Name of a path as the model reports it in events.
func Name(f File) string { return f.String() }

// AddWatch is Watcher.Add(name): inotify_add_watch on what the path resolves to
// (symlinks are followed), recorded under the path name. It returns an error text
// ("ENOENT") when the path does not exist.
func (m *Model) AddWatch(name string) string {
	var ino int
	switch name {
	case "cert":
		ino = m.ino[Cert]
	case "key":
		ino = m.ino[Key]
	}
	if ino == 0 {
		return "ENOENT"
	}
	wd, ok := m.kino[ino]
	if !ok {
		m.nextWd++
		wd = m.nextWd
		m.kino[ino] = wd
		m.kwd[wd] = ino
	}
	if old, ok := m.pathWd[name]; ok && old != wd {
		delete(m.wdPath, old) // fsnotify forgets the old descriptor; the kernel keeps the watch if the inode lives
	}
	m.pathWd[name] = wd
	m.wdPath[wd] = name
	return ""
}

// Watched reports whether fsnotify currently maps the path name to a kernel watch that is alive
// on the inode the path resolves to.
func (m *Model) Watched(f File) bool {
	wd, ok := m.pathWd[Name(f)]
	if !ok {
		return false
	}
	ino, alive := m.kwd[wd]
	return alive && ino == m.ino[f] && ino != 0
}

// Pending reports whether the queue holds an event fsnotify would hand to the application.
func (m *Model) Pending() bool {
	for _, r := range m.Queue {
		if r.Mask != InIgnored {
			return true
		}
	}
	return false
}

// Next takes the next event fsnotify hands to the application (ok=false: none).
// This is fsnotify's readEvents: look the descriptor up, forget it on IN_DELETE_SELF,
// never send IN_IGNORED.
func (m *Model) Next() (Event, bool) {
	for len(m.Queue) > 0 {
		r := m.Queue[0]
		m.Queue = m.Queue[1:]
		name, known := m.wdPath[r.Wd]
		if known && r.Mask == InDeleteSelf {
			delete(m.wdPath, r.Wd)
			if m.pathWd[name] == r.Wd {
				delete(m.pathWd, name)
			}
		}
		switch r.Mask {
		case InIgnored:
			continue
		case InModify:
			return Event{name, Write}, true
		case InAttrib:
			return Event{name, Chmod}, true
		case InDeleteSelf:
			return Event{name, Remove}, true
		}
	}
	return Event{}, false
}

// Drain takes every pending event.
func (m *Model) Drain() []Event {
	var out []Event
	for {
		e, ok := m.Next()
		if !ok {
			return out
		}
		out = append(out, e)
	}
}

// Key is a canonical description of the environment state (inode numbers and descriptors
// renamed in order of first use, so that equal keys mean equal futures).
func (m *Model) Key() string {
	ren := map[int]int{}
	id := func(ino int) int {
		if ino == 0 {
			return 0
		}
		if _, ok := ren[ino]; !ok {
			ren[ino] = len(ren) + 1
		}
		return ren[ino]
	}
	b := make([]byte, 0, 160)
	num := func(n int) { b = strconv.AppendInt(b, int64(n), 10) }
	cont := func(c Content) {
		num(int(c.Kind))
		b = append(b, '.')
		num(c.Gen)
	}
	for f := range m.ino {
		b = append(b, 'p')
		num(id(m.ino[f]))
		b = append(b, ':')
		cont(m.content[m.ino[f]])
		b = append(b, ' ')
	}
	wren := map[int]int{}
	wid := func(wd int) int {
		if _, ok := wren[wd]; !ok {
			wren[wd] = len(wren) + 1
		}
		return wren[wd]
	}
	for _, n := range []string{"cert", "key"} {
		if wd, ok := m.pathWd[n]; ok {
			ino, alive := m.kwd[wd]
			b = append(b, n[0], 'w')
			num(wid(wd))
			b = append(b, 'i')
			num(id(ino))
			if alive {
				b = append(b, '+')
			}
			b = append(b, ' ')
		}
	}
	// orphan kernel watches (alive, not mapped by fsnotify)
	if len(m.kwd) > len(m.wdPath) {
		var orph []string
		for wd, ino := range m.kwd {
			if _, ok := m.wdPath[wd]; !ok {
				orph = append(orph, fmt.Sprintf("i%d:%s", id(ino), m.content[ino]))
			}
		}
		sort.Strings(orph)
		b = append(b, "orph="...)
		b = append(b, strings.Join(orph, ",")...)
	}
	b = append(b, " q="...)
	for _, r := range m.Queue {
		if _, known := m.wdPath[r.Wd]; known {
			b = append(b, 'w')
			num(wid(r.Wd))
		} else {
			b = append(b, '?')
		}
		b = append(b, '/')
		num(int(r.Mask))
		b = append(b, ',')
	}
	b = append(b, " co="...)
	for g := 1; g <= 9; g++ {
		if m.Coexisted[g] {
			num(g)
		}
	}
	b = append(b, " lv="...)
	num(m.LastValid)
	return string(b)
}

// Clone returns an independent copy of the model.
func (m *Model) Clone() *Model {
	c := *m
	c.content = map[int]Content{}
	for k, v := range m.content {
		c.content[k] = v
	}
	c.kwd = map[int]int{}
	for k, v := range m.kwd {
		c.kwd[k] = v
	}
	c.kino = map[int]int{}
	for k, v := range m.kino {
		c.kino[k] = v
	}
	c.pathWd = map[string]int{}
	for k, v := range m.pathWd {
		c.pathWd[k] = v
	}
	c.wdPath = map[int]string{}
	for k, v := range m.wdPath {
		c.wdPath[k] = v
	}
	c.Coexisted = map[int]bool{}
	for k, v := range m.Coexisted {
		c.Coexisted[k] = v
	}
	c.Queue = append([]Raw(nil), m.Queue...)
	return &c
}
