// Package h2fpref is the reference for the HTTP/2 fingerprint 'S|WU|P|PS',
// computed from the frames a client put on the wire. Written from the
// property statement (Akamai format); shares no code with metadata.Marshal or
// the capture code in pkg/http2.
package h2fpref

import (
	"strconv"
	"strings"
)

type Setting struct {
	ID  uint16
	Val uint32
}

type Priority struct {
	Stream, Dep uint32
	Excl        bool
	Weight      uint8
}

// State is the fingerprint-relevant history of one connection.
type State struct {
	Settings   []Setting // latest non-ACK SETTINGS
	WU         uint32    // first WINDOW_UPDATE increment (0 = none seen)
	HaveWU     bool
	Priorities []Priority
	Pseudo     []string // names of the latest header block, in order
}

func (s *State) Clone() *State {
	c := *s
	c.Settings = append([]Setting(nil), s.Settings...)
	c.Priorities = append([]Priority(nil), s.Priorities...)
	c.Pseudo = append([]string(nil), s.Pseudo...)
	return &c
}

func (s *State) OnSettings(ss []Setting) { s.Settings = append([]Setting(nil), ss...) }
func (s *State) OnWindowUpdate(incr uint32) {
	if !s.HaveWU {
		s.HaveWU = true
		s.WU = incr
	}
}
func (s *State) OnPriority(p Priority) { s.Priorities = append(s.Priorities, p) }

// OnHeaders records a complete header block (names in wire order) and its priority field if present.
func (s *State) OnHeaders(names []string, prio *Priority) {
	s.Pseudo = append([]string(nil), names...)
	if prio != nil {
		s.Priorities = append(s.Priorities, *prio)
	}
}

// Parts returns the four parts. maxPrio<0 means unlimited.
func (s *State) Parts(maxPrio int) (S string, WU uint32, P string, PS string) {
	var sb []string
	for _, x := range s.Settings {
		sb = append(sb, strconv.Itoa(int(x.ID))+":"+strconv.FormatUint(uint64(x.Val), 10))
	}
	S = strings.Join(sb, ";")
	WU = s.WU
	ps := s.Priorities
	if maxPrio >= 0 && len(ps) > maxPrio {
		ps = ps[:maxPrio]
	}
	if len(ps) == 0 {
		P = "0"
	} else {
		var pb []string
		for _, p := range ps {
			e := "0"
			if p.Excl {
				e = "1"
			}
			pb = append(pb, strconv.Itoa(int(p.Stream))+":"+e+":"+strconv.Itoa(int(p.Dep))+":"+strconv.Itoa(int(p.Weight)+1))
		}
		P = strings.Join(pb, ",")
	}
	var hs []string
	for _, n := range s.Pseudo {
		if len(n) >= 2 && n[0] == ':' {
			hs = append(hs, n[1:2])
		}
	}
	PS = strings.Join(hs, ",")
	return
}

// String formats with the WU part as "00" when absent, else the decimal increment
// zero-padded to two digits (what the Akamai format examples show).
func (s *State) String(maxPrio int) string {
	S, WU, P, PS := s.Parts(maxPrio)
	wu := strconv.FormatUint(uint64(WU), 10)
	if len(wu) < 2 {
		wu = "0" + wu
	}
	return S + "|" + wu + "|" + P + "|" + PS
}

// Equal compares an implementation value with the reference: exactly four
// parts; S, P, PS bytewise; WU numerically ("5" and "05" both denote 5; none = 0).
func (s *State) Equal(got string, maxPrio int) bool {
	parts := strings.Split(got, "|")
	if len(parts) != 4 {
		return false
	}
	S, WU, P, PS := s.Parts(maxPrio)
	if parts[0] != S || parts[2] != P || parts[3] != PS {
		return false
	}
	if parts[1] == "" {
		return false
	}
	n, err := strconv.ParseUint(parts[1], 10, 32)
	if err != nil || uint32(n) != WU {
		return false
	}
	if WU == 0 && parts[1] != "00" {
		return false
	}
	return true
}
