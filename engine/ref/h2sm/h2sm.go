// Package h2sm is a reference monitor for the server side of the HTTP/2
// stream state machine (RFC 7540 §3.5, §4.2, §5.1, §5.1.1, §5.1.2, §5.4, §6,
// §8.1.2; RFC 9113 where it relaxes or clarifies). It is written from the RFC
// text and shares nothing with pkg/http2.
//
// It is a *monitor*: for every client frame it computes the SET of reactions
// the RFCs admit in the current state (Expect), then it is shown what the
// implementation actually did (frames written, request handlers started),
// reports everything outside the set, and advances its own state along the
// admissible alternative the implementation took. Wherever two RFC clauses
// apply to the same frame the union of their reactions is admitted; every
// stream error may be escalated to a connection error with the same code
// (§5.4.1 "MAY choose to treat a stream error as a connection error").
package h2sm

import (
	"fmt"
	"sort"
	"strings"

	"verif/ref/h2wire"
)

type Code uint32

const (
	NoError          Code = 0x0
	ProtocolError    Code = 0x1
	InternalError    Code = 0x2
	FlowControlError Code = 0x3
	SettingsTimeout  Code = 0x4
	StreamClosed     Code = 0x5
	FrameSizeError   Code = 0x6
	RefusedStream    Code = 0x7
	Cancel           Code = 0x8
	CompressionError Code = 0x9
	ConnectError     Code = 0xa
	EnhanceYourCalm  Code = 0xb
)

var codeNames = map[Code]string{0: "NO_ERROR", 1: "PROTOCOL_ERROR", 2: "INTERNAL_ERROR", 3: "FLOW_CONTROL_ERROR", 4: "SETTINGS_TIMEOUT",
	5: "STREAM_CLOSED", 6: "FRAME_SIZE_ERROR", 7: "REFUSED_STREAM", 8: "CANCEL", 9: "COMPRESSION_ERROR", 0xa: "CONNECT_ERROR", 0xb: "ENHANCE_YOUR_CALM",
	0xc: "INADEQUATE_SECURITY", 0xd: "HTTP_1_1_REQUIRED"}

func (c Code) String() string {
	if s, ok := codeNames[c]; ok {
		return s
	}
	return fmt.Sprintf("0x%x", uint32(c))
}

const maxWindow = 1<<31 - 1

type Config struct {
	MaxStreams   int // SETTINGS_MAX_CONCURRENT_STREAMS the server advertises
	MaxFrameSize int // SETTINGS_MAX_FRAME_SIZE the server advertises
}

// Stream is what the monitor knows about one client-initiated stream that a HEADERS frame has opened.
type Stream struct {
	ID          uint32
	ClientEnded bool   // END_STREAM received in a frame that was legal
	ServerEnded bool   // END_STREAM sent
	Closed      bool   //
	Why         string // how it became closed
	SrvRST      bool   // server has sent RST_STREAM on it
	CliRST      bool   // client has sent RST_STREAM on it
	Accepted    bool   // carries a legal request within the limit: a handler may run for it
	AcceptTag   int    // tag of the client frame that completed that request
	OwnResp     bool   // malformed request: the server may answer by itself (RFC 7540 §8.1.2.6)
	Started     bool   // handler start observed
	Held        bool   // handler still running (harness has not released it)
	RespHeaders bool   // response HEADERS seen
	Win         int64  // stream send window of the server as the wire implies
	Body        []byte // payload of the DATA frames that were legal, in order
	Beyond      bool   // opened after the server's GOAWAY with an id above its last-stream-id
}

type goaway struct {
	Last uint32
	Code Code
}

type cont struct {
	stream   uint32
	flags    uint8
	frag     []byte
	padBad   bool
	selfDep  bool
	tag      int
	isNew    bool // the HEADERS frame opened the stream
	answered bool // the doomed HEADERS was already answered with a stream error
	early    bool // the block started before the client's SETTINGS frame (§3.5)
}

// Expect is the set of admissible reactions to one client frame.
type Expect struct {
	Desc        string   // class of (frame, state), e.g. "DATA/closed(srv-rst)"
	Legal       bool     // the frame violates no rule in this state: no error may be drawn
	SilenceOK   bool     // "no error reaction" is admissible (Legal, or an RFC clause allows / requires ignoring)
	Stream      uint32   // stream the stream-error alternatives refer to
	StreamErr   []Code   // admissible RST_STREAM codes on Stream
	AnyStream   bool     // any RST_STREAM on Stream is admissible (stream above a sent GOAWAY's last id)
	ConnErr     []Code   // admissible GOAWAY codes
	Rules       []string // clauses that produced the alternatives
	NewRequest  bool     // completes a legal new request on Stream
	OwnResponse bool     // malformed request: an HTTP response by the server itself is admissible
	Fatal       bool     // some clause makes the frame fatal for the connection whatever else is wrong with it (§3.5, §6.2/§6.10)
	dead        bool
	onAccept    []func()
}

func (e *Expect) String() string {
	var alt []string
	if e.SilenceOK {
		alt = append(alt, "no-error")
	}
	for _, c := range e.StreamErr {
		alt = append(alt, fmt.Sprintf("RST_STREAM(%d,%v)", e.Stream, c))
	}
	if e.AnyStream {
		alt = append(alt, fmt.Sprintf("RST_STREAM(%d,*)", e.Stream))
	}
	for _, c := range e.ConnErr {
		alt = append(alt, fmt.Sprintf("GOAWAY(%v)", c))
	}
	if e.OwnResponse {
		alt = append(alt, "own-4xx-response")
	}
	return fmt.Sprintf("%s -> {%s}", e.Desc, strings.Join(alt, ", "))
}

func (e *Expect) conn(c Code, rule string) {
	for _, x := range e.ConnErr {
		if x == c {
			e.Rules = append(e.Rules, rule)
			return
		}
	}
	e.ConnErr = append(e.ConnErr, c)
	e.Rules = append(e.Rules, rule)
}

func (e *Expect) strm(id uint32, c Code, rule string) {
	e.Stream = id
	for _, x := range e.StreamErr {
		if x == c {
			e.Rules = append(e.Rules, rule)
			return
		}
	}
	e.StreamErr = append(e.StreamErr, c)
	e.Rules = append(e.Rules, rule)
	e.conn(c, "§5.4.1 stream error may be treated as connection error")
}

func hasCode(cs []Code, c Code) bool {
	for _, x := range cs {
		if x == c {
			return true
		}
	}
	return false
}

// Violation is one disagreement between the implementation and the admissible set.
type Violation struct {
	Kind   string // stable class
	State  string // class of (frame, stream state) it happened in
	Detail string // observed vs admissible, for humans
	Got    string // observed reaction class (part of the signature)
}

func (v Violation) Sig() string { return v.Kind + "|" + v.State + "|" + v.Got }

// Start is a handler invocation reported by the harness.
type Start struct {
	Stream uint32
	Tag    int  // tag of the client frame that carried the request the handler was given
	Hold   bool // the handler keeps running until the harness releases it
}

type Machine struct {
	cfg          Config
	SawSettings  bool
	Murky        bool // a connection-fatal frame was answered with an (admissible) stream error only: the RFCs do not define what follows
	Dead         bool // a connection error was signalled (GOAWAY with an error code), or is owed silently after a GOAWAY
	Owed         bool // a connection error arose after the server's GOAWAY and no second GOAWAY was seen: the connection must get closed
	OwedWhy      string
	GoAway       *goaway
	ClientGoAway bool
	MaxID        uint32
	Streams      map[uint32]*Stream
	LastClosed   uint32
	ConnWin      int64
	IWS          int64
	SrvSettings  int // server SETTINGS frames not yet acknowledged by the client
	CliSettings  int // client SETTINGS frames not yet acknowledged by the server
	Pings        int
	Running      int // handlers started and not released
	cont         *cont
	cur          *Expect
	curFrame     string
	curTag       int
	dec          *h2wire.Decoder // client header blocks
	sdec         *h2wire.Decoder // server header blocks
	srvCont      *srvBlock
	HighestActed uint32
}

type srvBlock struct {
	stream uint32
	es     bool
	frag   []byte
}

func New(cfg Config) *Machine {
	return &Machine{cfg: cfg, Streams: map[uint32]*Stream{}, ConnWin: 65535, IWS: 65535, dec: h2wire.NewDecoder(), sdec: h2wire.NewDecoder()}
}

// ---- state queries (used by the harness to instantiate abstract letters) ----

func (m *Machine) NextID() uint32 {
	if m.MaxID == 0 {
		return 1
	}
	return m.MaxID + 2
}

func (m *Machine) sorted() []*Stream {
	var ss []*Stream
	for _, s := range m.Streams {
		ss = append(ss, s)
	}
	sort.Slice(ss, func(i, j int) bool { return ss[i].ID < ss[j].ID })
	return ss
}

// OpenStream: lowest stream in state "open" (client has not ended it), 0 if none.
func (m *Machine) OpenStream() uint32 {
	for _, s := range m.sorted() {
		if !s.Closed && !s.ClientEnded && !s.Beyond {
			return s.ID
		}
	}
	return 0
}

// HalfClosedRemote: lowest stream the client has ended and that is not closed, 0 if none.
func (m *Machine) HalfClosedRemote() uint32 {
	for _, s := range m.sorted() {
		if !s.Closed && s.ClientEnded && !s.Beyond {
			return s.ID
		}
	}
	return 0
}

// ClosedStream: the stream that was closed most recently, 0 if none.
func (m *Machine) ClosedStream() uint32 { return m.LastClosed }

// HeldHandlers: streams whose handler is running, ascending.
func (m *Machine) HeldHandlers() []uint32 {
	var r []uint32
	for _, s := range m.sorted() {
		if s.Held {
			r = append(r, s.ID)
		}
	}
	return r
}

func (m *Machine) ContPending() (uint32, bool) {
	if m.cont != nil {
		return m.cont.stream, true
	}
	return 0, false
}

func (m *Machine) activeExcept(id uint32) int {
	n := 0
	for _, s := range m.Streams {
		if !s.Closed && !s.Beyond && s.ID != id {
			n++
		}
	}
	return n
}

// StateOf names the RFC 7540 §5.1 state of a stream id from the server's side.
func (m *Machine) StateOf(id uint32) string {
	if id == 0 {
		return "conn"
	}
	if id%2 == 0 {
		return "idle(even)"
	}
	if id > m.MaxID {
		return "idle"
	}
	s := m.Streams[id]
	if s == nil {
		return "closed(implicit)"
	}
	switch {
	case s.Beyond:
		return "beyond-goaway"
	case s.Closed:
		return "closed(" + s.Why + ")"
	case s.ClientEnded:
		return "half-closed(remote)"
	default:
		return "open"
	}
}

// Key is a canonical encoding of everything the admissible sets of future frames depend on.
func (m *Machine) Key() string {
	var b strings.Builder
	fmt.Fprintf(&b, "S%v D%v%v O%v M%d W%d I%d ss%d cs%d R%d", m.SawSettings, m.Dead, m.Murky, m.Owed, m.MaxID, m.ConnWin, m.IWS, m.SrvSettings, m.CliSettings, m.Running)
	if m.GoAway != nil {
		fmt.Fprintf(&b, " G%d/%d", m.GoAway.Last, m.GoAway.Code)
	}
	if m.ClientGoAway {
		b.WriteString(" cg")
	}
	if m.cont != nil {
		fmt.Fprintf(&b, " C%d/%x/%v/%v/%v/%v/%v", m.cont.stream, m.cont.flags, m.cont.padBad, m.cont.selfDep, m.cont.answered, m.cont.isNew, m.cont.early)
	}
	for _, s := range m.sorted() {
		if s.Closed && s.ID != m.LastClosed && !s.Held && !(s.Accepted && !s.Started) {
			continue // unreachable by the alphabet and without pending effects
		}
		fmt.Fprintf(&b, " [%d %v%v%v%v%v%v%v%v%v%v w%d b%d %s]", s.ID, b2(s.ClientEnded), b2(s.ServerEnded), b2(s.Closed), b2(s.SrvRST), b2(s.CliRST), b2(s.Accepted), b2(s.OwnResp), b2(s.Started), b2(s.Held), b2(s.RespHeaders), s.Win, len(s.Body), s.Why)
		if s.Beyond {
			b.WriteString("B")
		}
	}
	return b.String()
}

func b2(v bool) int {
	if v {
		return 1
	}
	return 0
}

// ---- client side ------------------------------------------------------------

func typeName(t uint8) string {
	if n, ok := h2wire.TypeNames[t]; ok {
		return n
	}
	return fmt.Sprintf("UNKNOWN(%#x)", t)
}

// Client is told the next frame the client put on the wire; tag identifies it.
func (m *Machine) Client(f h2wire.Frame, tag int) *Expect {
	e := &Expect{}
	m.cur = e
	m.curTag = tag
	m.curFrame = fmt.Sprintf("%s(s=%d f=%#x len=%d)", typeName(f.Type), f.Stream, f.Flags, len(f.Payload))
	if m.Dead {
		e.Desc = typeName(f.Type) + "/after-connection-error"
		e.SilenceOK = true
		e.dead = true
		// header blocks are not interpreted any more
		return e
	}
	m.client(e, f, tag)
	e.Legal = len(e.StreamErr) == 0 && len(e.ConnErr) == 0 && !e.AnyStream && !e.OwnResponse
	if e.Legal {
		e.SilenceOK = true
	}
	return e
}

func (m *Machine) client(e *Expect, f h2wire.Frame, tag int) {
	tn := typeName(f.Type)
	// §4.2 frame size
	if len(f.Payload) > m.cfg.MaxFrameSize {
		e.Desc = tn + "/oversize"
		e.conn(FrameSizeError, "§4.2 frame exceeds SETTINGS_MAX_FRAME_SIZE")
		if f.Stream != 0 && (f.Type == h2wire.TData || f.Type == h2wire.TPriority || f.Type == h2wire.TRSTStream || f.Type == h2wire.TWindowUpdate) {
			e.strm(f.Stream, FrameSizeError, "§4.2 frame size error on a frame that cannot alter connection state")
		}
		if !m.SawSettings && f.Type != h2wire.TSettings {
			e.conn(ProtocolError, "§3.5 preface must be followed by SETTINGS")
		}
		if m.cont != nil {
			e.conn(ProtocolError, "§6.2 header block must be contiguous")
		}
		return
	}
	// §6.2 / §6.10 header blocks are contiguous
	if c := m.cont; c != nil {
		if f.Type == h2wire.TContinuation && f.Stream == c.stream {
			c.frag = append(c.frag, f.Payload...)
			if f.Flags&h2wire.FEndHeaders == 0 {
				e.Desc = "CONTINUATION/more"
				return
			}
			m.cont = nil
			switch {
			case c.answered:
				// the block only had to be decoded for the compression context
				e.Desc = "CONTINUATION/end-of-answered-block"
				if _, err := m.dec.Decode(c.frag); err != nil {
					e.conn(CompressionError, "§4.3 decoding error")
				}
			case c.early:
				e.Desc = "CONTINUATION-end:before-SETTINGS"
				e.Fatal = true
				e.conn(ProtocolError, "§3.5 preface must be followed by SETTINGS")
				cl := m.clone()
				t := &Expect{}
				cl.headerBlock(t, "", c.stream, c.flags, c.frag, c.padBad, c.selfDep, c.tag, c.isNew)
				e.mergeErrors(t)
			default:
				m.headerBlock(e, "CONTINUATION-end:", c.stream, c.flags, c.frag, c.padBad, c.selfDep, c.tag, c.isNew)
			}
			return
		}
		e.Desc = tn + "/inside-header-block"
		if f.Type == h2wire.TContinuation {
			e.Desc = "CONTINUATION/other-stream-inside-header-block"
		}
		e.Fatal = true
		e.conn(ProtocolError, "§6.2/§6.10 only CONTINUATION on the same stream may follow HEADERS without END_HEADERS")
		// the implementation may look at the frame before it looks at the connection: the frame's own defects are admissible answers too
		cl := m.clone()
		cl.cont, cl.SawSettings = nil, true
		t := &Expect{}
		cl.typed(t, f, tag)
		e.mergeErrors(t)
		return
	}
	// §3.5 the client preface ends with a SETTINGS frame
	if !m.SawSettings && f.Type != h2wire.TSettings {
		e.Desc = tn + "/before-SETTINGS"
		e.Fatal = true
		e.conn(ProtocolError, "§3.5 preface must be followed by SETTINGS")
		if f.Type > h2wire.TContinuation {
			e.SilenceOK = true // §4.1 unknown types MUST be ignored
		}
		cl := m.clone()
		cl.SawSettings = true
		t := &Expect{}
		cl.typed(t, f, tag)
		e.mergeErrors(t)
		if cl.cont != nil {
			// HEADERS without END_HEADERS: the reaction may come when the block is complete
			m.cont = cl.cont
			m.cont.early = true
			e.SilenceOK = true
		}
		return
	}
	m.typed(e, f, tag)
	if m.GoAway != nil && f.Stream > m.GoAway.Last {
		// RFC 9113 §6.8: after sending GOAWAY the sender can discard frames for streams above the last-stream-id
		e.SilenceOK = true
	}
}

func (e *Expect) mergeErrors(t *Expect) {
	if len(t.StreamErr) > 0 || t.AnyStream {
		e.Stream = t.Stream
	}
	for _, c := range t.StreamErr {
		if !hasCode(e.StreamErr, c) {
			e.StreamErr = append(e.StreamErr, c)
		}
	}
	for _, c := range t.ConnErr {
		if !hasCode(e.ConnErr, c) {
			e.ConnErr = append(e.ConnErr, c)
		}
	}
	e.AnyStream = e.AnyStream || t.AnyStream
	e.Rules = append(e.Rules, t.Rules...)
}

// clone: a scratch copy on which the rules of a frame can be evaluated without touching the state.
func (m *Machine) clone() *Machine {
	c := *m
	c.Streams = map[uint32]*Stream{}
	for id, s := range m.Streams {
		cp := *s
		c.Streams[id] = &cp
	}
	if m.cont != nil {
		cc := *m.cont
		c.cont = &cc
	}
	if m.GoAway != nil {
		g := *m.GoAway
		c.GoAway = &g
	}
	c.dec = h2wire.NewDecoder() // the blocks of the alphabet do not use the dynamic table
	c.cur = nil
	return &c
}

// typed: the rules of the frame types, for a frame that is neither oversize nor fatal by its position.
func (m *Machine) typed(e *Expect, f h2wire.Frame, tag int) {
	switch f.Type {
	case h2wire.TSettings:
		m.settings(e, f)
	case h2wire.TPing:
		e.Desc = "PING"
		if f.Flags&h2wire.FAck != 0 {
			e.Desc = "PING-ACK"
		}
		if len(f.Payload) != 8 {
			e.Desc += "/bad-length"
			e.conn(FrameSizeError, "§6.7 PING length other than 8")
		}
		if f.Stream != 0 {
			e.Desc += "/on-stream"
			e.conn(ProtocolError, "§6.7 PING stream identifier must be 0")
		}
		if len(e.ConnErr) == 0 && f.Flags&h2wire.FAck == 0 {
			e.onAccept = append(e.onAccept, func() { m.Pings++ })
		}
	case h2wire.TGoAway:
		e.Desc = "GOAWAY"
		if f.Stream != 0 {
			e.Desc += "/on-stream"
			e.conn(ProtocolError, "§6.8 GOAWAY stream identifier must be 0")
		}
		if len(f.Payload) < 8 {
			e.Desc += "/short"
			e.conn(FrameSizeError, "§4.2 too small to contain mandatory frame data")
		}
		if len(e.ConnErr) == 0 {
			e.onAccept = append(e.onAccept, func() { m.ClientGoAway = true })
		}
	case h2wire.TPushPromise:
		e.Desc = "PUSH_PROMISE"
		e.conn(ProtocolError, "§8.2 a client cannot push")
	case h2wire.TContinuation:
		e.Desc = "CONTINUATION/orphan"
		e.conn(ProtocolError, "§6.10 CONTINUATION must be preceded by HEADERS/PUSH_PROMISE/CONTINUATION without END_HEADERS")
	case h2wire.TWindowUpdate:
		m.windowUpdate(e, f)
	case h2wire.TRSTStream:
		m.rst(e, f)
	case h2wire.TPriority:
		m.priority(e, f)
	case h2wire.TData:
		m.data(e, f)
	case h2wire.THeaders:
		m.headers(e, f, tag)
	default:
		e.Desc = "UNKNOWN-TYPE" // §4.1 MUST ignore
	}
}

func (m *Machine) beyond(id uint32) bool {
	return m.GoAway != nil && id > m.GoAway.Last
}

func (m *Machine) settings(e *Expect, f h2wire.Frame) {
	e.Desc = "SETTINGS"
	if f.Stream != 0 {
		e.Desc += "/on-stream"
		e.conn(ProtocolError, "§6.5 SETTINGS stream identifier must be 0")
	}
	if f.Flags&h2wire.FAck != 0 {
		e.Desc = "SETTINGS-ACK" + strings.TrimPrefix(e.Desc, "SETTINGS")
		if len(f.Payload) != 0 {
			e.Desc += "/with-payload"
			e.conn(FrameSizeError, "§6.5 ACK with non-empty payload")
		}
		if len(e.ConnErr) > 0 {
			return
		}
		if !m.SawSettings {
			// a SETTINGS frame by type, but an acknowledgement rather than the client's settings: either reading is defensible
			defer func() {
				e.conn(ProtocolError, "§3.5 preface must be followed by the client's SETTINGS (an ACK is not)")
				e.SilenceOK = true
			}()
			e.onAccept = append(e.onAccept, func() { m.SawSettings = true })
		}
		if m.SrvSettings > 0 {
			e.onAccept = append(e.onAccept, func() { m.SrvSettings-- })
		} else {
			e.Desc += "/unsolicited"
			// the RFC is silent on an acknowledgement of nothing: ignoring and objecting are both defensible
			e.conn(ProtocolError, "§6.5.3 acknowledgement of a SETTINGS frame never sent")
			e.SilenceOK = true
		}
		return
	}
	if len(f.Payload)%6 != 0 {
		e.Desc += "/bad-length"
		e.conn(FrameSizeError, "§6.5 length not a multiple of 6")
		return
	}
	newIWS := int64(-1)
	for _, s := range f.SettingsList() {
		switch s.ID {
		case 2: // ENABLE_PUSH
			if s.Val > 1 {
				e.Desc += "/bad-enable-push"
				e.conn(ProtocolError, "§6.5.2 ENABLE_PUSH other than 0 or 1")
			}
		case 4: // INITIAL_WINDOW_SIZE
			if s.Val > maxWindow {
				e.Desc += "/iws-too-big"
				e.conn(FlowControlError, "§6.5.2 INITIAL_WINDOW_SIZE above 2^31-1")
			} else {
				newIWS = int64(s.Val)
			}
		case 5: // MAX_FRAME_SIZE
			if s.Val < 16384 || s.Val > 1<<24-1 {
				e.Desc += "/bad-max-frame-size"
				e.conn(ProtocolError, "§6.5.2 MAX_FRAME_SIZE out of range")
			}
		}
	}
	if len(e.ConnErr) > 0 {
		return
	}
	if newIWS >= 0 {
		e.Desc += "/iws"
		d := newIWS - m.IWS
		for _, s := range m.Streams {
			if !s.Closed && s.Win+d > maxWindow {
				e.Desc += "-overflow"
				e.conn(FlowControlError, "§6.9.2 INITIAL_WINDOW_SIZE change overflows a stream window")
				return
			}
		}
		e.onAccept = append(e.onAccept, func() {
			for _, s := range m.Streams {
				s.Win += d
			}
			m.IWS = newIWS
		})
	}
	e.onAccept = append(e.onAccept, func() { m.CliSettings++; m.SawSettings = true })
}

// closedRules: admissible reactions to a frame on a stream in the "closed" state (§5.1 closed, §6.1, §6.4, §6.9).
func (m *Machine) closedRules(e *Expect, typ uint8, id uint32, s *Stream) {
	if s == nil { // implicitly closed by the use of a higher id (§5.1.1)
		switch typ {
		case h2wire.TWindowUpdate, h2wire.TRSTStream:
			e.SilenceOK = true
			e.conn(ProtocolError, "§5.1 closed: MAY treat late WINDOW_UPDATE/RST_STREAM as connection error")
			e.strm(id, StreamClosed, "§5.1 closed")
		default:
			e.strm(id, StreamClosed, "§6.1/§5.1 frame on a closed stream")
			e.conn(ProtocolError, "§5.1.1 unexpected stream identifier")
		}
		return
	}
	if s.SrvRST {
		e.SilenceOK = true // §5.1: MUST ignore frames on closed streams after sending RST_STREAM (may limit the period)
		e.Rules = append(e.Rules, "§5.1 closed: ignore frames after sending RST_STREAM")
	}
	switch typ {
	case h2wire.TWindowUpdate, h2wire.TRSTStream:
		e.SilenceOK = true // §5.1 / §6.9: MUST NOT treat as error (for a short period)
		e.conn(ProtocolError, "§5.1 closed: MAY treat late WINDOW_UPDATE/RST_STREAM as connection error")
		if s.CliRST {
			e.strm(id, StreamClosed, "§5.1 closed: frame after receiving RST_STREAM")
		}
	case h2wire.TData:
		e.strm(id, StreamClosed, "§6.1 DATA on a stream that is not open or half-closed(local)")
	case h2wire.THeaders:
		e.strm(id, StreamClosed, "§5.1 closed: frame after END_STREAM / RST_STREAM")
		e.conn(ProtocolError, "§5.1.1 stream identifiers cannot be reused")
	}
}

func (m *Machine) windowUpdate(e *Expect, f h2wire.Frame) {
	e.Desc = "WINDOW_UPDATE/" + m.StateOf(f.Stream)
	if len(f.Payload) != 4 {
		e.Desc += "/bad-length"
		e.conn(FrameSizeError, "§6.9 WINDOW_UPDATE length other than 4")
		return
	}
	inc := int64(f.WindowIncrement())
	if inc == 0 {
		e.Desc += "/zero"
		if f.Stream == 0 {
			e.conn(ProtocolError, "§6.9 increment 0 on the connection")
		} else {
			e.strm(f.Stream, ProtocolError, "§6.9 increment 0 on a stream")
		}
	}
	if f.Stream == 0 {
		if inc > 0 {
			if m.ConnWin+inc > maxWindow {
				e.Desc += "/overflow"
				e.conn(FlowControlError, "§6.9.1 connection window above 2^31-1")
			} else {
				e.onAccept = append(e.onAccept, func() { m.ConnWin += inc })
			}
		}
		return
	}
	id := f.Stream
	if id%2 == 0 || id > m.MaxID {
		e.conn(ProtocolError, "§5.1 idle: only HEADERS and PRIORITY may be received")
		return
	}
	s := m.Streams[id]
	if s != nil && s.Beyond {
		e.SilenceOK, e.AnyStream, e.Stream = true, true, id
		return
	}
	if s == nil || s.Closed {
		m.closedRules(e, f.Type, id, s)
		return
	}
	if inc > 0 {
		if s.Win+inc > maxWindow {
			e.Desc += "/overflow"
			e.strm(id, FlowControlError, "§6.9.1 stream window above 2^31-1")
		} else {
			e.onAccept = append(e.onAccept, func() { s.Win += inc })
		}
	}
}

func (m *Machine) rst(e *Expect, f h2wire.Frame) {
	e.Desc = "RST_STREAM/" + m.StateOf(f.Stream)
	if len(f.Payload) != 4 {
		e.Desc += "/bad-length"
		e.conn(FrameSizeError, "§6.4 RST_STREAM length other than 4")
		return
	}
	id := f.Stream
	if id == 0 {
		e.conn(ProtocolError, "§6.4 RST_STREAM on stream 0")
		return
	}
	if id%2 == 0 || id > m.MaxID {
		e.conn(ProtocolError, "§6.4 RST_STREAM on an idle stream")
		return
	}
	s := m.Streams[id]
	if s != nil && s.Beyond {
		e.SilenceOK, e.AnyStream, e.Stream = true, true, id
		return
	}
	if s == nil || s.Closed {
		m.closedRules(e, f.Type, id, s)
		return
	}
	e.onAccept = append(e.onAccept, func() { s.CliRST = true; m.close(s, "cli-rst") })
}

func (m *Machine) priority(e *Expect, f h2wire.Frame) {
	e.Desc = "PRIORITY/" + m.StateOf(f.Stream)
	if f.Stream == 0 {
		e.conn(ProtocolError, "§6.3 PRIORITY on stream 0")
		return
	}
	if m.beyond(f.Stream) {
		e.SilenceOK, e.AnyStream, e.Stream = true, true, f.Stream
	}
	if len(f.Payload) != 5 {
		e.Desc += "/bad-length"
		e.strm(f.Stream, FrameSizeError, "§6.3 PRIORITY length other than 5")
		return
	}
	if f.U32(0)&0x7fffffff == f.Stream {
		e.Desc += "/self-dependency"
		e.strm(f.Stream, ProtocolError, "§5.3.1 a stream cannot depend on itself")
	}
	// otherwise legal in every state (§5.1, §6.3); it does not open the stream
}

func (m *Machine) data(e *Expect, f h2wire.Frame) {
	id := f.Stream
	e.Desc = "DATA/" + m.StateOf(id)
	if id == 0 {
		e.conn(ProtocolError, "§6.1 DATA on stream 0")
		return
	}
	if f.Flags&h2wire.FPadded != 0 && (len(f.Payload) == 0 || int(f.Payload[0]) >= len(f.Payload)) {
		e.Desc += "/bad-padding"
		e.conn(ProtocolError, "§6.1 padding length >= payload length")
		return
	}
	if id%2 == 0 || id > m.MaxID {
		e.conn(ProtocolError, "§5.1 idle: only HEADERS and PRIORITY may be received")
		return
	}
	s := m.Streams[id]
	if s != nil && s.Beyond {
		e.SilenceOK, e.AnyStream, e.Stream = true, true, id
		return
	}
	if s == nil || s.Closed {
		m.closedRules(e, f.Type, id, s)
		return
	}
	if s.ClientEnded {
		e.strm(id, StreamClosed, "§5.1 half-closed(remote): frames other than WINDOW_UPDATE, PRIORITY, RST_STREAM")
		return
	}
	body, _ := f.DataBody()
	es := f.Flags&h2wire.FEndStream != 0
	e.onAccept = append(e.onAccept, func() {
		s.Body = append(s.Body, body...)
		if es {
			m.clientEnd(s)
		}
	})
}

func (m *Machine) headers(e *Expect, f h2wire.Frame, tag int) {
	id := f.Stream
	if id == 0 {
		e.Desc = "HEADERS/conn"
		e.conn(ProtocolError, "§6.2 HEADERS on stream 0")
		return
	}
	p := f.Payload
	padBad, selfDep := false, false
	pad := 0
	if f.Flags&h2wire.FPadded != 0 {
		if len(p) == 0 {
			padBad = true
		} else {
			pad = int(p[0])
			p = p[1:]
		}
	}
	if f.Flags&h2wire.FPriority != 0 && !padBad {
		if len(p) < 5 {
			e.Desc = "HEADERS/short-priority"
			e.conn(FrameSizeError, "§4.2 too small to contain mandatory frame data")
			return
		}
		dep := uint32(p[0]&0x7f)<<24 | uint32(p[1])<<16 | uint32(p[2])<<8 | uint32(p[3])
		selfDep = dep == id
		p = p[5:]
	}
	if !padBad && pad > len(p) {
		padBad = true
	}
	if !padBad {
		p = p[:len(p)-pad]
	}
	if f.Flags&h2wire.FEndHeaders == 0 {
		// the reaction to the block may come now (what can be told from the frame header) or when the block is complete
		e.Desc = "HEADERS/" + m.StateOf(id) + "/no-END_HEADERS"
		isNew := id%2 == 1 && id > m.MaxID
		c := &cont{stream: id, flags: f.Flags, frag: append([]byte(nil), p...), padBad: padBad, selfDep: selfDep, tag: tag, isNew: isNew}
		probe := &Expect{}
		m.headerBlockRules(probe, id, f.Flags, nil, padBad, selfDep, false, isNew)
		e.Stream, e.StreamErr, e.ConnErr, e.Rules, e.AnyStream = probe.Stream, probe.StreamErr, probe.ConnErr, probe.Rules, probe.AnyStream
		e.SilenceOK = true
		m.openIfNew(id)
		m.cont = c // a fact about the client's byte stream, whatever the server does
		return
	}
	m.headerBlock(e, "HEADERS/", id, f.Flags, p, padBad, selfDep, tag, id%2 == 1 && id > m.MaxID)
}

func (m *Machine) openIfNew(id uint32) *Stream {
	if id%2 == 1 && id > m.MaxID {
		// §5.1 idle: receiving HEADERS opens the stream; §5.1.1 lower idle streams become closed
		m.MaxID = id
		s := &Stream{ID: id, Win: m.IWS}
		if m.beyond(id) {
			s.Beyond = true
		}
		m.Streams[id] = s
		return s
	}
	return m.Streams[id]
}

// headerBlock handles a complete header block for stream id.
func (m *Machine) headerBlock(e *Expect, pfx string, id uint32, flags uint8, block []byte, padBad, selfDep bool, tag int, isNew bool) {
	st := m.StateOf(id)
	if isNew {
		st = "idle"
	}
	e.Desc = pfx + st
	var fields []h2wire.HF
	if !padBad {
		var err error
		fields, err = m.dec.Decode(block)
		if err != nil {
			e.Desc += "/bad-hpack"
			e.conn(CompressionError, "§4.3 header block decoding error")
			m.openIfNew(id)
			return
		}
	}
	m.headerBlockRules(e, id, flags, fields, padBad, selfDep, true, isNew)
	s := m.openIfNew(id)
	if !isNew || s == nil {
		if s != nil && !s.Closed && !s.ClientEnded && !s.Beyond && len(e.StreamErr) == 0 && len(e.ConnErr) == 0 {
			// legal trailers
			e.onAccept = append(e.onAccept, func() { m.clientEnd(s) })
		}
		return
	}
	if s.Beyond {
		return
	}
	if len(e.StreamErr) == 0 && len(e.ConnErr) == 0 {
		e.NewRequest = true
		es := flags&h2wire.FEndStream != 0
		e.onAccept = append(e.onAccept, func() {
			s.Accepted, s.AcceptTag = true, tag
			if es {
				m.clientEnd(s)
			}
		})
	} else if e.OwnResponse {
		s.OwnResp = true
		if flags&h2wire.FEndStream != 0 {
			s.ClientEnded = true // matters only if the server answers by itself instead of resetting
		}
	}
}

// headerBlockRules adds the alternatives for a (possibly still incomplete, decoded==false) header block on stream id. It does not change state.
func (m *Machine) headerBlockRules(e *Expect, id uint32, flags uint8, fields []h2wire.HF, padBad, selfDep, decoded, isNew bool) {
	if id%2 == 0 {
		e.Desc += "/even"
		e.conn(ProtocolError, "§5.1.1 client-initiated streams use odd identifiers")
		return
	}
	if !isNew {
		s := m.Streams[id]
		switch {
		case s != nil && s.Beyond:
			e.SilenceOK, e.AnyStream, e.Stream = true, true, id
		case s == nil || s.Closed:
			m.closedRules(e, h2wire.THeaders, id, s)
		case s.ClientEnded:
			e.strm(id, StreamClosed, "§5.1 half-closed(remote): frames other than WINDOW_UPDATE, PRIORITY, RST_STREAM")
		default: // open: trailers
			e.Desc += "/trailers"
			if padBad {
				e.Desc += "/bad-padding"
				e.strm(id, ProtocolError, "§6.2 padding exceeds the payload")
			}
			if flags&h2wire.FEndStream == 0 {
				e.Desc += "/no-END_STREAM"
				e.strm(id, ProtocolError, "§8.1 trailers must end the stream")
			}
			if decoded {
				if why := malformedFields(fields, true); why != "" {
					e.Desc += "/malformed:" + strings.SplitN(why, ":", 2)[0]
					e.strm(id, ProtocolError, "§8.1.2 malformed trailers: "+why)
				}
			}
		}
		return
	}
	// new stream
	e.Desc += "/new"
	if m.beyond(id) {
		// RFC 9113 §6.8: frames for streams above the last-stream-id of a sent GOAWAY can be discarded
		e.Desc += "/beyond-goaway"
		e.SilenceOK, e.AnyStream, e.Stream = true, true, id
		return
	}
	if padBad {
		e.Desc += "/bad-padding"
		e.strm(id, ProtocolError, "§6.2 padding exceeds the payload")
	}
	if m.activeExcept(id) >= m.cfg.MaxStreams {
		e.Desc += "/over-limit"
		e.strm(id, ProtocolError, "§5.1.2 exceeds advertised MAX_CONCURRENT_STREAMS")
		e.strm(id, RefusedStream, "§5.1.2 exceeds advertised MAX_CONCURRENT_STREAMS")
	}
	if selfDep {
		e.Desc += "/self-dependency"
		e.strm(id, ProtocolError, "§5.3.1 a stream cannot depend on itself")
	}
	if decoded && !padBad {
		if why := malformedFields(fields, false); why != "" {
			e.Desc += "/malformed:" + strings.SplitN(why, ":", 2)[0]
			e.strm(id, ProtocolError, "§8.1.2.6 malformed request: "+why)
			e.OwnResponse = true // "a server MAY send an HTTP response prior to closing or resetting the stream"
			e.SilenceOK = true   // ... and that response may come later (it is checked for at the end of the history)
		}
	}
}

// malformedFields checks a decoded field list against RFC 7540 §8.1.2 (request or trailers).
func malformedFields(fs []h2wire.HF, trailers bool) string {
	seenRegular := false
	pseudo := map[string]string{}
	for _, f := range fs {
		if f.Name == "" {
			return "empty-name: empty field name"
		}
		if strings.ToLower(f.Name) != f.Name {
			return "uppercase-name: field names must be lowercase (§8.1.2)"
		}
		if strings.HasPrefix(f.Name, ":") {
			if trailers {
				return "pseudo-in-trailers: pseudo-header field in trailers (§8.1.2.1)"
			}
			if seenRegular {
				return "pseudo-after-regular: pseudo-header field after a regular field (§8.1.2.1)"
			}
			switch f.Name {
			case ":method", ":scheme", ":path", ":authority":
			default:
				return "undefined-pseudo: undefined or response pseudo-header " + f.Name
			}
			if _, dup := pseudo[f.Name]; dup {
				return "duplicate-pseudo: duplicate pseudo-header (§8.1.2.3)"
			}
			pseudo[f.Name] = f.Value
			continue
		}
		seenRegular = true
		switch f.Name {
		case "connection", "keep-alive", "proxy-connection", "transfer-encoding", "upgrade":
			return "connection-specific: connection-specific field " + f.Name + " (§8.1.2.2)"
		case "te":
			if f.Value != "trailers" {
				return "connection-specific: te other than trailers (§8.1.2.2)"
			}
		}
	}
	if trailers {
		return ""
	}
	if pseudo[":method"] == "CONNECT" {
		if pseudo[":authority"] == "" || pseudo[":path"] != "" || pseudo[":scheme"] != "" {
			return "bad-connect: malformed CONNECT (§8.3)"
		}
		return ""
	}
	if pseudo[":method"] == "" || pseudo[":scheme"] == "" || pseudo[":path"] == "" {
		return "missing-pseudo: missing :method, :scheme or :path (§8.1.2.3)"
	}
	return ""
}

func (m *Machine) clientEnd(s *Stream) {
	s.ClientEnded = true
	if s.ServerEnded && !s.Closed {
		m.close(s, "end")
	}
}

func (m *Machine) close(s *Stream, why string) {
	if s.Closed {
		return
	}
	s.Closed = true
	s.Why = why
	m.LastClosed = s.ID
}

// ---- server side ------------------------------------------------------------

// Released is told by the harness that it let the handler of stream id return.
func (m *Machine) Released(id uint32) {
	if s := m.Streams[id]; s != nil && s.Held {
		s.Held = false
		m.Running--
	}
	m.cur = nil
	m.curFrame = "(handler of stream " + fmt.Sprint(id) + " released)"
}

func (m *Machine) viol(kind, got, detail string) Violation {
	state := "(no client frame)"
	if m.cur != nil {
		state = m.cur.Desc
	}
	if strings.HasPrefix(kind, "goaway-") {
		state = "any" // what the GOAWAY says is wrong whatever triggered it
	}
	return Violation{Kind: kind, State: state, Got: got, Detail: detail}
}

// Server is shown everything the implementation did in reaction to the last Client / Released call,
// up to quiescence: the frames it wrote, in order, and the handlers it started.
func (m *Machine) Server(out []h2wire.Frame, started []Start) []Violation {
	var vs []Violation
	e := m.cur
	defer func() { m.cur = nil }()
	adm := "(no client frame: only NO_ERROR reactions are admissible)"
	if e != nil {
		adm = e.String()
	}
	rules := ""
	if e != nil {
		rules = strings.Join(e.Rules, "; ")
	}
	// pass 1: error reactions against the admissible set
	answered, byStream := false, false
	for _, f := range out {
		switch f.Type {
		case h2wire.TGoAway:
			last, c := f.GoAwayFields()
			code := Code(c)
			got := fmt.Sprintf("GOAWAY(%v)", code)
			if m.GoAway != nil && last > m.GoAway.Last {
				vs = append(vs, m.viol("goaway-last-id-increased", got, fmt.Sprintf("%s: GOAWAY last-stream-id %d after an earlier GOAWAY with %d (§6.8 MUST NOT increase)", m.curFrame, last, m.GoAway.Last)))
			}
			if last < m.HighestActed {
				vs = append(vs, m.viol("goaway-does-not-cover-served-request", got, fmt.Sprintf("%s: GOAWAY(last-stream-id=%d, %v) but the server acted on the request of stream %d", m.curFrame, last, code, m.HighestActed)))
			}
			if code != NoError {
				switch {
				case m.Dead:
				case e == nil:
					vs = append(vs, m.viol("error-without-cause", got, fmt.Sprintf("%s: drew GOAWAY(%v); admissible: %s", m.curFrame, code, adm)))
				case hasCode(e.ConnErr, code):
					answered = true
				case e.Legal:
					vs = append(vs, m.viol("legal-frame-drew-error", got, fmt.Sprintf("%s is legal in this state (%s) but drew GOAWAY(%v)", m.curFrame, e.Desc, code)))
					answered = true
				default:
					vs = append(vs, m.viol("error-type-not-admissible", got, fmt.Sprintf("%s drew GOAWAY(%v); admissible: %s [%s]", m.curFrame, code, adm, rules)))
					answered = true
				}
				m.Dead = true
			}
			if m.GoAway == nil || last < m.GoAway.Last {
				m.GoAway = &goaway{Last: last, Code: code}
			} else if code != NoError {
				m.GoAway.Code = code
			}
			for _, s := range m.Streams {
				if s.ID > last && !s.Accepted && !s.Closed {
					s.Beyond = true
				}
			}
		case h2wire.TRSTStream:
			code := Code(f.RSTCode())
			if code == NoError {
				continue
			}
			got := fmt.Sprintf("RST_STREAM(%v)", code)
			switch {
			case m.Dead:
				// after a connection error nothing but handler starts is judged
			case e == nil:
				vs = append(vs, m.viol("error-without-cause", got, fmt.Sprintf("%s: drew RST_STREAM(%d,%v); admissible: %s", m.curFrame, f.Stream, code, adm)))
			case f.Stream == e.Stream && (e.AnyStream || hasCode(e.StreamErr, code)):
				answered, byStream = true, true
			case e.Legal:
				vs = append(vs, m.viol("legal-frame-drew-error", got, fmt.Sprintf("%s is legal in this state (%s) but drew RST_STREAM(%d,%v)", m.curFrame, e.Desc, f.Stream, code)))
				answered = true
			default:
				vs = append(vs, m.viol("error-type-not-admissible", got, fmt.Sprintf("%s drew RST_STREAM(%d,%v); admissible: %s [%s]", m.curFrame, f.Stream, code, adm, rules)))
				answered = true
			}
			if m.cont != nil && m.cont.stream == f.Stream && m.cont.tag == m.curTag && e != nil {
				m.cont.answered = true
			}
			if s := m.Streams[f.Stream]; s != nil {
				s.SrvRST = true
				s.OwnResp = false
				why := "srv-rst(" + code.String() + ")"
				if e != nil && !e.dead && f.Stream == e.Stream {
					why += " answering " + answeredClass(e.Desc)
				}
				m.close(s, why)
			}
		}
	}
	// pass 2: without an error reaction the frame took effect
	if e != nil && !e.dead && !answered {
		switch {
		case e.SilenceOK:
			for _, fn := range e.onAccept {
				fn()
			}
		case m.GoAway != nil && len(e.ConnErr) > 0:
			// §5.4.1: GOAWAY is a SHOULD; after a GOAWAY was already sent the error may be signalled by closing the connection only
			m.Dead, m.Owed = true, true
			m.OwedWhy = fmt.Sprintf("%s (%s) after GOAWAY: admissible %s", m.curFrame, e.Desc, adm)
		default:
			vs = append(vs, m.viol("illegal-frame-not-answered", "no-error", fmt.Sprintf("%s is not legal in this state (%s) but drew neither RST_STREAM nor GOAWAY; admissible: %s [%s]", m.curFrame, e.Desc, adm, rules)))
			// follow the implementation: it behaves as if it had accepted the frame
			for _, fn := range e.onAccept {
				fn()
			}
		}
	}
	if e != nil && e.Fatal && byStream && !m.Dead {
		m.Murky = true
	}
	// handler starts (they precede the responses they produce)
	for _, st := range started {
		s := m.Streams[st.Stream]
		got := "handler-started"
		switch {
		case s != nil && s.Accepted && !s.Started && s.AcceptTag == st.Tag:
			if m.GoAway != nil && st.Stream > m.GoAway.Last {
				vs = append(vs, m.viol("goaway-does-not-cover-served-request", got, fmt.Sprintf("%s: handler started for stream %d after GOAWAY(last-stream-id=%d)", m.curFrame, st.Stream, m.GoAway.Last)))
			}
		case m.Dead:
			vs = append(vs, Violation{Kind: "request-served-after-connection-error", State: m.stateForStart(st), Got: got,
				Detail: fmt.Sprintf("%s: a request handler was started for stream %d after a connection error", m.curFrame, st.Stream)})
		case s != nil && s.Started:
			vs = append(vs, Violation{Kind: "handler-started-for-inadmissible-request", State: "second handler on " + m.StateOf(st.Stream), Got: got,
				Detail: fmt.Sprintf("%s: a second request handler was started on stream %d (frame tag %d; the accepted request was tag %d)", m.curFrame, st.Stream, st.Tag, s.AcceptTag)})
		default:
			vs = append(vs, Violation{Kind: "handler-started-for-inadmissible-request", State: m.stateForStart(st), Got: got,
				Detail: fmt.Sprintf("%s: a request handler was started for stream %d, which does not carry a complete, well-formed request on a new, odd, strictly increasing stream id within the limit (%s); admissible: %s", m.curFrame, st.Stream, m.stateForStart(st), adm)})
		}
		if s == nil {
			s = &Stream{ID: st.Stream, Win: m.IWS}
			m.Streams[st.Stream] = s
			if st.Stream%2 == 1 && st.Stream > m.MaxID {
				m.MaxID = st.Stream
			}
		}
		if !s.Started {
			s.Started = true
			if st.Hold {
				s.Held = true
				m.Running++
				// §5.1.2 as the server applies it to its own work: the limit it advertises is the number of requests it
				// serves at a time; requests beyond it wait (or are refused), whatever happened to the streams of the
				// handlers that are still running
				if m.cfg.MaxStreams > 0 && m.Running > m.cfg.MaxStreams {
					vs = append(vs, Violation{Kind: "more-handlers-than-advertised-limit", State: fmt.Sprintf("%d handlers running", m.Running), Got: got,
						Detail: fmt.Sprintf("%s: the handler started for stream %d is number %d running at once; the server advertised SETTINGS_MAX_CONCURRENT_STREAMS=%d", m.curFrame, st.Stream, m.Running, m.cfg.MaxStreams)})
				}
			}
		}
		s.Accepted = true
		if st.Stream > m.HighestActed {
			m.HighestActed = st.Stream
		}
	}
	// pass 3: everything else, in order
	for _, f := range out {
		switch f.Type {
		case h2wire.TRSTStream:
			if Code(f.RSTCode()) != NoError {
				continue
			}
			// §8.1: after a complete response the server may ask the client to stop sending with RST_STREAM(NO_ERROR)
			s := m.Streams[f.Stream]
			if (s == nil || !s.ServerEnded) && !m.Dead {
				vs = append(vs, m.viol("rst-no-error-without-complete-response", "RST_STREAM(NO_ERROR)", fmt.Sprintf("%s: RST_STREAM(%d, NO_ERROR) on a stream without a complete response", m.curFrame, f.Stream)))
			}
			if s != nil {
				s.SrvRST = true
				m.close(s, "srv-rst-after-response")
			}
		case h2wire.THeaders, h2wire.TContinuation:
			frag := f.Payload
			if f.Type == h2wire.THeaders {
				frag = f.HeaderBlockFragment()
				m.srvCont = &srvBlock{stream: f.Stream, es: f.Flags&h2wire.FEndStream != 0}
			}
			if m.srvCont == nil {
				continue
			}
			m.srvCont.frag = append(m.srvCont.frag, frag...)
			if f.Flags&h2wire.FEndHeaders == 0 {
				continue
			}
			sb := m.srvCont
			m.srvCont = nil
			fields, _ := m.sdec.Decode(sb.frag)
			status := ""
			for _, hf := range fields {
				if hf.Name == ":status" {
					status = hf.Value
				}
			}
			s := m.Streams[sb.stream]
			switch {
			case s == nil || !(s.Accepted || s.OwnResp):
				vs = append(vs, m.viol("response-without-request", "HEADERS(:status "+status+")", fmt.Sprintf("%s: response HEADERS(:status %s) on stream %d (%s), which carries no admissible request", m.curFrame, status, sb.stream, m.StateOf(sb.stream))))
			case s.OwnResp && !s.Accepted:
				if !strings.HasPrefix(status, "4") {
					vs = append(vs, m.viol("malformed-request-answered-with-non-4xx", "HEADERS(:status "+status+")", fmt.Sprintf("%s: malformed request on stream %d answered with status %s", m.curFrame, sb.stream, status)))
				}
				if e != nil && e.Fatal {
					m.Murky = true
				}
				if sb.stream > m.HighestActed {
					m.HighestActed = sb.stream
				}
			}
			if s != nil {
				if !strings.HasPrefix(status, "1") {
					s.RespHeaders = true
				}
				if sb.es {
					m.serverEnd(s)
				}
			}
		case h2wire.TData:
			s := m.Streams[f.Stream]
			if s == nil || !s.RespHeaders || s.ServerEnded {
				vs = append(vs, m.viol("response-without-request", "DATA", fmt.Sprintf("%s: response DATA on stream %d (%s) outside a response", m.curFrame, f.Stream, m.StateOf(f.Stream))))
			}
			if s != nil && f.Flags&h2wire.FEndStream != 0 {
				m.serverEnd(s)
			}
		case h2wire.TSettings:
			if f.Flags&h2wire.FAck != 0 {
				if m.CliSettings > 0 {
					m.CliSettings--
				}
			} else {
				m.SrvSettings++
			}
		case h2wire.TPing:
			if f.Flags&h2wire.FAck != 0 && m.Pings > 0 {
				m.Pings--
			}
		}
	}
	return vs
}

func (m *Machine) stateForStart(st Start) string {
	if m.cur != nil && m.cur.Stream == st.Stream && (strings.HasPrefix(m.cur.Desc, "HEADERS") || strings.HasPrefix(m.cur.Desc, "CONTINUATION")) {
		return strings.Replace(m.cur.Desc, "CONTINUATION-end:", "HEADERS/", 1)
	}
	return "HEADERS/" + m.StateOf(st.Stream)
}

// answeredClass abstracts the class of a client frame that drew a stream error, for close reasons (and through them for signatures):
// frame type plus the coarse reason the RFC gives for rejecting it.
func answeredClass(desc string) string {
	typ := strings.SplitN(strings.SplitN(desc, "/", 2)[0], ":", 2)[0]
	if typ == "CONTINUATION-end" {
		typ = "HEADERS"
	}
	cause := ""
	switch {
	case strings.Contains(desc, "/bad-padding"):
		cause = "header-syntax" // §6.2 padding
	case strings.Contains(desc, "/malformed:"):
		cls := desc[strings.Index(desc, "/malformed:")+len("/malformed:"):]
		if i := strings.IndexByte(cls, '/'); i >= 0 {
			cls = cls[:i]
		}
		switch cls {
		case "missing-pseudo", "connection-specific", "bad-connect":
			cause = "request-semantics" // §8.1.2.2, §8.1.2.3, §8.3
		default:
			cause = "header-syntax" // §8.1.2, §8.1.2.1 field names, pseudo-header placement
		}
	case strings.Contains(desc, "/self-dependency"):
		cause = "self-dependency"
	case strings.Contains(desc, "/over-limit"):
		cause = "over-limit"
	case strings.Contains(desc, "/trailers"):
		cause = "trailers"
	}
	if cause != "" {
		return typ + "[" + cause + "]"
	}
	return typ
}

func (m *Machine) serverEnd(s *Stream) {
	s.ServerEnded = true
	if s.ClientEnded && !s.Closed {
		m.close(s, "end")
	}
}

// Finish: checks at the end of a history, after every held handler was released and the server is quiescent.
func (m *Machine) Finish() []Violation {
	var vs []Violation
	if m.Dead || m.GoAway != nil {
		return nil
	}
	for _, s := range m.sorted() {
		if s.Accepted && !s.Started && !s.Closed {
			vs = append(vs, Violation{Kind: "accepted-request-never-served", State: m.StateOf(s.ID), Got: "no-handler",
				Detail: fmt.Sprintf("stream %d carries a legal request within the limit, drew no error, was not reset, but no handler was ever started", s.ID)})
		}
		if s.OwnResp && !s.Accepted && !s.RespHeaders && !s.Closed {
			vs = append(vs, Violation{Kind: "illegal-frame-not-answered", State: "HEADERS/idle/new/malformed", Got: "no-error",
				Detail: fmt.Sprintf("the malformed request on stream %d was answered neither with RST_STREAM nor with a response", s.ID)})
		}
	}
	return vs
}
