// Package schedref is the reference ("boring") write scheduler used by check
// C20: a control list and one FIFO list per stream. It does not choose what
// to send — it decides whether what the implementation handed out is inside
// the SET of outcomes the property statement admits, and then follows the
// implementation's choice. Written from the property statement, the
// WriteScheduler interface contract and RFC 7540 §6.9 (flow control) / §4.2
// (frame size); it shares no code with pkg/http2.
//
// What the statement demands, clause by clause:
//
//	(1) every queued frame is handed out exactly once unless its stream was
//	    closed first             -> unknown-frame, handed-out-twice, lost-frame (drain, in the check)
//	(2) order within a stream is kept (stream 0 = control frames; RST_STREAM
//	    frames are exempt per the interface contract) -> stream-order, control-order
//	(3) control frames (non-stream frames and RST_STREAM) before stream data -> control-not-first
//	(4) DATA bytes released <= stream window, connection window, max frame
//	    size; pieces concatenate to the original (END_STREAM and the
//	    completion channel travel with the last piece) -> over-release, split-bytes, split-flags
//	(5) "nothing to write" only when no queued frame is sendable -> pop-false-while-sendable
//
// Freedom left by the statement (never flagged): WHICH ready stream is served,
// how many bytes (1..limit) a piece carries, the order of RST_STREAM frames
// relative to other control frames, and anything about frames whose stream was
// closed before they were handed out (at most once is all that is required).
package schedref

import (
	"bytes"
	"fmt"
	"sort"
	"strconv"
	"strings"
)

type Kind uint8

const (
	Ctl  Kind = iota // non-stream frame (SETTINGS, PING, WINDOW_UPDATE …)
	Rst              // RST_STREAM: a control frame for scheduling purposes, may target idle/closed streams
	Hdr              // a non-DATA frame that belongs to a stream
	Data             // DATA
)

func (k Kind) String() string { return [...]string{"CTL", "RST", "HEADERS", "DATA"}[k] }

type fstate uint8

const (
	queued fstate = iota
	handed
	discarded // its stream was closed before it was handed out
)

type Frame struct {
	Tag       int
	Kind      Kind
	Stream    uint32 // Hdr/Data: owning stream; Rst: the stream being reset; Ctl: 0
	Orig      []byte // Data payload as pushed
	Off       int    // bytes handed out so far
	EndStream bool
	HasDone   bool
	st        fstate
}

func (f *Frame) String() string {
	switch f.Kind {
	case Data:
		return fmt.Sprintf("DATA#%d(s%d,%d/%d)", f.Tag, f.Stream, f.Off, len(f.Orig))
	case Ctl:
		return fmt.Sprintf("CTL#%d", f.Tag)
	}
	return fmt.Sprintf("%s#%d(s%d)", f.Kind, f.Tag, f.Stream)
}

func (f *Frame) desc(b *strings.Builder) {
	switch f.Kind {
	case Ctl:
		b.WriteByte('c')
	case Rst:
		b.WriteByte('r')
		b.WriteString(strconv.Itoa(int(f.Stream)))
	case Hdr:
		b.WriteByte('h')
		b.WriteString(strconv.Itoa(int(f.Stream)))
	default:
		b.WriteByte('d')
		b.WriteString(strconv.Itoa(int(f.Stream)))
		b.WriteByte(':')
		b.WriteString(strconv.Itoa(len(f.Orig) - f.Off))
		if f.EndStream {
			b.WriteByte('E')
		}
		if f.HasDone {
			b.WriteByte('D')
		}
	}
	b.WriteByte(' ')
}

type Status uint8

const (
	Idle Status = iota // never opened
	Open
	Closed
)

type Stream struct {
	Status Status
	Win    int32
	Q      []*Frame
}

type Model struct {
	Ctl      []*Frame // control frames and RST_STREAMs in push order
	Streams  map[uint32]*Stream
	ConnWin  int32
	MaxFrame int32
	// counters
	ZombiePops int
}

func New(maxFrame, connWin int32) *Model {
	return &Model{Streams: map[uint32]*Stream{}, ConnWin: connWin, MaxFrame: maxFrame}
}

func (m *Model) Status(id uint32) Status {
	if s := m.Streams[id]; s != nil {
		return s.Status
	}
	return Idle
}

func (m *Model) Open(id uint32, win int32) {
	m.Streams[id] = &Stream{Status: Open, Win: win}
}

// Close discards what is queued on the stream (the statement exempts these frames).
func (m *Model) Close(id uint32) (n int) {
	s := m.Streams[id]
	for _, f := range s.Q {
		f.st = discarded
	}
	n = len(s.Q)
	s.Q = nil
	s.Status = Closed
	return
}

func (m *Model) Push(f *Frame) {
	f.st = queued
	switch f.Kind {
	case Ctl, Rst:
		m.Ctl = append(m.Ctl, f)
	default:
		s := m.Streams[f.Stream]
		s.Q = append(s.Q, f)
	}
}

func min3(a, b, c int32) int32 {
	if b < a {
		a = b
	}
	if c < a {
		a = c
	}
	return a
}

func (m *Model) headSendable(s *Stream) bool {
	if s.Status != Open || len(s.Q) == 0 {
		return false
	}
	h := s.Q[0]
	if h.Kind != Data || len(h.Orig)-h.Off == 0 {
		return true
	}
	return min3(s.Win, m.ConnWin, m.MaxFrame) > 0
}

// Sendable: is a control frame queued; which streams have a sendable head.
func (m *Model) Sendable() (ctl bool, streams []uint32) {
	for id, s := range m.Streams {
		if m.headSendable(s) {
			streams = append(streams, id)
		}
	}
	sort.Slice(streams, func(i, j int) bool { return streams[i] < streams[j] })
	return len(m.Ctl) > 0, streams
}

// QueuedFrames lists what is still owed.
func (m *Model) QueuedFrames() []*Frame {
	out := append([]*Frame(nil), m.Ctl...)
	ids := m.ids()
	for _, id := range ids {
		out = append(out, m.Streams[id].Q...)
	}
	return out
}

// QueuedWork is an upper bound on the number of Pops a drain needs.
func (m *Model) QueuedWork() int {
	n := 0
	for _, f := range m.QueuedFrames() {
		n += 1 + len(f.Orig) - f.Off
	}
	return n
}

func (m *Model) ids() []uint32 {
	ids := make([]uint32, 0, len(m.Streams))
	for id := range m.Streams {
		ids = append(ids, id)
	}
	sort.Slice(ids, func(i, j int) bool { return ids[i] < ids[j] })
	return ids
}

// Popped is what the implementation's Pop returned, already matched to the pushed frame it came from.
type Popped struct {
	OK         bool
	Frame      *Frame // nil: not a frame (or piece of a frame) that was ever pushed
	Bytes      []byte // DATA payload of this piece
	EndStream  bool
	DoneIsNil  bool
	DoneIsOrig bool
	StreamOK   bool          // refers to the same stream (id and object) as the pushed frame
	Identical  bool          // the very request that was pushed (same writer, stream and completion channel)
	Desc       func() string // description of what was returned (only evaluated for messages)
}

type Violation struct {
	Kind  string
	Limit string // over-release: which limit
	Msg   string
}

func v(kind, format string, a ...any) *Violation {
	return &Violation{Kind: kind, Msg: fmt.Sprintf(format, a...)}
}

// Outcome classifies an admissible Pop (for coverage accounting only).
type Outcome string

// Pop decides admissibility of the implementation's Pop result and, if admissible, follows it.
func (m *Model) Pop(p Popped) (Outcome, *Violation) {
	if !p.OK {
		if ctl, ss := m.Sendable(); ctl || len(ss) > 0 {
			return "", v("pop-false-while-sendable", "Pop reported nothing to write although sendable frames are queued: control queued=%v, streams with a sendable head=%v (%s)", ctl, ss, m.Key())
		}
		if len(m.QueuedFrames()) > 0 {
			return "false-blocked", nil
		}
		return "false-empty", nil
	}
	f := p.Frame
	if f == nil {
		return "", v("unknown-frame", "Pop returned %s which is not (a piece of) any frame that was pushed", p.Desc())
	}
	if f.st == handed {
		return "", v("handed-out-twice", "Pop returned %s again: %v was already handed out completely", p.Desc(), f)
	}
	zombie := f.st == discarded
	var s *Stream
	if f.Kind == Hdr || f.Kind == Data {
		s = m.Streams[f.Stream]
	}
	if !zombie {
		if len(m.Ctl) > 0 {
			if s != nil {
				return "", v("control-not-first", "Pop returned stream frame %v while control frames %v are queued", f, m.Ctl)
			}
			if f.Kind == Ctl {
				for _, c := range m.Ctl {
					if c.Kind == Ctl {
						if c != f {
							return "", v("control-order", "Pop returned %v before the earlier control frame %v", f, c)
						}
						break
					}
				}
			}
		} else if s == nil || len(s.Q) == 0 || s.Q[0] != f {
			var q []*Frame
			if s != nil {
				q = s.Q
			}
			return "", v("stream-order", "Pop returned %v which is not the head of its stream's queue %v", f, q)
		}
	}
	out := Outcome(strings.ToLower(f.Kind.String()))
	if zombie {
		m.ZombiePops++
		out = "zombie-" + out
	}
	rem := f.Orig[f.Off:]
	if f.Kind != Data || len(rem) == 0 {
		if f.Kind == Data { // zero-length DATA: flags are all it carries
			if p.EndStream != f.EndStream || (f.HasDone != p.DoneIsOrig) || !p.StreamOK || len(p.Bytes) != 0 {
				return "", v("altered-frame", "Pop returned %s for the pushed empty frame %v (endStream=%v done=%v)", p.Desc(), f, f.EndStream, f.HasDone)
			}
		} else if !p.Identical {
			return "", v("altered-frame", "Pop returned %s, not the request that was pushed as %v", p.Desc(), f)
		}
		m.remove(f, s)
		return out, nil
	}
	k := len(p.Bytes)
	if k > len(rem) || !bytes.Equal(p.Bytes, rem[:k]) {
		return "", v("split-bytes", "Pop returned %s: its %d payload bytes %x are not the next bytes of %v (expected a prefix of %x)", p.Desc(), k, clip(p.Bytes), f, clip(rem))
	}
	if !p.StreamOK {
		return "", v("altered-frame", "Pop returned %s: piece of %v refers to another stream", p.Desc(), f)
	}
	win := s.Win
	lim, name := win, "stream-window"
	if m.ConnWin < lim {
		lim, name = m.ConnWin, "conn-window"
	}
	if m.MaxFrame < lim {
		lim, name = m.MaxFrame, "max-frame-size"
	}
	if k > 0 && int32(k) > lim {
		vi := v("over-release", "Pop released %d DATA bytes of %v but only %d are allowed (stream window %d, connection window %d, max frame size %d)", k, f, lim, s.Win, m.ConnWin, m.MaxFrame)
		vi.Limit = name
		return "", vi
	}
	if k < len(rem) {
		if p.EndStream || !p.DoneIsNil {
			return "", v("split-flags", "Pop returned the non-final piece %s of %v with endStream=%v / completion channel set=%v", p.Desc(), f, p.EndStream, !p.DoneIsNil)
		}
		if f.Off == 0 {
			out += "-first-piece"
		} else {
			out += "-mid-piece"
		}
		out += Outcome("-by-" + name)
	} else {
		if p.EndStream != f.EndStream || f.HasDone != p.DoneIsOrig || (!f.HasDone && !p.DoneIsNil) {
			return "", v("split-flags", "Pop returned the final piece %s of %v (pushed with endStream=%v, completion channel=%v) with endStream=%v, original channel=%v", p.Desc(), f, f.EndStream, f.HasDone, p.EndStream, p.DoneIsOrig)
		}
		if f.Off == 0 {
			out += "-whole"
		} else {
			out += "-last-piece"
		}
	}
	s.Win -= int32(k)
	m.ConnWin -= int32(k)
	f.Off += k
	if f.Off == len(f.Orig) {
		m.remove(f, s)
	}
	return out, nil
}

func clip(b []byte) []byte {
	if len(b) > 12 {
		return b[:12]
	}
	return b
}

func (m *Model) remove(f *Frame, s *Stream) {
	if f.st == queued {
		if s != nil {
			s.Q = del(s.Q, f)
		} else {
			m.Ctl = del(m.Ctl, f)
		}
	}
	f.st = handed
}

func del(q []*Frame, f *Frame) []*Frame {
	for i, x := range q {
		if x == f {
			return append(append([]*Frame(nil), q[:i]...), q[i+1:]...)
		}
	}
	return q
}

// Key is a canonical dump that does not mention frame identities.
func (m *Model) Key() string {
	var b strings.Builder
	m.WriteKey(&b)
	return b.String()
}

func (m *Model) WriteKey(b *strings.Builder) {
	b.WriteString("cw=")
	b.WriteString(strconv.Itoa(int(m.ConnWin)))
	b.WriteString(" mf=")
	b.WriteString(strconv.Itoa(int(m.MaxFrame)))
	b.WriteString(" ctl=[")
	for _, f := range m.Ctl {
		f.desc(b)
	}
	b.WriteString("]")
	for _, id := range m.ids() {
		s := m.Streams[id]
		b.WriteString(" s")
		b.WriteString(strconv.Itoa(int(id)))
		b.WriteByte(':')
		b.WriteString(strconv.Itoa(int(s.Status)))
		b.WriteString(":w")
		b.WriteString(strconv.Itoa(int(s.Win)))
		b.WriteByte('[')
		for _, f := range s.Q {
			f.desc(b)
		}
		b.WriteString("]")
	}
}
