package ja4ref

import (
	"encoding/hex"
	"os"
	"path/filepath"
	"regexp"
	"testing"

	"verif/ref/chello"
	"verif/ref/chello/pcapscan"
)

// Self-test of the reference against values produced by FoxIO's own
// implementation: the two literal hellos quoted in /repo/pkg/ja4/ja4_test.go
// and the official snapshots next to the pcaps in /repo/pkg/ja4pcap/testdata.
func TestLiteral(t *testing.T) {
	for _, c := range []struct{ hello, want string }{
		{"160301020b0100020703037f020a187f3aa7329f24155b77abff130dd616e200f6ef7d6c2d4657bf48218a20d945e74ab5e723901b3948e36cd39e248009489982497543815cdd74c3da32620076130213031301c02fc02bc030c02c009ec0270067c028006b00a3009fcca9cca8ccaac0afc0adc0a3c09fc05dc061c057c05300a2c0aec0acc0a2c09ec05cc060c056c052c024006ac0230040c00ac01400390038c009c01300330032009dc0a1c09dc051009cc0a0c09cc050003d003c0035002f00ff010001480000001b0019000016736869627579612e6170692e7375627363616e2e696f000b000403000102000a000c000a001d0017001e00190018002300000016000000170000000d0030002e040305030603080708080809080a080b080408050806040105010601030302030301020103020202040205020602002b00050403040303002d00020101003300260024001d00207289331a6f55556a98dfe0c96d52fc31d897644a5f87c3d71506b98fc198602300290094006f0069eb56145bbba79db5b290bd16a6133dea5d88e79857b13f7ac21c07962ca58afc84c0f1e8f29205c345c5eeeb67237ace5f6838feadfd2acadc5e464ddf7c9b3a9560d9dd6a8f030c452d6ea621b45e5c07e899184648adcc8a5d898ff6dc6050627de2070b9cd0efcea059033500212061b4238d30f5cda4b6559bd1061936b2912bd69a8b49610246db2d7bbae4b73c",
			"t13d591100_a33745022dd6_a11995863d32"},
	} {
		rec, _ := hex.DecodeString(c.hello)
		p, err := chello.Parse(rec)
		if err != nil {
			t.Fatal(err)
		}
		r := Of(p)
		if ok, f := r.Match(c.want); !ok {
			t.Errorf("reference rejects FoxIO value %s (field %s); admissible %v", c.want, f, r.Strings())
		}
		if !WellFormed(c.want) {
			t.Errorf("WellFormed rejects %s", c.want)
		}
	}
}

func TestSnapshots(t *testing.T) {
	dir := os.Getenv("VERIF_REPO")
	if dir == "" {
		dir = "/repo"
	}
	hs, err := pcapscan.Dir(filepath.Join(dir, "pkg/ja4pcap/testdata/pcap"))
	if err != nil {
		t.Skip(err)
	}
	re := regexp.MustCompile(`(?m)^\s+ja4: (\S+)$`)
	matched, total := 0, 0
	for _, h := range hs {
		snap, err := os.ReadFile(filepath.Join(dir, "pkg/ja4pcap/testdata/snapshots", "ja4__insta@"+h.File+".snap"))
		if err != nil {
			continue
		}
		p, _ := chello.Parse(h.Record)
		r := Of(p)
		total++
		ok := false
		for _, m := range re.FindAllStringSubmatch(string(snap), -1) {
			if g, _ := r.Match(m[1]); g {
				ok = true
			}
		}
		if ok {
			matched++
		} else {
			t.Logf("%s@%d: reference %v matches no snapshot value", h.File, h.Offset, r.Strings())
		}
	}
	t.Logf("%d of %d extracted hellos have a reference value listed in FoxIO's snapshot of their file", matched, total)
	if total < 20 || matched < total*9/10 {
		t.Errorf("reference disagrees with FoxIO snapshots too often: %d/%d", matched, total)
	}
}
