// Package ja4ref is the reference model for property C02 (JA4 of a TLS
// ClientHello over TCP), written from the property statement and the FoxIO
// JA4 text it cites, over a hello parsed by verif/ref/chello. Independent of
// pkg/ja4 and utls.
//
//	a = "t" version sni nciphers(2) nexts(2) alpn(2)
//	b = sha256(sorted ciphers as %04x joined by ",")[:12]
//	c = sha256(sorted extension types w/o SNI(0) and ALPN(16) as %04x joined by ","
//	           [ "_" signature algorithms in wire order as %04x joined by "," ])[:12]
//	JA4 = a "_" b "_" c          GREASE values ignored everywhere
//
// Where the statement (or the FoxIO text) leaves a choice the model returns
// every admissible outcome:
//   - supported_versions present but holding only GREASE values: "00" (no
//     version found) or the code of the hello's legacy version;
//   - an empty hash input (no cipher / no extension left): sha256 of the empty
//     string truncated (what the statement literally says) or FoxIO's
//     "000000000000";
//   - a first ALPN value whose first or last byte is not 7-bit ASCII: any two
//     bytes (the statement only fixes "first and last character"; FoxIO revisions
//     differ: "99" or hex nibbles).
package ja4ref

import (
	"crypto/sha256"
	"encoding/hex"
	"fmt"
	"regexp"
	"sort"
	"strings"
	"unicode/utf8"

	"verif/ref/chello"
)

// Ref is the set of admissible JA4 values of one hello in factored form.
type Ref struct {
	Versions []string // admissible two-character version codes
	SNI      byte     // 'd' or 'i'
	NCiphers string   // two digits
	NExts    string   // two digits
	ALPN     string   // two characters, meaningful when !ALPNAny
	ALPNAny  bool     // any two bytes are admissible
	B        []string // admissible cipher hashes
	C        []string // admissible extension(+sigalg) hashes
	BInput   string   // the hashed strings, for diagnostics
	CInput   string
}

func versionCode(v uint16) string {
	switch v {
	case 0x0304:
		return "13"
	case 0x0303:
		return "12"
	case 0x0302:
		return "11"
	case 0x0301:
		return "10"
	}
	return "00"
}

func hash12(s string) string {
	sum := sha256.Sum256([]byte(s))
	return hex.EncodeToString(sum[:])[:12]
}

func hashes(input string) []string {
	if input == "" {
		return []string{hash12(""), "000000000000"}
	}
	return []string{hash12(input)}
}

func hexlist(vs []uint16) string {
	parts := make([]string, len(vs))
	for i, v := range vs {
		parts[i] = fmt.Sprintf("%04x", v)
	}
	return strings.Join(parts, ",")
}

func count2(n int) string {
	if n > 99 {
		n = 99
	}
	return fmt.Sprintf("%02d", n)
}

// Of computes the reference for a parsed hello.
func Of(p *chello.Parsed) Ref {
	var r Ref
	// version
	if p.HasSupportedVersions {
		var best uint16
		found := false
		for _, v := range p.SupportedVersions {
			if chello.IsGREASE(v) {
				continue
			}
			if !found || v > best {
				best, found = v, true
			}
		}
		if found {
			r.Versions = []string{versionCode(best)}
		} else {
			r.Versions = []string{"00"}
			if c := versionCode(p.Version); c != "00" {
				r.Versions = append(r.Versions, c)
			}
		}
	} else {
		r.Versions = []string{versionCode(p.Version)}
	}
	// sni
	r.SNI = 'i'
	if p.HasSNI {
		r.SNI = 'd'
	}
	// ciphers
	var cs []uint16
	for _, c := range p.Ciphers {
		if !chello.IsGREASE(c) {
			cs = append(cs, c)
		}
	}
	r.NCiphers = count2(len(cs))
	sort.Slice(cs, func(i, j int) bool { return cs[i] < cs[j] })
	r.BInput = hexlist(cs)
	r.B = hashes(r.BInput)
	// extensions
	var xs []uint16
	n := 0
	for _, e := range p.Exts {
		if chello.IsGREASE(e.Type) {
			continue
		}
		n++
		if e.Type == chello.ExtSNI || e.Type == chello.ExtALPN {
			continue
		}
		xs = append(xs, e.Type)
	}
	r.NExts = count2(n)
	sort.Slice(xs, func(i, j int) bool { return xs[i] < xs[j] })
	var sa []uint16
	for _, a := range p.SigAlgs {
		if !chello.IsGREASE(a) {
			sa = append(sa, a)
		}
	}
	r.CInput = hexlist(xs)
	if len(sa) > 0 {
		r.CInput += "_" + hexlist(sa)
		r.C = []string{hash12(r.CInput)}
	} else {
		r.C = hashes(r.CInput)
	}
	// alpn
	r.ALPN = "00"
	if p.HasALPN && len(p.ALPN) > 0 && len(p.ALPN[0]) > 0 {
		v := p.ALPN[0]
		f, l := v[0], v[len(v)-1]
		if f >= 0x80 || l >= 0x80 {
			r.ALPNAny = true
		} else {
			r.ALPN = string([]byte{f, l})
		}
	}
	return r
}

// Strings lists the admissible values (the ALPN position is shown as "??"
// when any two bytes are admissible).
func (r Ref) Strings() []string {
	alpn := r.ALPN
	if r.ALPNAny {
		alpn = "??"
	}
	var out []string
	for _, v := range r.Versions {
		for _, b := range r.B {
			for _, c := range r.C {
				out = append(out, "t"+v+string(r.SNI)+r.NCiphers+r.NExts+alpn+"_"+b+"_"+c)
			}
		}
	}
	return out
}

func in(s string, set []string) bool {
	for _, x := range set {
		if x == s {
			return true
		}
	}
	return false
}

// split cuts got into a (at least the 8 fixed bytes), b, c from the right: b
// and c are exactly 12 bytes each, preceded by "_".
func split(got string) (a, b, c string, ok bool) {
	n := len(got)
	if n < 8+1+1+12+1+12 || got[n-13] != '_' || got[n-26] != '_' {
		return "", "", "", false
	}
	return got[:n-26], got[n-25 : n-13], got[n-12:], true
}

// twoChars: the ALPN part is two bytes or two characters (a non-ASCII byte
// converted to a character occupies two bytes in UTF-8).
func twoChars(s string) bool { return len(s) == 2 || utf8.RuneCountInString(s) == 2 }

// Match reports whether got is admissible; if not, field names the first
// component that is wrong: form, protocol, version, sni, nciphers, nexts, alpn, b, c.
func (r Ref) Match(got string) (ok bool, field string) {
	a, b, c, ok := split(got)
	if !ok {
		return false, "form"
	}
	if r.ALPNAny {
		if !twoChars(a[8:]) {
			return false, "form"
		}
	} else if len(a) != 10 {
		return false, "form"
	}
	switch {
	case a[0] != 't':
		return false, "protocol"
	case !in(a[1:3], r.Versions):
		return false, "version"
	case a[3] != r.SNI:
		return false, "sni"
	case a[4:6] != r.NCiphers:
		return false, "nciphers"
	case a[6:8] != r.NExts:
		return false, "nexts"
	case !r.ALPNAny && a[8:] != r.ALPN:
		return false, "alpn"
	case !in(b, r.B):
		return false, "b"
	case !in(c, r.C):
		return false, "c"
	}
	return true, ""
}

var (
	aRE   = regexp.MustCompile(`^t(00|10|11|12|13)[di][0-9]{4}$`)
	hexRE = regexp.MustCompile(`^[0-9a-f]{12}$`)
)

// WellFormed is the form clause of the statement: a_b_c with twelve hex
// digits in b and in c, and a = t, version code, d|i, two 2-digit counts, two
// ALPN characters.
func WellFormed(got string) bool {
	a, b, c, ok := split(got)
	return ok && aRE.MatchString(a[:8]) && twoChars(a[8:]) && hexRE.MatchString(b) && hexRE.MatchString(c)
}
