// Package chref is the reference model for property C04 ("ClientHello
// capture is exact, transparent and segmentation-independent"). It is written
// from the property statement and the TLS record layout (RFC 8446 §5.1 /
// RFC 5246 §6.2: ContentType(1) ProtocolVersion(2) length(2) fragment) and
// shares nothing with the code under test.
//
// The model is a pure function of the bytes the client has sent so far; how
// they were cut into reads is not an input — that is the property.
package chref

// Bounds taken from the quantifier of the property statement.
const (
	HeaderLen      = 5
	TypeHandshake  = 22
	MaxLegalLength = 1<<14 + 2048 // "every legal TLS length 0..2^14+2048"
	MinVersion     = 0x0300       // SSL 3.0
	MaxVersion     = 0x0304       // TLS 1.3
)

// Verdict is the SET of admissible answers to "which ClientHello is handed to
// fingerprinting" for a given delivered stream.
type Verdict struct {
	// MustReport: the first record is a complete handshake record inside the
	// quantifier (legal length, record version SSL3.0..TLS1.3): exactly Record
	// has to be reported.
	MustReport bool
	// MayReport: the first record is complete and of handshake type but outside
	// the quantifier (length above the legal maximum or a record version outside
	// SSL3.0..TLS1.3). The statement leaves it open whether such a stream "is a
	// TLS handshake record": reporting nothing and reporting exactly Record are
	// both admissible.
	MayReport bool
	// Record is the first record (header + declared length) when MustReport or MayReport.
	Record []byte
	// Why explains a "nothing may be reported" verdict.
	Why string
	// Declared is the length field of the header (-1 if fewer than 5 bytes arrived).
	Declared int
}

// Classify decides what may be reported after exactly `delivered` has arrived
// (whether or not the stream then ends).
func Classify(delivered []byte) Verdict {
	if len(delivered) < HeaderLen {
		return Verdict{Why: "fewer than 5 bytes: no record header yet", Declared: -1}
	}
	declared := int(delivered[3])<<8 | int(delivered[4])
	if delivered[0] != TypeHandshake {
		return Verdict{Why: "first record is not of handshake type", Declared: declared}
	}
	need := HeaderLen + declared
	if len(delivered) < need {
		return Verdict{Why: "first record not complete", Declared: declared}
	}
	vers := int(delivered[1])<<8 | int(delivered[2])
	rec := delivered[:need:need]
	if declared > MaxLegalLength || vers < MinVersion || vers > MaxVersion {
		return Verdict{MayReport: true, Record: rec, Declared: declared}
	}
	return Verdict{MustReport: true, Record: rec, Declared: declared}
}

// Admissible reports whether the observed outcome (reported=false: an error /
// nothing; reported=true: these bytes) is inside the admissible set.
func (v Verdict) Admissible(reported bool, got []byte) bool {
	switch {
	case v.MustReport:
		return reported && equal(got, v.Record)
	case v.MayReport:
		return !reported || equal(got, v.Record)
	default:
		return !reported
	}
}

func equal(a, b []byte) bool {
	if len(a) != len(b) {
		return false
	}
	for i := range a {
		if a[i] != b[i] {
			return false
		}
	}
	return true
}
