//go:build verif

// Package plumb is seam B of C01/C02: the fingerprint header as received by a
// recording backend behind the REAL proxy stack equals the reference
// fingerprint of the ClientHello bytes the client's own recorder saw — for
// every hello shape x negotiated protocol x way of delivering the hello bytes,
// for both requests of a connection, with another client's connection
// interposed, for the default and an extended injector set.
package plumb

import (
	"fmt"
	"github.com/wi1dcard/fingerproxy/pkg/fingerprint"
	"github.com/wi1dcard/fingerproxy/pkg/proxyserver"
	"log"
	"net/http"
	"testing"
	"testing/synctest"

	utls "github.com/refraction-networking/utls"
	"github.com/wi1dcard/fingerproxy"
	"github.com/wi1dcard/fingerproxy/pkg/reverseproxy"
	"verif/bubble"
	"verif/ev"
	"verif/memnet"
)

type Shape struct {
	Name  string
	Hello bubble.Hello
}

func Shapes() []Shape {
	id := func(i utls.ClientHelloID) *utls.ClientHelloID { return &i }
	var out []Shape
	for _, s := range []struct {
		n  string
		id *utls.ClientHelloID
	}{
		{"chrome102", id(utls.HelloChrome_102)}, {"chrome120-shuffled-ech", id(utls.HelloChrome_120)}, {"chrome58", id(utls.HelloChrome_58)},
		{"firefox105", id(utls.HelloFirefox_105)}, {"firefox120", id(utls.HelloFirefox_120)}, {"firefox65", id(utls.HelloFirefox_65)},
		{"safari16", id(utls.HelloSafari_16_0)}, {"ios14", id(utls.HelloIOS_14)}, {"edge85", id(utls.HelloEdge_85)},
	} {
		out = append(out, Shape{s.n, bubble.Hello{Name: s.n, ID: s.id, SNI: "localhost"}})
	}
	out = append(out,
		Shape{"chrome102-nosni", bubble.Hello{Name: "chrome102-nosni", ID: id(utls.HelloChrome_102)}},
		Shape{"go-tls12", bubble.Hello{Name: "go-tls12", SNI: "localhost", MaxVer: 0x0303}},
		Shape{"go-tls13", bubble.Hello{Name: "go-tls13", SNI: "example.com"}},
		Shape{"go-nosni", bubble.Hello{Name: "go-nosni"}},
		Shape{"chrome102-nopoints", bubble.Hello{Name: "chrome102-nopoints", ID: id(utls.HelloChrome_102), SNI: "localhost", Mutate: func(spec *utls.ClientHelloSpec) {
			var keep []utls.TLSExtension
			for _, e := range spec.Extensions {
				if _, ok := e.(*utls.SupportedPointsExtension); !ok {
					keep = append(keep, e)
				}
			}
			spec.Extensions = keep
		}}},
	)
	// A TLS 1.3 client that puts the middlebox-compatibility change_cipher_spec record (RFC 8446 appendix D.4) directly
	// behind its ClientHello, in the same write: the server ignores the record, the handshake completes, and the
	// ClientHello the client sent is still its first record and nothing more
	for _, s := range []struct {
		n  string
		id *utls.ClientHelloID
	}{{"chrome102-ccs-behind-hello", id(utls.HelloChrome_102)}, {"firefox105-ccs-behind-hello", id(utls.HelloFirefox_105)}} {
		out = append(out, Shape{s.n, bubble.Hello{Name: s.n, ID: s.id, SNI: "localhost", Filter: func(off int64, b []byte) []byte {
			if off == 0 && len(b) > 5 && b[0] == 0x16 {
				return append(append([]byte{}, b...), 0x14, 0x03, 0x03, 0x00, 0x01, 0x01)
			}
			return b
		}}})
	}
	// ClientHellos that fill their TLS record to (nearly) the 2^14 limit: the padding extension is sized so that the
	// handshake message is exactly `total` bytes long
	for _, total := range []int{16384, 16381, 16379} {
		total := total
		name := fmt.Sprintf("chrome102-record-%d", total)
		out = append(out, Shape{name, bubble.Hello{Name: name, ID: id(utls.HelloChrome_102), SNI: "localhost", Mutate: func(spec *utls.ClientHelloSpec) {
			for _, e := range spec.Extensions {
				if p, ok := e.(*utls.UtlsPaddingExtension); ok {
					p.GetPaddingLen = func(unpadded int) (int, bool) { return total - unpadded - 4, true }
				}
			}
		}}})
	}
	return out
}

var Deliveries = []string{"one-read", "byte-at-a-time", "cut-at-5", "every-50th", "cut-at-2"}

type custom struct{}

func (custom) GetHeaderName() string                        { return "X-My-FP" }
func (custom) GetHeaderValue(*http.Request) (string, error) { return "custom", nil }

// Ref returns the admissible header values for a ClientHello record (nil slice: no header may be produced /
// the reference cannot decide: skip).
type Ref func(record []byte) (admissible []string, ok bool)

func deliverHello(cl *bubble.Client, mode string) {
	synctest.Wait() // the client has staged its ClientHello
	n := cl.Raw.Staged()
	switch mode {
	case "one-read":
		cl.Raw.Deliver(-1)
	case "byte-at-a-time":
		for i := 0; i < n; i++ {
			cl.Raw.Deliver(1)
			synctest.Wait()
		}
	case "cut-at-5":
		cl.Raw.Deliver(5)
		synctest.Wait()
		cl.Raw.Deliver(-1)
	case "cut-at-2": // the record header itself arrives in two reads
		cl.Raw.Deliver(2)
		synctest.Wait()
		cl.Raw.Deliver(-1)
	case "every-50th":
		for i := 0; i < n; i += 50 {
			cl.Raw.Deliver(50)
			synctest.Wait()
		}
	}
	cl.Raw.SetManual(false)
	synctest.Wait()
}

// SeamB runs this shard's part of the matrix. header is the header name checked.
func SeamB(t *testing.T, rep *ev.Report, prop, header string, ref Ref, shard, of int) {
	shapes := Shapes()
	if !ev.Thorough() {
		// the quick tier's selection, by name (an index list silently changed meaning when shapes were inserted)
		pick := map[string]bool{"chrome102": true, "chrome120-shuffled-ech": true, "firefox105": true, "safari16": true, "go-tls12": true, "go-nosni": true,
			"chrome102-nopoints": true, "chrome102-ccs-behind-hello": true, "firefox105-ccs-behind-hello": true, "chrome102-record-16384": true, "chrome102-record-16381": true}
		var sel []Shape
		for _, sh := range shapes {
			if pick[sh.Name] {
				sel = append(sel, sh)
			}
		}
		if len(sel) != len(pick) {
			panic("plumb: quick-tier shape selection names a shape that does not exist")
		}
		shapes = sel
	}
	if shard == of-1 {
		n := 300
		if ev.Thorough() {
			n = 700
		}
		Population(t, rep, prop, header, ref, n)
	}
	job := 0
	for _, set := range []string{"default", "default+custom"} {
		for _, sh := range shapes {
			for _, alpn := range [][]string{{"h2", "http/1.1"}, {"http/1.1"}, nil} {
				for _, del := range Deliveries {
					job++
					if job%of != shard {
						continue
					}
					if !ev.Thorough() && set == "default+custom" && del != "byte-at-a-time" {
						continue
					}
					runOne(t, rep, prop, header, ref, set, sh, alpn, del, job%2 == 1)
				}
			}
		}
	}
}

// verbose: the binary's -verbose flag (verbose logs of the proxy server and of the fingerprint package, to loggers
// that do format their arguments); it may only add log lines.
func runOne(t *testing.T, rep *ev.Report, prop, header string, ref Ref, set string, sh Shape, alpn []string, del string, verbose bool) {
	desc := fmt.Sprintf("seamB set=%s shape=%s alpn=%v delivery=%s verbose=%v", set, sh.Name, alpn, del, verbose)
	fingerprint.VerboseLogs = verbose
	fingerprint.Logger = log.New(&sink{}, "", 0)
	defer func() { fingerprint.VerboseLogs = false }()
	hsFailed := ""
	res := bubble.Run(t, func() {
		inj := fingerproxy.DefaultHeaderInjectors()
		if set != "default" {
			inj = append(inj, reverseproxy.HeaderInjector(custom{}))
		}
		st := bubble.NewStack(bubble.StackOpts{Injectors: inj, Configure: func(s *proxyserver.Server) {
			s.VerboseLogs = verbose
			s.ErrorLog = log.New(&sink{}, "", 0)
		}})
		defer st.Shutdown()
		h := sh.Hello
		h.ALPN = alpn
		h.Manual = true
		cl := st.Connect("a", memnet.TCPAddr("192.0.2.1", 40000), h)
		deliverHello(cl, del)
		if done, err := cl.Handshake(); !done || err != nil {
			hsFailed = fmt.Sprintf("done=%v err=%v", done, err)
			return
		}
		proto := cl.Proto
		send := func(c *bubble.Client, stream uint32, path string) {
			if c.Proto == "h2" {
				if stream == 1 {
					c.StartH2()
				}
				c.SendH2(stream, bubble.Req{Path: path, Host: "localhost"})
			} else {
				c.SendH1(bubble.Req{Path: path, Host: "localhost"})
			}
			synctest.Wait()
		}
		send(cl, 1, "/a1")
		// another client, different hello, same peer address, connects and sends a request in between
		oh := Shapes()[3].Hello
		if sh.Name == "firefox105" {
			oh = Shapes()[0].Hello
		}
		oh.ALPN = []string{"h2", "http/1.1"}
		other := st.Connect("b", memnet.TCPAddr("192.0.2.1", 40000), oh)
		synctest.Wait()
		send(other, 1, "/b1")
		send(cl, 3, "/a2")
		// the handler's injector set is replaced by the same injectors in reverse order (the exported field of a live
		// handler, between two requests): every name still goes with the value of its own injector
		if st.RP != nil && len(st.RP.HeaderInjectors) > 1 {
			n := len(st.RP.HeaderInjectors)
			rev := make([]reverseproxy.HeaderInjector, n)
			for i, x := range st.RP.HeaderInjectors {
				rev[n-1-i] = x
			}
			st.RP.HeaderInjectors = rev
		}
		send(cl, 5, "/a3")
		if proto != "h2" {
			// an HTTP/1.1 client may name any field a connection option; what is stripped is its field, not the proxy's
			cl.SendH1(bubble.Req{Path: "/a4", Host: "localhost", Lines: [][2]string{{"Connection", "keep-alive, " + header}}})
			synctest.Wait()
		}
		rec := cl.FirstRecord()
		adm, ok := ref(rec)
		rep.Add("evaluations", 1)
		rep.Add("seamB_connections", 1)
		rep.Note("distinct_nontrivial", "seamB/"+set+"/"+sh.Name+"/"+proto+"/"+del)
		var vals []string
		paths := []string{"/a1", "/a2", "/a3"}
		if proto != "h2" {
			paths = append(paths, "/a4")
		}
		for _, p := range paths {
			got := st.Backend.ByPath(p)
			if len(got) != 1 {
				rep.HarnessError("%s: backend saw %s %d times", desc, p, len(got))
				return
			}
			v := got[0].Values(header)
			if !ok {
				continue
			}
			good := len(v) == 1 && contains(adm, v[0])
			if len(adm) == 0 {
				good = len(v) == 0
			}
			if !good {
				rep.Violate(map[string]any{"kind": "header-at-backend-wrong", "header": header, "proto": proto, "delivery": del},
					map[string]any{"desc": desc, "request": p, "record_hex": fmt.Sprintf("%x", rec), "got": v, "admissible": adm},
					"%s: request %s (%s) reached the backend with %s=%q; the ClientHello this client sent has fingerprint %v", desc, p, proto, header, v, adm)
			}
			if len(v) == 1 {
				vals = append(vals, v[0])
			}
		}
		if len(vals) >= 2 && vals[0] != vals[1] {
			rep.Violate(map[string]any{"kind": "differs-between-requests", "header": header, "proto": proto}, map[string]any{"desc": desc, "values": vals},
				"%s: two requests of one connection carry different %s values %v", desc, header, vals)
		}
		// the other client's request must carry ITS fingerprint
		if gb := st.Backend.ByPath("/b1"); len(gb) == 1 {
			if adm2, ok2 := ref(other.FirstRecord()); ok2 && len(adm2) > 0 {
				if v := gb[0].Values(header); len(v) != 1 || !contains(adm2, v[0]) {
					rep.Violate(map[string]any{"kind": "header-at-backend-wrong", "header": header, "proto": "h2", "delivery": "interposed"},
						map[string]any{"desc": desc, "got": v, "admissible": adm2}, "%s: interposed client's request carries %s=%q, its hello gives %v", desc, header, v, adm2)
				}
			}
		}
		if rep.DistinctCount("distinct_nontrivial") < 3 {
			rep.Sample(map[string]any{"seamB": desc, "record_hex": fmt.Sprintf("%x", rec), header: vals})
		}
	})
	if res.Panic != nil {
		rep.HarnessError("%s: panic %v\n%s", desc, res.Panic, res.Stack)
	}
	if res.Hang != "" {
		rep.Violate(map[string]any{"kind": "hang"}, map[string]any{"hang": res.Hang}, "the exchange never completed: %s", res.Hang)
	}
	if hsFailed != "" {
		// The same hello, same client, same proxy, delivered in one read: if that handshake completes, whether the
		// connection gets its header at all depends on how the bytes were delivered.
		if del != "one-read" && handshakeCompletes(t, sh, alpn) {
			rep.Violate(map[string]any{"kind": "delivery-changes-outcome", "header": header, "delivery": del},
				map[string]any{"desc": desc, "handshake": hsFailed},
				"%s: the handshake does not complete (%s) although the same ClientHello delivered in one read completes it: no request of this connection can carry %s", desc, hsFailed, header)
		} else {
			rep.HarnessError("%s: handshake failed: %s", desc, hsFailed)
		}
	}
}

func handshakeCompletes(t *testing.T, sh Shape, alpn []string) (ok bool) {
	bubble.Run(t, func() {
		st := bubble.NewStack(bubble.StackOpts{Injectors: fingerproxy.DefaultHeaderInjectors()})
		defer st.Shutdown()
		h := sh.Hello
		h.ALPN = alpn
		h.Manual = true
		cl := st.Connect("a", memnet.TCPAddr("192.0.2.1", 40000), h)
		deliverHello(cl, "one-read")
		done, err := cl.Handshake()
		ok = done && err == nil
	})
	return ok
}

type sink struct{ n int }

func (w *sink) Write(p []byte) (int, error) { w.n += len(p); return len(p), nil }

func contains(set []string, s string) bool {
	for _, x := range set {
		if x == s {
			return true
		}
	}
	return false
}

// Population: the header of a request is the fingerprint of the hello of ITS connection also in a process that has
// seen many other hellos. One HTTP/1.1 keep-alive client and one HTTP/2 client stay connected while n clients with
// pairwise different cipher-suite and extension lists connect, send one request and leave; the residents' requests
// before and after, the requests of the population and the residents' hellos on fresh connections are all judged by
// the property's own reference.
func Population(t *testing.T, rep *ev.Report, prop, header string, ref Ref, n int) {
	res := bubble.Run(t, func() {
		st := bubble.NewStack(bubble.StackOpts{Injectors: fingerproxy.DefaultHeaderInjectors()})
		defer st.Shutdown()
		by := map[string]*bubble.Client{}
		variant := func(k int, alpn []string) bubble.Hello {
			return bubble.Hello{Name: fmt.Sprintf("variant-%d", k), ID: &utls.HelloChrome_102, ALPN: alpn, SNI: "localhost",
				Mutate: func(spec *utls.ClientHelloSpec) {
					spec.CipherSuites = append(append([]uint16{}, spec.CipherSuites...), uint16(0x5000+k))
					last := len(spec.Extensions) - 1
					spec.Extensions = append(append([]utls.TLSExtension{}, spec.Extensions[:last]...), &utls.GenericExtension{Id: uint16(0x6000 + k)}, spec.Extensions[last])
				}}
		}
		connect := func(name string, h bubble.Hello) *bubble.Client {
			cl := st.Connect(name, nil, h)
			synctest.Wait()
			if d, err := cl.Handshake(); !d || err != nil {
				rep.HarnessError("%s population: handshake of %s: %v %v", prop, name, d, err)
				return nil
			}
			return cl
		}
		h1 := func(cl *bubble.Client, path string) {
			if cl == nil {
				return
			}
			cl.SendH1(bubble.Req{Path: path, Host: "localhost"})
			by[path] = cl
			synctest.Wait()
		}
		stream := uint32(1)
		h2 := func(cl *bubble.Client, path string) {
			if cl == nil {
				return
			}
			cl.SendH2(stream, bubble.Req{Path: path, Host: "localhost"})
			stream += 2
			by[path] = cl
			synctest.Wait()
		}
		r1 := connect("resident-h1", variant(0, []string{"http/1.1"}))
		h1(r1, "/resident-h1/1")
		r2 := connect("resident-h2", variant(1, []string{"h2"}))
		if r2 != nil {
			r2.StartH2()
			synctest.Wait()
		}
		h2(r2, "/resident-h2/1")
		for k := 2; k < 2+n; k++ {
			cl := connect(fmt.Sprintf("p%d", k), variant(k, []string{"http/1.1"}))
			h1(cl, fmt.Sprintf("/p/%d", k))
			if cl != nil {
				cl.Close()
			}
			synctest.Wait()
		}
		h1(r1, "/resident-h1/2")
		h2(r2, "/resident-h2/2")
		h1(connect("resident-h1-again", variant(0, []string{"http/1.1"})), "/resident-h1-again/1")
		h1(connect("p2-again", variant(2, []string{"http/1.1"})), "/p2-again/1")
		got := st.Backend.All()
		rep.Add("population_requests", int64(len(got)))
		if len(got) != len(by) {
			rep.Violate(map[string]any{"kind": "population-request-lost", "seam": "B"}, map[string]any{"sent": len(by), "received": len(got)}, "population: %d requests sent, the backend received %d", len(by), len(got))
		}
		distinct := map[string]bool{}
		for _, r := range got {
			cl := by[r.Path]
			if cl == nil {
				continue
			}
			adm, ok := ref(cl.FirstRecord())
			if !ok {
				continue
			}
			vals := r.Values(header)
			good := false
			for _, a := range adm {
				if len(vals) == 1 && vals[0] == a {
					good = true
				}
			}
			if len(vals) == 1 {
				distinct[vals[0]] = true
			}
			if !good {
				rep.Violate(map[string]any{"kind": "fingerprint-of-another-hello", "seam": "B-population", "header": header},
					map[string]any{"request": r.Path, "client": cl.Name, "population": n, "values": vals, "admissible": adm},
					"population of %d distinct hellos: request %s (client %s) reached the backend with %s=%v; the ClientHello of its connection has fingerprint %v", n, r.Path, cl.Name, header, vals, adm)
			}
		}
		if len(distinct) < n {
			rep.HarnessError("%s population is vacuous: %d distinct values among %d different hellos", prop, len(distinct), n+2)
		}
	})
	if res.Panic != nil {
		rep.HarnessError("%s population: panic %v\n%s", prop, res.Panic, res.Stack)
	}
	if res.Hang != "" {
		rep.Violate(map[string]any{"kind": "hang", "seam": "B-population"}, map[string]any{"hang": res.Hang}, "population: %s", res.Hang)
	}
}
