package deep

import (
	"bytes"
	"sync"
	"testing"
)

type inner struct {
	n  uint16
	bs []byte
}

type outer struct {
	buf  bytes.Buffer
	p    *inner
	once sync.Once
	m    map[string][]byte
	w    interface{ Len() int }
	f    func()
	arr  [2]inner
}

func TestCloneKey(t *testing.T) {
	env := &bytes.Buffer{}
	o := &outer{p: &inner{n: 7, bs: []byte("abc")}, m: map[string][]byte{"k": []byte("v")}, w: env}
	o.buf.WriteString("hello")
	o.once.Do(func() {})
	c := Clone(o)
	if string(Key(nil, o)) != string(Key(nil, c)) {
		t.Fatal("key of clone differs")
	}
	c.buf.WriteString("!")
	c.p.bs[0] = 'X'
	c.m["k"][0] = 'Y'
	if o.buf.String() != "hello" || string(o.p.bs) != "abc" || string(o.m["k"]) != "v" {
		t.Fatalf("clone shares storage: %q %q %q", o.buf.String(), o.p.bs, o.m["k"])
	}
	if string(Key(nil, o)) == string(Key(nil, c)) {
		t.Fatal("key does not see the change")
	}
	ran := false
	c.once.Do(func() { ran = true })
	if ran {
		t.Fatal("sync.Once state not copied")
	}
	env2 := &bytes.Buffer{}
	if ReplaceInterface(c, env, env2) != 1 || c.w != interface{ Len() int }(env2) || o.w != interface{ Len() int }(env) {
		t.Fatal("ReplaceInterface")
	}
}
