// Package deep gives an explicit-state search a copy and a canonical key of a live object of the code under test
// without knowing its fields: every field, exported or not, present today or added by a change, is covered. A search
// built on it cannot silently merge or corrupt states when the structure grows.
//
// Rules (the correctness argument of the state key):
//   - scalars, strings, arrays, structs, pointers, maps and slices are copied / keyed by value, recursively;
//   - a slice is copied with its whole capacity (the bytes between len and cap travel along) but keyed by the
//     elements below len only: Go code reaches the rest only by re-slicing past len, which the structures this is
//     used on (bytes.Buffer, plain []byte) never do before overwriting;
//   - func, chan, interface and unsafe.Pointer values are shared by the copy and left out of the key: they are the
//     environment (wrapped connection, log function), which the harness owns and replaces with ReplaceInterface.
package deep

import (
	"encoding/binary"
	"fmt"
	"reflect"
	"sort"
	"unsafe"
)

func open(v reflect.Value) reflect.Value {
	if v.CanSet() || !v.CanAddr() {
		return v
	}
	return reflect.NewAt(v.Type(), unsafe.Pointer(v.UnsafeAddr())).Elem()
}

// Clone returns an independent deep copy of *p.
func Clone[T any](p *T) *T {
	q := new(T)
	cp(reflect.ValueOf(q).Elem(), reflect.ValueOf(p).Elem(), map[unsafe.Pointer]reflect.Value{})
	return q
}

func cp(dst, src reflect.Value, seen map[unsafe.Pointer]reflect.Value) {
	dst, src = open(dst), open(src)
	switch src.Kind() {
	case reflect.Pointer:
		if src.IsNil() {
			dst.SetZero()
			return
		}
		if n, ok := seen[src.UnsafePointer()]; ok {
			dst.Set(n)
			return
		}
		n := reflect.New(src.Type().Elem())
		seen[src.UnsafePointer()] = n
		cp(n.Elem(), src.Elem(), seen)
		dst.Set(n)
	case reflect.Slice:
		if src.IsNil() {
			dst.SetZero()
			return
		}
		full := src.Slice3(0, src.Cap(), src.Cap())
		n := reflect.MakeSlice(src.Type(), src.Cap(), src.Cap())
		if plain(src.Type().Elem()) {
			reflect.Copy(n, full)
		} else {
			for i := 0; i < full.Len(); i++ {
				cp(n.Index(i), full.Index(i), seen)
			}
		}
		dst.Set(n.Slice3(0, src.Len(), src.Cap()))
	case reflect.Array:
		for i := 0; i < src.Len(); i++ {
			cp(dst.Index(i), src.Index(i), seen)
		}
	case reflect.Struct:
		for i := 0; i < src.NumField(); i++ {
			cp(dst.Field(i), src.Field(i), seen)
		}
	case reflect.Map:
		if src.IsNil() {
			dst.SetZero()
			return
		}
		n := reflect.MakeMapWithSize(src.Type(), src.Len())
		it := src.MapRange()
		for it.Next() {
			v := reflect.New(src.Type().Elem()).Elem()
			tmp := reflect.New(src.Type().Elem()).Elem()
			tmp.Set(it.Value())
			cp(v, tmp, seen)
			n.SetMapIndex(it.Key(), v)
		}
		dst.Set(n)
	default: // scalars, strings; func, chan, interface, unsafe.Pointer shared
		dst.Set(src)
	}
}

func plain(t reflect.Type) bool {
	switch t.Kind() {
	case reflect.Bool, reflect.Int, reflect.Int8, reflect.Int16, reflect.Int32, reflect.Int64, reflect.Uint, reflect.Uint8, reflect.Uint16,
		reflect.Uint32, reflect.Uint64, reflect.Uintptr, reflect.Float32, reflect.Float64, reflect.Complex64, reflect.Complex128, reflect.String:
		return true
	}
	return false
}

// Key appends a canonical encoding of *p to b.
func Key[T any](b []byte, p *T) []byte {
	return key(b, reflect.ValueOf(p).Elem(), 0)
}

func key(b []byte, v reflect.Value, depth int) []byte {
	if depth > 64 {
		panic("deep.Key: structure deeper than 64 levels (cyclic?)")
	}
	v = open(v)
	switch v.Kind() {
	case reflect.Bool:
		if v.Bool() {
			return append(b, 1)
		}
		return append(b, 0)
	case reflect.Int, reflect.Int8, reflect.Int16, reflect.Int32, reflect.Int64:
		return binary.AppendVarint(b, v.Int())
	case reflect.Uint, reflect.Uint8, reflect.Uint16, reflect.Uint32, reflect.Uint64, reflect.Uintptr:
		return binary.AppendUvarint(b, v.Uint())
	case reflect.Float32, reflect.Float64, reflect.Complex64, reflect.Complex128:
		return append(b, fmt.Sprint(v.Interface())...)
	case reflect.String:
		b = binary.AppendUvarint(b, uint64(v.Len()))
		return append(b, v.String()...)
	case reflect.Pointer:
		if v.IsNil() {
			return append(b, 0)
		}
		return key(append(b, 1), v.Elem(), depth+1)
	case reflect.Slice:
		if v.IsNil() {
			return append(b, 0)
		}
		b = binary.AppendUvarint(append(b, 1), uint64(v.Len()))
		if v.Type().Elem().Kind() == reflect.Uint8 {
			return append(b, v.Bytes()...)
		}
		for i := 0; i < v.Len(); i++ {
			b = key(b, v.Index(i), depth+1)
		}
		return b
	case reflect.Array:
		for i := 0; i < v.Len(); i++ {
			b = key(b, v.Index(i), depth+1)
		}
		return b
	case reflect.Struct:
		for i := 0; i < v.NumField(); i++ {
			b = key(b, v.Field(i), depth+1)
		}
		return b
	case reflect.Map:
		if v.IsNil() {
			return append(b, 0)
		}
		var ents []string
		it := v.MapRange()
		for it.Next() {
			k := reflect.New(v.Type().Key()).Elem()
			k.Set(it.Key())
			e := reflect.New(v.Type().Elem()).Elem()
			e.Set(it.Value())
			ents = append(ents, string(key(key(nil, k, depth+1), e, depth+1)))
		}
		sort.Strings(ents)
		b = binary.AppendUvarint(append(b, 1), uint64(len(ents)))
		for _, e := range ents {
			b = append(b, e...)
		}
		return b
	default: // func, chan, interface, unsafe.Pointer: environment
		return b
	}
}

// ReplaceInterface sets every interface-typed field of the struct *p (top level) that currently holds old to new and
// returns how many fields it changed.
func ReplaceInterface[T any](p *T, old, new any) int {
	v := reflect.ValueOf(p).Elem()
	n := 0
	for i := 0; i < v.NumField(); i++ {
		f := open(v.Field(i))
		if f.Kind() != reflect.Interface || f.IsNil() {
			continue
		}
		if f.Elem().Kind() == reflect.Pointer && reflect.ValueOf(old).Kind() == reflect.Pointer && f.Elem().UnsafePointer() == reflect.ValueOf(old).UnsafePointer() {
			f.Set(reflect.ValueOf(new))
			n++
		}
	}
	return n
}

// Fields lists the field names of *p's struct type (for the evidence).
func Fields[T any](p *T) []string {
	t := reflect.TypeOf(p).Elem()
	var out []string
	for i := 0; i < t.NumField(); i++ {
		out = append(out, t.Field(i).Name)
	}
	return out
}
