//go:build verif

// C04 — ClientHello capture is exact, transparent and segmentation-independent.
//
// Part A (deciding step, model checking): explicit-state breadth-first search
// on the REAL hack.HijackClientHelloConn. A state is (offset into the client's
// byte stream, bytes accumulated in buf, expectedLen) — with the wrapped conn
// and the log func that is the whole private state of the object, so equal keys
// have equal futures. From every reached state every admissible transition is
// applied to a copy of the real object restored from the state:
//
//	read(r)   the lower conn hands out the next r bytes (every r allowed by the cut set;
//	          caller buffer exactly r bytes, and r+3 bytes with poisoned slack)
//	read0     the lower conn returns (0, nil)
//	eof/tmo   the lower conn returns (0, io.EOF) / (0, timeout)  (= every truncation of the stream)
//	get       GetClientHello()  — this is where the oracle sits
//
// Oracle (verif/ref/chref, written from the statement): the outcome of
// GetClientHello at a state must be in the admissible set for the delivered
// prefix stream[:k]; every read must hand up exactly (n, err, bytes) of the lower
// conn and touch nothing beyond n; a slice handed out by GetClientHello must not
// change when the connection is read further.
//
// If the implementation is segmentation independent every offset has exactly
// one state and a stream of n bytes costs n(n+1)/2 read transitions instead of
// 2^(n-1) executions; if it is not, the additional states are explored like any
// other (bounded by a per-stream cap). As a cross-check that does not rely on
// restoring states, part A2 runs ALL 2^(n-1) segmentations of the short streams
// on fresh objects, and every stream is also run byte-at-a-time and in one read
// on a fresh object.
//
// Part B (c04_hs_test.go): real TLS clients (crypto/tls, utls browser hellos)
// through the wrapper into a real tls.Server / the real proxyserver, first
// flight cut at every position (thorough: every pair of positions).
package c04

import (
	"bytes"
	"encoding/binary"
	"encoding/hex"
	"fmt"
	"io"
	"net"
	"sort"
	"strings"
	"testing"
	"time"

	"github.com/wi1dcard/fingerproxy/pkg/hack"
	"verif/deep"
	"verif/ev"
	"verif/mc"
	"verif/memnet"
	"verif/ref/chref"
)

// ---------------------------------------------------------------------------
// scripted lower connection

type script struct {
	next  []byte
	err   error
	calls int // Read calls since the harness armed the connection for one wrapper Read
}

// wouldBlock is raised when the wrapper asks the lower connection for more within one Read although the lower
// connection has already answered: a real connection would block there (nothing more has arrived), with the bytes of
// the first answer held back from the caller.
type wouldBlock struct{}

func (s *script) Read(b []byte) (int, error) {
	s.calls++
	if s.calls > 1 {
		panic(wouldBlock{})
	}
	if s.err != nil {
		return 0, s.err
	}
	n := copy(b, s.next)
	s.next = s.next[n:]
	return n, nil
}
func (s *script) Write(b []byte) (int, error)      { return len(b), nil }
func (s *script) Close() error                     { return nil }
func (s *script) LocalAddr() net.Addr              { return memnet.TCPAddr("127.0.0.1", 443) }
func (s *script) RemoteAddr() net.Addr             { return memnet.TCPAddr("10.0.0.1", 40001) }
func (s *script) SetDeadline(time.Time) error      { return nil }
func (s *script) SetReadDeadline(time.Time) error  { return nil }
func (s *script) SetWriteDeadline(time.Time) error { return nil }

var errTimeout error = &net.OpError{Op: "read", Net: "mem", Err: memnet.ErrTimeout}

// ---------------------------------------------------------------------------
// streams

type streamT struct {
	Typ   byte   `json:"type"`
	Ver   uint16 `json:"version"`
	L     int    `json:"declared_len"`
	Body  int    `json:"body_bytes_present"`
	Trail int    `json:"trailing_bytes"`
	Fill  int    `json:"fill"`
	Cuts  string `json:"cuts"`
	data  []byte
	cuts  []int
	then  *streamT // the stream of the NEXT connection (op "reconnect"), for the "stale" clause of the statement
}

var trailers = [3][]byte{
	{0x16, 0x03, 0x03, 0x00, 0x02, 0xAA, 0xBB, 0x17, 0x03, 0x03, 0x00, 0x01, 0xCC},
	{0x17, 0x03, 0x03, 0xff, 0xff, 1, 2, 3, 4, 5, 6, 7, 8},
	{0x14, 0x03, 0x03, 0x00, 0x01, 0x01, 0x16, 0x03, 0x03, 0x00, 0x10, 0, 0},
}

func bodyByte(fill, i int) byte {
	switch fill {
	case 0:
		return byte((i*7 + 3) % 251)
	case 1:
		return []byte{0x16, 0x03, 0x03, 0x00, 0x01}[i%5] // looks like a record header at every 5th offset
	default:
		return 0xff
	}
}

func mkStream(typ byte, ver uint16, L, body, trail, fill int, cuts string) *streamT {
	s := &streamT{Typ: typ, Ver: ver, L: L, Body: body, Trail: trail, Fill: fill, Cuts: cuts}
	d := make([]byte, 0, 5+body+trail)
	d = append(d, typ, byte(ver>>8), byte(ver), byte(L>>8), byte(L))
	for i := 0; i < body; i++ {
		d = append(d, bodyByte(fill, i))
	}
	d = append(d, trailers[fill][:trail]...)
	s.data = d
	n := len(d)
	if cuts == "all" {
		for k := 0; k <= n; k++ {
			s.cuts = append(s.cuts, k)
		}
		return s
	}
	set := map[int]bool{}
	add := func(k int) {
		if k >= 0 && k <= n {
			set[k] = true
		}
	}
	for k := 0; k <= 8; k++ {
		add(k)
	}
	for d := -3; d <= 3; d++ {
		add(5 + L + d)
		add(5 + body + d)
		add(n + d)
	}
	for p := 1; p <= n; p <<= 1 {
		add(p)
	}
	for k := range set {
		s.cuts = append(s.cuts, k)
	}
	sort.Ints(s.cuts)
	return s
}

func (s *streamT) feature() string {
	return fmt.Sprintf("%d/%04x/L%d/b%d/t%d/%s", s.Typ, s.Ver, s.L, s.Body, s.Trail, s.Cuts)
}

func (s *streamT) describe() map[string]any {
	h := s.data
	more := ""
	if len(h) > 48 {
		h = h[:48]
		more = fmt.Sprintf("… (%d bytes; body byte i = fill pattern %d)", len(s.data), s.Fill)
	}
	m := map[string]any{"type": s.Typ, "version": fmt.Sprintf("0x%04x", s.Ver), "declared_len": s.L, "body_bytes_present": s.Body,
		"trailing_bytes": s.Trail, "fill": s.Fill, "cuts": s.Cuts, "n": len(s.data), "hex": hex.EncodeToString(h) + more}
	if s.then != nil {
		m["stream_of_the_next_connection"] = s.then.describe()
	}
	return m
}

var (
	allTypes    = []byte{22, 20, 21, 23, 0x80, 'G'}
	allVersions = []uint16{0x0200, 0x0300, 0x0301, 0x0302, 0x0303, 0x0304, 0x0305, 0x0400}
)

// streams lists the stream alphabet of a tier in a fixed order.
func streams(thorough bool) (out []*streamT, bounds map[string]any) {
	lmax22, lmaxOther := 64, 48
	if thorough {
		lmax22, lmaxOther = 128, 64
	}
	// F1: short records, every cut
	for _, typ := range allTypes {
		for _, ver := range allVersions {
			full := thorough || typ == 22
			if !full && ver != 0x0301 && ver != 0x0303 && ver != 0x0305 {
				continue
			}
			lmax := lmaxOther
			if typ == 22 {
				lmax = lmax22
			}
			for L := 0; L <= lmax; L++ {
				for t := 0; t <= 8; t++ {
					if !full && t != 0 && t != 4 && t != 8 {
						continue
					}
					for fill := 0; fill < 3; fill++ {
						if !full && fill == 2 {
							continue
						}
						out = append(out, mkStream(typ, ver, L, L, t, fill, "all"))
					}
				}
			}
		}
	}
	// F3: long legal records, restricted cut set
	largeVers := []uint16{0x0301, 0x0303}
	if thorough {
		largeVers = []uint16{0x0300, 0x0301, 0x0302, 0x0303, 0x0304}
	}
	for _, L := range []int{255, 256, 257, 1000, 16383, 16384, 16385, 18432} {
		for _, ver := range largeVers {
			for _, t := range []int{0, 8} {
				for fill := 0; fill < 3; fill++ {
					out = append(out, mkStream(22, ver, L, L, t, fill, "restricted"))
				}
			}
		}
	}
	// F4a: header + short tail of a longer / illegal record (truncated streams), every cut
	for _, L := range []int{49, 255, 256, 257, 1000, 16384, 18432, 18433, 32767, 32768, 65530, 65531, 65532, 65533, 65534, 65535} {
		for _, ver := range []uint16{0x0301, 0x0303} {
			for body := 0; body <= 12; body++ {
				for fill := 0; fill < 3; fill++ {
					out = append(out, mkStream(22, ver, L, body, 0, fill, "all"))
				}
			}
		}
	}
	// F4b: complete records of illegal length, restricted cut set
	for _, L := range []int{18433, 32768, 65530, 65531, 65532, 65533, 65534, 65535} {
		for _, t := range []int{0, 8} {
			for fill := 0; fill < 2; fill++ {
				out = append(out, mkStream(22, 0x0303, L, L, t, fill, "restricted"))
			}
		}
	}
	// F5: a connection that lives on after the hello: the first record stays what it was however many bytes
	// follow it (totals around 2^16 and 2^17, where a 16-bit position in the stream would wrap)
	for _, L := range []int{49, 512} {
		for _, total := range []int{65535, 65536, 65537, 65536 + 5 + L, 70000, 131072, 131073 + L} {
			for fill := 0; fill < 2; fill++ {
				s := mkStream(22, 0x0303, L, L, 0, fill, "restricted")
				extra := total - len(s.data)
				tail := make([]byte, extra)
				for i := range tail {
					tail[i] = trailers[fill][i%len(trailers[fill])]
				}
				s.data = append(s.data, tail...)
				s.Trail = extra
				s.cuts = nil
				set := map[int]bool{}
				for _, k := range []int{0, 1, 5, 5 + L - 1, 5 + L, 5 + L + 1, 16384, 32768, 65535, 65536, 65537, 65536 + 5 + L - 1, 65536 + 5 + L, 65536 + 5 + L + 1, 131071, 131072, total} {
					if k <= total {
						set[k] = true
					}
				}
				for k := range set {
					s.cuts = append(s.cuts, k)
				}
				sort.Ints(s.cuts)
				out = append(out, s)
			}
		}
	}
	bounds = map[string]any{
		"F5_long_lived":          "records of 49 and 512 bytes followed by further traffic up to totals {65535,65536,65537,65536+5+L,70000,131072,131073+L}; cuts at the record boundary +-1, 16384, 32768, 2^16 +-1, 2^16+5+L +-1, 2^17 +-1",
		"F1_short_records":       fmt.Sprintf("declared length 0..%d (type 22) / 0..%d (other types) x 0..8 trailing bytes x 3 content patterns, every cut position; record types %v x versions %04x (quick: full product for type 22; versions 0301/0303/0305 x trailing {0,4,8} x patterns {0,1} for the other types)", lmax22, lmaxOther, allTypes, allVersions),
		"F3_long_records":        "declared length {255,256,257,1000,16383,16384,16385,18432} x trailing {0,8} x 3 patterns; cut positions restricted to 0..8, +-3 around 5+L and n, powers of two (stated bound of the design)",
		"F4a_truncated":          "declared length {49,255,256,257,1000,16384,18432,18433,32767,32768,65530..65535} with 0..12 body bytes present, every cut",
		"F4b_illegal_complete":   "complete records of declared length {18433,32768,65530..65535} x trailing {0,8}, restricted cut set",
		"caller_buffer":          "every read with a caller buffer of exactly r bytes and of r+3 bytes (slack poisoned)",
		"every_truncation":       "eof and timeout transitions from every state",
		"per_stream_state_cap":   "8 x (cut positions + 2)",
		"zero_reads":             "(0,nil) read from every state",
		"GetClientHello_as_step": "GetClientHello is a transition from every state (its effect on the state is explored, not assumed away)",
	}
	return out, bounds
}

// ---------------------------------------------------------------------------
// operations and the runner (one real object being driven)

type op struct {
	K   string `json:"op"` // read read0 eof timeout get recheck reconnect
	N   int    `json:"n,omitempty"`
	Pad int    `json:"buffer_slack,omitempty"`
}

type finding struct {
	kind string
	what string
}

const poison = 0xA5

type runner struct {
	s        *streamT
	k        int
	sc       *script
	obj      *hack.HijackClientHelloConn
	scratch  []byte
	held     []byte // live slice handed out by the last successful GetClientHello
	heldCopy []byte
	lastV    string // verdict/outcome class of the last get

	shortReads int // Reads that returned fewer bytes than the connection had (legal)
}

func newRunner(s *streamT, scratch []byte) *runner {
	sc := &script{}
	return &runner{s: s, sc: sc, obj: hack.NewHijackClientHelloConn(sc), scratch: scratch}
}

// restoreRunner drives an independent copy of the frozen object of a search node.
func restoreRunner(s *streamT, k int, frozen *hack.HijackClientHelloConn, frozenConn *script, scratch []byte) *runner {
	sc := &script{}
	obj := deep.Clone(frozen)
	if deep.ReplaceInterface(obj, frozenConn, sc) != 1 {
		panic(mc.HarnessError{Msg: "the wrapper does not hold the wrapped connection in exactly one interface field"})
	}
	return &runner{s: s, k: k, sc: sc, obj: obj, scratch: scratch}
}

func (r *runner) buffer(n int) []byte {
	if cap(r.scratch) < n {
		r.scratch = make([]byte, n+1024)
	}
	b := r.scratch[:n]
	for i := range b {
		b[i] = poison
	}
	return b
}

func hexHead(b []byte) string {
	if len(b) > 24 {
		return hex.EncodeToString(b[:24]) + fmt.Sprintf("…(%d bytes)", len(b))
	}
	return hex.EncodeToString(b)
}

func (r *runner) do(o op) (f *finding) {
	defer func() {
		if p := recover(); p != nil {
			if he, ok := p.(mc.HarnessError); ok {
				panic(he)
			}
			if o.K == "read" {
				r.k += o.N
			}
			if _, ok := p.(wouldBlock); ok {
				f = &finding{"read-waits-for-more-although-data-arrived", fmt.Sprintf("%s at stream offset %d: the lower connection answered the first Read; the wrapper did not return but read again, which blocks until the client sends more", o.K, r.k)}
				return
			}
			f = &finding{"wrapper-panicked", fmt.Sprintf("%s at stream offset %d panicked: %v", o.K, r.k, p)}
		}
	}()
	switch o.K {
	case "read":
		if r.k+o.N > len(r.s.data) || o.N <= 0 {
			panic(mc.HarnessError{Msg: fmt.Sprintf("read of %d at %d beyond stream of %d", o.N, r.k, len(r.s.data))})
		}
		want := r.s.data[r.k : r.k+o.N]
		r.sc.next, r.sc.err, r.sc.calls = want, nil, 0
		b := r.buffer(o.N + o.Pad)
		n, err := r.obj.Read(b)
		at := r.k
		left := len(r.sc.next)
		r.sc.next = nil
		// A Read may return fewer bytes than are there (io.Reader; the TLS layer reads again): what it has not taken
		// stays with the connection and is offered again by the next operation, the stream position moves by what the
		// reader above was given. What it may not do: return nothing, return an error, take bytes from the connection
		// that it does not hand up (the stream above would no longer be complete).
		if n <= 0 || n > o.N || err != nil || left != o.N-n {
			r.k += o.N
			return &finding{"read-result-not-passed-through", fmt.Sprintf("lower conn had %d bytes for a caller buffer of %d at offset %d; wrapper returned (%d, %v) and left %d bytes with the connection", o.N, len(b), at, n, err, left)}
		}
		r.k += n
		if n < o.N {
			r.shortReads++
		}
		want = want[:n]
		o.N = n
		if !bytes.Equal(b[:o.N], want) {
			return &finding{"read-bytes-modified", fmt.Sprintf("read of %d bytes at offset %d: reader above got %s, client sent %s", o.N, at, hexHead(b[:o.N]), hexHead(want))}
		}
		for i := o.N; i < len(b); i++ {
			if b[i] != poison {
				return &finding{"read-buffer-touched-beyond-n", fmt.Sprintf("read of %d bytes at offset %d: caller buffer byte %d was modified", o.N, at, i)}
			}
		}
	case "read0":
		r.sc.next, r.sc.err, r.sc.calls = nil, nil, 0
		n, err := r.obj.Read(r.buffer(8))
		if n != 0 || err != nil {
			return &finding{"read-result-not-passed-through", fmt.Sprintf("lower conn returned (0, nil) at offset %d, wrapper returned (%d, %v)", r.k, n, err)}
		}
	case "eof", "timeout":
		want := io.EOF
		if o.K == "timeout" {
			want = errTimeout
		}
		r.sc.next, r.sc.err, r.sc.calls = nil, want, 0
		n, err := r.obj.Read(r.buffer(8))
		if n != 0 || err != want {
			return &finding{"read-result-not-passed-through", fmt.Sprintf("lower conn returned (0, %v) at offset %d, wrapper returned (%d, %v)", want, r.k, n, err)}
		}
	case "get":
		rec, err := r.obj.GetClientHello()
		delivered := r.s.data[:r.k]
		v := chref.Classify(delivered)
		r.lastV = verdictClass(v, err == nil)
		if err == nil {
			r.held, r.heldCopy = rec, append([]byte(nil), rec...)
		}
		if !v.Admissible(err == nil, rec) {
			return classify(v, delivered, rec, err)
		}
	case "reconnect":
		// the connection ends; the next connection is accepted and wrapped like serveConn does
		r.obj.Close()
		if r.s.then == nil {
			panic(mc.HarnessError{Msg: "reconnect without a second stream"})
		}
		r.s, r.k, r.held, r.heldCopy = r.s.then, 0, nil, nil
		r.sc = &script{}
		r.obj = hack.NewHijackClientHelloConn(r.sc)
	case "recheck":
		if r.held != nil && !bytes.Equal(r.held, r.heldCopy) {
			return &finding{"reported-slice-changed-by-later-reads", fmt.Sprintf("GetClientHello handed out %s; after further reads the same slice holds %s", hexHead(r.heldCopy), hexHead(r.held))}
		}
	default:
		panic(mc.HarnessError{Msg: "unknown op " + o.K})
	}
	return nil
}

func verdictClass(v chref.Verdict, reported bool) string {
	c := "none:" + v.Why
	if v.MustReport {
		c = "must"
	} else if v.MayReport {
		c = "may"
	}
	if reported {
		return c + " -> reported"
	}
	return c + " -> error"
}

// classify names an inadmissible GetClientHello outcome. The kinds are the
// violation signatures: one per distinguishable defect.
func classify(v chref.Verdict, delivered, rec []byte, err error) *finding {
	reported := err == nil
	got := "error " + fmt.Sprint(err)
	if reported {
		got = fmt.Sprintf("%d bytes %s, err=nil", len(rec), hexHead(rec))
	}
	adm := "nothing (an error)"
	if v.MustReport {
		adm = fmt.Sprintf("exactly the first record, %d bytes", len(v.Record))
	} else if v.MayReport {
		adm = fmt.Sprintf("nothing, or exactly the first record of %d bytes", len(v.Record))
	} else {
		adm += ": " + v.Why
	}
	ctx := fmt.Sprintf("after %d stream bytes %s (declared record length %d): GetClientHello returned %s; admissible: %s", len(delivered), hexHead(delivered), v.Declared, got, adm)
	if reported && v.Declared >= 65531 {
		w := (chref.HeaderLen + v.Declared) & 0xffff
		if len(rec) == w && len(delivered) >= w && bytes.Equal(rec, delivered[:w]) {
			return &finding{"reported-length-is-5+declared-mod-65536", ctx + fmt.Sprintf(" — the reported length %d equals (5+%d) mod 65536", w, v.Declared)}
		}
	}
	switch {
	case !reported:
		return &finding{"complete-record-not-reported", ctx}
	case !v.MustReport && !v.MayReport:
		switch {
		case len(delivered) < chref.HeaderLen:
			return &finding{"reported-before-header-complete", ctx}
		case delivered[0] != chref.TypeHandshake:
			return &finding{"non-handshake-stream-reported", ctx}
		default:
			return &finding{"reported-before-record-complete", ctx}
		}
	case len(rec) < len(v.Record) && bytes.Equal(rec, v.Record[:len(rec)]):
		return &finding{"reported-record-too-short", ctx}
	case len(rec) > len(v.Record) && bytes.Equal(rec[:len(v.Record)], v.Record):
		return &finding{"reported-record-over-long", ctx}
	default:
		return &finding{"reported-bytes-differ-from-stream", ctx}
	}
}

// ---------------------------------------------------------------------------
// the explicit-state search

type node struct {
	k      int
	obj    *hack.HijackClientHelloConn // frozen copy of the object in this state (never driven, only copied again)
	sc     *script                     // the scripted conn obj wraps
	parent int32
	via    op
}

type foundT struct {
	kind  string
	what  string
	s     *streamT
	path  []op
	count int64
}

type searcher struct {
	states, transitions, readTransitions int64
	capped                               int64
	maxStatesPerOffset                   int64
	finds                                map[string]*foundT
	outcomes                             map[string]bool
	scratch                              []byte
	keybuf                               []byte
}

// key is the canonical state key: the stream offset and every field of the object, whatever fields it has.
func (x *searcher) key(k int, obj *hack.HijackClientHelloConn) string {
	kb := x.keybuf[:0]
	kb = binary.LittleEndian.AppendUint64(kb, uint64(k))
	kb = deep.Key(kb, obj)
	x.keybuf = kb
	return string(kb)
}

func pathTo(nodes []node, i int32) []op {
	var rev []op
	for i > 0 {
		rev = append(rev, nodes[i].via)
		i = nodes[i].parent
	}
	out := make([]op, 0, len(rev)+4)
	for j := len(rev) - 1; j >= 0; j-- {
		out = append(out, rev[j])
	}
	return out
}

func (x *searcher) record(s *streamT, path []op, f *finding) {
	if x.finds == nil {
		x.finds = map[string]*foundT{}
	}
	if e := x.finds[f.kind]; e != nil {
		e.count++
		return
	}
	x.finds[f.kind] = &foundT{kind: f.kind, what: f.what, s: s, path: append([]op(nil), path...), count: 1}
}

func (x *searcher) violating() (n int64) {
	for _, f := range x.finds {
		n += f.count
	}
	return n
}

// explore runs the BFS for one stream. It returns the number of distinct
// reference verdict classes seen (for the non-triviality rule).
func (x *searcher) explore(s *streamT) (classes int) {
	n := len(s.data)
	rootConn := &script{}
	root := hack.NewHijackClientHelloConn(rootConn)
	nodes := []node{{parent: -1, obj: root, sc: rootConn}}
	index := map[string]int32{x.key(0, root): 0}
	perOffset := map[int]int64{0: 1}
	limit := 8 * (len(s.cuts) + 2)
	seenClass := map[string]bool{}
	pads := []int{0, 3}
	for qi := 0; qi < len(nodes); qi++ {
		if len(nodes) > limit {
			x.capped++
			break
		}
		cur := nodes[qi]
		step := func(ops ...op) {
			r := restoreRunner(s, cur.k, cur.obj, cur.sc, x.scratch)
			for i, o := range ops {
				f := r.do(o)
				x.transitions++
				if o.K == "read" {
					x.readTransitions++
				}
				if o.K == "get" {
					seenClass[strings.SplitN(r.lastV, " ->", 2)[0]] = true
					x.outcomes[r.lastV] = true
				}
				if f != nil {
					x.record(s, append(pathTo(nodes, int32(qi)), ops[:i+1]...), f)
				}
				if i > 0 {
					continue // only the first op defines the successor state; the rest is the continuation of a get
				}
				key := x.key(r.k, r.obj)
				if _, ok := index[key]; !ok {
					index[key] = int32(len(nodes))
					nodes = append(nodes, node{k: r.k, obj: deep.Clone(r.obj), sc: r.sc, parent: int32(qi), via: o})
					perOffset[r.k]++
					if perOffset[r.k] > x.maxStatesPerOffset {
						x.maxStatesPerOffset = perOffset[r.k]
					}
				}
			}
			x.scratch = r.scratch
		}
		for _, k2 := range s.cuts {
			if k2 <= cur.k {
				continue
			}
			for _, pad := range pads {
				step(op{K: "read", N: k2 - cur.k, Pad: pad})
			}
		}
		step(op{K: "read0"})
		step(op{K: "eof"})
		step(op{K: "timeout"})
		// the oracle, followed on the same object by the rest of the stream: the slice handed out must stay what it was,
		// and the answer at the end must be admissible too
		if cur.k < n {
			step(op{K: "get"}, op{K: "read", N: n - cur.k, Pad: 3}, op{K: "read0"}, op{K: "recheck"}, op{K: "get"}, op{K: "recheck"})
		} else {
			step(op{K: "get"}, op{K: "read0"}, op{K: "eof"}, op{K: "recheck"}, op{K: "get"}, op{K: "recheck"})
		}
	}
	x.states += int64(len(nodes))
	return len(seenClass)
}

// runFresh drives a FRESH real object (no state restoring) through ops and
// returns the findings per op index.
func runFresh(s *streamT, ops []op) (fs []*finding, classes []string) {
	r := newRunner(s, nil)
	fs = make([]*finding, len(ops))
	for i, o := range ops {
		fs[i] = r.do(o)
		if o.K == "get" {
			classes = append(classes, r.lastV)
		}
	}
	return fs, classes
}

// ---------------------------------------------------------------------------

func compositions(n int, visit func(parts []int)) {
	var parts []int
	var rec func(rem int)
	rec = func(rem int) {
		if rem == 0 {
			visit(parts)
			return
		}
		for r := 1; r <= rem; r++ {
			parts = append(parts, r)
			rec(rem - r)
			parts = parts[:len(parts)-1]
		}
	}
	rec(n)
}

func TestCheck(t *testing.T) {
	rep := ev.New("C04", "model_checking")
	defer rep.Write()
	shard, of := mc.ShardFromEnv()
	thorough := ev.Thorough()
	budget := 75 * time.Second
	if thorough {
		budget = 13 * time.Minute
	}
	tStart := time.Now()
	deadline := tStart.Add(budget)
	rep.Info["rule"] = "part A: explicit-state BFS on the real hack.HijackClientHelloConn; state key = (stream offset, every field of the object by reflection) = whole private state; from every state: read(r) for every r allowed by the cut set (caller buffer r and r+3), (0,nil) read, EOF, timeout, GetClientHello; oracle = reference verdict (set of admissible outcomes) on the delivered prefix + pass-through of (n, err, bytes) + stability of the slice handed out. part A2: all 2^(n-1) segmentations of short streams on fresh objects. part B: real TLS clients through the wrapper into a real tls.Server and the real proxyserver, first flight cut at every position (thorough: every pair). distinct_nontrivial = stream feature signatures (type/version/declared length/bytes present/trailing/cut set) whose search met >= 2 reference verdict classes, plus distinct handshake cut-feature signatures (seam, client, where the cuts fall: header byte, hello body by power of two, last byte, record boundary, offset into the following record)"
	rep.Assume(
		"states are copied and keyed by reflection over every field of hack.HijackClientHelloConn (verif/deep): func and interface values (the wrapped conn, the log func) are the environment and not part of the key; slices are keyed by the elements below len",
		"a bytes.Buffer that was only written to and truncated behaves as a function of its contents (capacity is not observable through the wrapper)",
		"reads that return n>0 together with an error are outside the alphabet (never produced by net.TCPConn; listed as not claimed in DESIGN.md §4)",
		"part B: crypto/tls (go1.26.8) and utls 1.6.0 are the TLS clients; a handshake whose Finished messages verify proves the server's TLS layer saw the client's handshake bytes unmodified",
	)
	rep.Info["wrapper_fields_in_the_state_key"] = deep.Fields(&hack.HijackClientHelloConn{})
	defer func() {
		if r := recover(); r != nil {
			if he, ok := r.(mc.HarnessError); ok {
				rep.HarnessError("%v", he)
				return
			}
			panic(r)
		}
	}()

	// ---- part A: state search
	all, bounds := streams(thorough)
	rep.Info["bounds"] = bounds
	x := &searcher{outcomes: map[string]bool{}}
	var nStreams, freshTraces int64
	for i, s := range all {
		if i%of != shard {
			continue
		}
		if time.Now().After(deadline) {
			rep.NotExhaustive(fmt.Sprintf("time budget reached in part A at stream %d of %d", i, len(all)))
			break
		}
		classes := x.explore(s)
		nStreams++
		if x.violating() > 500000 {
			rep.NotExhaustive(fmt.Sprintf("part A stopped at stream %d of %d: more than 500000 violating transitions already", i, len(all)))
			break
		}
		if classes >= 2 {
			rep.Note("distinct_nontrivial", "A:"+s.feature())
		}
		if nStreams == 1 || nStreams == 998 {
			rep.Sample(map[string]any{"part": "A", "stream": s.describe(), "cut_positions": len(s.cuts)})
		}
		// the two extreme segmentations on a fresh object, GetClientHello only at the end (as serveConn does)
		n := len(s.data)
		one := []op{{K: "read", N: n, Pad: 3}, {K: "get"}, {K: "eof"}, {K: "get"}}
		var bytewise []op
		if s.Cuts == "all" {
			for k := 0; k < n; k++ {
				bytewise = append(bytewise, op{K: "read", N: 1})
			}
		} else {
			for j := 1; j < len(s.cuts); j++ {
				bytewise = append(bytewise, op{K: "read", N: s.cuts[j] - s.cuts[j-1]})
			}
		}
		bytewise = append(bytewise, op{K: "get"}, op{K: "recheck"})
		for _, ops := range [][]op{one, bytewise} {
			fs, _ := runFresh(s, ops)
			freshTraces++
			for j, f := range fs {
				if f != nil {
					x.record(s, ops[:j+1], f)
				}
			}
		}
	}
	rep.SetMax("part_A_wall_ms_max_over_shards", time.Since(tStart).Milliseconds())
	rep.Add("streams", nStreams)
	rep.Add("states", x.states)
	rep.Add("transitions", x.transitions)
	rep.Add("read_transitions", x.readTransitions)
	rep.Add("streams_state_cap_hit", x.capped)
	rep.SetMax("max_states_per_stream_offset", x.maxStatesPerOffset)
	if x.capped > 0 {
		rep.NotExhaustive(fmt.Sprintf("%d streams hit the per-stream state cap (the implementation is not segmentation independent there)", x.capped))
	}

	// ---- part A2: every segmentation of the short streams, fresh objects, no restoring
	ncomp := 11
	if thorough {
		ncomp = 15
	}
	var compTraces int64
	ci := 0
	for _, tv := range [][2]int{{22, 0x0303}, {22, 0x0300}, {22, 0x0304}, {22, 0x0305}, {23, 0x0303}} {
		for L := 0; 5+L <= ncomp; L++ {
			for tr := 0; 5+L+tr <= ncomp; tr++ {
				ci++
				if ci%of != shard {
					continue
				}
				if time.Now().After(deadline) {
					rep.NotExhaustive("time budget reached in part A2")
					break
				}
				s := mkStream(byte(tv[0]), uint16(tv[1]), L, L, tr, 0, "all")
				if compTraces == 0 {
					rep.Sample(map[string]any{"part": "A2", "stream": s.describe(), "what": "every composition of n into read sizes, e.g. [1 1 3 2 ...], on a fresh wrapper; GetClientHello after every read / only at the end"})
				}
				compositions(len(s.data), func(parts []int) {
					for variant := 0; variant < 2; variant++ {
						var ops []op
						for _, p := range parts {
							ops = append(ops, op{K: "read", N: p, Pad: variant * 3})
							if variant == 0 {
								ops = append(ops, op{K: "get"})
							}
						}
						ops = append(ops, op{K: "get"}, op{K: "eof"}, op{K: "recheck"}, op{K: "get"})
						fs, cls := runFresh(s, ops)
						compTraces++
						for _, c := range cls {
							x.outcomes[c] = true
						}
						for j, f := range fs {
							if f != nil {
								x.record(s, ops[:j+1], f)
							}
						}
					}
				})
			}
		}
	}
	// ---- part A3: two connections one after the other (nothing of the first may show up in the second: "stale")
	var seqTraces int64
	firsts := []*streamT{mkStream(22, 0x0303, 7, 7, 0, 0, "all"), mkStream(22, 0x0301, 3, 3, 8, 1, "all"), mkStream(22, 0x0303, 40, 10, 0, 0, "all")}
	var seconds []*streamT
	for L := 0; L <= 4; L++ {
		seconds = append(seconds, mkStream(22, 0x0303, L, L, 0, 1, "all"))
	}
	for body := 0; body <= 4; body++ {
		seconds = append(seconds, mkStream(22, 0x0301, 20, body, 0, 0, "all"))
	}
	seconds = append(seconds, mkStream(23, 0x0303, 2, 2, 2, 0, "all"), mkStream(22, 0x0303, 2, 2, 3, 2, "all"))
	for fi, f0 := range firsts {
		for si, s2 := range seconds {
			if (fi*len(seconds)+si)%of != shard {
				continue
			}
			f := *f0
			f.then = s2
			compositions(len(s2.data), func(parts []int) {
				ops := []op{{K: "read", N: len(f.data), Pad: 3}, {K: "get"}, {K: "reconnect"}, {K: "get"}}
				for _, p := range parts {
					ops = append(ops, op{K: "read", N: p}, op{K: "get"})
				}
				ops = append(ops, op{K: "eof"}, op{K: "get"})
				fs, _ := runFresh(&f, ops)
				seqTraces++
				for j, fd := range fs {
					if fd != nil {
						x.record(&f, ops[:j+1], fd)
					}
				}
			})
		}
	}
	rep.Add("two_connection_traces", seqTraces)
	rep.SetMax("part_A_A2_A3_wall_ms_max_over_shards", time.Since(tStart).Milliseconds())
	rep.Add("segmentations_enumerated_explicitly", compTraces)
	rep.Add("fresh_object_extreme_traces", freshTraces)
	rep.Info["explicit_segmentation_bound"] = fmt.Sprintf("all 2^(n-1) segmentations of every stream with n <= %d over (type,version) in {22/0303,22/0300,22/0304,22/0305,23/0303}, with GetClientHello after every read and only at the end", ncomp)
	for c := range x.outcomes {
		rep.Note("distinct_outcomes", c)
	}

	// ---- report part A findings (confirmed 5x on fresh objects)
	kinds := make([]string, 0, len(x.finds))
	for k := range x.finds {
		kinds = append(kinds, k)
	}
	sort.Strings(kinds)
	for _, k := range kinds {
		f := x.finds[k]
		ok := 0
		for i := 0; i < 5; i++ {
			fs, _ := runFresh(f.s, f.path)
			if last := fs[len(fs)-1]; last != nil && last.kind == f.kind {
				ok++
			}
		}
		if ok != 5 {
			rep.HarnessError("part A finding %q did not reproduce on a fresh object (%d/5) — state restoring and the real object disagree: %s", f.kind, ok, f.what)
			continue
		}
		f.path = minimize(f.s, f.path, f.kind)
		rep.Add("violating_transitions", f.count)
		rep.Violate(map[string]any{"kind": f.kind, "seam": "hack.HijackClientHelloConn"},
			map[string]any{"stream": f.s.describe(), "ops_from_a_fresh_wrapper": f.path, "occurrences_in_this_shard": f.count},
			"%s [stream type=%d version=%04x declared=%d present=%d trailing=%d; ops %s]", f.what, f.s.Typ, f.s.Ver, f.s.L, f.s.Body, f.s.Trail, opsString(f.path))
	}

	// the verdicts of part A are on disk before the real stacks run (a wrapper that panics would kill the
	// process from inside proxyserver's connection goroutine)
	rep.Write()

	// ---- part B: real handshakes
	var hs int64
	if x.finds["wrapper-panicked"] != nil {
		rep.NotExhaustive("part B not run: part A shows that the wrapper panics")
	} else {
		hs = runHandshakePart(t, rep, shard, of, thorough, deadline)
	}
	rep.SetMax("total_wall_ms_max_over_shards", time.Since(tStart).Milliseconds())
	rep.Add("traces_validated_against_impl", compTraces+freshTraces+seqTraces+hs)
	rep.Add("evaluations", x.transitions+compTraces+freshTraces+seqTraces+hs)
	if rep.DistinctCount("distinct_outcomes") < 4 && shard == 0 {
		rep.HarnessError("vacuity: only %d distinct (verdict, outcome) classes were observed", rep.DistinctCount("distinct_outcomes"))
	}
}

// minimize drops operations from a confirmed counterexample as long as the last
// operation still fails in the same way on a fresh object (greedy, deterministic).
func minimize(s *streamT, path []op, kind string) []op {
	reproduces := func(p []op) (ok bool) {
		defer func() {
			if recover() != nil { // the shortened list is not a valid operation list for this stream
				ok = false
			}
		}()
		fs, _ := runFresh(s, p)
		last := fs[len(fs)-1]
		return last != nil && last.kind == kind
	}
	for changed := true; changed; {
		changed = false
		for i := 0; i < len(path)-1; i++ {
			cand := append(append([]op(nil), path[:i]...), path[i+1:]...)
			if reproduces(cand) {
				path, changed = cand, true
				break
			}
		}
	}
	return path
}

func opsString(ops []op) string {
	var b strings.Builder
	for i, o := range ops {
		if i > 0 {
			b.WriteByte(' ')
		}
		if i >= 14 && i < len(ops)-4 {
			if i == 14 {
				fmt.Fprintf(&b, "…(%d more)", len(ops)-18)
			}
			continue
		}
		switch o.K {
		case "read":
			fmt.Fprintf(&b, "read(%d)", o.N)
		default:
			b.WriteString(o.K)
		}
	}
	return b.String()
}
