//go:build verif

package c04

// Part B of C04: the real thing. Real TLS clients send their real ClientHello;
// the harness holds the client's first flight back (memnet staged delivery) and
// releases it to the server in chosen pieces, waiting for quiescence of the
// bubble after each piece so that the wrapper's Read sees exactly that piece.
//
//	B1  tls.Server(hack.NewHijackClientHelloConn(conn)) exactly as serveConn builds it
//	B2  the real proxyserver.Server (serveConn, h1 hand-off and h2 ServeConn); the
//	    observation is Metadata.ClientHelloRecord inside the request handler
//
// "inject": a change_cipher_spec record is put on the wire directly behind the
// ClientHello (RFC 8446 D.4 allows a TLS 1.3 client to do that), so that reads
// carry the tail of the hello together with the next record.

import (
	"bytes"
	"context"
	"crypto/tls"
	"fmt"
	"io"
	"log"
	"net/http"
	"strings"
	"sync"
	"testing"
	"testing/synctest"
	"time"

	utls "github.com/refraction-networking/utls"
	"github.com/wi1dcard/fingerproxy/pkg/hack"
	"github.com/wi1dcard/fingerproxy/pkg/metadata"
	"github.com/wi1dcard/fingerproxy/pkg/proxyserver"
	"verif/bubble"
	"verif/ev"
	"verif/memnet"
	"verif/ref/chref"
	"verif/ref/h2wire"
)

var ccsRecord = []byte{0x14, 0x03, 0x03, 0x00, 0x01, 0x01}

type tlsClient interface {
	Handshake() error
	Read([]byte) (int, error)
	Write([]byte) (int, error)
	Close() error
}

// recConn records what the client writes (the client's byte stream).
type recConn struct {
	*memnet.Conn
	mu         sync.Mutex
	sent       []byte
	rewriteVer uint16 // if non-zero: the record version of the first record is replaced on the wire
	wrote      bool
}

func (r *recConn) Write(b []byte) (int, error) {
	r.mu.Lock()
	if !r.wrote && r.rewriteVer != 0 && len(b) >= 5 {
		b = append([]byte(nil), b...)
		b[1], b[2] = byte(r.rewriteVer>>8), byte(r.rewriteVer)
	}
	r.wrote = true
	r.sent = append(r.sent, b...)
	r.mu.Unlock()
	return r.Conn.Write(b)
}

func (r *recConn) bytes() []byte {
	r.mu.Lock()
	defer r.mu.Unlock()
	return append([]byte(nil), r.sent...)
}

type hsKind struct {
	name     string
	inject   bool
	client   func(c *recConn, alpn []string) tlsClient
	server   func(cfg *tls.Config)
	wantHRR  bool
	wantVers uint16
}

func goClient(mut func(*tls.Config)) func(c *recConn, alpn []string) tlsClient {
	return func(c *recConn, alpn []string) tlsClient {
		cfg := &tls.Config{InsecureSkipVerify: true, ServerName: "localhost", NextProtos: alpn}
		mut(cfg)
		return tls.Client(c, cfg)
	}
}

func uClient(id utls.ClientHelloID) func(c *recConn, alpn []string) tlsClient {
	return func(c *recConn, alpn []string) tlsClient {
		return utls.UClient(c, &utls.Config{InsecureSkipVerify: true, ServerName: "localhost", NextProtos: alpn}, id)
	}
}

func hsKinds() map[string]*hsKind {
	ks := []*hsKind{
		{name: "go-tls13", inject: true, wantVers: tls.VersionTLS13, client: goClient(func(c *tls.Config) {
			c.MinVersion, c.MaxVersion, c.CurvePreferences = tls.VersionTLS13, tls.VersionTLS13, []tls.CurveID{tls.X25519}
		})},
		{name: "go-tls12", wantVers: tls.VersionTLS12, client: goClient(func(c *tls.Config) { c.MaxVersion = tls.VersionTLS12 })},
		{name: "go-tls13-hrr", inject: true, wantHRR: true, wantVers: tls.VersionTLS13,
			client: goClient(func(c *tls.Config) {
				c.MinVersion, c.CurvePreferences = tls.VersionTLS13, []tls.CurveID{tls.X25519, tls.CurveP256}
			}),
			server: func(c *tls.Config) { c.CurvePreferences = []tls.CurveID{tls.CurveP256} }},
		{name: "go-tls13-default-keyshares", inject: true, wantVers: tls.VersionTLS13, client: goClient(func(c *tls.Config) { c.MinVersion = tls.VersionTLS13 })},
		{name: "utls-chrome106", inject: true, wantVers: tls.VersionTLS13, client: uClient(utls.HelloChrome_106_Shuffle)},
		{name: "utls-firefox120", inject: true, wantVers: tls.VersionTLS13, client: uClient(utls.HelloFirefox_120)},
		{name: "utls-chrome115-pq", inject: true, wantVers: tls.VersionTLS13, client: uClient(utls.HelloChrome_115_PQ)},
		{name: "utls-ios14", inject: true, wantVers: tls.VersionTLS13, client: uClient(utls.HelloIOS_14)},
	}
	m := map[string]*hsKind{}
	for _, k := range ks {
		m[k.name] = k
	}
	return m
}

func serverConfig(k *hsKind) *tls.Config {
	cfg := &tls.Config{Certificates: []tls.Certificate{bubble.ServerCert()}, NextProtos: []string{"h2", "http/1.1"}}
	if k.server != nil {
		k.server(cfg)
	}
	return cfg
}

type hsCase struct {
	Seam string `json:"seam"` // "tls.Server" (B1) | "proxyserver-h1" | "proxyserver-h2" (B2)
	Kind string `json:"client"`
	Cuts []int  `json:"cuts"`           // cut positions in the first flight; nil with Bytewise
	Byte bool   `json:"byte_at_a_time"` // one byte per delivery
	Ver  uint16 `json:"rewrite_record_version,omitempty"`
}

type hsResult struct {
	findings []*finding
	harness  string
	helloLen int
	flight   int
	observed string // read sizes seen by the wrapper for the first flight
	asCut    bool   // observed segmentation == intended segmentation
	hrr      bool
	// a rewritten (out-of-quantifier) record version that the real TLS stack itself refuses: not a verdict
	outOfDomain bool
}

func deliver(cl *memnet.Conn, total int, c hsCase) (intended []int) {
	prev := 0
	cuts := c.Cuts
	if c.Byte {
		cuts = nil
		for k := 1; k < total; k++ {
			cuts = append(cuts, k)
		}
	}
	for _, k := range cuts {
		if k <= prev || k >= total {
			continue
		}
		cl.Deliver(k - prev)
		intended = append(intended, k-prev)
		prev = k
		synctest.Wait()
	}
	intended = append(intended, total-prev)
	cl.Deliver(total - prev)
	synctest.Wait()
	// everything the client writes later reaches the server one quiescence at a time, in whole pieces:
	// the reads after the first flight are then a function of the protocol, not of goroutine timing
	for i := 0; cl.Staged() > 0; i++ {
		if i > 1000 {
			break
		}
		cl.Deliver(-1)
		synctest.Wait()
	}
	return intended
}

func closed(ch chan struct{}) bool {
	select {
	case <-ch:
		return true
	default:
		return false
	}
}

// runTLS is seam B1: the wrapper under a real tls.Server, as serveConn builds it.
func runTLS(t *testing.T, k *hsKind, c hsCase) (res hsResult) {
	br := bubble.Run(t, func() {
		cl, sv := memnet.Pair(memnet.TCPAddr("10.0.0.1", 40001), memnet.TCPAddr("127.0.0.1", 443))
		sv.LogOps = true
		cl.SetManual(true)
		rc := &recConn{Conn: cl, rewriteVer: c.Ver}
		hc := hack.NewHijackClientHelloConn(sv)
		ts := tls.Server(hc, serverConfig(k))
		var so struct {
			hsErr, getErr, ioErr, getErr2 error
			rec, recCopy, rec2            []byte
			got                           string
			cs                            tls.ConnectionState
			panicked                      string
		}
		var co struct {
			hsErr, ioErr error
			got          string
		}
		sdone, cdone := make(chan struct{}), make(chan struct{})
		go func() {
			defer close(sdone)
			defer func() {
				if p := recover(); p != nil {
					so.panicked = fmt.Sprint(p)
				}
			}()
			if so.hsErr = ts.Handshake(); so.hsErr != nil {
				return
			}
			so.cs = ts.ConnectionState()
			so.rec, so.getErr = hc.GetClientHello()
			so.recCopy = append([]byte(nil), so.rec...)
			// the server speaks first, so the client's "ping" is certainly read after the handshake (a later Read of the wrapper)
			if _, so.ioErr = ts.Write([]byte("helo\n")); so.ioErr != nil {
				return
			}
			b := make([]byte, 5)
			_, so.ioErr = io.ReadFull(ts, b)
			so.got = string(b)
			if so.ioErr == nil {
				_, so.ioErr = ts.Write([]byte("pong\n"))
			}
			so.rec2, so.getErr2 = hc.GetClientHello()
		}()
		go func() {
			defer close(cdone)
			tc := k.client(rc, []string{"http/1.1"})
			if co.hsErr = tc.Handshake(); co.hsErr != nil {
				return
			}
			b := make([]byte, 5)
			if _, co.ioErr = io.ReadFull(tc, b); co.ioErr != nil || string(b) != "helo\n" {
				return
			}
			if _, co.ioErr = tc.Write([]byte("ping\n")); co.ioErr != nil {
				return
			}
			_, co.ioErr = io.ReadFull(tc, b)
			co.got = string(b)
		}()
		synctest.Wait()
		hello := rc.bytes()
		res.helloLen = len(hello)
		if cl.Staged() != len(hello) || len(hello) < 5 {
			res.harness = fmt.Sprintf("client staged %d bytes but wrote %d", cl.Staged(), len(hello))
			cl.Close()
			sv.Close()
			return
		}
		if k.inject {
			cl.Write(ccsRecord)
		}
		total := cl.Staged()
		res.flight = total
		intended := deliver(cl, total, c)
		finished := closed(sdone) && closed(cdone)
		cl.Close()
		sv.Close()
		<-sdone
		<-cdone
		// what the wrapper's Read calls actually looked like for the first flight
		var obs []int
		sum := 0
		for _, o := range sv.Ops {
			if o.Kind == "Read" && o.N > 0 && sum < total {
				obs = append(obs, o.N)
				sum += o.N
			}
		}
		res.observed = fmt.Sprint(obs)
		res.asCut = sum == total && fmt.Sprint(obs) == fmt.Sprint(intended)
		res.hrr = so.cs.HelloRetryRequest
		// ---- oracle
		v := chref.Classify(hello)
		if c.Ver == 0 && (!v.MustReport || len(v.Record) != len(hello)) {
			res.harness = fmt.Sprintf("the client's first flight is not exactly one legal handshake record (%d bytes, declared %d)", len(hello), v.Declared)
			return
		}
		if so.panicked != "" {
			res.findings = append(res.findings, &finding{"wrapper-panicked", "the server side of the handshake panicked: " + so.panicked})
			return
		}
		if c.Ver != 0 && so.hsErr != nil {
			res.outOfDomain = true
			return
		}
		if !finished || so.hsErr != nil || co.hsErr != nil || so.ioErr != nil || co.ioErr != nil || so.got != "ping\n" || co.got != "pong\n" {
			res.findings = append(res.findings, &finding{"tls-layer-did-not-get-the-stream", fmt.Sprintf(
				"handshake/echo through the wrapper did not complete (finished=%v server: hs=%v io=%v got=%q; client: hs=%v io=%v got=%q); wrapper reads %v",
				finished, so.hsErr, so.ioErr, so.got, co.hsErr, co.ioErr, co.got, obs)})
			return
		}
		if k.wantHRR && !so.cs.HelloRetryRequest {
			res.harness = "scenario was meant to go through a HelloRetryRequest and did not"
			return
		}
		if k.wantVers != 0 && so.cs.Version != k.wantVers {
			res.harness = fmt.Sprintf("negotiated version %04x, scenario expects %04x", so.cs.Version, k.wantVers)
			return
		}
		wire := append(append([]byte(nil), hello...), ccsRecord...) // the first record is a function of the stream prefix
		vv := chref.Classify(wire)
		if !vv.Admissible(so.getErr == nil, so.recCopy) {
			res.findings = append(res.findings, classify(vv, wire, so.recCopy, so.getErr))
		}
		if so.getErr == nil && !bytes.Equal(so.rec, so.recCopy) {
			res.findings = append(res.findings, &finding{"reported-slice-changed-by-later-reads", fmt.Sprintf("the slice handed out after the handshake changed while application data was read: %s -> %s", hexHead(so.recCopy), hexHead(so.rec))})
		}
		if !vv.Admissible(so.getErr2 == nil, so.rec2) {
			f := classify(vv, wire, so.rec2, so.getErr2)
			f.what = "second GetClientHello after application data: " + f.what
			res.findings = append(res.findings, f)
		}
	})
	if br.Panic != nil {
		res.harness = fmt.Sprintf("panic in handshake case: %v\n%s", br.Panic, br.Stack)
	}
	if br.Deadlock != "" && res.harness == "" {
		res.harness = "goroutines left blocked after a handshake case: " + br.Deadlock
	}
	return res
}

// formattingSink is an io.Writer that is not io.Discard: log.Logger formats its arguments for it.
type formattingSink struct{}

func (formattingSink) Write(p []byte) (int, error) { return len(p), nil }

// runProxy is seam B2: the real proxyserver.Server.
func runProxy(t *testing.T, k *hsKind, c hsCase) (res hsResult) {
	h2 := c.Seam == "proxyserver-h2"
	br := bubble.Run(t, func() {
		ctx, cancel := context.WithCancel(context.Background())
		defer cancel()
		var mu sync.Mutex
		var seen [][]byte
		var noMD int
		handler := http.HandlerFunc(func(w http.ResponseWriter, r *http.Request) {
			md, ok := metadata.FromContext(r.Context())
			mu.Lock()
			if !ok {
				noMD++
			} else {
				seen = append(seen, append([]byte{}, md.ClientHelloRecord...))
			}
			mu.Unlock()
			w.WriteHeader(204)
		})
		srv := proxyserver.NewServer(ctx, handler, serverConfig(k))
		// the binary's -verbose switch, for half of the cases (by the parity of the cut positions): it may only add log
		// lines. The logger formats what it is given (a logger on io.Discard would skip that).
		vsum := 0
		for _, x := range c.Cuts {
			vsum += x
		}
		srv.VerboseLogs = vsum%2 == 0
		srv.ErrorLog = log.New(formattingSink{}, "", 0)
		srv.HTTPServer.ErrorLog = srv.ErrorLog
		ln := memnet.NewListener()
		served := make(chan struct{})
		go func() { defer close(served); srv.Serve(ln) }()
		cl, _, err := ln.Dial(memnet.TCPAddr("10.0.0.1", 40001))
		if err != nil {
			res.harness = "dial: " + err.Error()
			return
		}
		cl.SetManual(true)
		rc := &recConn{Conn: cl, rewriteVer: c.Ver}
		var co struct {
			hsErr, ioErr error
			resp         string
		}
		cdone := make(chan struct{})
		go func() {
			defer close(cdone)
			alpn := []string{"http/1.1"}
			if h2 {
				alpn = []string{"h2"}
			}
			tc := k.client(rc, alpn)
			if co.hsErr = tc.Handshake(); co.hsErr != nil {
				return
			}
			if h2 {
				enc := h2wire.NewEncoder()
				req := append([]byte(h2wire.Preface), h2wire.Settings()...)
				req = append(req, h2wire.Headers(1, enc.Block(h2wire.HF{Name: ":method", Value: "GET"}, h2wire.HF{Name: ":scheme", Value: "https"},
					h2wire.HF{Name: ":authority", Value: "localhost"}, h2wire.HF{Name: ":path", Value: "/"}), true, true, nil, -1)...)
				if _, co.ioErr = tc.Write(req); co.ioErr != nil {
					return
				}
				var p h2wire.Parser
				b := make([]byte, 4096)
				for {
					n, err := tc.Read(b)
					for _, f := range p.Feed(b[:n]) {
						if f.Type == h2wire.THeaders && f.Stream == 1 {
							co.resp = "h2-headers"
							return
						}
					}
					if err != nil {
						co.ioErr = err
						return
					}
				}
			}
			if _, co.ioErr = tc.Write([]byte("GET / HTTP/1.1\r\nHost: localhost\r\n\r\n")); co.ioErr != nil {
				return
			}
			var acc []byte
			b := make([]byte, 4096)
			for !bytes.Contains(acc, []byte("\r\n\r\n")) {
				n, err := tc.Read(b)
				acc = append(acc, b[:n]...)
				if err != nil {
					co.ioErr = err
					break
				}
			}
			co.resp = strings.SplitN(string(acc), "\r\n", 2)[0]
		}()
		synctest.Wait()
		hello := rc.bytes()
		res.helloLen = len(hello)
		if cl.Staged() != len(hello) || len(hello) < 5 {
			res.harness = fmt.Sprintf("client staged %d bytes but wrote %d", cl.Staged(), len(hello))
		} else {
			if k.inject {
				cl.Write(ccsRecord)
			}
			total := cl.Staged()
			res.flight = total
			res.observed = fmt.Sprint(deliver(cl, total, c))
			res.asCut = true
		}
		finished := closed(cdone)
		cl.Close()
		<-cdone
		synctest.Wait()
		cancel()
		<-served
		time.Sleep(time.Second) // fake clock: lets Shutdown's poll loop finish
		synctest.Wait()
		if res.harness != "" {
			return
		}
		mu.Lock()
		defer mu.Unlock()
		wire := append(append([]byte(nil), hello...), ccsRecord...)
		vv := chref.Classify(wire)
		if c.Ver == 0 {
			if !vv.MustReport || len(vv.Record) != len(hello) {
				res.harness = "the client's first flight is not exactly one legal handshake record"
				return
			}
			want := "HTTP/1.1 204 No Content"
			if h2 {
				want = "h2-headers"
			}
			if !finished || co.hsErr != nil || co.resp != want || len(seen)+noMD != 1 {
				res.findings = append(res.findings, &finding{"tls-layer-did-not-get-the-stream", fmt.Sprintf(
					"request through the real proxyserver did not complete (finished=%v client: hs=%v io=%v response=%q, handler calls=%d)", finished, co.hsErr, co.ioErr, co.resp, len(seen)+noMD)})
				return
			}
		}
		if noMD > 0 {
			res.findings = append(res.findings, &finding{"complete-record-not-reported", "request handler found no fingerproxy metadata in the request context"})
			return
		}
		// every request served on this connection must carry an admissible ClientHello; an empty
		// ClientHelloRecord is "nothing reported"
		for _, rec := range seen {
			if !vv.Admissible(len(rec) > 0, rec) {
				var e error
				if len(rec) == 0 {
					e = fmt.Errorf("(Metadata.ClientHelloRecord is empty)")
				}
				f := classify(vv, wire, rec, e)
				f.what = "Metadata.ClientHelloRecord seen by the request handler: " + f.what
				res.findings = append(res.findings, f)
			}
		}
	})
	if br.Panic != nil {
		res.harness = fmt.Sprintf("panic in proxyserver case: %v\n%s", br.Panic, br.Stack)
	}
	if br.Deadlock != "" && res.harness == "" {
		res.harness = "goroutines left blocked after a proxyserver case: " + br.Deadlock
	}
	return res
}

// cutFeature is the feature signature of a handshake case: where its cuts fall relative to the
// record header, the hello body, the record boundary and the following record.
func cutFeature(c hsCase, r hsResult) string {
	if c.Byte {
		return "byte-at-a-time"
	}
	if len(c.Cuts) == 0 {
		return "uncut"
	}
	var parts []string
	for _, k := range c.Cuts {
		switch {
		case k < 5:
			parts = append(parts, fmt.Sprintf("hdr%d", k))
		case k < r.helloLen-1:
			parts = append(parts, fmt.Sprintf("body(2^%d)", bitsLen(k)))
		case k == r.helloLen-1:
			parts = append(parts, "last-byte")
		case k == r.helloLen:
			parts = append(parts, "boundary")
		default:
			parts = append(parts, fmt.Sprintf("next+%d", k-r.helloLen))
		}
	}
	return strings.Join(parts, ",")
}

func bitsLen(k int) int {
	n := 0
	for ; k > 0; k >>= 1 {
		n++
	}
	return n
}

func runCase(t *testing.T, ks map[string]*hsKind, c hsCase) hsResult {
	k := ks[c.Kind]
	if c.Seam == "tls.Server" {
		return runTLS(t, k, c)
	}
	return runProxy(t, k, c)
}

// probeFlight runs one uncut handshake to learn the length of the client's first flight.
func probeFlight(t *testing.T, ks map[string]*hsKind, seam, kind string) (int, hsResult) {
	r := runCase(t, ks, hsCase{Seam: seam, Kind: kind})
	return r.flight, r
}

func cutPositions(mode string, total, hello int) []int {
	var out []int
	switch mode {
	case "all":
		for k := 1; k < total; k++ {
			out = append(out, k)
		}
	case "restricted":
		set := map[int]bool{}
		add := func(k int) {
			if k >= 1 && k < total {
				set[k] = true
			}
		}
		for k := 1; k <= 8; k++ {
			add(k)
		}
		for d := -3; d <= 3; d++ {
			add(hello + d)
			add(total + d)
			add(517 + d)
			add(576 + d)
		}
		for p := 1; p < total; p <<= 1 {
			add(p)
		}
		for k := 1; k < total; k++ {
			if set[k] {
				out = append(out, k)
			}
		}
	}
	return out
}

// runHandshakePart enumerates the handshake cases of the tier; returns the number executed.
func runHandshakePart(t *testing.T, rep *ev.Report, shard, of int, thorough bool, deadline time.Time) int64 {
	ks := hsKinds()
	type planT struct {
		seam, kind     string
		one, two       string
		bytewise       bool
		badVersionCuts bool
	}
	var plans []planT
	if thorough {
		plans = []planT{
			{"tls.Server", "go-tls13", "all", "all", true, true},
			{"tls.Server", "go-tls12", "all", "all", true, false},
			{"tls.Server", "go-tls13-hrr", "all", "", true, false},
			{"tls.Server", "go-tls13-default-keyshares", "all", "", true, false},
			{"tls.Server", "utls-chrome106", "all", "all", true, false},
			{"tls.Server", "utls-firefox120", "all", "restricted", true, false},
			{"tls.Server", "utls-chrome115-pq", "all", "", true, false},
			{"tls.Server", "utls-ios14", "all", "", true, false},
			{"proxyserver-h1", "go-tls13", "all", "all", true, true},
			{"proxyserver-h2", "go-tls13", "all", "restricted", true, true},
			{"proxyserver-h2", "utls-chrome106", "all", "", true, false},
			{"proxyserver-h1", "go-tls12", "all", "", true, false},
			// hellos longer than 1 KiB (post-quantum key shares) through the proxy server
			{"proxyserver-h2", "utls-chrome115-pq", "all", "", true, false}, // (utls presets always offer h2)
			{"proxyserver-h1", "go-tls13-default-keyshares", "all", "", true, false},
		}
	} else {
		plans = []planT{
			{"tls.Server", "go-tls13", "all", "restricted", true, true},
			{"tls.Server", "go-tls12", "all", "", true, false},
			{"tls.Server", "go-tls13-hrr", "restricted", "", true, false},
			{"tls.Server", "go-tls13-default-keyshares", "restricted", "", false, false},
			{"tls.Server", "utls-chrome106", "all", "", true, false},
			{"tls.Server", "utls-firefox120", "restricted", "", false, false},
			{"proxyserver-h1", "go-tls13", "all", "restricted", true, true},
			{"proxyserver-h2", "go-tls13", "all", "", true, false},
			{"proxyserver-h2", "utls-chrome106", "restricted", "", false, false},
			// hellos longer than 1 KiB (post-quantum key shares) through the proxy server
			{"proxyserver-h2", "utls-chrome115-pq", "restricted", "", false, false}, // (utls presets always offer h2)
			{"proxyserver-h1", "go-tls13-default-keyshares", "restricted", "", false, false},
		}
	}
	var cases []hsCase
	flights := map[string]any{}
	for _, p := range plans {
		total, pr := probeFlight(t, ks, p.seam, p.kind)
		if pr.harness != "" || total == 0 {
			rep.HarnessError("probe %s/%s: %s", p.seam, p.kind, pr.harness)
			continue
		}
		flights[p.seam+"/"+p.kind] = map[string]any{"client_hello_bytes": pr.helloLen, "first_flight_bytes": total, "one_cut": p.one, "two_cut": p.two, "byte_at_a_time": p.bytewise}
		cases = append(cases, hsCase{Seam: p.seam, Kind: p.kind})
		one := cutPositions(p.one, total, pr.helloLen)
		for _, k := range one {
			cases = append(cases, hsCase{Seam: p.seam, Kind: p.kind, Cuts: []int{k}})
		}
		two := cutPositions(p.two, total, pr.helloLen)
		for i, a := range two {
			for _, b := range two[i+1:] {
				cases = append(cases, hsCase{Seam: p.seam, Kind: p.kind, Cuts: []int{a, b}})
			}
		}
		if p.bytewise {
			cases = append(cases, hsCase{Seam: p.seam, Kind: p.kind, Byte: true})
		}
		if p.badVersionCuts {
			// record versions outside SSL3.0..TLS1.3 that crypto/tls still accepts on the first record
			for _, ver := range []uint16{0x0305, 0x03ff, 0x0200} {
				cases = append(cases, hsCase{Seam: p.seam, Kind: p.kind, Ver: ver})
				for _, k := range cutPositions("restricted", total, pr.helloLen) {
					cases = append(cases, hsCase{Seam: p.seam, Kind: p.kind, Ver: ver, Cuts: []int{k}})
				}
			}
		}
	}
	rep.Info["handshake_plans"] = flights
	var n, asCut, outOfDomain int64
	nHarness := 0
	finds := map[string]*struct {
		f     *finding
		c     hsCase
		count int64
	}{}
	for i, c := range cases {
		if i%of != shard {
			continue
		}
		if time.Now().After(deadline) {
			rep.NotExhaustive(fmt.Sprintf("time budget reached in part B at case %d of %d", i, len(cases)))
			break
		}
		r := runCase(t, ks, c)
		n++
		if r.harness != "" {
			rep.HarnessError("handshake case %+v: %s", c, r.harness)
			if nHarness++; nHarness > 3 {
				break
			}
			continue
		}
		if r.outOfDomain {
			outOfDomain++
			continue
		}
		if r.asCut {
			asCut++
		}
		rep.Note("distinct_nontrivial", fmt.Sprintf("B:%s/%s/%04x/%s", c.Seam, c.Kind, c.Ver, cutFeature(c, r)))
		if n%499 == 1 {
			rep.Sample(map[string]any{"part": "B", "case": c, "client_hello_bytes": r.helloLen, "first_flight_bytes": r.flight, "wrapper_read_sizes": r.observed})
		}
		for _, f := range r.findings {
			key := c.Seam + "|" + f.kind
			if e := finds[key]; e != nil {
				e.count++
				continue
			}
			finds[key] = &struct {
				f     *finding
				c     hsCase
				count int64
			}{f, c, 1}
		}
	}
	rep.Add("handshakes", n)
	rep.Add("handshakes_out_of_domain_rejected_by_crypto_tls", outOfDomain)
	rep.Add("handshakes_where_wrapper_reads_equal_the_cuts", asCut)
	if n > 0 && asCut == 0 {
		rep.HarnessError("vacuity: in no handshake case did the wrapper's reads follow the intended cuts")
	}
	for _, e := range finds {
		ok := 0
		for i := 0; i < 5; i++ {
			r := runCase(t, ks, e.c)
			for _, f := range r.findings {
				if f.kind == e.f.kind {
					ok++
					break
				}
			}
		}
		if ok != 5 {
			rep.HarnessError("handshake finding %q did not reproduce 5/5 (%d): %s", e.f.kind, ok, e.f.what)
			continue
		}
		rep.Add("violating_handshakes", e.count)
		rep.Violate(map[string]any{"kind": e.f.kind, "seam": e.c.Seam}, map[string]any{"case": e.c, "occurrences_in_this_shard": e.count},
			"%s [real handshake, client %s, seam %s, cuts %v byte-at-a-time=%v]", e.f.what, e.c.Kind, e.c.Seam, e.c.Cuts, e.c.Byte)
	}
	return n
}
