//go:build verif

// C13 — the HTTP/2 server obeys the stream state machine for any frame sequence.
//
// Explicit-state search over the REAL http2 serverConn (http2.Server.ServeConn
// in a synctest bubble, raw-frame client verif/ref/h2wire over verif/memnet)
// against the reference monitor verif/ref/h2sm, which returns the SET of
// reactions RFC 7540/9113 admit for every (state, frame) pair.
//
// A history is a sequence of abstract letters. Each letter is instantiated
// against the reference machine's current state ("next odd id", "an open
// stream", "the stream closed last", ...), put on the wire as one frame, the
// server runs to quiescence, and the frames it wrote plus the handlers it
// started are judged. Every history is a fresh bubble + replay.
package c13

import (
	"encoding/binary"
	"encoding/json"
	"fmt"
	"net/http"
	"os"
	"runtime"
	"runtime/debug"
	"sort"
	"strconv"
	"strings"
	"sync"
	"testing"
	"testing/synctest"
	"time"

	"github.com/wi1dcard/fingerproxy/pkg/http2"
	"verif/bubble"
	"verif/ev"
	"verif/mc"
	"verif/ref/h2sm"
	"verif/ref/h2wire"
)

const maxFrame = 16384

// ---- header blocks: literal-without-indexing only, so that no block depends on the HPACK dynamic table ----

func lit(name, value string) []byte {
	b := []byte{0x00, byte(len(name))}
	b = append(b, name...)
	b = append(b, byte(len(value)))
	return append(b, value...)
}

func blockOf(fs ...[2]string) []byte {
	var b []byte
	for _, f := range fs {
		b = append(b, lit(f[0], f[1])...)
	}
	return b
}

func reqPath(mode string, id uint32, tag int) string { return fmt.Sprintf("/%s/%d/%d", mode, id, tag) }

func reqBlock(mode string, id uint32, tag int, extra ...[2]string) []byte {
	fs := [][2]string{{":method", "POST"}, {":scheme", "https"}, {":path", reqPath(mode, id, tag)}, {":authority", "c13"}}
	return blockOf(append(fs, extra...)...)
}

// ---- alphabet ----

type env struct {
	m         *h2sm.Machine
	tag       int
	contTag   int  // tag of the HEADERS frame that started the pending header block
	contUpper bool // ... and whether the rest of that block carries the upper-case field
	only      map[string]bool
}

type letter struct {
	name  string
	probe bool                                // still played after a connection error
	build func(x *env) (wire []byte, ok bool) // ok=false: not enabled in this state
	can   func(x *env) bool                   // optional: enabledness without building the frame
	rel   bool                                // environment action: let the oldest held handler return
}

func hdr(id uint32, block []byte, es, eh bool, prio *h2wire.Prio, pad int) []byte {
	return h2wire.Headers(id, block, es, eh, prio, pad)
}

func need(id uint32, wire func() []byte) ([]byte, bool) {
	if id == 0 {
		return nil, false
	}
	return wire(), true
}

func u32(v uint32) []byte { return binary.BigEndian.AppendUint32(nil, v) }

func alphabet() []letter {
	newReq := func(name, mode string, es bool, probe bool) letter {
		return letter{name: name, probe: probe, build: func(x *env) ([]byte, bool) {
			id := x.m.NextID()
			return hdr(id, reqBlock(mode, id, x.tag), es, true, nil, -1), true
		}}
	}
	badReq := func(name string, block func(id uint32, tag int) []byte) letter {
		return letter{name: name, build: func(x *env) ([]byte, bool) {
			id := x.m.NextID()
			return hdr(id, block(id, x.tag), true, true, nil, -1), true
		}}
	}
	onStream := func(name string, sel func(m *h2sm.Machine) uint32, wire func(id uint32, x *env) []byte) letter {
		return letter{name: name, can: func(x *env) bool { return sel(x.m) != 0 }, build: func(x *env) ([]byte, bool) {
			id := sel(x.m)
			return need(id, func() []byte { return wire(id, x) })
		}}
	}
	always := func(name string, wire func(x *env) []byte) letter {
		return letter{name: name, can: func(x *env) bool { return true }, build: func(x *env) ([]byte, bool) { return wire(x), true }}
	}
	open := func(m *h2sm.Machine) uint32 { return m.OpenStream() }
	hcr := func(m *h2sm.Machine) uint32 { return m.HalfClosedRemote() }
	closed := func(m *h2sm.Machine) uint32 { return m.ClosedStream() }
	idle := func(m *h2sm.Machine) uint32 { return m.NextID() }
	openOr1 := func(m *h2sm.Machine) uint32 {
		if id := m.OpenStream(); id != 0 {
			return id
		}
		return 1
	}
	dataByte := func(x *env) []byte { return []byte{byte('A' + x.tag%26)} }
	ls := []letter{
		// -- new requests
		newReq("H_NEW_ES_NOW", "n", true, true),
		newReq("H_NEW_ES_HOLD", "h", true, false),
		newReq("H_NEW_HOLD", "h", false, true),
		newReq("H_NEW_NOW", "n", false, false),
		{name: "H_SKIP_ES_NOW", build: func(x *env) ([]byte, bool) {
			id := x.m.NextID() + 2
			return hdr(id, reqBlock("n", id, x.tag), true, true, nil, -1), true
		}},
		{name: "H_NEW_PRIO_HOLD", build: func(x *env) ([]byte, bool) {
			id := x.m.NextID()
			return hdr(id, reqBlock("h", id, x.tag), true, true, &h2wire.Prio{Dep: 0, Weight: 7}, 2), true
		}},
		// -- HEADERS where no request may start
		onStream("H_CLOSED", closed, func(id uint32, x *env) []byte { return hdr(id, reqBlock("n", id, x.tag), true, true, nil, -1) }),
		always("H_EVEN", func(x *env) []byte { return hdr(2, reqBlock("n", 2, x.tag), true, true, nil, -1) }),
		always("H_ZERO", func(x *env) []byte { return hdr(0, reqBlock("n", 0, x.tag), true, true, nil, -1) }),
		onStream("H_TRAILERS_ES", open, func(id uint32, x *env) []byte { return hdr(id, blockOf([2]string{"x-t", "1"}), true, true, nil, -1) }),
		onStream("H_TRAILERS_NOES", open, func(id uint32, x *env) []byte { return hdr(id, blockOf([2]string{"x-t", "1"}), false, true, nil, -1) }),
		onStream("H_TRAILERS_PSEUDO", open, func(id uint32, x *env) []byte { return hdr(id, reqBlock("n", id, x.tag), true, true, nil, -1) }),
		onStream("H_HALFCLOSED", hcr, func(id uint32, x *env) []byte { return hdr(id, reqBlock("n", id, x.tag), true, true, nil, -1) }),
		// -- header blocks in pieces
		{name: "H_NEW_NOEH", build: func(x *env) ([]byte, bool) {
			id := x.m.NextID()
			b := reqBlock("h", id, x.tag)
			return hdr(id, b[:7], true, false, nil, -1), true
		}},
		// the first frame of a header block that turns out malformed only in its last fragment (an upper-case field name
		// at the end of the block, carried by the CONTINUATION frame that CONT_EH sends)
		{name: "H_NEW_NOEH_UPPER", build: func(x *env) ([]byte, bool) {
			id := x.m.NextID()
			b := reqBlock("h", id, x.tag, [2]string{"X-Upper", "1"})
			return hdr(id, b[:7], true, false, nil, -1), true
		}},
		{name: "CONT_EH", build: func(x *env) ([]byte, bool) {
			if id, ok := x.m.ContPending(); ok {
				// the rest of the block the HEADERS frame started; the path names the HEADERS frame's tag
				return h2wire.Continuation(id, x.contRest(id), true), true
			}
			return h2wire.Continuation(1, blockOf([2]string{"x-t", "1"}), true), true // orphan
		}},
		{name: "CONT_NOEH", build: func(x *env) ([]byte, bool) {
			id, ok := x.m.ContPending()
			if !ok {
				return nil, false
			}
			return h2wire.Continuation(id, nil, false), true
		}},
		{name: "CONT_OTHER", build: func(x *env) ([]byte, bool) {
			id, ok := x.m.ContPending()
			if !ok {
				return nil, false
			}
			return h2wire.Continuation(id+2, x.contRest(id), true), true
		}},
		// -- malformed requests on a new id
		{name: "H_NEW_SELFDEP", build: func(x *env) ([]byte, bool) {
			id := x.m.NextID()
			return hdr(id, reqBlock("n", id, x.tag), true, true, &h2wire.Prio{Dep: id, Weight: 1}, -1), true
		}},
		badReq("H_NEW_NOPATH", func(id uint32, tag int) []byte {
			return blockOf([2]string{":method", "GET"}, [2]string{":scheme", "https"}, [2]string{":authority", "c13"})
		}),
		badReq("H_NEW_UPPER", func(id uint32, tag int) []byte { return reqBlock("n", id, tag, [2]string{"X-Upper", "1"}) }),
		badReq("H_NEW_PSEUDO_LATE", func(id uint32, tag int) []byte {
			return blockOf([2]string{":method", "GET"}, [2]string{":scheme", "https"}, [2]string{"x-a", "1"}, [2]string{":path", reqPath("n", id, tag)})
		}),
		badReq("H_NEW_CONNHDR", func(id uint32, tag int) []byte { return reqBlock("n", id, tag, [2]string{"connection", "close"}) }),
		badReq("H_NEW_BADHPACK", func(id uint32, tag int) []byte { return []byte{0x80} }),
		{name: "H_NEW_PADBAD", build: func(x *env) ([]byte, bool) {
			id := x.m.NextID()
			p := append([]byte{200}, reqBlock("n", id, x.tag)...) // pad length 200 > what follows
			return h2wire.Append(nil, h2wire.THeaders, h2wire.FPadded|h2wire.FEndHeaders|h2wire.FEndStream, id, p), true
		}},
		// -- DATA
		onStream("D_OPEN", open, func(id uint32, x *env) []byte { return h2wire.Data(id, dataByte(x), false, -1) }),
		onStream("D_OPEN_ES", open, func(id uint32, x *env) []byte { return h2wire.Data(id, dataByte(x), true, 1) }),
		onStream("D_HALFCLOSED", hcr, func(id uint32, x *env) []byte { return h2wire.Data(id, dataByte(x), false, -1) }),
		onStream("D_CLOSED", closed, func(id uint32, x *env) []byte { return h2wire.Data(id, dataByte(x), true, -1) }),
		onStream("D_IDLE", idle, func(id uint32, x *env) []byte { return h2wire.Data(id, dataByte(x), false, -1) }),
		always("D_ZERO", func(x *env) []byte { return h2wire.Data(0, dataByte(x), false, -1) }),
		// an even id is a server-initiated stream; the server never pushes, so it is idle however many client streams exist
		always("D_EVEN", func(x *env) []byte { return h2wire.Data(2, dataByte(x), false, -1) }),
		onStream("D_OPEN_PADBAD", open, func(id uint32, x *env) []byte {
			return h2wire.Append(nil, h2wire.TData, h2wire.FPadded, id, []byte{5, 'x', 0})
		}),
		// -- RST_STREAM
		onStream("R_OPEN", open, func(id uint32, x *env) []byte { return h2wire.RST(id, 8) }),
		onStream("R_HALFCLOSED", hcr, func(id uint32, x *env) []byte { return h2wire.RST(id, 8) }),
		onStream("R_CLOSED", closed, func(id uint32, x *env) []byte { return h2wire.RST(id, 8) }),
		onStream("R_IDLE", idle, func(id uint32, x *env) []byte { return h2wire.RST(id, 8) }),
		always("R_ZERO", func(x *env) []byte { return h2wire.RST(0, 8) }),
		always("R_EVEN", func(x *env) []byte { return h2wire.RST(2, 8) }),
		onStream("R_LEN3", openOr1, func(id uint32, x *env) []byte { return h2wire.Append(nil, h2wire.TRSTStream, 0, id, []byte{0, 0, 8}) }),
		// -- WINDOW_UPDATE
		always("W_CONN", func(x *env) []byte { return h2wire.WindowUpdate(0, 1) }),
		onStream("W_OPEN", open, func(id uint32, x *env) []byte { return h2wire.WindowUpdate(id, 1) }),
		onStream("W_HALFCLOSED", hcr, func(id uint32, x *env) []byte { return h2wire.WindowUpdate(id, 1) }),
		onStream("W_CLOSED", closed, func(id uint32, x *env) []byte { return h2wire.WindowUpdate(id, 1) }),
		onStream("W_IDLE", idle, func(id uint32, x *env) []byte { return h2wire.WindowUpdate(id, 1) }),
		always("W_EVEN", func(x *env) []byte { return h2wire.WindowUpdate(2, 1) }),
		always("W_CONN_ZERO", func(x *env) []byte { return h2wire.WindowUpdate(0, 0) }),
		onStream("W_STREAM_ZERO", openOr1, func(id uint32, x *env) []byte { return h2wire.WindowUpdate(id, 0) }),
		always("W_CONN_OVERFLOW", func(x *env) []byte { return h2wire.WindowUpdate(0, 1<<31-1) }),
		onStream("W_OPEN_OVERFLOW", open, func(id uint32, x *env) []byte { return h2wire.WindowUpdate(id, 1<<31-1) }),
		always("W_LEN3", func(x *env) []byte { return h2wire.Append(nil, h2wire.TWindowUpdate, 0, 0, []byte{0, 0, 1}) }),
		// -- PRIORITY
		onStream("P_IDLE", idle, func(id uint32, x *env) []byte { return h2wire.Priority(id, h2wire.Prio{Dep: 0, Weight: 3}) }),
		onStream("P_OPEN", open, func(id uint32, x *env) []byte { return h2wire.Priority(id, h2wire.Prio{Dep: 0, Weight: 3}) }),
		onStream("P_CLOSED", closed, func(id uint32, x *env) []byte { return h2wire.Priority(id, h2wire.Prio{Dep: 0, Excl: true, Weight: 3}) }),
		onStream("P_SELF", idle, func(id uint32, x *env) []byte { return h2wire.Priority(id, h2wire.Prio{Dep: id, Weight: 3}) }),
		onStream("P_LEN4", openOr1, func(id uint32, x *env) []byte { return h2wire.Append(nil, h2wire.TPriority, 0, id, []byte{0, 0, 0, 0}) }),
		always("P_ZERO", func(x *env) []byte { return h2wire.Priority(0, h2wire.Prio{Dep: 1, Weight: 3}) }),
		// -- SETTINGS
		always("S_EMPTY", func(x *env) []byte { return h2wire.Settings() }),
		always("S_IWS_MAX", func(x *env) []byte {
			return h2wire.Settings(h2wire.Setting{ID: 4, Val: 1<<31 - 1}, h2wire.Setting{ID: 0x99, Val: 1})
		}),
		always("S_ACK", func(x *env) []byte { return h2wire.SettingsAck() }),
		always("S_ON_STREAM", func(x *env) []byte { return h2wire.Append(nil, h2wire.TSettings, 0, 1, nil) }),
		always("S_LEN5", func(x *env) []byte { return h2wire.Append(nil, h2wire.TSettings, 0, 0, []byte{0, 3, 0, 0, 0}) }),
		always("S_BAD_PUSH", func(x *env) []byte { return h2wire.Settings(h2wire.Setting{ID: 2, Val: 2}) }),
		always("S_IWS_TOO_BIG", func(x *env) []byte { return h2wire.Settings(h2wire.Setting{ID: 4, Val: 1 << 31}) }),
		always("S_ACK_PAYLOAD", func(x *env) []byte {
			return h2wire.Append(nil, h2wire.TSettings, h2wire.FAck, 0, []byte{0, 3, 0, 0, 0, 1})
		}),
		// -- PING
		{name: "PING", probe: true, build: func(x *env) ([]byte, bool) { return h2wire.Ping(false, [8]byte{1, 2, 3}), true }},
		always("PING_ACK", func(x *env) []byte { return h2wire.Ping(true, [8]byte{9}) }),
		always("PING_ON_STREAM", func(x *env) []byte { return h2wire.Append(nil, h2wire.TPing, 0, 1, make([]byte, 8)) }),
		always("PING_LEN7", func(x *env) []byte { return h2wire.Append(nil, h2wire.TPing, 0, 0, make([]byte, 7)) }),
		// -- GOAWAY, PUSH_PROMISE, unknown, oversize
		always("GOAWAY", func(x *env) []byte { return h2wire.GoAway(0, 0, nil) }),
		always("GOAWAY_ON_STREAM", func(x *env) []byte { return h2wire.Append(nil, h2wire.TGoAway, 0, 1, make([]byte, 8)) }),
		always("GOAWAY_SHORT", func(x *env) []byte { return h2wire.Append(nil, h2wire.TGoAway, 0, 0, make([]byte, 4)) }),
		onStream("PUSH_PROMISE", openOr1, func(id uint32, x *env) []byte {
			return h2wire.Append(nil, h2wire.TPushPromise, h2wire.FEndHeaders, id, append(u32(2), reqBlock("n", 2, x.tag)...))
		}),
		always("UNKNOWN", func(x *env) []byte { return h2wire.Append(nil, 0xfa, 0xff, 0, []byte("xyz")) }),
		onStream("UNKNOWN_ON_STREAM", idle, func(id uint32, x *env) []byte { return h2wire.Append(nil, 0xfa, 0, id, nil) }),
		always("OVERSIZE_UNKNOWN", func(x *env) []byte { return h2wire.Append(nil, 0xfa, 0, 0, make([]byte, maxFrame+1)) }),
		onStream("OVERSIZE_DATA", open, func(id uint32, x *env) []byte { return h2wire.Data(id, make([]byte, maxFrame+1), false, -1) }),
		// -- environment
		{name: "RELEASE", probe: true, rel: true, build: func(x *env) ([]byte, bool) { return nil, len(x.m.HeldHandlers()) > 0 }},
	}
	return ls
}

// contRest: the bytes of the request block that H_NEW_NOEH did not send (it sent the first 7).
func (x *env) contRest(id uint32) []byte {
	tag := x.contTag
	if x.contUpper {
		return reqBlock("h", id, tag, [2]string{"X-Upper", "1"})[7:]
	}
	return reqBlock("h", id, tag)[7:]
}

// ---- one history ----

type hctl struct {
	mu     sync.Mutex
	starts []h2sm.Start
	chans  map[uint32][]chan struct{}
	body   map[uint32][]byte
}

type config struct {
	name       string
	maxStreams int
	prefix     []string        // letters played before the explored part (not counted in the depth)
	only       map[string]bool // restricted alphabet (nil = all letters)
}

type stepRec struct {
	Letter string   `json:"letter"`
	Frame  string   `json:"frame,omitempty"`
	Class  string   `json:"class,omitempty"`
	Out    []string `json:"server_frames,omitempty"`
	Starts []uint32 `json:"handlers_started,omitempty"`
	legal  bool
}

type result struct {
	steps []stepRec
	viols []h2sm.Violation
	keys  []string       // reference state after each explored step
	feats []string       // coverage signature of each non-trivial step
	next  []string       // letters enabled after the last explored step
	at    map[string]int // violation signature -> number of explored letters played when it arose
}

var (
	wantCensus = false // set while a violation is being confirmed
	alpha      = alphabet()
	alphaIdx   = func() map[string]int {
		m := map[string]int{}
		for i, l := range alpha {
			m[l.name] = i
		}
		return m
	}()
	stopLabel = "-"
)

// runHistory plays forced (letter names) and then asks the chooser for up to depth further letters.
// c may be nil (forced only).
func runHistory(t *testing.T, cfg config, forced []string, depth int, c *mc.Chooser, prune bool) (res result, out mc.Outcome) {
	census := ""
	br := bubble.Run(t, func() {
		ctl := &hctl{chans: map[uint32][]chan struct{}{}, body: map[uint32][]byte{}}
		handler := http.HandlerFunc(func(w http.ResponseWriter, r *http.Request) {
			parts := strings.Split(r.URL.Path, "/") // "", mode, id, tag
			var id, tag uint64
			mode := ""
			if len(parts) == 4 {
				mode = parts[1]
				id, _ = strconv.ParseUint(parts[2], 10, 32)
				tag, _ = strconv.ParseUint(parts[3], 10, 32)
			}
			ch := make(chan struct{})
			ctl.mu.Lock()
			ctl.starts = append(ctl.starts, h2sm.Start{Stream: uint32(id), Tag: int(tag), Hold: mode == "h"})
			if mode == "h" {
				ctl.chans[uint32(id)] = append(ctl.chans[uint32(id)], ch)
			}
			ctl.mu.Unlock()
			if mode == "h" {
				go func() { // everything that reaches the handler's request body
					buf := make([]byte, 64)
					for {
						n, err := r.Body.Read(buf)
						if n > 0 {
							ctl.mu.Lock()
							ctl.body[uint32(id)] = append(ctl.body[uint32(id)], buf[:n]...)
							ctl.mu.Unlock()
						}
						if err != nil {
							return
						}
					}
				}()
				<-ch
			}
			w.WriteHeader(200)
		})
		srv := &http2.Server{MaxConcurrentStreams: uint32(cfg.maxStreams), MaxReadFrameSize: maxFrame}
		conn := bubble.StartH2(srv, &http.Server{}, handler)
		m := h2sm.New(h2sm.Config{MaxStreams: cfg.maxStreams, MaxFrameSize: maxFrame})
		x := &env{m: m, only: cfg.only}
		var cparse h2wire.Parser

		played := 0
		res.at = map[string]int{}
		observe := func(rec *stepRec) {
			nv := len(res.viols)
			defer func() {
				for _, v := range res.viols[nv:] {
					if _, ok := res.at[v.Sig()]; !ok {
						res.at[v.Sig()] = played
					}
				}
			}()
			synctest.Wait()
			frames := conn.Frames()
			ctl.mu.Lock()
			starts := ctl.starts
			ctl.starts = nil
			ctl.mu.Unlock()
			sort.Slice(starts, func(i, j int) bool { return starts[i].Stream < starts[j].Stream })
			for _, f := range frames {
				rec.Out = append(rec.Out, describe(f))
			}
			for _, s := range starts {
				rec.Starts = append(rec.Starts, s.Stream)
			}
			res.viols = append(res.viols, m.Server(frames, starts)...)
			// nothing but legal DATA may reach a handler
			ctl.mu.Lock()
			for id, got := range ctl.body {
				var want []byte
				if s := m.Streams[id]; s != nil {
					want = s.Body
				}
				if len(got) > len(want) || string(want[:len(got)]) != string(got) {
					res.viols = append(res.viols, h2sm.Violation{Kind: "data-reached-handler", State: rec.Class, Got: "body",
						Detail: fmt.Sprintf("%s: the handler of stream %d read body %q, the legal DATA frames on that stream carried %q", rec.Frame, id, got, want)})
				}
			}
			ctl.mu.Unlock()
		}
		release := func(id uint32) {
			ctl.mu.Lock()
			chs := ctl.chans[id]
			delete(ctl.chans, id)
			ctl.mu.Unlock()
			for _, ch := range chs {
				close(ch)
			}
			m.Released(id)
		}
		var sofar []string
		play := func(l *letter) {
			rec := stepRec{Letter: l.name}
			x.tag++
			sofar = append(sofar, l.name)
			journal("C13_HISTORY=%d:%s", cfg.maxStreams, strings.Join(sofar, ",")) // the driver attributes a worker crash to this history
			if l.rel {
				id := m.HeldHandlers()[0]
				rec.Frame = fmt.Sprintf("(release handler of stream %d)", id)
				rec.Class = "RELEASE"
				release(id)
				observe(&rec)
			} else {
				wire, _ := l.build(x)
				fs := cparse.Feed(wire)
				if len(fs) != 1 || cparse.Pending() != 0 {
					panic(mc.HarnessError{Msg: "letter " + l.name + " is not exactly one frame"})
				}
				if l.name == "H_NEW_NOEH" || l.name == "H_NEW_NOEH_UPPER" {
					x.contTag = x.tag
					x.contUpper = l.name == "H_NEW_NOEH_UPPER"
				}
				e := m.Client(fs[0], x.tag)
				rec.Frame = fs[0].String()
				rec.Class = e.Desc
				rec.legal = e.Legal
				conn.Send(wire)
				observe(&rec)
			}
			res.steps = append(res.steps, rec)
			if rc := reactionClass(rec); rc != "nothing" || !rec.legal {
				res.feats = append(res.feats, l.name+"|"+rec.Class+"|"+rc)
			}
		}

		// connection start: preface, server's SETTINGS (+WINDOW_UPDATE)
		conn.Send([]byte(h2wire.Preface))
		pre := stepRec{Letter: "(preface)"}
		observe(&pre)
		res.steps = append(res.steps, pre)
		for _, name := range cfg.prefix {
			play(&alpha[alphaIdx[name]])
		}
		for _, name := range forced {
			l := &alpha[alphaIdx[name]]
			if _, ok := l.build(x); !ok {
				panic(mc.HarnessError{Msg: "forced letter " + name + " not enabled"})
			}
			played++
			play(l)
			res.keys = append(res.keys, m.Key())
		}
		for d := 0; d < depth && c != nil; d++ {
			if prune && c.Seen(m.Key()) {
				break
			}
			en := enabled(x)
			if len(en) == 0 {
				break
			}
			labels := make([]string, len(en))
			costs := make([]int, len(en))
			for i, li := range en {
				labels[i] = alpha[li].name
				if prune {
					costs[i] = 1
				}
			}
			played++
			play(&alpha[en[c.Choose(labels, costs)]])
			res.keys = append(res.keys, m.Key())
		}
		for _, li := range enabled(x) {
			res.next = append(res.next, alpha[li].name)
		}
		// end of history: let every handler return, then judge what is owed
		for len(m.HeldHandlers()) > 0 { // releasing one may start a queued one
			id := m.HeldHandlers()[0]
			rec := stepRec{Letter: "(end: release)", Frame: fmt.Sprintf("(release handler of stream %d)", id), Class: "RELEASE"}
			release(id)
			observe(&rec)
			res.steps = append(res.steps, rec)
		}
		fin := stepRec{Letter: "(end)", Class: "END"}
		ctl.mu.Lock()
		for id, chs := range ctl.chans { // handlers the reference does not know about
			for _, ch := range chs {
				close(ch)
			}
			delete(ctl.chans, id)
		}
		ctl.mu.Unlock()
		observe(&fin)
		res.steps = append(res.steps, fin)
		res.viols = append(res.viols, m.Finish()...)
		if m.Owed {
			// a connection error after the server's GOAWAY may be signalled by closing the connection only
			time.Sleep(5 * time.Second)
			synctest.Wait()
			if !conn.Sv.Closed() {
				res.viols = append(res.viols, h2sm.Violation{Kind: "illegal-frame-not-answered", State: "after-GOAWAY", Got: "connection-kept-open",
					Detail: "connection error owed after a GOAWAY was neither signalled by a second GOAWAY nor by closing the connection within 5 s: " + m.OwedWhy})
			}
		}
		conn.Close()
		if wantCensus {
			synctest.Wait()
			census = strings.Join(bubble.CensusSummary(), "; ")
		}
	})
	if br.Panic != nil {
		if he, ok := br.Panic.(mc.HarnessError); ok {
			panic(he)
		}
		res.viols = append(res.viols, h2sm.Violation{Kind: "panic", State: lastClass(res), Got: "panic", Detail: fmt.Sprintf("panic: %v\n%s", br.Panic, br.Stack)})
	}
	if br.Deadlock != "" {
		res.viols = append(res.viols, h2sm.Violation{Kind: "goroutines-blocked-forever", State: lastClass(res), Got: "deadlock", Detail: br.Deadlock + " :: " + census})
	}
	var tr strings.Builder
	for _, s := range res.steps {
		o := append([]string(nil), s.Out...)
		sort.Strings(o) // two handlers finishing in the same step may write in either order
		fmt.Fprintf(&tr, "%s %s -> %v %v\n", s.Letter, s.Frame, o, s.Starts)
	}
	out.Obs = fmt.Sprintf("v%d:%s", len(res.viols), mc.Hash64(tr.String()))
	for _, v := range res.viols {
		out.Violations = append(out.Violations, v.Detail)
		out.Sigs = append(out.Sigs, v.Sig())
	}
	return res, out
}

func lastClass(r result) string {
	if len(r.steps) == 0 {
		return ""
	}
	return r.steps[len(r.steps)-1].Class
}

func enabled(x *env) []int {
	var en []int
	only := x.only
	if x.m.Murky {
		return nil // the RFCs do not define the state after an under-answered connection-fatal frame
	}
	for i := range alpha {
		l := &alpha[i]
		if x.m.Dead && !l.probe {
			continue
		}
		if only != nil && !only[l.name] {
			continue
		}
		ok := false
		if l.can != nil {
			ok = l.can(x)
		} else {
			_, ok = l.build(x)
		}
		if ok {
			en = append(en, i)
		}
	}
	return en
}

func describe(f h2wire.Frame) string {
	switch f.Type {
	case h2wire.TGoAway:
		last, code := f.GoAwayFields()
		return fmt.Sprintf("GOAWAY(last=%d,%v)", last, h2sm.Code(code))
	case h2wire.TRSTStream:
		return fmt.Sprintf("RST_STREAM(%d,%v)", f.Stream, h2sm.Code(f.RSTCode()))
	case h2wire.TSettings:
		if f.Flags&h2wire.FAck != 0 {
			return "SETTINGS-ACK"
		}
		return "SETTINGS"
	case h2wire.TPing:
		if f.Flags&h2wire.FAck != 0 {
			return "PING-ACK"
		}
		return "PING"
	case h2wire.THeaders:
		return fmt.Sprintf("HEADERS(%d,es=%v)", f.Stream, f.Flags&h2wire.FEndStream != 0)
	case h2wire.TData:
		return fmt.Sprintf("DATA(%d,len=%d,es=%v)", f.Stream, len(f.Payload), f.Flags&h2wire.FEndStream != 0)
	case h2wire.TWindowUpdate:
		return fmt.Sprintf("WINDOW_UPDATE(%d,%d)", f.Stream, f.WindowIncrement())
	}
	return f.String()
}

// reactionClass abstracts a step's observation for the coverage signature.
func reactionClass(r stepRec) string {
	var ks []string
	for _, o := range r.Out {
		if i := strings.IndexByte(o, '('); i > 0 {
			k := o[:i]
			if k == "RST_STREAM" || k == "GOAWAY" {
				k = o[:i] + o[strings.LastIndexByte(o, ','):]
			}
			ks = append(ks, k)
		} else {
			ks = append(ks, o)
		}
	}
	if len(r.Starts) > 0 {
		ks = append(ks, fmt.Sprintf("handler×%d", len(r.Starts)))
	}
	if len(ks) == 0 {
		return "nothing"
	}
	return strings.Join(ks, "+")
}

// ---- enumeration ----

type phase struct {
	cfg   config
	depth int  // letters chosen after cfg.prefix
	prune bool // expand one representative history per reference state (and remaining depth)
}

// coreLetters: the letters that move the stream state machine, for the deep pruned phase.
var coreLetters = []string{"H_NEW_ES_NOW", "H_NEW_ES_HOLD", "H_NEW_HOLD", "H_NEW_NOW", "H_CLOSED", "H_TRAILERS_ES", "H_HALFCLOSED", "H_NEW_NOEH", "H_NEW_NOEH_UPPER", "CONT_EH",
	"H_NEW_UPPER", "H_NEW_CONNHDR", "D_OPEN", "D_OPEN_ES", "D_HALFCLOSED", "D_CLOSED", "R_OPEN", "R_HALFCLOSED", "R_CLOSED", "W_OPEN", "W_CLOSED", "P_SELF", "S_ACK", "GOAWAY", "RELEASE"}

// slotLetters: the letters that occupy and free handler slots, for the deep phase about the concurrency limit (requests
// whose handlers keep running, resets of their streams, handler returns).
var slotLetters = []string{"H_NEW_HOLD", "H_NEW_ES_HOLD", "R_OPEN", "R_HALFCLOSED", "RELEASE"}

func plan() []phase {
	afterSettings := func(n int) config {
		return config{name: fmt.Sprintf("max%d", n), maxStreams: n, prefix: []string{"S_EMPTY"}}
	}
	core := func(n int) config {
		c := afterSettings(n)
		c.name += "/core"
		c.only = map[string]bool{}
		for _, l := range coreLetters {
			if _, ok := alphaIdx[l]; !ok {
				panic("unknown core letter " + l)
			}
			c.only[l] = true
		}
		return c
	}
	slots := func(n int) config {
		c := afterSettings(n)
		c.name += "/slots"
		c.only = map[string]bool{}
		for _, l := range slotLetters {
			if _, ok := alphaIdx[l]; !ok {
				panic("unknown slot letter " + l)
			}
			c.only[l] = true
		}
		return c
	}
	if p := os.Getenv("C13_PLAN"); p != "" { // experiments: "core|full:<maxStreams>:<depth>:<prune 0|1>"
		f := strings.Split(p, ":")
		n, _ := strconv.Atoi(f[1])
		d, _ := strconv.Atoi(f[2])
		c := afterSettings(n)
		if f[0] == "core" {
			c = core(n)
		}
		return []phase{{cfg: c, depth: d, prune: f[3] == "1"}}
	}
	bare := config{name: "first-frame", maxStreams: 2}
	if ev.Thorough() {
		return []phase{
			{cfg: bare, depth: 3},
			{cfg: afterSettings(2), depth: 4},
			{cfg: afterSettings(1), depth: 4},
			{cfg: core(2), depth: 6, prune: true},
			{cfg: core(1), depth: 7, prune: true},
			{cfg: slots(2), depth: 10, prune: true},
			{cfg: slots(3), depth: 11, prune: true},
		}
	}
	return []phase{
		{cfg: bare, depth: 2},
		{cfg: afterSettings(2), depth: 3},
		{cfg: afterSettings(1), depth: 3},
		{cfg: core(2), depth: 5, prune: true},
		{cfg: core(1), depth: 5, prune: true},
		{cfg: slots(2), depth: 8, prune: true},
	}
}

func TestCheck(t *testing.T) {
	rep := ev.New("C13", "model_checking")
	defer rep.Write()
	// one bubble at a time: more Ps only add scheduler and GC lock contention between the shard processes
	runtime.GOMAXPROCS(1)
	debug.SetGCPercent(400)
	shard, of := mc.ShardFromEnv()
	budget := 70 * time.Second
	if ev.Thorough() {
		budget = 13 * time.Minute
	}
	deadline := time.Now().Add(budget)
	if rp := os.Getenv("VERIF_REPLAY"); rp != "" {
		replayFile(t, rep, rp)
		return
	}
	blockedWriter(t, rep, shard, of)
	lateReader(t, rep, shard, of)
	rep.Info["rule"] = "history = sequence of abstract letters (one client frame or one handler release each), instantiated against the reference machine's state (next odd id / an open stream / the half-closed stream / the stream closed last / an idle id) and replayed on a fresh real http2 serverConn in its own bubble; phases '<config>/depthN' execute EVERY letter sequence of length <= N over the full alphabet (after a connection error only the probe letters H_NEW_ES_NOW, H_NEW_HOLD, PING, RELEASE continue a history; a history stops after a connection-fatal frame that was answered with an admissible stream error only); phases '.../core/depthN/pruned' run the 24 core letters to depth N and expand one representative history per (reference state, remaining depth); configs: first-frame = nothing after the preface, maxK = preface+SETTINGS with SETTINGS_MAX_CONCURRENT_STREAMS=K; states = distinct (config, reference machine state) keys reached; distinct_nontrivial = distinct (letter, (frame,state) class, reaction class) triples in which the server reacted with more than nothing or the frame was not plain-legal"
	rep.Info["bounds_note"] = "the design asked for 26 letters, full depth 3 (quick) / 4 (thorough) and depths 5-7 pruned on the reference state over the same alphabet. Implemented: 74 letters (every design letter plus length/flag/id variants), full depth 3 / 4 for two concurrency limits (2 as designed, and 1 so that 'refused stream' histories fit the depth), first-frame histories to depth 2 / 3; the pruned deep phases use the 24 'core' letters (depth 5 quick; depth 6 for limit 2 and depth 7 for limit 1 thorough) because the full alphabet at depth 5 exceeds the time budget even with pruning (more than 1.0 M executions, measured)"
	rep.Info["alphabet"] = letterNames()
	rep.Info["core_alphabet"] = coreLetters
	rep.Info["alphabet_size"] = len(alpha)
	rep.Assume(
		"frames are delivered one at a time and the server runs to quiescence (synctest.Wait) before the next one: internal states that exist only while a frame write is in flight (resetQueued, writes blocked on the network) are not reached",
		"where RFC 7540/9113 clauses overlap the union of their reactions is admitted; a stream error may be escalated to a connection error with the same code (§5.4.1)",
		"a malformed request (§8.1.2.6) may be answered by the server itself with a 4xx response instead of RST_STREAM, as long as no handler is started",
		"after the server has sent GOAWAY a further connection error may be signalled by closing the connection (GOAWAY is a SHOULD, §5.4.1); this is checked on the fake clock",
		"pruned phases assume that the implementation's reaction to future frames is a function of the reference machine's state (stated abstraction of the design)")
	states := map[string]struct{}{}
	reported := map[string]bool{}
	var phasesDone []string
	for pi, ph := range plan() {
		name := fmt.Sprintf("%s/depth%d", ph.cfg.name, ph.depth)
		if ph.prune {
			name += "/pruned"
		}
		units := [][]string{nil}
		ex := &mc.Explorer{}
		if ph.prune {
			// one explorer per shard so that the visited set is shared by the whole phase; mc splits the top level
			ex = &mc.Explorer{Bound: ph.depth, Prune: true, Shard: shard, Of: of, Deadline: deadline, RecheckN: 50, MaxFound: 40}
		} else {
			// balanced sharding: units are the enabled (first, second) letter pairs; every shard derives the same list
			units = nil
			k := 0
			first := enabledAfter(t, ph.cfg, nil)
			for _, a := range first {
				if ph.depth < 2 {
					if k%of == shard {
						units = append(units, []string{a})
					}
					k++
					continue
				}
				for _, b := range enabledAfter(t, ph.cfg, []string{a}) {
					if k%of == shard {
						units = append(units, []string{a, b})
					}
					k++
				}
				if k%of == shard { // the history that ends after a
					units = append(units, []string{a, stopLabel})
				}
				k++
			}
		}
		capped := false
		for _, unit := range units {
			forced, depth := unit, ph.depth-len(unit)
			if len(unit) > 0 && unit[len(unit)-1] == stopLabel {
				forced, depth = unit[:len(unit)-1], 0
			}
			if !ph.prune {
				ex = &mc.Explorer{Bound: 0, Deadline: deadline, RecheckN: 50, MaxFound: 40}
			}
			run := func(c *mc.Chooser) mc.Outcome {
				res, out := runHistory(t, ph.cfg, forced, depth, c, ph.prune)
				rep.Add("transitions", int64(len(res.steps)))
				for _, k := range res.keys {
					states[mc.Hash64(fmt.Sprintf("%d|%s", ph.cfg.maxStreams, k))] = struct{}{}
				}
				for _, f := range res.feats {
					rep.Note("distinct_nontrivial", f)
				}
				if len(res.steps) > 3 && (len(res.feats)+pi)%7 == 0 {
					rep.Sample(map[string]any{"phase": name, "history": res.steps})
				}
				return out
			}
			func() {
				defer func() {
					if r := recover(); r != nil {
						if he, ok := r.(mc.HarnessError); ok {
							rep.HarnessError("%s %v: %v", name, forced, he)
							return
						}
						panic(r)
					}
				}()
				ex.Explore(run)
			}()
			rep.Add("evaluations", int64(ex.Schedules))
			rep.Add("traces_validated_against_impl", int64(ex.Schedules))
			rep.Add("executions_"+strings.ReplaceAll(name, "/", "_"), int64(ex.Schedules))
			rep.Add("rechecked", int64(ex.Rechecked))
			rep.Add("pruned_revisits", int64(ex.Pruned))
			rep.SetMax("max_depth", int64(ex.MaxDepth+len(forced)))
			for _, d := range ex.Diverged {
				rep.HarnessError("non-deterministic observation in %s %v: %s", name, forced, d)
			}
			for _, f := range ex.Found {
				if reported[f.Sig] {
					continue
				}
				reported[f.Sig] = true
				report(t, rep, ph, name, forced, depth, f)
			}
			if ex.Capped && time.Now().After(deadline) {
				capped = true
				break
			}
			if ex.Capped {
				rep.NotExhaustive(fmt.Sprintf("phase %s %v: exploration stopped after %d distinct violation signatures", name, forced, len(ex.Found)))
			}
		}
		if capped {
			rep.NotExhaustive("time budget reached in phase " + name)
			break
		}
		phasesDone = append(phasesDone, name)
	}
	rep.Info["phases_completed"] = phasesDone
	for k := range states {
		rep.Note("states", k)
	}
}

func letterNames() []string {
	var n []string
	for _, l := range alpha {
		n = append(n, l.name)
	}
	return n
}

// enabledAfter plays forced and returns the letters enabled in the state reached.
func enabledAfter(t *testing.T, cfg config, forced []string) []string {
	res, _ := runHistory(t, cfg, forced, 0, nil, false)
	return res.next
}

func report(t *testing.T, rep *ev.Report, ph phase, name string, forced []string, depth int, f mc.Found) {
	okN := 0
	var last result
	wantCensus = true
	defer func() { wantCensus = false }()
	for i := 0; i < 5; i++ {
		var r result
		o, _ := mc.Replay(f.Choices, func(c *mc.Chooser) mc.Outcome {
			var out mc.Outcome
			r, out = runHistory(t, ph.cfg, forced, min(depth, len(f.Choices)), c, false) // exactly the letters of the finding (a pruned history is shorter than the phase depth)
			return out
		})
		if o.Obs == f.Obs {
			for _, s := range o.Sigs {
				if s == f.Sig {
					okN++
					break
				}
			}
		}
		last = r
	}
	if okN != 5 {
		rep.HarnessError("violation did not reproduce 5/5 (%d) in %s %v %v: %s", okN, name, forced, f.Trace, f.What)
		return
	}
	letters := append(append([]string{}, forced...), f.Trace...)
	// shrink the witness: cut after the violating step, then drop letters one at a time while the same signature remains
	try := func(ls []string) (r result, ok bool) {
		defer func() {
			if x := recover(); x != nil {
				if _, he := x.(mc.HarnessError); !he {
					panic(x)
				}
				ok = false // a letter is not enabled any more
			}
		}()
		r, out := runHistory(t, ph.cfg, ls, 0, nil, false)
		for _, sg := range out.Sigs {
			if sg == f.Sig {
				return r, true
			}
		}
		return r, false
	}
	if k, ok := last.at[f.Sig]; ok && k < len(letters) {
		if r, ok := try(letters[:k]); ok {
			letters, last = letters[:k], r
		}
	}
	for i := 0; i < len(letters); {
		cand := append(append([]string{}, letters[:i]...), letters[i+1:]...)
		if r, ok := try(cand); ok {
			letters, last = cand, r
		} else {
			i++
		}
	}
	parts := strings.SplitN(f.Sig, "|", 3)
	for len(parts) < 3 {
		parts = append(parts, "")
	}
	rep.Violate(map[string]any{"kind": parts[0], "state": parts[1], "got": parts[2]},
		map[string]any{"phase": name, "max_concurrent_streams": ph.cfg.maxStreams, "letters": append(append([]string{}, ph.cfg.prefix...), letters...), "history": last.steps},
		"%s", f.What)
}

// replayFile re-executes the history stored in a replay file written by the driver (bin/check C13 --replay FILE).
func replayFile(t *testing.T, rep *ev.Report, path string) {
	var doc struct {
		Replay struct {
			Max     int      `json:"max_concurrent_streams"`
			Letters []string `json:"letters"`
			Case    string   `json:"case"`
			Pre     string   `json:"pre"`
			Trigger string   `json:"trigger"`
		} `json:"replay"`
	}
	b, err := os.ReadFile(path)
	if err == nil {
		err = json.Unmarshal(b, &doc)
	}
	if err == nil && doc.Replay.Trigger != "" { // a case of the blocked-writer part
		blockedWriterOnly = doc.Replay.Pre + "/" + doc.Replay.Trigger
		blockedWriter(t, rep, 0, 1)
		return
	}
	if err == nil && len(doc.Replay.Letters) == 0 && strings.HasPrefix(doc.Replay.Case, "C13_HISTORY=") { // a process-death record
		ms, ls, _ := strings.Cut(strings.TrimSpace(strings.TrimPrefix(strings.SplitN(doc.Replay.Case, "\n", 2)[0], "C13_HISTORY=")), ":")
		doc.Replay.Max, _ = strconv.Atoi(ms)
		doc.Replay.Letters = strings.Split(ls, ",")
	}
	if err != nil || len(doc.Replay.Letters) == 0 {
		rep.HarnessError("cannot read replay file %s: %v", path, err)
		return
	}
	res, out := runHistory(t, config{name: "replay", maxStreams: doc.Replay.Max}, doc.Replay.Letters, 0, nil, false)
	for _, s := range res.steps {
		fmt.Printf("%-22s %-40s %-60s -> %v handlers=%v\n", s.Letter, s.Frame, s.Class, s.Out, s.Starts)
	}
	rep.Add("evaluations", 1)
	rep.Add("transitions", int64(len(res.steps)))
	rep.Add("traces_validated_against_impl", 1)
	rep.Sample(map[string]any{"history": res.steps})
	rep.Info["rule"] = "replay of one stored history"
	for i, v := range out.Violations {
		parts := append(strings.SplitN(out.Sigs[i], "|", 3), "", "")
		rep.Violate(map[string]any{"kind": parts[0], "state": parts[1], "got": parts[2]},
			map[string]any{"max_concurrent_streams": doc.Replay.Max, "letters": doc.Replay.Letters, "history": res.steps}, "%s", v)
	}
}

// journal: which case is running, for the driver's crash attribution (one pwrite per execution).
var journalFile *os.File

func journal(format string, a ...any) {
	p := os.Getenv("VERIF_JOURNAL")
	if p == "" {
		return
	}
	if journalFile == nil {
		f, err := os.OpenFile(p, os.O_WRONLY|os.O_CREATE|os.O_TRUNC, 0o644)
		if err != nil {
			return
		}
		journalFile = f
	}
	line := fmt.Sprintf(format, a...)
	if len(line) > 255 {
		line = line[:255]
	}
	journalFile.WriteAt([]byte(fmt.Sprintf("%-255s\n", line)), 0)
}

// TestOne plays one history given as C13_HISTORY="<maxStreams>:LETTER,LETTER,..." and prints it (debugging aid).
func TestOne(t *testing.T) {
	h := os.Getenv("C13_HISTORY")
	if h == "" {
		t.Skip("C13_HISTORY not set")
	}
	ms, ls, _ := strings.Cut(h, ":")
	n, _ := strconv.Atoi(ms)
	res, out := runHistory(t, config{name: "one", maxStreams: n}, strings.Split(ls, ","), 0, nil, false)
	for _, s := range res.steps {
		fmt.Printf("%-22s %-40s %-50s -> %v handlers=%v\n", s.Letter, s.Frame, s.Class, s.Out, s.Starts)
	}
	fmt.Println("next:", res.next)
	for i, v := range out.Violations {
		fmt.Printf("VIOLATION [%s] %s\n", out.Sigs[i], v)
	}
}
