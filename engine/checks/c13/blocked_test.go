//go:build verif

package c13

// Blocked-writer part of C13: "after a connection error no further request is served on that connection" also when
// the server cannot write at that moment. The client stops reading (the server's socket buffer holds one byte), two
// PINGs keep the server's writer busy with an ack it cannot flush, then a frame that is a connection error arrives -
// the GOAWAY can only be queued - and then a well-formed request on the next stream id. Every frame that draws a
// connection error in the undisturbed run of the same prefix (found by running it: nothing is listed by hand) is
// used as the trigger, with and without a request in flight.

import (
	"fmt"
	"net/http"
	"strings"
	"sync"
	"testing"
	"testing/synctest"

	"github.com/wi1dcard/fingerproxy/pkg/http2"
	"verif/bubble"
	"verif/ev"
	"verif/ref/h2sm"
	"verif/ref/h2wire"
)

// blockedWriterOnly: "pre/letter" - run just that case (replay)
var blockedWriterOnly string

func blockedWriter(t *testing.T, rep *ev.Report, shard, of int) {
	type outcome struct {
		started  []string // request paths whose handler ran, in order
		goaway   bool
		code     uint32
		last     uint32
		statuses map[uint32]bool // streams that got response HEADERS
		closed   bool
	}
	run := func(pre string, trig *letter, blocked bool) (o outcome, triggerWire string, err string) {
		o.statuses = map[uint32]bool{}
		res := bubble.Run(t, func() {
			var mu sync.Mutex
			release := make(chan struct{})
			handler := http.HandlerFunc(func(w http.ResponseWriter, r *http.Request) {
				mu.Lock()
				o.started = append(o.started, r.URL.Path)
				mu.Unlock()
				if strings.HasPrefix(r.URL.Path, "/h/") {
					<-release
				}
				w.WriteHeader(200)
			})
			conn := bubble.StartH2(&http2.Server{MaxConcurrentStreams: 3, MaxReadFrameSize: maxFrame}, &http.Server{}, handler)
			defer conn.Close()
			defer close(release)
			m := h2sm.New(h2sm.Config{MaxStreams: 3, MaxFrameSize: maxFrame})
			x := &env{m: m}
			var cparse h2wire.Parser
			send := func(wire []byte) {
				for _, f := range cparse.Feed(wire) {
					x.tag++
					m.Client(f, x.tag)
					m.Server(nil, nil) // the letters only need the reference's stream bookkeeping (ids, open streams)
				}
				conn.Send(wire)
				synctest.Wait()
			}
			conn.Send([]byte(h2wire.Preface))
			synctest.Wait()
			send(h2wire.Settings())
			send(h2wire.SettingsAck())
			if pre == "held" {
				l := &alpha[alphaIdx["H_NEW_HOLD"]]
				w, _ := l.build(x)
				send(w)
			}
			conn.Frames()
			if blocked {
				conn.Sv.SetWriteCap(1)
				conn.Send(h2wire.Ping(false, [8]byte{1}))
				synctest.Wait()
				conn.Send(h2wire.Ping(false, [8]byte{2}))
				synctest.Wait()
			}
			w, ok := trig.build(x)
			if !ok {
				err = "not enabled"
				return
			}
			triggerWire = fmt.Sprintf("%x", w)
			if len(triggerWire) > 60 {
				triggerWire = triggerWire[:60] + ".."
			}
			conn.Send(w) // (not through the reference: what follows is judged by this part's own oracle)
			synctest.Wait()
			next := m.NextID()
			if trig.name == "H_NEW_NOEH" || strings.HasPrefix(trig.name, "H_NEW") || strings.HasPrefix(trig.name, "H_SKIP") {
				next += 4 // well above whatever id the trigger itself used
			}
			conn.Send(hdr(next, reqBlock("n", next, 999), true, true, nil, -1))
			synctest.Wait()
			if blocked {
				conn.Sv.SetWriteCap(0)
				synctest.Wait()
			}
			for _, f := range conn.Frames() {
				switch f.Type {
				case h2wire.TGoAway:
					last, c := f.GoAwayFields()
					if !o.goaway || c != 0 {
						o.goaway, o.code, o.last = true, c, last
					}
				case h2wire.THeaders:
					o.statuses[f.Stream] = true
				}
			}
			o.closed = conn.Sv.Closed()
			o.last = o.last // (kept for the report)
			_ = next
		})
		if res.Panic != nil {
			err = fmt.Sprintf("panic: %v", res.Panic)
		}
		if res.Hang != "" {
			err = res.Hang
		}
		return
	}
	job := 0
	for _, pre := range []string{"none", "held"} {
		for li := range alpha {
			l := &alpha[li]
			if l.rel {
				continue
			}
			job++
			if blockedWriterOnly != "" {
				if blockedWriterOnly != pre+"/"+l.name {
					continue
				}
			} else if job%of != shard {
				continue
			}
			ctl, wire, cerr := run(pre, l, false)
			if cerr == "not enabled" {
				continue
			}
			if cerr != "" {
				rep.HarnessError("blocked-writer control run %s/%s: %s", pre, l.name, cerr)
				continue
			}
			if !(ctl.goaway && ctl.code != 0) {
				rep.Add("blocked_writer_letters_not_connection_errors", 1)
				continue
			}
			served := func(o outcome) string {
				for _, p := range o.started {
					if strings.HasSuffix(p, "/999") {
						return p
					}
				}
				return ""
			}
			if p := served(ctl); p != "" {
				rep.Violate(map[string]any{"kind": "request-served-after-connection-error", "writer": "free", "trigger": l.name, "pre": pre}, map[string]any{"pre": pre, "trigger": l.name, "wire": wire},
					"prefix %s, then %s (%s) draws GOAWAY(%d); the request sent after it (%s) was served", pre, l.name, wire, ctl.code, p)
				continue
			}
			blk, _, berr := run(pre, l, true)
			if berr != "" {
				rep.Violate(map[string]any{"kind": "hang", "part": "blocked-writer", "trigger": l.name, "pre": pre}, map[string]any{"pre": pre, "trigger": l.name}, "blocked-writer run %s/%s: %s", pre, l.name, berr)
				continue
			}
			rep.Add("blocked_writer_cases", 1)
			rep.Add("evaluations", 1)
			rep.Note("distinct_nontrivial", fmt.Sprintf("blocked-writer/%s/%s/goaway=%v/%d", pre, l.name, blk.goaway, blk.code))
			if p := served(blk); p != "" {
				rep.Violate(map[string]any{"kind": "request-served-after-connection-error", "writer": "blocked", "trigger": l.name, "pre": pre}, map[string]any{"pre": pre, "trigger": l.name, "wire": wire},
					"prefix %s, client not reading (the ack of a PING is stuck in the server's writer), then %s (%s), a connection error (GOAWAY(%d) in the undisturbed run), then a well-formed request: its handler ran (%s); after the client read again: GOAWAY=%v code=%d last-stream-id=%d",
					pre, l.name, wire, ctl.code, p, blk.goaway, blk.code, blk.last)
			}
		}
	}
}

// lateReader: a handler that reads its request body only after the client has already ended or reset the stream.
// Once the server has processed the client's RST_STREAM the stream is closed: nothing but PRIORITY may be sent on it
// (RFC 9113 section 5.1), whatever the handler does afterwards - reading what was buffered, answering.
func lateReader(t *testing.T, rep *ev.Report, shard, of int) {
	job := 0
	for _, n := range []int{1, 4095, 4096, 16384, 40000} {
		for _, end := range []string{"rst", "end-stream", "open"} {
			for _, answer := range []bool{false, true} {
				job++
				if job%of != shard {
					continue
				}
				desc := fmt.Sprintf("late reader: POST with %d body bytes buffered unread, then client %s, then the handler reads (and answers=%v)", n, end, answer)
				var onClosed []string
				res := bubble.Run(t, func() {
					readNow := make(chan struct{})
					handler := http.HandlerFunc(func(w http.ResponseWriter, r *http.Request) {
						<-readNow
						buf := make([]byte, 1<<16)
						for {
							if _, err := r.Body.Read(buf); err != nil {
								break
							}
						}
						if answer {
							w.WriteHeader(200)
							w.Write([]byte("late"))
						}
					})
					conn := bubble.StartH2(&http2.Server{MaxReadFrameSize: maxFrame}, &http.Server{}, handler)
					defer conn.Close()
					conn.Send([]byte(h2wire.Preface))
					conn.Send(h2wire.Settings())
					synctest.Wait()
					conn.Send(h2wire.SettingsAck())
					conn.Send(hdr(1, reqBlock("n", 1, 1, [2]string{"content-type", "x"}), false, true, nil, -1))
					synctest.Wait()
					for left := n; left > 0; {
						k := min(left, 16384)
						conn.Send(h2wire.Data(1, make([]byte, k), false, -1))
						left -= k
						synctest.Wait()
					}
					conn.Frames()
					switch end {
					case "rst":
						conn.Send(h2wire.RST(1, 8))
					case "end-stream":
						conn.Send(h2wire.Data(1, nil, true, -1))
					}
					synctest.Wait()
					reaction := conn.Frames()
					close(readNow)
					synctest.Wait()
					after := conn.Frames()
					if end == "rst" {
						for _, f := range append(reaction, after...) {
							if f.Stream == 1 && f.Type != h2wire.TPriority {
								onClosed = append(onClosed, describe(f))
							}
						}
					}
				})
				if res.Panic != nil {
					rep.HarnessError("%s: panic %v\n%s", desc, res.Panic, res.Stack)
					continue
				}
				if res.Hang != "" {
					rep.Violate(map[string]any{"kind": "hang", "part": "late-reader"}, map[string]any{"desc": desc}, "%s: %s", desc, res.Hang)
					continue
				}
				rep.Add("late_reader_cases", 1)
				rep.Add("evaluations", 1)
				rep.Note("distinct_nontrivial", fmt.Sprintf("late-reader/%d/%s/%v/%d", n, end, answer, len(onClosed)))
				if len(onClosed) > 0 {
					rep.Violate(map[string]any{"kind": "frame-on-closed-stream", "part": "late-reader", "end": end}, map[string]any{"desc": desc, "frames": onClosed},
						"%s: after the client's RST_STREAM(1) had been processed the server sent on stream 1: %v (a closed stream carries nothing but PRIORITY)", desc, onClosed)
				}
			}
		}
	}
}
