//go:build verif

// C03 — the HTTP/2 fingerprint header reflects the frames the client sent.
package c03

import (
	"context"
	"crypto/sha256"
	"encoding/hex"
	"encoding/json"
	"fmt"
	"io"
	"math"
	"net/http"
	"sort"
	"strings"
	"sync"
	"testing"
	"testing/synctest"

	"github.com/wi1dcard/fingerproxy"
	fp "github.com/wi1dcard/fingerproxy/pkg/fingerprint"
	"github.com/wi1dcard/fingerproxy/pkg/http2"
	"github.com/wi1dcard/fingerproxy/pkg/metadata"
	"verif/bubble"
	"verif/ev"
	"verif/mc"
	"verif/ref/h2fpref"
	"verif/ref/h2wire"
)

// ---------------------------------------------------------------- seam B ----

const nLetters = 15

var letterNames = []string{"SETTINGS{3:100}", "SETTINGS{0x99:7,4:1048576}", "SETTINGS-ACK", "WINDOW_UPDATE(0,15663105)", "WINDOW_UPDATE(open,7)",
	"PRIORITY(next+4)", "PRIORITY(1,excl)", "HEADERS", "HEADERS+prio(order2)", "HEADERS+CONTINUATION", "HEADERS(open)", "TRAILERS(+prio on streams 1,5,..)", "DATA(end)", "PING", "WINDOW_UPDATE(closed,9)"}

type result struct {
	stream uint32
	val    string
	err    string
}

type sess struct {
	conn    *bubble.H2Conn
	ref     *h2fpref.State
	next    uint32
	acked   bool
	open    uint32                    // an open (request body not ended) stream, 0 if none
	after   map[uint32]*h2fpref.State // stream -> reference state right after its own HEADERS
	mu      sync.Mutex
	results []result
}

func (s *sess) handler(inj *fp.FingerprintHeaderInjector) http.Handler {
	return http.HandlerFunc(func(w http.ResponseWriter, r *http.Request) {
		if strings.HasPrefix(r.URL.Path, "/late") {
			io.Copy(io.Discard, r.Body)
		}
		v, err := inj.GetHeaderValue(r)
		var id uint32
		fmt.Sscanf(r.URL.Path[strings.LastIndex(r.URL.Path, "-")+1:], "%d", &id)
		res := result{stream: id, val: v}
		if err != nil {
			res.err = err.Error()
		}
		s.mu.Lock()
		s.results = append(s.results, res)
		s.mu.Unlock()
		w.WriteHeader(204)
	})
}

// apply sends letter l if it is applicable in the current state; returns false if not applicable.
func (s *sess) apply(l int) bool {
	c := s.conn
	hdr := func(order []string, path string) []h2wire.HF {
		vals := map[string]string{":method": "POST", ":scheme": "https", ":authority": "localhost", ":path": path}
		var fs []h2wire.HF
		for _, n := range order {
			fs = append(fs, h2wire.HF{Name: n, Value: vals[n]})
		}
		return append(fs, h2wire.HF{Name: "x-extra", Value: "1"})
	}
	o1 := []string{":method", ":scheme", ":authority", ":path"}
	o2 := []string{":path", ":method", ":authority", ":scheme"}
	names := func(fs []h2wire.HF) []string {
		var n []string
		for _, f := range fs {
			n = append(n, f.Name)
		}
		return n
	}
	if l >= settingsLetterBase {
		id, val := settingsLetter(l)
		c.Send(h2wire.Settings(h2wire.Setting{ID: id, Val: val}))
		s.ref.OnSettings([]h2fpref.Setting{{ID: id, Val: val}})
		return true
	}
	switch l {
	case 0:
		c.Send(h2wire.Settings(h2wire.Setting{ID: 3, Val: 100}))
		s.ref.OnSettings([]h2fpref.Setting{{ID: 3, Val: 100}})
	case 1:
		c.Send(h2wire.Settings(h2wire.Setting{ID: 0x99, Val: 7}, h2wire.Setting{ID: 4, Val: 1048576}))
		s.ref.OnSettings([]h2fpref.Setting{{ID: 0x99, Val: 7}, {ID: 4, Val: 1048576}})
	case 2:
		if s.acked {
			return false // the server sent one SETTINGS frame; a second ACK would be a protocol error
		}
		s.acked = true
		c.Send(h2wire.SettingsAck())
	case 3:
		c.Send(h2wire.WindowUpdate(0, 15663105))
		s.ref.OnWindowUpdate(15663105)
	case 4:
		if s.open == 0 {
			return false
		}
		c.Send(h2wire.WindowUpdate(s.open, 7))
		s.ref.OnWindowUpdate(7)
	case 5:
		c.Send(h2wire.Priority(s.next+4, h2wire.Prio{Dep: 0, Weight: 15}))
		s.ref.OnPriority(h2fpref.Priority{Stream: s.next + 4, Dep: 0, Weight: 15})
	case 6:
		c.Send(h2wire.Priority(1, h2wire.Prio{Dep: 3, Excl: true, Weight: 255}))
		s.ref.OnPriority(h2fpref.Priority{Stream: 1, Dep: 3, Excl: true, Weight: 255})
	case 7, 8, 9, 10:
		id := s.next
		s.next += 2
		path := fmt.Sprintf("/r-%d", id)
		end := true
		if l == 10 {
			if s.open != 0 {
				s.next -= 2
				return false
			}
			path = fmt.Sprintf("/late-%d", id)
			end = false
			s.open = id
		}
		var prio *h2wire.Prio
		order := o1
		if l == 8 {
			prio = &h2wire.Prio{Dep: 0, Excl: id%4 == 1, Weight: uint8(40 + id)}
			if id%4 == 3 {
				// the PRIORITY flag with an all-zero priority field (not exclusive, dependency 0, weight byte 0 = weight 1):
				// it still is a HEADERS frame carrying priority and must be listed as stream:0:0:1
				prio = &h2wire.Prio{}
			}
			order = o2
		}
		fs := hdr(order, path)
		blk := c.Enc.Block(fs...)
		if l == 9 {
			cut := len(blk) / 2
			c.Send(h2wire.Headers(id, blk[:cut], end, false, prio, -1))
			c.Send(h2wire.Continuation(id, blk[cut:], true))
		} else {
			c.Send(h2wire.Headers(id, blk, end, true, prio, -1))
		}
		var rp *h2fpref.Priority
		if prio != nil {
			rp = &h2fpref.Priority{Stream: id, Dep: prio.Dep, Excl: prio.Excl, Weight: prio.Weight}
		}
		s.ref.OnHeaders(names(fs), rp)
		s.after[id] = s.ref.Clone()
	case 11:
		if s.open == 0 {
			return false
		}
		fs := []h2wire.HF{{Name: "x-trailer", Value: "t"}}
		// on every other stream the trailer HEADERS frame carries a priority field: it is a HEADERS frame with
		// priority like any other and belongs to the fingerprint of everything that is answered after it
		var prio *h2wire.Prio
		var rp *h2fpref.Priority
		if s.open%4 == 1 {
			prio = &h2wire.Prio{Dep: 0, Excl: true, Weight: uint8(90 + s.open)}
			rp = &h2fpref.Priority{Stream: s.open, Dep: 0, Excl: true, Weight: prio.Weight}
		}
		c.Send(h2wire.Headers(s.open, c.Enc.Block(fs...), true, true, prio, -1))
		s.ref.OnHeaders(names(fs), rp)
		s.open = 0
	case 12:
		if s.open == 0 {
			return false
		}
		c.Send(h2wire.Data(s.open, []byte("body"), true, -1))
		s.open = 0
	case 13:
		c.Send(h2wire.Ping(false, [8]byte{1, 2, 3}))
	case 14:
		// a WINDOW_UPDATE for a stream that is already closed (request answered): legal, ignored for flow control, and
		// still a WINDOW_UPDATE frame the client sent
		if s.next == 1 || s.open == 1 {
			return false
		}
		c.Send(h2wire.WindowUpdate(1, 9))
		s.ref.OnWindowUpdate(9)
	}
	return true
}

// runHistory replays one history on a fresh server; returns the violations found.
func runHistory(t *testing.T, hist []int, rep *ev.Report) (applicable bool, obs string, viol []string) {
	applicable, obs, viol, _ = runHistoryK(t, hist, rep)
	return
}

// runHistoryK also returns a canonical key of the state the history ends in: the reference fingerprint state, the
// open stream, whether the server's SETTINGS was acknowledged and the next stream id. The capture code and Marshal read
// nothing else, so histories with equal keys have equal futures (used by the deduplicating deep search).
func runHistoryK(t *testing.T, hist []int, rep *ev.Report) (applicable bool, obs string, viol []string, key string) {
	applicable = true
	res := bubble.Run(t, func() {
		param := &fp.HTTP2FingerprintParam{MaxPriorityFrames: math.MaxUint}
		inj := fp.NewFingerprintHeaderInjector("X-HTTP2-Fingerprint", param.HTTP2Fingerprint)
		s := &sess{ref: &h2fpref.State{}, next: 1, after: map[uint32]*h2fpref.State{}}
		s.conn = bubble.StartH2(&http2.Server{}, &http.Server{}, s.handler(inj))
		defer s.conn.Close()
		s.conn.Send([]byte(h2wire.Preface))
		s.conn.Send(h2wire.Settings()) // mandatory first SETTINGS (empty)
		s.ref.OnSettings(nil)
		synctest.Wait()
		checked := 0
		var history []*h2fpref.State // reference state after each letter
		for _, l := range hist {
			if !s.apply(l) {
				applicable = false
				return
			}
			synctest.Wait()
			history = append(history, s.ref.Clone())
			lastKey = fmt.Sprintf("%s|open=%d|acked=%v|next=%d", s.ref.String(-1), s.open, s.acked, s.next)
			// every handler that has finished by now
			s.mu.Lock()
			rs := append([]result(nil), s.results[checked:]...)
			checked = len(s.results)
			s.mu.Unlock()
			for _, r := range rs {
				own := s.after[r.stream]
				if own == nil {
					viol = append(viol, fmt.Sprintf("handler ran for stream %d which was never requested", r.stream))
					continue
				}
				ok := false
				var adm []string
				// admissible: the state right after the request's own HEADERS, or any later state up to now
				cands := []*h2fpref.State{own}
				started := false
				for _, h := range history {
					if h.String(-1) == own.String(-1) {
						started = true
					}
					if started {
						cands = append(cands, h)
					}
				}
				for _, cst := range cands {
					adm = append(adm, cst.String(-1))
					if cst.Equal(r.val, -1) {
						ok = true
					}
				}
				if r.err != "" || !ok {
					viol = append(viol, fmt.Sprintf("stream %d: X-HTTP2-Fingerprint %q (err %q), admissible %v", r.stream, r.val, r.err, uniq(adm)))
				}
				if strings.Count(r.val, "|") != 3 {
					viol = append(viol, fmt.Sprintf("stream %d: value %q does not have exactly four '|'-separated parts", r.stream, r.val))
				}
				obs += fmt.Sprintf("%d=%s ", r.stream, r.val)
			}
			for _, f := range s.conn.Frames() {
				if f.Type == h2wire.TGoAway || f.Type == h2wire.TRSTStream {
					viol = append(viol, fmt.Sprintf("HARNESS: legal history drew %s", f))
				}
			}
		}
	})
	if res.Panic != nil {
		viol = append(viol, fmt.Sprintf("panic: %v\n%s", res.Panic, res.Stack))
	}
	if res.Hang != "" {
		rep.Violate(map[string]any{"kind": "hang"}, map[string]any{"hang": res.Hang}, "the exchange never completed: %s", res.Hang)
	}
	key = lastKey
	return
}

var lastKey string // set by the body of runHistoryK (one execution at a time per process)

func uniq(a []string) []string {
	seen := map[string]bool{}
	var out []string
	for _, x := range a {
		if !seen[x] {
			seen[x] = true
			out = append(out, x)
		}
	}
	return out
}

func names(h []int) []string {
	var s []string
	for _, l := range h {
		if l >= settingsLetterBase {
			id, val := settingsLetter(l)
			s = append(s, fmt.Sprintf("SETTINGS{%d:%d}", id, val))
			continue
		}
		s = append(s, letterNames[l])
	}
	return s
}

// ---- settings sweep: every settings identifier (those RFC 7540 defines, those later RFCs define - 8 of RFC 8441, 9 of
// RFC 9218 - and unassigned ones) x boundary values, sent mid-connection in front of PRIORITY frames, a WINDOW_UPDATE and
// a request with priority; then the same identifier with value 0 and PRIORITY frames and a request again. A setting
// is a (id, value) pair to be listed, whatever it means to the server; the frames after it are recorded as ever.
const settingsLetterBase = 1000

var sweepIDs = []uint16{0, 1, 2, 3, 4, 5, 6, 7, 8, 9, 10, 11, 16, 0x99, 0xffff}
var sweepVals = []uint32{0, 1, 2, 100, 16384, 65535, 1<<31 - 1, 1<<32 - 1}

func settingsLetter(l int) (uint16, uint32) {
	l -= settingsLetterBase
	return sweepIDs[l/len(sweepVals)], sweepVals[l%len(sweepVals)]
}

func legalSetting(id uint16, val uint32) bool {
	switch id {
	case 2, 8:
		return val <= 1
	case 4:
		return val <= 1<<31-1
	case 5:
		return val >= 16384 && val <= 1<<24-1
	}
	return true
}

func seamSettings(t *testing.T, rep *ev.Report, shard, of int) {
	k := 0
	for i, id := range sweepIDs {
		for j, val := range sweepVals {
			if !legalSetting(id, val) {
				continue
			}
			l := settingsLetterBase + i*len(sweepVals) + j
			zero := settingsLetterBase + i*len(sweepVals) // the same identifier, value 0 (or the smallest legal value)
			for !legalSetting(settingsLetter(zero)) {
				zero++
			}
			for _, hist := range [][]int{{l, 5, 6, 3, 8, zero, 5, 7}, {5, l, 6, 8, 3, 7}, {l, zero, l, 5, 8}} {
				k++
				if k%of != shard {
					continue
				}
				app, obs, viol := runHistory(t, hist, rep)
				rep.Add("settings_sweep_histories", 1)
				if !app {
					rep.HarnessError("settings sweep history %v not applicable", names(hist))
					continue
				}
				rep.Add("states", 1)
				rep.Add("transitions", int64(len(hist)))
				rep.Add("traces_validated_against_impl", 1)
				rep.Add("evaluations", 1)
				rep.Note("distinct_nontrivial", mc.Hash64(obs))
				for _, v := range viol {
					if strings.HasPrefix(v, "HARNESS") {
						rep.HarnessError("history %v: %s", names(hist), v)
						continue
					}
					n := 0
					for x := 0; x < 5; x++ {
						if _, _, v2 := runHistory(t, hist, rep); len(v2) > 0 {
							n++
						}
					}
					if n != 5 {
						rep.HarnessError("history %v: violation did not reproduce 5/5: %s", names(hist), v)
						continue
					}
					rep.Violate(map[string]any{"kind": "capture-wrong", "seam": "B-settings-sweep", "setting_id": id},
						map[string]any{"history": names(hist), "letters": hist}, "history %v: %s", names(hist), v)
					break
				}
			}
		}
	}
}

func seamB(t *testing.T, rep *ev.Report, shard, of int) {
	depth := 4
	if ev.Thorough() {
		depth = 5
	}
	rep.Info["history_depth"] = depth
	total := 1
	for i := 0; i < depth; i++ {
		total *= nLetters
	}
	// every history of length exactly depth (shorter ones are prefixes of these and are checked on the way)
	for k := 0; k < total; k++ {
		if k%of != shard {
			continue
		}
		hist := make([]int, depth)
		x := k
		for i := depth - 1; i >= 0; i-- {
			hist[i] = x % nLetters
			x /= nLetters
		}
		app, obs, viol := runHistory(t, hist, rep)
		rep.Add("histories", 1)
		if !app {
			rep.Add("histories_not_applicable", 1)
			continue
		}
		rep.Add("states", 1)
		rep.Add("transitions", int64(depth))
		rep.Add("traces_validated_against_impl", 1)
		rep.Add("evaluations", 1)
		if obs != "" {
			rep.Note("distinct_nontrivial", mc.Hash64(obs))
		}
		if k%(total/5+1) == 0 {
			rep.Sample(map[string]any{"history": names(hist), "handler_observations": obs})
		}
		for _, v := range viol {
			if strings.HasPrefix(v, "HARNESS") {
				rep.HarnessError("history %v: %s", names(hist), v)
				continue
			}
			// confirm 5x
			n := 0
			for i := 0; i < 5; i++ {
				if _, _, v2 := runHistory(t, hist, rep); len(v2) > 0 {
					n++
				}
			}
			if n != 5 {
				rep.HarnessError("history %v: violation did not reproduce 5/5: %s", names(hist), v)
				continue
			}
			kind := "capture-wrong"
			if strings.Contains(v, "four") {
				kind = "form"
			}
			// signature: the last letter before the failing observation tells which capture is wrong
			rep.Violate(map[string]any{"kind": kind, "seam": "B", "last_letters": strings.Join(names(hist[max(0, len(hist)-2):]), ",")},
				map[string]any{"history": names(hist), "letters": hist}, "history %v: %s", names(hist), v)
			break
		}
		if rep.NumViolations() > 20 {
			return
		}
	}
}

// ---------------------------------------------------------------- seam A ----

func seqs[T any](alpha []T, maxLen int) [][]T {
	out := [][]T{nil}
	prev := [][]T{nil}
	for l := 1; l <= maxLen; l++ {
		var cur [][]T
		for _, p := range prev {
			for _, a := range alpha {
				q := append(append([]T(nil), p...), a)
				cur = append(cur, q)
			}
		}
		out = append(out, cur...)
		prev = cur
	}
	return out
}

// seamBDeep: level-synchronous breadth-first search over histories with global deduplication on the canonical state
// key, beyond the depth of the full enumeration. Every level expands each distinct state of the previous level by
// every applicable letter; the expansions of a level are partitioned over the shards, which exchange the (history, key)
// pairs they found at a barrier, so that all shards continue from the same deduplicated frontier.
func seamBDeep(t *testing.T, rep *ev.Report, shard, of int, from, to int) {
	// A found state travels as (history, 128-bit hash of its canonical key): histories are strings of letter bytes,
	// every shard keeps the hashes of all states seen (16 bytes each) and sends only the first history per new key.
	type found struct {
		H string `json:"h"`
		K string `json:"k"`
	}
	type hkey [16]byte
	hashOf := func(key string) hkey {
		sum := sha256.Sum256([]byte(key))
		var k hkey
		copy(k[:], sum[:16])
		return k
	}
	enc := func(h []int) string {
		b := make([]byte, len(h))
		for i, l := range h {
			b[i] = byte('a' + l)
		}
		return string(b)
	}
	dec := func(s string) []int {
		h := make([]int, len(s))
		for i := range s {
			h[i] = int(s[i] - 'a')
		}
		return h
	}
	seen := map[hkey]struct{}{}
	var frontier []string
	// candidates of a level: every history of length `from` (first level), then frontier x letters
	level := func(name string, n int, cand func(i int) []int, count bool) bool {
		var mineFound []found
		mineSeen := map[hkey]struct{}{}
		for i := 0; i < n; i++ {
			if i%of != shard {
				continue
			}
			hist := cand(i)
			app, obs, viol, key := runHistoryK(t, hist, rep)
			if !app {
				continue
			}
			if count {
				rep.Add("deep_transitions", 1)
				rep.Add("transitions", 1)
				rep.Add("traces_validated_against_impl", 1)
				rep.Add("evaluations", 1)
				if obs != "" {
					rep.Note("distinct_nontrivial", mc.Hash64(obs))
				}
				for _, v := range viol {
					if strings.HasPrefix(v, "HARNESS") {
						rep.HarnessError("deep history %v: %s", names(hist), v)
						continue
					}
					rep.Violate(map[string]any{"kind": "capture-wrong", "seam": "B-deep", "last_letters": strings.Join(names(hist[len(hist)-2:]), ",")},
						map[string]any{"history": names(hist), "letters": hist}, "history %v: %s", names(hist), v)
					break
				}
			}
			k := hashOf(key)
			if _, ok := seen[k]; ok {
				continue
			}
			if _, ok := mineSeen[k]; ok {
				continue
			}
			mineSeen[k] = struct{}{}
			mineFound = append(mineFound, found{enc(hist), hex.EncodeToString(k[:])})
		}
		// a shard that has seen enough violations says so at the barrier, and every shard stops after this level:
		// leaving alone would keep the others waiting for it
		payload, _ := json.Marshal(struct {
			Found []found `json:"found"`
			Stop  bool    `json:"stop"`
		}{mineFound, rep.NumViolations() > 20})
		mineFound, mineSeen = nil, nil
		parts, err := ev.Exchange(name, shard, of, payload)
		if err != nil {
			rep.HarnessError("deep search: %v", err)
			return false
		}
		var merged []found
		stop := false
		for _, p := range parts {
			var part struct {
				Found []found `json:"found"`
				Stop  bool    `json:"stop"`
			}
			json.Unmarshal(p, &part)
			merged = append(merged, part.Found...)
			stop = stop || part.Stop
		}
		if stop {
			rep.NotExhaustive("deep search stopped at " + name + ": a shard has reported more than 20 violations")
			return false
		}
		// the same order in every shard: by history (the first history in this order represents its state)
		sort.Slice(merged, func(i, j int) bool { return merged[i].H < merged[j].H })
		frontier = frontier[:0]
		for _, f := range merged {
			var k hkey
			hex.Decode(k[:], []byte(f.K))
			if _, ok := seen[k]; !ok {
				seen[k] = struct{}{}
				frontier = append(frontier, f.H)
			}
		}
		return true
	}
	total := 1
	for i := 0; i < from; i++ {
		total *= nLetters
	}
	first := func(i int) []int {
		h := make([]int, from)
		for j := from - 1; j >= 0; j-- {
			h[j] = i % nLetters
			i /= nLetters
		}
		return h
	}
	if !level(fmt.Sprintf("L%d", from), total, first, false) {
		return
	}
	for depth := from + 1; depth <= to; depth++ {
		prev := append([]string(nil), frontier...)
		next := func(i int) []int { return append(dec(prev[i/nLetters]), i%nLetters) }
		if !level(fmt.Sprintf("L%d", depth), len(prev)*nLetters, next, true) {
			return
		}
		rep.SetMax("deep_search_depth", int64(depth))
	}
	rep.SetMax("deep_distinct_states", int64(len(seen)))
	if shard == 0 {
		rep.Add("states", int64(len(seen)))
	}
}

func seamA(rep *ev.Report, shard, of int) {
	sets := seqs([]metadata.Setting{{Id: 1, Val: 0}, {Id: 3, Val: 100}, {Id: 0x99, Val: 7}, {Id: 4, Val: 4294967295}}, 3)
	wus := []uint32{0, 1, 5, 9, 10, 99, 100, 15663105, 1<<31 - 1}
	prios := seqs([]metadata.Priority{{StreamId: 3, StreamDep: 0, Exclusive: false, Weight: 200}, {StreamId: 5, StreamDep: 3, Exclusive: true, Weight: 0}, {StreamId: 1<<31 - 1, StreamDep: 1<<31 - 1, Exclusive: true, Weight: 255}}, 4)
	hdrs := seqs([]string{":method", ":path", ":a", "x", ":", ""}, 4)
	limits := []uint{0, 1, 2, 3, 4, 5, 10000, math.MaxUint}
	k := 0
	eval := func(ss []metadata.Setting, wu uint32, ps []metadata.Priority, hs []string, lim uint) {
		k++
		if k%of != shard {
			return
		}
		f := &metadata.HTTP2FingerprintingFrames{Settings: ss, WindowUpdateIncrement: wu, Priorities: ps}
		for _, h := range hs {
			f.Headers = append(f.Headers, metadata.HeaderField{Name: h, Value: "v"})
		}
		ref := &h2fpref.State{WU: wu, HaveWU: wu != 0, Pseudo: hs}
		for _, s := range ss {
			ref.Settings = append(ref.Settings, h2fpref.Setting{ID: s.Id, Val: s.Val})
		}
		for _, p := range ps {
			ref.Priorities = append(ref.Priorities, h2fpref.Priority{Stream: p.StreamId, Dep: p.StreamDep, Excl: p.Exclusive, Weight: p.Weight})
		}
		mp := -1
		if lim < 1<<30 {
			mp = int(lim)
		}
		got := func() (g string) {
			defer func() {
				if r := recover(); r != nil {
					g = fmt.Sprintf("PANIC: %v", r)
				}
			}()
			return f.Marshal(lim)
		}()
		rep.Add("marshal_evaluations", 1)
		rep.Add("evaluations", 1)
		if !ref.Equal(got, mp) || strings.Count(got, "|") != 3 {
			part := "?"
			gp := strings.Split(got, "|")
			S, _, P, PS := ref.Parts(mp)
			if len(gp) == 4 {
				switch {
				case gp[0] != S:
					part = "S"
				case gp[2] != P:
					part = "P"
				case gp[3] != PS:
					part = "PS"
				default:
					part = "WU"
				}
			}
			rep.Violate(map[string]any{"kind": "marshal-wrong", "seam": "A", "part": part},
				map[string]any{"settings": ss, "wu": wu, "priorities": ps, "headers": hs, "limit": fmt.Sprint(lim)},
				"Marshal(%d) of settings=%v wu=%d priorities=%v headers=%q gives %q, reference %q", lim, ss, wu, ps, hs, got, ref.String(mp))
		}
	}
	for _, ss := range sets {
		for _, wu := range wus {
			for _, ps := range prios {
				for _, lim := range limits {
					eval(ss, wu, ps, []string{":method", ":path"}, lim)
				}
			}
		}
	}
	for _, hs := range hdrs {
		for _, ps := range prios[:40] {
			for _, lim := range limits[:4] {
				eval(sets[5], 15663105, ps, hs, lim)
			}
		}
	}
	// not HTTP/2: no fingerprint at all
	param := &fp.HTTP2FingerprintParam{MaxPriorityFrames: math.MaxUint}
	for _, proto := range []string{"", "http/1.1", "h2c", "H2"} {
		md := &metadata.Metadata{}
		md.ConnectionState.NegotiatedProtocol = proto
		md.HTTP2Frames.Settings = []metadata.Setting{{Id: 1, Val: 2}}
		if v, err := param.HTTP2Fingerprint(md); v != "" || err != nil {
			rep.Violate(map[string]any{"kind": "fingerprint-on-non-h2", "proto": proto}, map[string]any{"proto": proto}, "HTTP2Fingerprint on a %q connection returned %q, %v", proto, v, err)
		}
		rep.Add("evaluations", 1)
	}
}

// ---------------------------------------------------------------- seam C ----

func seamC(rep *ev.Report) {
	u := func(n uint) *uint { return &n }
	for _, lim := range []*uint{nil, u(0), u(1), u(3), u(5), u(6), u(10000)} {
		fingerproxy.VerifSetFlags(fingerproxy.VerifFlags{MaxPrio: lim, Flush: "100ms", Idle: "180s", Read: "60s", Write: "60s", TLSHandshake: "10s"})
		inj := fingerproxy.DefaultHeaderInjectors()
		ctx, md := metadata.NewContext(context.Background())
		md.ConnectionState.NegotiatedProtocol = "h2"
		ref := &h2fpref.State{}
		for i := 0; i < 5; i++ {
			p := metadata.Priority{StreamId: uint32(3 + 2*i), StreamDep: uint32(i), Weight: uint8(10 * i)}
			md.HTTP2Frames.Priorities = append(md.HTTP2Frames.Priorities, p)
			ref.OnPriority(h2fpref.Priority{Stream: p.StreamId, Dep: p.StreamDep, Weight: p.Weight})
		}
		req, _ := http.NewRequestWithContext(ctx, "GET", "https://x/", nil)
		var got string
		found := false
		for _, i := range inj {
			if i.GetHeaderName() == "X-HTTP2-Fingerprint" {
				got, _ = i.GetHeaderValue(req)
				found = true
			}
		}
		mp := -1
		ls := "unset"
		if lim != nil {
			mp = int(*lim)
			ls = fmt.Sprint(*lim)
		}
		rep.Add("evaluations", 1)
		rep.Note("distinct_nontrivial", "limit-wiring/"+ls)
		if !found || !ref.Equal(got, mp) {
			rep.Violate(map[string]any{"kind": "limit-wiring", "seam": "C", "limit": ls}, map[string]any{"limit": ls, "got": got, "want": ref.String(mp)},
				"-max-h2-priority-frames=%s: default injector gives %q for 5 priority frames, required %q", ls, got, ref.String(mp))
		}
	}
	fingerproxy.VerifSetFlags(fingerproxy.VerifFlags{})
}

func TestCheck(t *testing.T) {
	rep := ev.New("C03", "model_checking")
	defer rep.Write()
	shard, of := mc.ShardFromEnv()
	rep.Info["rule"] = "seam B: every history of the stated depth over 15 client-frame letters, replayed on a fresh real http2 serverConn with the real header injector (value must equal the reference fingerprint of the history at a point not earlier than the request's own HEADERS); seam A: Marshal on all constructed records (settings lists<=3 x 9 WU values x priority lists<=4 x 8 limits; header lists<=4 over 6 names); seam C: CLI limit wiring"
	rep.Assume("reference h2fpref and client h2wire are independent of pkg/http2 and pkg/metadata", "WINDOW_UPDATE part compared numerically ('5' and '05' both denote increment 5; '00' required when none)")
	seamA(rep, shard, of)
	if shard == 0 {
		seamC(rep)
	}
	seamB(t, rep, shard, of)
	seamSettings(t, rep, shard, of)
	if ev.Thorough() {
		seamBDeep(t, rep, shard, of, 3, 9)
	} else {
		seamBDeep(t, rep, shard, of, 2, 7)
	}
}
