//go:build verif

// C11 — every connection's resources are released; stalled and idle clients are cut.
package c11

import (
	"syscall"

	"context"
	"crypto/tls"
	"fmt"
	"net/http"
	"strings"
	"testing"
	"testing/synctest"
	"time"
	"verif/memnet"

	"github.com/wi1dcard/fingerproxy"
	"github.com/wi1dcard/fingerproxy/pkg/proxyserver"
	"verif/bubble"
	"verif/ev"
	"verif/faults"
	"verif/mc"
	"verif/ref/h2wire"
)

func baseOpts() bubble.StackOpts {
	return bubble.StackOpts{HandshakeTimeout: 10 * time.Second, Warm: true}
}

func diff(a, b []string) (extra []string) {
	cnt := map[string]int{}
	for _, x := range a {
		cnt[x]++
	}
	for _, x := range b {
		if cnt[x] > 0 {
			cnt[x]--
		} else {
			extra = append(extra, x)
		}
	}
	return
}

func TestCheck(t *testing.T) {
	rep := ev.New("C11", "fault_enumeration")
	defer rep.Write()
	shard, of := mc.ShardFromEnv()
	stride := 6
	if ev.Thorough() {
		stride = 1
	}
	rep.Info["offset_stride"] = stride
	rep.Assume("in-memory transport with a fake clock; injected error values stand for kernel behaviour", "goroutine census by stack inspection of the bubble")
	var cases []faults.Case
	for _, proto := range []string{"h1", "h2"} {
		nb, nops, hello, err := faults.Measure(t, proto, baseOpts())
		if err != nil {
			rep.HarnessError("measure %s: %v", proto, err)
			return
		}
		rep.Info["clean_"+proto+"_client_bytes"] = nb
		rep.Info["clean_"+proto+"_server_ops"] = nops
		for k := 0; k <= int(nb); k++ {
			if k%stride != 0 && k != int(nb) && !(k < 8) {
				continue
			}
			cases = append(cases, faults.Case{Kind: "abort-close", Proto: proto, K: k}, faults.Case{Kind: "abort-reset", Proto: proto, K: k})
		}
		for i := 0; i < nops+2; i++ {
			for ei, en := range faults.IOErrorNames {
				if !ev.Thorough() && (i+ei)%3 != 0 {
					continue
				}
				cases = append(cases, faults.Case{Kind: "iofault", Proto: proto, K: i, Err: en})
			}
		}
		if proto == "h2" {
			for k := 0; k < len(hello); k++ {
				if k%(stride*3) == 0 || k < 12 {
					cases = append(cases, faults.Case{Kind: "hello-mutation", Proto: "h2", K: k, Val: k % 3})
				}
				if k%(stride*2) == 0 || k < 8 {
					cases = append(cases, faults.Case{Kind: "hello-truncation", Proto: "h2", K: k})
				}
			}
			for k := 0; k < faults.H2Frames; k++ {
				for v := 0; v < faults.H2FieldVariants(); v++ {
					if !ev.Thorough() && (k+v)%2 != 0 {
						continue
					}
					cases = append(cases, faults.Case{Kind: "h2-mutation", Proto: "h2", K: k, Val: v})
				}
			}
			for k := 0; k < 6; k++ {
				cases = append(cases, faults.Case{Kind: "plain-http", K: k, Val: 0}, faults.Case{Kind: "plain-http", K: k, Val: 1})
			}
			for _, k := range []int{0, 3, 5, 100, -1} {
				cases = append(cases, faults.Case{Kind: "stall", Proto: "h1", K: k}, faults.Case{Kind: "stall", Proto: "h2", K: k})
			}
			for k := 0; k < 6; k++ {
				for _, n := range []int{300, 10050} {
					if !ev.Thorough() && n > 300 && k > 1 {
						continue
					}
					cases = append(cases, faults.Case{Kind: "h2-flood", Proto: "h2", K: k, Val: n})
				}
			}
			for _, k := range []int{0, 1, 10, 23, 24, 30} {
				cases = append(cases, faults.Case{Kind: "stall-after-handshake", Proto: "h2", K: k}, faults.Case{Kind: "stall-after-handshake", Proto: "h1", K: k})
			}
			for k := 0; k < 3; k++ {
				cases = append(cases, faults.Case{Kind: "h1-upgrade", Proto: "h1", K: k})
			}
			for k := range faults.H2RareNames {
				cases = append(cases, faults.Case{Kind: "h2-rare", Proto: "h2", K: k})
			}
			for _, proto := range []string{"h1", "h2"} {
				for _, k := range []int{0} { // no fake time may pass while the proxy is blocked writing: the ReverseProxy flush timer goroutine would then wait for a mutex held by the blocked writer, which testing/synctest never sees as durable (the clock stops)
					for v := 0; v < 3; v++ {
						cases = append(cases, faults.Case{Kind: "slow-reader", Proto: proto, K: k, Val: v})
					}
				}
			}
		}
		if shard == 0 {
			rep.Sample(map[string]any{"proto": proto, "clean_session_client_bytes": nb, "server_ops": nops})
		}
		_ = hello
		helloByProto[proto] = hello
	}
	for _, proto := range []string{"h1", "h2"} {
		for _, code := range []int{100, 101, 199, 200, 204, 304, 418, 599, 600, 799, 999} {
			cases = append(cases, faults.Case{Kind: "odd-backend", Proto: proto, K: code, Val: 0})
		}
		cases = append(cases, faults.Case{Kind: "odd-backend", Proto: proto, K: 200, Val: 1})
	}
	for _, k := range []int{1, 9, 20, 60} {
		cases = append(cases, faults.Case{Kind: "abort-many", Proto: "h2", K: k, Val: 0}, faults.Case{Kind: "abort-many", Proto: "h2", K: k, Val: 1})
	}
	// a backend slower than the proxy's own timeouts (server as the binary builds it: write/read 60 s, idle 180 s)
	for _, proto := range []string{"h1", "h2"} {
		for _, k := range []int{30, 61, 125, 200} {
			for v := 0; v < 3; v++ {
				cases = append(cases, faults.Case{Kind: "slow-backend", Proto: proto, K: k, Val: v})
			}
		}
	}
	rep.Info["cases_total"] = len(cases)
	for i, cs := range cases {
		if i%of != shard {
			continue
		}
		cs := cs
		opts := baseOpts()
		if cs.Kind == "slow-backend" {
			opts = binaryStack("10s", "180s")
		}
		res := faults.Run(t, cs, opts, helloByProto["h2"], func(env *faults.Env) {
			rep.Add("evaluations", 1)
			rep.Note("distinct_nontrivial", fmt.Sprintf("%s/%s/ops=%d/bytes=%d", cs.Kind, cs.Proto, env.Ops, env.Bytes))
			rep.Sample(map[string]any{"case": cs.String(), "server_io_ops_on_victim_conn": env.Ops, "victim_bytes_on_wire": env.Bytes})
			if env.Victim == nil || env.Victim.Srv == nil {
				rep.HarnessError("case %s: no victim connection", cs)
				return
			}
			if env.Victim.Srv.NumCloses() == 0 {
				rep.Violate(map[string]any{"kind": "conn-not-closed", "case_kind": cs.Kind, "proto": cs.Proto}, map[string]any{"case": cs},
					"case %s: the accepted connection was never closed by the proxy (after the client went away and 40 s of fake time); goroutines: %v", cs, diff(env.Baseline, bubble.SUT()))
			}
			if extra := diff(env.Baseline, bubble.SUT()); len(extra) > 0 {
				rep.Violate(map[string]any{"kind": "goroutine-leak", "case_kind": cs.Kind, "proto": cs.Proto, "where": extra[0]}, map[string]any{"case": cs, "extra": extra},
					"case %s: goroutines serving the connection did not end: %v", cs, extra)
			}
			// a client that sent something that is no TLS handshake and then stays connected, silent: it never completes a
			// handshake, so it is cut by the proxy itself (handshake timeout 10 s at the latest) - not only once it leaves
			if cs.Kind == "plain-http" && env.ClosesWhileClientStayed == 0 {
				rep.Violate(map[string]any{"kind": "stalled-client-not-cut", "case_kind": cs.Kind, "proto": cs.Proto}, map[string]any{"case": cs},
					"case %s: the client stayed connected and silent for 40 s of fake time without having completed a TLS handshake; the proxy had not closed the connection by then (it did once the client left)", cs)
			}
		})
		if res.Panic != nil {
			rep.HarnessError("case %s: panic %v\n%s", cs, res.Panic, res.Stack)
		}
		if res.Hang != "" {
			rep.Violate(map[string]any{"kind": "hang", "case_kind": cs.Kind, "proto": cs.Proto}, map[string]any{"case": cs}, "case %s: %s", cs, res.Hang)
		}
		if res.Deadlock != "" {
			rep.Violate(map[string]any{"kind": "blocked-forever", "case_kind": cs.Kind, "proto": cs.Proto}, map[string]any{"case": cs}, "case %s: goroutines blocked forever at the end of the execution: %s", cs, res.Deadlock)
		}
		if rep.NumViolations() > 30 {
			break
		}
	}
	if shard == 0%of {
		timeouts(t, rep)
	}
	if shard == 1%of {
		handoff(t, rep)
	}
	parallel(t, rep, shard, of)
}

// ---- (d) three connections in parallel, each aborted at its own point, interleaved ------------------

func parallel(t *testing.T, rep *ev.Report, shard, of int) {
	type pt struct {
		proto string
		k     int64
		reset bool
	}
	points := []pt{{"h1", 100, false}, {"h1", 600, true}, {"h1", 740, false}, {"h2", 300, true}, {"h2", 700, false}, {"h2", 815, true}}
	bound := 1
	if ev.Thorough() {
		bound = 2
	}
	job := 0
	for a := 0; a < len(points); a++ {
		for b := a; b < len(points); b++ {
			for c3 := b; c3 < len(points); c3++ {
				job++
				if job%of != shard || (!ev.Thorough() && job%4 != 0) {
					continue
				}
				trio := []pt{points[a], points[b], points[c3]}
				run := func(c *mc.Chooser) (out mc.Outcome) {
					res := bubble.Run(t, func() {
						st := bubble.NewStack(baseOpts())
						synctest.Wait()
						base := bubble.SUT()
						cls := make([]*bubble.Client, 3)
						var actors []*bubble.Actor
						for i, p := range trio {
							i, p := i, p
							h := faults.HelloH1
							if p.proto == "h2" {
								h = faults.HelloH2
							}
							h.Prep = func(cl, sv *memnet.Conn) {
								if p.reset {
									cl.CutAfter(p.k, func() { cl.Reset(syscall.ECONNRESET) })
								} else {
									cl.CutAfter(p.k, func() { cl.Close() })
								}
							}
							steps := []bubble.Step{{Name: "connect", Do: func() { cls[i] = st.Connect(fmt.Sprintf("p%d", i), nil, h) }}}
							if p.proto == "h1" {
								steps = append(steps,
									bubble.Step{Name: "request 1", Do: func() { cls[i].SendH1(bubble.Req{Path: "/a", Host: "localhost", Lines: [][2]string{{"X-A", "1"}}}) }},
									bubble.Step{Name: "request 2", Do: func() {
										cls[i].SendH1(bubble.Req{Method: "POST", Path: "/b", Host: "localhost", Body: []byte("0123456789abcdef")})
									}})
							} else {
								steps = append(steps,
									bubble.Step{Name: "preface", Do: func() { cls[i].StartH2(h2wire.Setting{ID: 3, Val: 100}); cls[i].Write(h2wire.WindowUpdate(0, 1000)) }},
									bubble.Step{Name: "request 1", Do: func() { cls[i].SendH2(1, bubble.Req{Path: "/a", Host: "localhost"}) }},
									bubble.Step{Name: "request 2", Do: func() {
										cls[i].SendH2(3, bubble.Req{Method: "POST", Path: "/b", Host: "localhost", Body: []byte("0123456789abcdef")})
									}})
							}
							steps = append(steps, bubble.Step{Name: "abort (if the cut-off was not reached)", Do: func() { cls[i].Abort(nil) }})
							actors = append(actors, &bubble.Actor{Name: fmt.Sprintf("p%d", i), Steps: steps})
						}
						bubble.ScheduleStrict(c, nil, actors, nil)
						synctest.Wait()
						time.Sleep(40 * time.Second)
						synctest.Wait()
						open := 0
						for _, cl := range cls {
							if cl != nil && cl.Srv != nil && cl.Srv.NumCloses() == 0 {
								open++
							}
						}
						extra := diff(base, bubble.SUT())
						out.Obs = fmt.Sprintf("open=%d leftover=%d", open, len(extra))
						if open > 0 || len(extra) > 0 {
							out.Violations = append(out.Violations, fmt.Sprintf("3 parallel connections aborted at %v: %d accepted connection(s) never closed, goroutines left %v (schedule %v)", trio, open, extra, c.Trace()))
							out.Sigs = append(out.Sigs, "parallel-abort-leak")
						}
						st.Shutdown()
					})
					if res.Panic != nil {
						if he, ok := res.Panic.(mc.HarnessError); ok {
							panic(he)
						}
						out.Violations = append(out.Violations, fmt.Sprintf("panic %v %s", res.Panic, res.Stack))
						out.Sigs = append(out.Sigs, "panic")
					}
					return out
				}
				e := &mc.Explorer{Bound: bound, Deadline: time.Now().Add(120 * time.Second)}
				func() {
					defer func() {
						if r := recover(); r != nil {
							if he, ok := r.(mc.HarnessError); ok {
								rep.HarnessError("parallel: %v", he)
								return
							}
							panic(r)
						}
					}()
					e.Explore(run)
				}()
				rep.Add("parallel_schedules", int64(e.Schedules))
				rep.Add("evaluations", int64(e.Schedules))
				rep.Note("distinct_nontrivial", fmt.Sprintf("parallel/%v", trio))
				if e.Capped {
					rep.NotExhaustive("parallel exploration time budget")
				}
				for _, d := range e.Diverged {
					rep.HarnessError("parallel: nondeterministic: %s", d)
				}
				for _, f := range e.Found {
					okN := 0
					for i := 0; i < 5; i++ {
						if o, _ := mc.Replay(f.Choices, run); len(o.Violations) > 0 {
							okN++
						}
					}
					if okN != 5 {
						rep.HarnessError("parallel violation did not reproduce 5/5: %s", f.What)
						continue
					}
					rep.Violate(map[string]any{"kind": f.Sig}, map[string]any{"trio": fmt.Sprint(trio), "choices": f.Choices, "schedule": f.Trace}, "%s", f.What)
				}
			}
		}
	}
}

var helloByProto = map[string][]byte{}

// ---- (b) handshake and idle timeouts, server built by the binary's own constructor -----------------

func binaryStack(hs, idle string) bubble.StackOpts { return binaryStackR(hs, idle, "60s") }

func binaryStackR(hs, idle, read string) bubble.StackOpts {
	return binaryStackRW(hs, idle, read, "60s")
}

func binaryStackRW(hs, idle, read, write string) bubble.StackOpts {
	fingerproxy.VerifSetFlags(fingerproxy.VerifFlags{Probe: true, Flush: "100ms", Idle: idle, Read: read, Write: write, TLSHandshake: hs})
	return bubble.StackOpts{Warm: true, Build: func(ctx context.Context, h http.Handler, tc *tls.Config) *proxyserver.Server {
		return fingerproxy.VerifDefaultProxyServer(ctx, h, tc)
	}}
}

func timeouts(t *testing.T, rep *ev.Report) {
	// handshake timeout
	// (the other timeout flags of the binary in every on/off combination: the handshake timeout is its own flag)
	for _, rw := range [][2]string{{"60s", "60s"}, {"0s", "60s"}, {"60s", "0s"}, {"0s", "0s"}} {
		for _, T := range []time.Duration{time.Second, 10 * time.Second} {
			for _, stall := range []struct {
				name string
				k    int
				raw  bool
			}{{"no-bytes", 0, false}, {"3-bytes", 3, false}, {"header-only", 5, false}, {"mid-hello", 100, false}, {"hello-no-finished", -1, true}, {"hello-then-never-reads", -2, true}} {
				rw := rw
				desc := fmt.Sprintf("handshake-timeout T=%v stall=%s (-timeout-http-read %s -timeout-http-write %s)", T, stall.name, rw[0], rw[1])
				res := bubble.Run(t, func() {
					st := bubble.NewStack(binaryStackRW(T.String(), "180s", rw[0], rw[1]))
					defer st.Shutdown()
					var cl *bubble.Client
					if stall.raw {
						cl = st.DialRaw("staller", nil)
						if stall.k == -2 {
							// the client does not read either and its receive buffer is tiny: the proxy blocks WRITING its handshake flight
							cl.Srv.SetWriteCap(64)
						}
						cl.Raw.Write(helloByProto["h2"]) // complete ClientHello, then silence: the server answers and waits for Finished
					} else {
						h := faults.HelloH2
						h.Manual = true
						cl = st.Connect("staller", nil, h)
						synctest.Wait()
						cl.Raw.Deliver(stall.k)
					}
					synctest.Wait()
					rep.Add("evaluations", 1)
					rep.Note("distinct_nontrivial", desc)
					time.Sleep(T + time.Second)
					synctest.Wait()
					if cl.Srv.NumCloses() == 0 {
						rep.Violate(map[string]any{"kind": "handshake-timeout-not-enforced", "stall": stall.name}, map[string]any{"T": T.String(), "stall": stall.name},
							"%s: the stalled client was not disconnected %v after connecting", desc, T+time.Second)
					}
					if c := st.Counter(); c["0/"] != 1 {
						rep.Violate(map[string]any{"kind": "handshake-timeout-not-counted"}, map[string]any{"T": T.String(), "stall": stall.name, "counter": fmt.Sprint(c)}, "%s: requests_total %v", desc, c)
					}
				})
				if res.Panic != nil {
					rep.HarnessError("%s: panic %v\n%s", desc, res.Panic, res.Stack)
				}
			}
		}
	}
	// idle timeout
	for _, I := range []time.Duration{30 * time.Second, 180 * time.Second, -45 * time.Second} {
		// a negative value encodes "-timeout-http-idle 0s with -timeout-http-read 45s": per net/http (which the flag documentation
		// refers to) the read timeout then is the idle timeout - for HTTP/1.1 clients just as for HTTP/2 clients
		// what the client did before it fell silent. HTTP/1.1: one or two exchanges. HTTP/2: every history of up to three
		// letters over S (request served), C (request cancelled by RST_STREAM while in flight), T (upload ending in a trailer
		// section, served), P (request refused with a stream error: self-dependent priority), W (WINDOW_UPDATE and PRIORITY
		// frames), and - ending the history -
		// G (client GOAWAY on an idle connection), X (client GOAWAY while a request is in flight, then RST_STREAM of it),
		// R (client GOAWAY while a request is in flight, which is then answered)
		type hist struct {
			proto   string
			letters string
		}
		hists := []hist{{"h1", "S"}, {"h1", "SS"}}
		var gen func(cur string)
		gen = func(cur string) {
			if cur != "" {
				hists = append(hists, hist{"h2", cur})
			}
			if len(cur) == 3 || strings.ContainsAny(cur, "GXR") {
				return
			}
			for _, l := range "SCTPWUGXR" {
				gen(cur + string(l))
			}
		}
		gen("")
		for _, hi := range hists {
			{
				proto, letters := hi.proto, hi.letters
				desc := fmt.Sprintf("idle-timeout I=%v proto=%s after client history %s (S served, C cancelled by RST_STREAM in flight, T upload with trailers served, U upload answered before its END_STREAM which never comes, P request refused for a self-dependent priority, W WINDOW_UPDATE+PRIORITY, G client GOAWAY when idle, X GOAWAY then RST_STREAM of the request in flight, R GOAWAY then the request in flight is answered)", I, proto, letters)
				I := I
				opts := func() bubble.StackOpts { return binaryStack("10s", I.String()) }
				if I < 0 {
					I = -I
					rt := I.String()
					opts = func() bubble.StackOpts { return binaryStackR("10s", "0s", rt) }
					desc = strings.Replace(desc, "I=-", "I=", 1) + " (idle flag 0s, read timeout " + rt + ")"
				}
				res := bubble.Run(t, func() {
					st := bubble.NewStack(opts())
					defer st.Shutdown()
					h := faults.HelloH1
					if proto == "h2" {
						h = faults.HelloH2
					}
					cl := st.Connect("idler", nil, h)
					synctest.Wait()
					if proto == "h2" {
						cl.StartH2()
						synctest.Wait()
						cl.Write(h2wire.SettingsAck())
					}
					st.Backend.Early = func(r *http.Request) bool { return strings.HasPrefix(r.URL.Path, "/early") }
					release := make(chan struct{})
					st.Backend.Hold = func(r *bubble.RecReq) {
						if strings.HasPrefix(r.Path, "/held") {
							<-release
						}
					}
					want := 0
					for i, l := range letters {
						id := uint32(1 + 2*i)
						switch {
						case proto == "h1":
							cl.SendH1(bubble.Req{Path: fmt.Sprintf("/i%d", i), Host: "localhost"})
							want++
						case l == 'S':
							cl.SendH2(id, bubble.Req{Path: fmt.Sprintf("/i%d", i), Host: "localhost"})
							want++
						case l == 'G':
							cl.Write(h2wire.GoAway(0, 0, nil))
						case l == 'T':
							// an upload that ends with a trailer section (HEADERS, DATA, HEADERS with END_STREAM), served
							path := fmt.Sprintf("/i%d", i)
							cl.Write(h2wire.Headers(id, cl.Enc.Block(h2wire.HF{Name: ":method", Value: "POST"}, h2wire.HF{Name: ":scheme", Value: "https"},
								h2wire.HF{Name: ":authority", Value: "localhost"}, h2wire.HF{Name: ":path", Value: path}, h2wire.HF{Name: "trailer", Value: "x-sum"}), false, true, nil, -1))
							cl.Write(h2wire.Data(id, []byte("payload"), false, -1))
							cl.Write(h2wire.Headers(id, cl.Enc.Block(h2wire.HF{Name: "x-sum", Value: "1"}), true, true, nil, -1))
							want++
						case l == 'P':
							// a request the server must refuse: its priority field names the stream itself (stream error
							// PROTOCOL_ERROR, RFC 7540 5.3.1); no handler runs, the connection goes on
							cl.Write(h2wire.Headers(id, cl.Enc.Block(h2wire.HF{Name: ":method", Value: "GET"}, h2wire.HF{Name: ":scheme", Value: "https"},
								h2wire.HF{Name: ":authority", Value: "localhost"}, h2wire.HF{Name: ":path", Value: fmt.Sprintf("/i%d", i)}), true, true, &h2wire.Prio{Dep: id, Weight: 10}, -1))
						case l == 'U':
							// an upload whose declared length has arrived in full but whose END_STREAM has not, answered by the
							// backend without waiting (401): the exchange is over for the server; the client never ends the stream
							cl.Write(h2wire.Headers(id, cl.Enc.Block(h2wire.HF{Name: ":method", Value: "POST"}, h2wire.HF{Name: ":scheme", Value: "https"},
								h2wire.HF{Name: ":authority", Value: "localhost"}, h2wire.HF{Name: ":path", Value: fmt.Sprintf("/early%d", i)}, h2wire.HF{Name: "content-length", Value: "7"}), false, true, nil, -1))
							cl.Write(h2wire.Data(id, []byte("payload"), false, -1))
							want++
						case l == 'W':
							// frames that only concern the connection: flow-control credit and a priority hint
							cl.Write(h2wire.WindowUpdate(0, 1000))
							cl.Write(h2wire.Priority(id+100, h2wire.Prio{Dep: 0, Weight: 7}))
						default: // C X R: a request in flight
							cl.SendH2(id, bubble.Req{Path: fmt.Sprintf("/held%d", i), Host: "localhost"})
							want++
							synctest.Wait()
							if l == 'X' || l == 'R' {
								cl.Write(h2wire.GoAway(0, 0, nil))
								synctest.Wait()
							}
							if l == 'C' || l == 'X' {
								cl.Write(h2wire.RST(id, 8)) // CANCEL
								synctest.Wait()
							}
							close(release)
							release = make(chan struct{})
							rel := release
							st.Backend.Hold = func(r *bubble.RecReq) {
								if strings.HasPrefix(r.Path, "/held") {
									<-rel
								}
							}
						}
						synctest.Wait()
						time.Sleep(time.Second)
						synctest.Wait()
					}
					if st.Backend.Count() != want {
						rep.HarnessError("%s: backend saw %d requests, expected %d", desc, st.Backend.Count(), want)
						return
					}
					rep.Add("evaluations", 1)
					rep.Note("distinct_nontrivial", desc)
					if cl.Srv.NumCloses() != 0 && !strings.ContainsAny(letters, "GXR") {
						rep.HarnessError("%s: connection closed right after the request", desc)
						return
					}
					time.Sleep(I + 3*time.Second) // h2: GOAWAY at I, close within the 1 s GOAWAY timer
					synctest.Wait()
					if cl.Srv.NumCloses() == 0 {
						rep.Violate(map[string]any{"kind": "idle-timeout-not-enforced", "proto": proto}, map[string]any{"I": I.String(), "proto": proto, "history": letters},
							"%s: the idle connection is still open %v after its last activity (configured idle timeout %v)", desc, I+4*time.Second, I)
					}
				})
				if res.Panic != nil {
					rep.HarnessError("%s: panic %v\n%s", desc, res.Panic, res.Stack)
				}
			}
		}
	}
}

// ---- (c) the h1 hand-off window: cancel / disconnect / release in every order -----------------------

func handoff(t *testing.T, rep *ev.Report) {
	run := func(c *mc.Chooser) (out mc.Outcome) {
		res := bubble.Run(t, func() {
			// the stack (with its warm-up connections) first, the gates afterwards: warm-up connections must not park
			st := bubble.NewStack(baseOpts())
			synctest.Wait()
			gates := bubble.NewGates("proxyserver.serveConn.handshook", "proxyserver.serveConn.beforeSend", "proxyserver.serveConn.served")
			defer gates.Uninstall()
			base := bubble.SUT()
			var cl *bubble.Client
			actors := []*bubble.Actor{
				{Name: "c", Steps: []bubble.Step{
					{Name: "connect h1", Do: func() { cl = st.Connect("c", nil, faults.HelloH1) }},
					{Name: "request", Do: func() { cl.SendH1(bubble.Req{Path: "/x", Host: "localhost"}) }},
					{Name: "disconnect", Do: func() { cl.Close() }},
				}},
				{Name: "cancel", Steps: []bubble.Step{{Name: "cancel", Do: func() { st.Cancel() }}}},
			}
			named := false
			bubble.Schedule(c, gates, actors, func() bool {
				if !named && cl != nil && cl.Srv != nil {
					gates.NameKey(cl.Srv, "c")
					named = true
				}
				gates.Rename()
				return true
			})
			gates.Open()
			synctest.Wait()
			st.Cancel()
			time.Sleep(60 * time.Second)
			synctest.Wait()
			closed := cl == nil || cl.Srv == nil || cl.Srv.NumCloses() > 0 // (no accepted connection at all: nothing to close)
			extra := diff(nil, bubble.SUT())
			_ = base
			out.Obs = fmt.Sprintf("closed=%v leftover=%d", closed, len(extra))
			if !closed {
				out.Violations = append(out.Violations, fmt.Sprintf("hand-off window: the accepted connection was never closed (schedule %v); goroutines left: %v", c.Trace(), extra))
				out.Sigs = append(out.Sigs, "handoff-leak")
			} else if len(extra) > 0 {
				out.Violations = append(out.Violations, fmt.Sprintf("hand-off window: goroutines left after client disconnect and server shutdown (schedule %v): %v", c.Trace(), extra))
				out.Sigs = append(out.Sigs, "handoff-leak")
			}
			<-st.ServeDone
		})
		if res.Panic != nil {
			if he, ok := res.Panic.(mc.HarnessError); ok {
				panic(he)
			}
			out.Violations = append(out.Violations, fmt.Sprintf("panic %v %s", res.Panic, res.Stack))
			out.Sigs = append(out.Sigs, "panic")
		}
		if res.Deadlock != "" && len(out.Violations) == 0 {
			out.Violations = append(out.Violations, "hand-off window: goroutines blocked forever: "+res.Deadlock)
			out.Sigs = append(out.Sigs, "handoff-leak")
		}
		return out
	}
	e := &mc.Explorer{Bound: 4, Deadline: time.Now().Add(60 * time.Second)}
	func() {
		defer func() {
			if r := recover(); r != nil {
				if he, ok := r.(mc.HarnessError); ok {
					rep.HarnessError("handoff: %v", he)
					return
				}
				panic(r)
			}
		}()
		e.Explore(run)
	}()
	rep.Add("handoff_schedules", int64(e.Schedules))
	rep.Add("evaluations", int64(e.Schedules))
	for k := range e.Outcomes {
		rep.Note("distinct_nontrivial", "handoff:"+k)
	}
	if e.Capped {
		rep.NotExhaustive("handoff exploration time budget")
	}
	for _, d := range e.Diverged {
		rep.HarnessError("handoff: nondeterministic: %s", d)
	}
	for _, f := range e.Found {
		okN := 0
		for i := 0; i < 5; i++ {
			if o, _ := mc.Replay(f.Choices, run); len(o.Violations) > 0 {
				okN++
			}
		}
		if okN != 5 {
			rep.HarnessError("handoff violation did not reproduce 5/5: %s", f.What)
			continue
		}
		rep.Violate(map[string]any{"kind": f.Sig}, map[string]any{"choices": f.Choices, "schedule": f.Trace}, "%s", f.What)
	}
	if len(e.SampleRuns) > 0 {
		rep.Sample(map[string]any{"handoff_schedule": e.SampleRuns[len(e.SampleRuns)-1]})
	}
	_ = strings.Join
}
