//go:build verif

package c08

// Group Y of C08: exchanges during which the client withholds something the proxy needs in order to write -
// stream-level flow-control window (Y1) or reading from its socket at all (Y2). Whatever the client withholds from
// one stream or for a while, the other exchanges on the connection, and this one once the client relents, still
// carry exactly what the backend sent.

import (
	"bytes"
	"fmt"
	"io"
	"net/http"
	"strings"
	"sync"
	"testing"
	"testing/synctest"

	"verif/bubble"
	"verif/ev"
	"verif/ref/h2wire"
)

func groupY(t *testing.T, rep *ev.Report) []func() {
	var jobs []func()
	// Y1: one response stalled on its stream window (the connection window is open) while others are requested
	for _, iws := range []uint32{0, 1, 100, 16384} {
		for _, others := range []int{1, 2} {
			for _, nB := range []int{0, 1, 20000} {
				iws, others, nB := iws, others, nB
				jobs = append(jobs, func() { stalledSibling(t, rep, iws, others, nB) })
			}
		}
	}
	// Y2: the client does not read while a request with "Expect: 100-continue" is answered; the backend side reads
	// the request body before / after it has answered / never
	for _, when := range []string{"before", "after", "never"} {
		for _, blocked := range []bool{false, true} {
			for _, status := range []int{200, 403} {
				for _, streaming := range []bool{false, true} {
					when, blocked, status, streaming := when, blocked, status, streaming
					jobs = append(jobs, func() { expectContinue(t, rep, when, blocked, status, streaming) })
				}
			}
		}
	}
	// Y3: the client announces GOAWAY(NO_ERROR) - it will open no more streams - while requests are held at the backend
	for _, last := range []uint32{0, 1, 3, 1<<31 - 1} {
		for _, n := range []int{1, 2} {
			last, n := last, n
			jobs = append(jobs, func() { clientGoAway(t, rep, last, n) })
		}
	}
	// Y4: the client shrinks SETTINGS_INITIAL_WINDOW_SIZE in the middle of a response (the stream's send window goes
	// negative, RFC 7540 6.9.2), then returns credit in steps smaller / larger than the deficit, by WINDOW_UPDATE or by
	// raising the setting again: the response arrives complete all the same
	for _, first := range []uint32{1000, 16384} {
		for _, shrinkTo := range []uint32{0, 1, 500} {
			for _, how := range []string{"wu-small-then-large", "settings-small-then-large", "wu-exact", "settings-back"} {
				first, shrinkTo, how := first, shrinkTo, how
				jobs = append(jobs, func() { negativeWindow(t, rep, first, shrinkTo, how) })
			}
		}
	}
	// Z: the backend dies in the middle of a response body (with and without a declared length): the client must not be
	// shown a complete response
	for _, proto := range []string{"h1", "h2"} {
		for _, declared := range []bool{false, true} {
			for _, after := range []int{1, 3} {
				proto, declared, after := proto, declared, after
				jobs = append(jobs, func() { backendDies(t, rep, proto, declared, after) })
			}
		}
	}
	return jobs
}

func clientGoAway(t *testing.T, rep *ev.Report, last uint32, n int) {
	desc := fmt.Sprintf("Y3 %d request(s) held at the backend, then the client sends GOAWAY(last-stream-id=%d, NO_ERROR) and a PING, then the backend answers", n, last)
	res := bubble.Run(t, func() {
		var mu sync.Mutex
		held := []chan struct{}{}
		e := newEnv(rep, false, func(r *bubble.RecReq) *bubble.RespScript {
			return &bubble.RespScript{Status: 200, Header: http.Header{"Content-Type": {"application/x-c08"}}, Pieces: [][]byte{[]byte("answer:" + r.Path)}}
		})
		if e == nil {
			return
		}
		defer e.close()
		e.be.Hold = func(r *bubble.RecReq) {
			ch := make(chan struct{})
			mu.Lock()
			held = append(held, ch)
			mu.Unlock()
			<-ch
		}
		for i := 0; i < n; i++ {
			e.h2.Headers(uint32(1+2*i), get(fmt.Sprintf("/g%d", i)), true)
			synctest.Wait()
		}
		mu.Lock()
		nh := len(held)
		mu.Unlock()
		if nh != n {
			rep.HarnessError("%s: %d requests reached the backend", desc, nh)
			return
		}
		e.h2.C.Write(h2wire.GoAway(last, 0, nil))
		e.h2.C.Write(h2wire.Ping(false, [8]byte{7}))
		synctest.Wait()
		mu.Lock()
		for _, ch := range held {
			close(ch)
		}
		mu.Unlock()
		synctest.Wait()
		e.h2.Pump()
		rep.Add("evaluations", 1)
		rep.Note("distinct_nontrivial", desc)
		for i := 0; i < n; i++ {
			id := uint32(1 + 2*i)
			r := e.h2.Col.Resps[id]
			want := fmt.Sprintf("answer:/g%d", i)
			if r == nil || !r.Ended || r.Status != "200" || string(r.Body) != want {
				rep.Violate(map[string]any{"kind": "request-in-flight-lost-after-client-goaway", "proto": "h2"}, map[string]any{"desc": desc, "stream": id},
					"%s: stream %d: client got %s, the backend answered 200 %q", desc, id, summarize(r), want)
			}
		}
	})
	if res.Panic != nil {
		rep.HarnessError("%s: panic: %v\n%s", desc, res.Panic, res.Stack)
	}
	if res.Hang != "" {
		rep.Violate(map[string]any{"kind": "hang"}, map[string]any{"hang": res.Hang}, "%s: the exchange never completed: %s", desc, res.Hang)
	}
}

func backendDies(t *testing.T, rep *ev.Report, proto string, declared bool, after int) {
	desc := fmt.Sprintf("Z %s: the backend sends %d of 6 body pieces (declared length: %v) and dies", proto, after, declared)
	res := bubble.Run(t, func() {
		pieces := make([][]byte, 6)
		total := 0
		for i := range pieces {
			pieces[i] = pat(3000, byte(i+1))
			total += 3000
		}
		e := newEnv(rep, false, func(r *bubble.RecReq) *bubble.RespScript {
			if r.Path != "/dies" {
				return nil
			}
			h := http.Header{"Content-Type": {"application/x-c08"}}
			if declared {
				h.Set("Content-Length", fmt.Sprint(total))
			}
			return &bubble.RespScript{Status: 200, Header: h, Pieces: pieces, AbortAfter: after}
		})
		if e == nil {
			return
		}
		defer e.close()
		rep.Add("evaluations", 1)
		rep.Note("distinct_nontrivial", desc)
		complete := false
		got := 0
		if proto == "h2" {
			e.h2.Headers(1, get("/dies"), true)
			synctest.Wait()
			e.h2.Pump()
			if r := e.h2.Col.Resps[1]; r != nil {
				got = len(r.Body)
				complete = r.Ended && r.RST == nil
			}
		} else {
			e.h1.SendH1(bubble.Req{Path: "/dies", Host: "localhost"})
			synctest.Wait()
			rs := e.h1.TakeH1Responses("GET")
			if len(rs) == 1 {
				got = len(rs[0].Body)
				complete = true // the response parsed as complete: final chunk or the full declared length arrived
			}
		}
		if complete && got < total {
			rep.Violate(map[string]any{"kind": "truncated-response-shown-complete", "proto": proto, "declared": declared}, map[string]any{"desc": desc, "got": got},
				"%s: the client was shown a complete response of %d body bytes; the backend's response had %d and was cut off (the end of the stream must not look regular)", desc, got, total)
		}
		// the connection (h2) still works for the next request
		if proto == "h2" {
			e.h2.Headers(3, get("/after"), true)
			synctest.Wait()
			e.h2.Pump()
			if r := e.h2.Col.Resps[3]; r == nil || !r.Ended || r.Status != "200" || string(r.Body) != "backend:/after" {
				rep.Violate(map[string]any{"kind": "connection-broken-after-backend-died", "proto": proto}, map[string]any{"desc": desc},
					"%s: the next request on the same client connection got %s", desc, summarize(r))
			}
		}
	})
	if res.Panic != nil {
		rep.HarnessError("%s: panic: %v\n%s", desc, res.Panic, res.Stack)
	}
	if res.Hang != "" {
		rep.Violate(map[string]any{"kind": "hang"}, map[string]any{"hang": res.Hang}, "%s: the exchange never completed: %s", desc, res.Hang)
	}
}

func get(path string) []h2wire.HF {
	return []h2wire.HF{{Name: ":method", Value: "GET"}, {Name: ":scheme", Value: "https"}, {Name: ":authority", Value: "localhost"}, {Name: ":path", Value: path}}
}

func stalledSibling(t *testing.T, rep *ev.Report, iws uint32, others, nB int) {
	desc := fmt.Sprintf("Y1 client SETTINGS_INITIAL_WINDOW_SIZE=%d: response of stream 1 (20000 bytes) stalled on its stream window, then %d more request(s) with %d-byte responses", iws, others, nB)
	res := bubble.Run(t, func() {
		clientSettings = []h2wire.Setting{{ID: 4, Val: iws}}
		defer func() { clientSettings = nil }()
		bodyA := pat(20000, 7)
		e := newEnv(rep, false, func(r *bubble.RecReq) *bubble.RespScript {
			// With a declared length: for a response of unknown length httputil.ReverseProxy starts a flush goroutine at
			// once, which then waits for the mutex of the writer that is blocked on flow control - harmless, but a wait
			// testing/synctest does not treat as durable (the execution could not be observed any further).
			if r.Path == "/a" {
				return &bubble.RespScript{Status: 200, Header: http.Header{"Content-Type": {"application/x-c08"}, "Content-Length": {fmt.Sprint(len(bodyA))}}, Pieces: [][]byte{bodyA}}
			}
			return &bubble.RespScript{Status: 200, Header: http.Header{"Content-Type": {"application/x-c08"}, "Content-Length": {fmt.Sprint(nB)}}, Pieces: [][]byte{pat(nB, byte(len(r.Path)))}}
		})
		if e == nil {
			return
		}
		defer e.close()
		e.h2.Headers(1, get("/a"), true)
		synctest.Wait()
		e.h2.Pump()
		if r := e.h2.Col.Resps[1]; r != nil && r.Ended {
			rep.HarnessError("%s: stream 1 was not stalled", desc)
			return
		}
		rep.Add("evaluations", 1)
		rep.Note("distinct_nontrivial", desc)
		for i := 0; i < others; i++ {
			id := uint32(3 + 2*i)
			path := "/b" + strings.Repeat("x", i)
			e.h2.Headers(id, get(path), true)
			synctest.Wait()
			e.h2.C.Write(h2wire.WindowUpdate(id, 1<<20)) // room for this stream only
			synctest.Wait()
			e.h2.Pump()
			r := e.h2.Col.Resps[id]
			want := pat(nB, byte(len(path)))
			if r == nil || !r.Ended || r.Status != "200" || !bytes.Equal(r.Body, want) {
				rep.Violate(map[string]any{"kind": "sibling-held-back", "proto": "h2", "iws": iws, "others": others, "size": nB, "stream": id}, map[string]any{"desc": desc, "stream": id},
					"%s: stream %d has window and the connection window is open, but its response did not arrive while stream 1 waits for window: %s (backend sent 200 with %d bytes; backend saw %d requests; goaway=%v; stream 1: %s)", desc, id, summarize(r), len(want), e.be.Count(), e.h2.Col.GoAway != nil, summarize(e.h2.Col.Resps[1]))
				return
			}
		}
		e.h2.C.Write(h2wire.WindowUpdate(1, 1<<20))
		synctest.Wait()
		e.h2.Pump()
		if r := e.h2.Col.Resps[1]; r == nil || !r.Ended || r.Status != "200" || !bytes.Equal(r.Body, bodyA) {
			rep.Violate(map[string]any{"kind": "stalled-response-damaged", "proto": "h2"}, map[string]any{"desc": desc},
				"%s: after the client opened the window of stream 1 its response is %s, the backend sent 200 with %d bytes", desc, summarize(r), len(bodyA))
		}
	})
	if res.Panic != nil {
		rep.HarnessError("%s: panic: %v\n%s", desc, res.Panic, res.Stack)
	}
	if res.Hang != "" {
		rep.Violate(map[string]any{"kind": "hang"}, map[string]any{"hang": res.Hang}, "%s: the exchange never completed: %s", desc, res.Hang)
	}
}

func negativeWindow(t *testing.T, rep *ev.Report, first, shrinkTo uint32, how string) {
	desc := fmt.Sprintf("Y4 client SETTINGS_INITIAL_WINDOW_SIZE=%d, after %d response bytes lowered to %d (stream window negative), credit returned by %s", first, first, shrinkTo, how)
	res := bubble.Run(t, func() {
		clientSettings = []h2wire.Setting{{ID: 4, Val: first}}
		defer func() { clientSettings = nil }()
		body := pat(40000, 9)
		e := newEnv(rep, false, func(r *bubble.RecReq) *bubble.RespScript {
			return &bubble.RespScript{Status: 200, Header: http.Header{"Content-Type": {"application/x-c08"}, "Content-Length": {fmt.Sprint(len(body))}}, Pieces: [][]byte{body}}
		})
		if e == nil {
			return
		}
		defer e.close()
		e.h2.Headers(1, get("/a"), true)
		synctest.Wait()
		e.h2.Pump()
		if r := e.h2.Col.Resps[1]; r == nil || r.Ended || uint32(len(r.Body)) != first {
			rep.HarnessError("%s: stream 1 did not stall after %d bytes: %s", desc, first, summarize(r))
			return
		}
		rep.Add("evaluations", 1)
		rep.Note("distinct_nontrivial", desc)
		deficit := first - shrinkTo // the window is now -(first - shrinkTo)
		e.h2.C.Write(h2wire.Settings(h2wire.Setting{ID: 4, Val: shrinkTo}))
		synctest.Wait()
		small := deficit / 2
		if small == 0 {
			small = 1
		}
		switch how {
		case "wu-small-then-large":
			e.h2.C.Write(h2wire.WindowUpdate(1, small)) // still negative (or zero)
			synctest.Wait()
			e.h2.C.Write(h2wire.WindowUpdate(1, 1<<20))
		case "settings-small-then-large":
			e.h2.C.Write(h2wire.Settings(h2wire.Setting{ID: 4, Val: shrinkTo + small}))
			synctest.Wait()
			e.h2.C.Write(h2wire.Settings(h2wire.Setting{ID: 4, Val: 1 << 20}))
		case "wu-exact":
			e.h2.C.Write(h2wire.WindowUpdate(1, deficit)) // exactly zero
			synctest.Wait()
			e.h2.C.Write(h2wire.WindowUpdate(1, 1<<20))
		case "settings-back":
			e.h2.C.Write(h2wire.Settings(h2wire.Setting{ID: 4, Val: first})) // exactly zero again
			synctest.Wait()
			e.h2.C.Write(h2wire.Settings(h2wire.Setting{ID: 4, Val: 1 << 20}))
		}
		synctest.Wait()
		e.h2.Pump()
		if r := e.h2.Col.Resps[1]; r == nil || !r.Ended || r.Status != "200" || !bytes.Equal(r.Body, body) {
			rep.Violate(map[string]any{"kind": "response-damaged-after-negative-window", "proto": "h2", "how": how}, map[string]any{"desc": desc},
				"%s: the client got %s (goaway=%v), the backend sent 200 with %d bytes", desc, summarize(r), e.h2.Col.GoAway != nil, len(body))
		}
	})
	if res.Panic != nil {
		rep.HarnessError("%s: panic: %v\n%s", desc, res.Panic, res.Stack)
	}
	if res.Hang != "" {
		rep.Violate(map[string]any{"kind": "hang"}, map[string]any{"hang": res.Hang}, "%s: the exchange never completed: %s", desc, res.Hang)
	}
}

// lateReader is a RoundTripper that - as RoundTrippers may - reads the request body on a goroutine of its own,
// before or after it has produced the response, when the harness says so.
type lateReader struct {
	status   int
	readNow  chan struct{} // closed: read the request body
	answered chan struct{} // closed when RoundTrip has returned the response
	mu       sync.Mutex
	body     []byte
	readDone chan struct{}
	before   bool
	// streaming: the response has no declared length and its body ends only when finish is closed (the proxy relays
	// status line and headers at once and keeps the exchange open)
	streaming bool
	finish    chan struct{}
}

type gatedBody struct {
	finish chan struct{}
	r      io.Reader
}

func (g *gatedBody) Read(p []byte) (int, error) {
	<-g.finish
	return g.r.Read(p)
}
func (g *gatedBody) Close() error { return nil }

func (l *lateReader) RoundTrip(req *http.Request) (*http.Response, error) {
	read := func() {
		defer close(l.readDone)
		b, _ := io.ReadAll(req.Body)
		req.Body.Close()
		l.mu.Lock()
		l.body = b
		l.mu.Unlock()
	}
	if l.before {
		<-l.readNow
		read()
	} else {
		go func() {
			<-l.readNow
			read()
		}()
	}
	defer close(l.answered)
	if l.streaming {
		return &http.Response{StatusCode: l.status, Proto: "HTTP/1.1", ProtoMajor: 1, ProtoMinor: 1, Header: http.Header{"Content-Type": {"text/plain"}},
			Body: &gatedBody{l.finish, strings.NewReader("answer")}, ContentLength: -1, Request: req}, nil
	}
	return &http.Response{StatusCode: l.status, Proto: "HTTP/1.1", ProtoMajor: 1, ProtoMinor: 1, Header: http.Header{"Content-Type": {"text/plain"}},
		Body: io.NopCloser(strings.NewReader("answer")), ContentLength: 6, Request: req}, nil
}

func expectContinue(t *testing.T, rep *ev.Report, when string, blocked bool, status int, streaming bool) {
	desc := fmt.Sprintf("Y2 POST with Expect: 100-continue, backend answers %d (streaming=%v) and reads the request body %s answering, client reading=%v", status, streaming, when, !blocked)
	res := bubble.Run(t, func() {
		lr := &lateReader{status: status, readNow: make(chan struct{}), answered: make(chan struct{}), readDone: make(chan struct{}), before: when == "before",
			streaming: streaming, finish: make(chan struct{})}
		altTransport = lr
		defer func() { altTransport = nil }()
		e := newEnv(rep, false, nil)
		if e == nil {
			return
		}
		defer e.close()
		cl := e.h2.C
		if blocked {
			// the client stops draining its socket: the proxy's next write blocks
			cl.Srv.SetWriteCap(16)
			cl.PauseReads()
			cl.Write(h2wire.Ping(false, [8]byte{1}))
			synctest.Wait()
			cl.Write(h2wire.Ping(false, [8]byte{2}))
			synctest.Wait()
		}
		body := pat(3000, 9)
		fs := []h2wire.HF{{Name: ":method", Value: "POST"}, {Name: ":scheme", Value: "https"}, {Name: ":authority", Value: "localhost"}, {Name: ":path", Value: "/expect"},
			{Name: "expect", Value: "100-continue"}, {Name: "content-length", Value: fmt.Sprint(len(body))}}
		cl.Write(h2wire.Headers(1, cl.Enc.Block(fs...), false, true, nil, -1))
		synctest.Wait()
		if when != "never" {
			close(lr.readNow) // "before": RoundTrip reads (and so asks for the body) first; "after": it has answered already
			synctest.Wait()
		}
		if blocked {
			cl.Srv.SetWriteCap(0)
			cl.ResumeReads()
			synctest.Wait()
		}
		// a client that was told to continue (or has waited long enough) sends the body
		cl.Write(h2wire.Data(1, body, true, -1))
		synctest.Wait()
		close(lr.finish) // the backend ends its response (after the proxy's writer is free again, see stalledSibling)
		synctest.Wait()
		if when == "never" {
			close(lr.readNow)
			synctest.Wait()
		}
		rep.Add("evaluations", 1)
		// every HEADERS frame of stream 1, in order
		var statuses []string
		var data []byte
		ended := false
		var blk []byte
		for _, f := range cl.TakeFrames() {
			if f.Stream != 1 {
				continue
			}
			switch f.Type {
			case h2wire.THeaders, h2wire.TContinuation:
				blk = append(blk, f.HeaderBlockFragment()...)
				if f.Flags&h2wire.FEndHeaders != 0 {
					hs, _ := cl.Dec.Decode(blk)
					blk = nil
					st := "(trailers)"
					for _, h := range hs {
						if h.Name == ":status" {
							st = h.Value
						}
					}
					statuses = append(statuses, st)
				}
				if f.Type == h2wire.THeaders && f.Flags&h2wire.FEndStream != 0 {
					ended = true
				}
			case h2wire.TData:
				d, _ := f.DataBody()
				data = append(data, d...)
				if f.Flags&h2wire.FEndStream != 0 {
					ended = true
				}
			}
		}
		final := -1
		for i, s := range statuses {
			if s != "100" {
				final = i
				break
			}
		}
		rep.Note("distinct_nontrivial", fmt.Sprintf("%s -> %v", desc, statuses))
		ok := final >= 0 && statuses[final] == fmt.Sprint(status) && final == len(statuses)-1 && ended && string(data) == "answer"
		if !ok {
			rep.Violate(map[string]any{"kind": "response-sequence", "proto": "h2", "detail": "expect-continue"}, map[string]any{"desc": desc, "statuses": statuses},
				"%s: the client received the header blocks %v, body %q, end of stream %v on the stream; the backend sent one final response %d with body \"answer\" (informational 100 responses may only precede it)", desc, statuses, data, ended, status)
		}
		if when != "never" || true {
			lr.mu.Lock()
			got := lr.body
			lr.mu.Unlock()
			select {
			case <-lr.readDone:
				if !bytes.Equal(got, body) && status == 200 && when == "before" {
					rep.Violate(map[string]any{"kind": "request-body", "proto": "h2", "detail": "expect-continue"}, map[string]any{"desc": desc},
						"%s: the backend read %d body bytes, the client sent %d", desc, len(got), len(body))
				}
			default:
			}
		}
	})
	if res.Panic != nil {
		rep.HarnessError("%s: panic: %v\n%s", desc, res.Panic, res.Stack)
	}
	if res.Hang != "" {
		rep.Violate(map[string]any{"kind": "hang"}, map[string]any{"hang": res.Hang}, "%s: the exchange never completed: %s", desc, res.Hang)
	}
}
