//go:build verif

// C08 — requests and responses pass through the proxy unchanged.
package c08

import (
	"bytes"
	"context"
	"crypto/tls"
	"fmt"
	"net/http"
	"net/url"
	"sort"
	"strings"
	"sync"
	"testing"
	"testing/synctest"
	"time"

	utls "github.com/refraction-networking/utls"
	"github.com/wi1dcard/fingerproxy"
	"github.com/wi1dcard/fingerproxy/pkg/proxyserver"
	"github.com/wi1dcard/fingerproxy/pkg/reverseproxy"
	"verif/bubble"
	"verif/ev"
	"verif/mc"
	"verif/ref/h2wire"
)

type hdrSet struct {
	name  string
	lines [][2]string
}

func hdrSets() []hdrSet {
	big := strings.Repeat("v", 8192)
	var many [][2]string
	for i := 0; i < 40; i++ {
		many = append(many, [2]string{fmt.Sprintf("X-N%d", i), fmt.Sprintf("val-%d", i)})
	}
	return []hdrSet{
		{"none", nil},
		{"repeated", [][2]string{{"X-E2e-A", "one"}, {"X-E2e-A", "two"}, {"Accept", "text/a"}, {"Accept", "text/b"}}},
		{"empty-value", [][2]string{{"X-Empty", ""}, {"X-After", "x"}}},
		{"8KiB", [][2]string{{"X-Big", big}}},
		{"40-fields", many},
	}
}

func pat(n int, seed byte) []byte {
	b := make([]byte, n)
	for i := range b {
		b[i] = byte(i*7) + seed + byte(i>>8)
	}
	return b
}

type reqShape struct {
	method, target string
	hs             hdrSet
	body           []byte
	framing        string // h1: cl | dribble | chunk1 | chunk7 | chunk4096 | chunk-trailers ; h2: d16384 | d1 | dmixed | pad1 | pad255 | emptyend | trailers | trailers-unannounced | nocl
}

type respShape struct {
	status  int
	hs      hdrSet
	pieces  string // one | three-flush | bytes64
	body    []byte
	trailer bool
}

type env struct {
	st  *bubble.Stack
	be  *bubble.RealBackend
	h1  *bubble.Client
	h2  *bubble.H2Session
	sid uint32
}

var hopByHop = map[string]bool{"connection": true, "keep-alive": true, "proxy-connection": true, "proxy-authenticate": true, "proxy-authorization": true,
	"te": true, "trailer": true, "trailers": true, "transfer-encoding": true, "upgrade": true}

func ignoredReq(name string) bool {
	n := strings.ToLower(name)
	return hopByHop[n] || n == "forwarded" || strings.HasPrefix(n, "x-forwarded-") || n == "x-ja3-fingerprint" || n == "x-ja4-fingerprint" ||
		n == "x-http2-fingerprint" || n == "host" || n == "content-length" || n == "accept-encoding" || n == "user-agent"
}

// table0: the h2 client advertises SETTINGS_HEADER_TABLE_SIZE = 0 and decodes with a 0-byte dynamic table
var table0 bool

// clientSettings: further SETTINGS of the h2 client (group Y: a small SETTINGS_INITIAL_WINDOW_SIZE);
// altTransport: the reverse proxy's RoundTripper instead of the real http.Transport + backend (group Y)
var (
	clientSettings []h2wire.Setting
	altTransport   http.RoundTripper
)

func newEnv(rep *ev.Report, preserve bool, script func(*bubble.RecReq) *bubble.RespScript) *env {
	fingerproxy.VerifSetFlags(fingerproxy.VerifFlags{PreserveHost: preserve, Probe: true, Flush: "100ms", Idle: "180s", Read: flagRead, Write: flagWrite, TLSHandshake: "10s"})
	to, _ := url.Parse("http://backend.internal:8080")
	h := fingerproxy.VerifDefaultReverseProxyHTTPHandler(to, fingerproxy.DefaultHeaderInjectors())
	be := bubble.NewRealBackend()
	be.Script = script
	tr := h.(*reverseproxy.HTTPHandler).VerifReverseProxy().Transport.(*http.Transport)
	tr.DialContext = be.Dial
	tr.Proxy = nil
	if altTransport != nil {
		h.(*reverseproxy.HTTPHandler).VerifReverseProxy().Transport = altTransport
	}
	st := bubble.NewStack(bubble.StackOpts{Handler: h, Build: func(ctx context.Context, hh http.Handler, tc *tls.Config) *proxyserver.Server {
		return fingerproxy.VerifDefaultProxyServer(ctx, hh, tc)
	}})
	e := &env{st: st, be: be, sid: 1}
	e.h1 = st.Connect("h1", nil, bubble.Hello{Name: "ff", ID: &utls.HelloFirefox_105, ALPN: []string{"http/1.1"}, SNI: "localhost"})
	c2 := st.Connect("h2", nil, bubble.Hello{Name: "chrome", ID: &utls.HelloChrome_102, ALPN: []string{"h2", "http/1.1"}, SNI: "localhost"})
	synctest.Wait()
	for _, c := range []*bubble.Client{e.h1, c2} {
		if d, err := c.Handshake(); !d || err != nil {
			rep.HarnessError("handshake %s: %v %v", c.Name, d, err)
			return nil
		}
	}
	if table0 {
		c2.Dec = h2wire.NewDecoderSize(0)
		e.h2 = bubble.NewH2SessionWith(c2, h2wire.Setting{ID: 1, Val: 0})
	} else {
		e.h2 = bubble.NewH2SessionWith(c2, clientSettings...)
	}
	synctest.Wait()
	if agedFor > 0 {
		// the connections are older than the TLS handshake timeout when they carry their first exchange
		time.Sleep(agedFor)
		synctest.Wait()
	}
	return e
}

// the binary's -timeout-http-read / -timeout-http-write flags and the age of the connections at their first exchange
// (group "aged" varies them)
var (
	flagRead, flagWrite = "60s", "60s"
	agedFor             time.Duration
)

func (e *env) close() {
	e.st.Shutdown()
	if h, ok := e.st.Handler.(*reverseproxy.HTTPHandler); ok {
		if tr, ok := h.VerifReverseProxy().Transport.(*http.Transport); ok {
			tr.CloseIdleConnections()
		}
	}
	e.be.Close()
}

// sendH1 writes the request in the requested framing.
func (e *env) sendH1(rs reqShape, host string, trailer [][2]string) {
	var sb bytes.Buffer
	fmt.Fprintf(&sb, "%s %s HTTP/1.1\r\nHost: %s\r\nUser-Agent: c08\r\n", rs.method, rs.target, host)
	for _, l := range rs.hs.lines {
		fmt.Fprintf(&sb, "%s: %s\r\n", l[0], l[1])
	}
	chunk := 0
	switch rs.framing {
	case "chunk1":
		chunk = 1
	case "chunk7":
		chunk = 7
	case "chunk4096", "chunk-trailers":
		chunk = 4096
	}
	if chunk == 0 {
		if len(rs.body) > 0 || rs.method == "POST" || rs.method == "PUT" {
			fmt.Fprintf(&sb, "Content-Length: %d\r\n", len(rs.body))
		}
		sb.WriteString("\r\n")
		sb.Write(rs.body)
		b := sb.Bytes()
		if rs.framing == "dribble" {
			n := 64
			if n > len(b) {
				n = len(b)
			}
			for i := 0; i < n; i++ {
				e.h1.Write(b[i : i+1])
				synctest.Wait()
			}
			e.h1.Write(b[n:])
		} else {
			e.h1.Write(b)
		}
		return
	}
	sb.WriteString("Transfer-Encoding: chunked\r\n")
	if rs.framing == "chunk-trailers" {
		sb.WriteString("Trailer: X-Req-Trailer\r\n")
	}
	sb.WriteString("\r\n")
	body := rs.body
	for len(body) > 0 {
		n := chunk
		if n > len(body) {
			n = len(body)
		}
		fmt.Fprintf(&sb, "%x\r\n", n)
		sb.Write(body[:n])
		sb.WriteString("\r\n")
		body = body[n:]
	}
	sb.WriteString("0\r\n")
	for _, l := range trailer {
		fmt.Fprintf(&sb, "%s: %s\r\n", l[0], l[1])
	}
	sb.WriteString("\r\n")
	e.h1.Write(sb.Bytes())
}

func (e *env) sendH2(rs reqShape, host string, trailer [][2]string) (uint32, bool) {
	id := e.sid
	e.sid += 2
	fs := []h2wire.HF{{Name: ":method", Value: rs.method}, {Name: ":scheme", Value: "https"}, {Name: ":authority", Value: host}, {Name: ":path", Value: rs.target}, {Name: "user-agent", Value: "c08"}}
	for _, l := range rs.hs.lines {
		fs = append(fs, h2wire.HF{Name: strings.ToLower(l[0]), Value: l[1]})
	}
	// no content-length when frames follow the last body byte (empty END_STREAM DATA, trailers): with a declared length the
	// exchange can complete before those frames are processed, and the server may then answer them with an error - a race
	// between the handler goroutine and the serve loop that the harness does not control
	if rs.framing != "nocl" && rs.framing != "emptyend" && rs.framing != "trailers" && rs.framing != "trailers-unannounced" && (len(rs.body) > 0 || rs.method == "POST" || rs.method == "PUT") {
		fs = append(fs, h2wire.HF{Name: "content-length", Value: fmt.Sprint(len(rs.body))})
	}
	if rs.framing == "trailers" {
		fs = append(fs, h2wire.HF{Name: "trailer", Value: "X-Req-Trailer"})
	}
	noBody := len(rs.body) == 0 && rs.framing != "emptyend" && rs.framing != "trailers" && rs.framing != "trailers-unannounced"
	e.h2.Headers(id, fs, noBody)
	if noBody {
		return id, true
	}
	ok := true
	switch rs.framing {
	case "d1":
		n := len(rs.body)
		if n > 40 {
			n = 40
		}
		ok = e.h2.Data(id, rs.body[:n], 1, -1, false) && e.h2.Data(id, rs.body[n:], 0, -1, true)
	case "dmixed":
		b := rs.body
		sizes := []int{1, 16384, 3, 1000, 16384}
		for i := 0; len(b) > 0 && ok; i++ {
			n := sizes[i%len(sizes)]
			if n > len(b) {
				n = len(b)
			}
			ok = e.h2.Data(id, b[:n], n, -1, n == len(b))
			b = b[n:]
		}
	case "d16383": // frames that end one byte before the server's 16 KiB buffer-chunk boundary
		ok = e.h2.Data(id, rs.body, 16383, -1, true)
	case "pad1":
		ok = e.h2.Data(id, rs.body, 0, 1, true)
	case "pad255":
		ok = e.h2.Data(id, rs.body, 0, 255, true)
	case "emptyend":
		ok = e.h2.Data(id, rs.body, 0, -1, false)
		e.h2.C.Write(h2wire.Data(id, nil, true, -1))
	case "trailers", "trailers-unannounced": // (unannounced: no "trailer" request field names them; the body ends all the same)
		ok = e.h2.Data(id, rs.body, 0, -1, false)
		var tf []h2wire.HF
		for _, l := range trailer {
			tf = append(tf, h2wire.HF{Name: strings.ToLower(l[0]), Value: l[1]})
		}
		e.h2.C.Write(h2wire.Headers(id, e.h2.C.Enc.Block(tf...), true, true, nil, -1))
	default: // d16384, nocl
		ok = e.h2.Data(id, rs.body, 0, -1, true)
	}
	return id, ok
}

type got struct {
	status  int
	header  map[string][]string // lower-case name -> values
	body    []byte
	trailer map[string][]string
}

// exchange runs one request/response and returns what the backend recorded and what the client got.
func (e *env) exchange(rep *ev.Report, proto string, rs reqShape, host string, reqTrailer [][2]string) (*bubble.RecReq, *got) {
	before := e.be.Count()
	var sid uint32
	if proto == "h1" {
		e.sendH1(rs, host, reqTrailer)
	} else {
		var ok bool
		sid, ok = e.sendH2(rs, host, reqTrailer)
		if !ok {
			rep.HarnessError("h2 sender got stuck on flow control for %s %s body=%d framing=%s", rs.method, rs.target, len(rs.body), rs.framing)
			return nil, nil
		}
	}
	synctest.Wait()
	g := &got{header: map[string][]string{}, trailer: map[string][]string{}}
	if proto == "h1" {
		rsps := e.h1.TakeH1Responses(rs.method)
		if len(rsps) != 1 {
			rep.Violate(map[string]any{"kind": "exchange-incomplete", "proto": "h1"}, map[string]any{"method": rs.method, "target": rs.target, "body_len": len(rs.body), "framing": rs.framing, "headers": rs.hs.name},
				"h1: well-formed request %s %s (body %d bytes, framing %s, headers %s) got %d complete responses (backend saw %d new request(s)); %d unparsed bytes pending", rs.method, rs.target, len(rs.body), rs.framing, rs.hs.name, len(rsps), e.be.Count()-before, len(e.h1.Pending()))
			return nil, nil
		}
		g.status, g.body = rsps[0].Status, rsps[0].Body
		for k, v := range rsps[0].Header {
			g.header[strings.ToLower(k)] = v
		}
		for k, v := range rsps[0].Trailer {
			g.trailer[strings.ToLower(k)] = v
		}
	} else {
		e.h2.Pump()
		r := e.h2.Col.Resps[sid]
		if r == nil || !r.Ended {
			rep.Violate(map[string]any{"kind": "exchange-incomplete", "proto": "h2"}, map[string]any{"method": rs.method, "target": rs.target, "body_len": len(rs.body), "framing": rs.framing, "headers": rs.hs.name},
				"h2: well-formed request %s %s (body %d bytes, framing %s, headers %s) got no complete response (backend saw %d new request(s)): %s goaway=%v", rs.method, rs.target, len(rs.body), rs.framing, rs.hs.name, e.be.Count()-before, summarize(r), e.h2.Col.GoAway != nil)
			return nil, nil
		}
		fmt.Sscanf(r.Status, "%d", &g.status)
		g.body = r.Body
		for _, h := range r.Header {
			g.header[h.Name] = append(g.header[h.Name], h.Value)
		}
		for _, h := range r.Trailer {
			g.trailer[h.Name] = append(g.trailer[h.Name], h.Value)
		}
	}
	if e.be.Count() != before+1 {
		rep.HarnessError("backend saw %d requests for one exchange (%s %s)", e.be.Count()-before, rs.method, rs.target)
		return nil, nil
	}
	return e.be.All()[before], g
}

func lowerMap(lines [][2]string) map[string][]string {
	m := map[string][]string{}
	for _, l := range lines {
		m[strings.ToLower(l[0])] = append(m[strings.ToLower(l[0])], l[1])
	}
	return m
}

func checkRequest(rep *ev.Report, desc, proto string, preserve bool, rs reqShape, host string, reqTrailer [][2]string, rec *bubble.RecReq) {
	replay := map[string]any{"desc": desc, "method": rs.method, "target": rs.target, "headers": rs.hs.name, "body_len": len(rs.body), "framing": rs.framing, "proto": proto, "preserve_host": preserve}
	bad := func(kind, f string, a ...any) {
		rep.Violate(map[string]any{"kind": kind, "proto": proto, "dir": "request"}, replay, desc+": "+f, a...)
	}
	if rec.Method != rs.method {
		bad("method", "backend got method %s, client sent %s", rec.Method, rs.method)
	}
	path, query, hasQ := strings.Cut(rs.target, "?")
	gotTarget := rec.Path
	if rec.RawQuery != "" {
		if rec.RawQuery == "?" {
			gotTarget += "?"
		} else {
			gotTarget += "?" + rec.RawQuery
		}
	}
	if rec.Path != path || (hasQ && query != "" && rec.RawQuery != query) || (!hasQ && rec.RawQuery != "") {
		bad("target", "backend got target %q, client sent %q", gotTarget, rs.target)
	}
	if !bytes.Equal(rec.Body, rs.body) {
		i := 0
		for i < len(rec.Body) && i < len(rs.body) && rec.Body[i] == rs.body[i] {
			i++
		}
		bad("body", "backend got a %d-byte body, client sent %d bytes (first difference at offset %d)", len(rec.Body), len(rs.body), i)
	}
	want := lowerMap(rs.hs.lines)
	for name, vals := range want {
		if ignoredReq(name) {
			continue
		}
		if g := rec.Values(name); strings.Join(g, "\x00") != strings.Join(vals, "\x00") {
			bad("header", "end-to-end header %s: backend got %d value(s) %.60q, client sent %d value(s) %.60q", name, len(g), g, len(vals), vals)
		}
	}
	wantHost := "backend.internal:8080"
	if preserve {
		wantHost = host
	}
	if rec.Host != wantHost {
		bad("host", "backend got Host %q, required %q (PreserveHost=%v, client addressed %q)", rec.Host, wantHost, preserve, host)
	}
	// request trailers are sent (so that their presence cannot disturb method/target/headers/body), but the statement
	// lists trailers only for the response direction; net/http's Transport drops them for an empty body. Recorded, not judged.
	for _, l := range reqTrailer {
		if g := rec.Trailer.Values(l[0]); len(g) == 1 && g[0] == l[1] {
			rep.Add("request_trailers_delivered", 1)
		} else {
			rep.Add("request_trailers_not_delivered", 1)
		}
	}
}

func checkResponse(rep *ev.Report, desc, proto, method string, sp respShape, script *bubble.RespScript, g *got) {
	replay := map[string]any{"desc": desc, "status": sp.status, "headers": sp.hs.name, "body_len": len(sp.body), "pieces": sp.pieces, "trailer": sp.trailer, "proto": proto, "method": method}
	bad := func(kind, f string, a ...any) {
		rep.Violate(map[string]any{"kind": kind, "proto": proto, "dir": "response"}, replay, desc+": "+f, a...)
	}
	if g.status != sp.status {
		bad("status", "client got status %d, backend sent %d", g.status, sp.status)
	}
	wantBody := sp.body
	if method == "HEAD" || sp.status == 204 || sp.status == 304 {
		wantBody = nil
	}
	if !bytes.Equal(g.body, wantBody) {
		i := 0
		for i < len(g.body) && i < len(wantBody) && g.body[i] == wantBody[i] {
			i++
		}
		bad("body", "client got a %d-byte body, backend sent %d bytes (first difference at offset %d)", len(g.body), len(wantBody), i)
	}
	for name, vals := range script.Header {
		n := strings.ToLower(name)
		if hopByHop[n] || n == "content-length" || n == "date" {
			continue
		}
		if gv := g.header[n]; strings.Join(gv, "\x00") != strings.Join(vals, "\x00") {
			bad("header", "end-to-end response header %s: client got %d value(s) %.60q, backend sent %d value(s) %.60q", name, len(gv), gv, len(vals), vals)
		}
	}
	if method != "HEAD" {
		for name, vals := range script.Trailer {
			if gv := g.trailer[strings.ToLower(name)]; strings.Join(gv, "\x00") != strings.Join(vals, "\x00") {
				bad("trailer", "response trailer %s: client got %q, backend sent %q", name, gv, vals)
			}
		}
	}
}

func makeScript(sp respShape) *bubble.RespScript {
	s := &bubble.RespScript{Status: sp.status, Header: http.Header{"Content-Type": {"application/x-c08"}, "X-Resp": {"r"}}}
	for _, l := range sp.hs.lines {
		s.Header.Add(l[0], l[1])
	}
	body := sp.body
	switch sp.pieces {
	case "three-flush":
		a, b := len(body)/3, 2*len(body)/3
		s.Pieces = [][]byte{body[:a], body[a:b], body[b:]}
		s.Flush = true
	case "bytes64":
		n := 64
		if n > len(body) {
			n = len(body)
		}
		for i := 0; i < n; i++ {
			s.Pieces = append(s.Pieces, body[i:i+1])
		}
		s.Pieces = append(s.Pieces, body[n:])
		s.Flush = true
	default:
		s.Pieces = [][]byte{body}
	}
	if sp.trailer {
		s.Trailer = http.Header{"X-Resp-Trailer": {"tv1"}, "X-Resp-Trailer2": {"tv2"}}
	}
	return s
}

func TestCheck(t *testing.T) {
	rep := ev.New("C08", "exploration")
	defer rep.Write()
	shard, of := mc.ShardFromEnv()
	thorough := ev.Thorough()
	rep.Assume("deliberately outside the alphabet because HTTP lets an intermediary change them: several Cookie fields on h2, Expect: 100-continue, header-name letter case, responses without Content-Type, Date, framing headers (Content-Length / Transfer-Encoding)",
		"in-memory transport; real net/http backend behind the real http.Transport clone the binary builds")
	sizes := []int{0, 1, 16383, 16384, 16385, 65535, 65536}
	if thorough {
		sizes = append(sizes, 1<<20+1)
	}
	methods := []string{"GET", "HEAD", "POST", "PUT", "PATCH", "DELETE", "OPTIONS"}
	targets := []string{"/", "/a/b", "/a%2Fb", "/x?y=1&y=2&z=", "/?", "/p%20q?a=b%26c"}
	h1fr := []string{"cl", "dribble", "chunk1", "chunk7", "chunk4096", "chunk-trailers"}
	h2fr := []string{"d16384", "d1", "dmixed", "d16383", "pad1", "pad255", "emptyend", "trailers", "trailers-unannounced", "nocl"}
	hss := hdrSets()
	type job func()
	var jobs []job
	// ---- group R1: methods x targets, both protocols, PreserveHost on/off
	for _, preserve := range []bool{false, true} {
		for _, proto := range []string{"h1", "h2"} {
			preserve, proto := preserve, proto
			jobs = append(jobs, func() {
				res := bubble.Run(t, func() {
					e := newEnv(rep, preserve, nil)
					if e == nil {
						return
					}
					defer e.close()
					// the authority the client addresses: other port, the default ports written out, none, an IPv6 literal -
					// with PreserveHost the backend is given exactly what the client sent
					hosts := []string{"client-host.example:8443", "client-host.example:443", "client-host.example", "[2001:db8::1]:443", "client-host.example:80"}
					for mi, m := range methods {
						for ti, tg := range targets {
							rs := reqShape{method: m, target: tg, hs: hss[1], framing: "cl"}
							if proto == "h2" {
								rs.framing = "d16384"
							}
							if m != "GET" && m != "HEAD" {
								rs.body = pat(33, 3)
							}
							host := hosts[(mi+ti)%len(hosts)]
							desc := fmt.Sprintf("R1 %s preserve=%v %s %s host=%s", proto, preserve, m, tg, host)
							rec, g := e.exchange(rep, proto, rs, host, nil)
							if rec == nil {
								return
							}
							rep.Add("evaluations", 1)
							rep.Note("distinct_nontrivial", desc)
							checkRequest(rep, desc, proto, preserve, rs, host, nil, rec)
							wantBody := "backend:" + strings.SplitN(tg, "?", 2)[0]
							if m == "HEAD" {
								wantBody = ""
							}
							if g.status != 200 || string(g.body) != wantBody {
								rep.Violate(map[string]any{"kind": "default-response", "proto": proto, "dir": "response"}, map[string]any{"desc": desc}, "%s: client got %d %q, backend sent 200 %q", desc, g.status, g.body, wantBody)
							}
						}
					}
				})
				if res.Panic != nil {
					rep.HarnessError("R1 panic: %v\n%s", res.Panic, res.Stack)
				}
				if res.Hang != "" {
					rep.Violate(map[string]any{"kind": "hang"}, map[string]any{"hang": res.Hang}, "the exchange never completed: %s", res.Hang)
				}
			})
		}
	}
	// ---- group R2: header sets x body sizes x framings (POST)
	for _, proto := range []string{"h1", "h2"} {
		frs := h1fr
		if proto == "h2" {
			frs = h2fr
		}
		for _, fr := range frs {
			for _, hs := range hss {
				proto, fr, hs := proto, fr, hs
				if !thorough && hs.name != "repeated" && fr != frs[0] {
					continue // quick: all header sets with the first framing, all framings with one header set
				}
				jobs = append(jobs, func() {
					res := bubble.Run(t, func() {
						e := newEnv(rep, false, nil)
						if e == nil {
							return
						}
						defer e.close()
						for _, n := range sizes {
							if (fr == "chunk1" || fr == "d1") && n > 70000 {
								continue
							}
							rs := reqShape{method: "POST", target: "/up", hs: hs, body: pat(n, byte(n)), framing: fr}
							var tr [][2]string
							if fr == "chunk-trailers" || fr == "trailers" || fr == "trailers-unannounced" {
								tr = [][2]string{{"X-Req-Trailer", "req-trailer-value"}}
							}
							desc := fmt.Sprintf("R2 %s headers=%s body=%d framing=%s", proto, hs.name, n, fr)
							rec, _ := e.exchange(rep, proto, rs, "localhost", tr)
							if rec == nil {
								return
							}
							rep.Add("evaluations", 1)
							rep.Note("distinct_nontrivial", desc)
							checkRequest(rep, desc, proto, false, rs, "localhost", tr, rec)
						}
					})
					if res.Panic != nil {
						rep.HarnessError("R2 panic: %v\n%s", res.Panic, res.Stack)
					}
					if res.Hang != "" {
						rep.Violate(map[string]any{"kind": "hang"}, map[string]any{"hang": res.Hang}, "the exchange never completed: %s", res.Hang)
					}
				})
			}
		}
	}
	// ---- group S: response shapes
	// (responses also get a header set larger than one HTTP/2 frame: the header block must be continued in CONTINUATION frames,
	// also when it ends the stream - 204, HEAD, empty body)
	respHss := append(append([]hdrSet(nil), hss...), hdrSet{"20KiB-incompressible", [][2]string{{"X-Huge-A", strings.Repeat("{}<>^`|~", 1400)}, {"X-Huge-B", strings.Repeat("<^>{~}`|", 1200)}}})
	rsizes := []int{0, 1, 16385}
	if thorough {
		rsizes = append(rsizes, 1<<20+1)
	}
	for _, proto := range []string{"h1", "h2", "h2-table0"} {
		for _, pieces := range []string{"one", "three-flush", "bytes64"} {
			for _, hs := range respHss {
				proto, pieces, hs := proto, pieces, hs
				if !thorough && hs.name != "repeated" && pieces != "one" {
					continue
				}
				if proto == "h2-table0" && pieces != "one" {
					continue
				}
				jobs = append(jobs, func() {
					var cur *bubble.RespScript
					table0 = proto == "h2-table0"
					defer func() { table0 = false }()
					proto := strings.TrimSuffix(proto, "-table0")
					res := bubble.Run(t, func() {
						e := newEnv(rep, false, func(*bubble.RecReq) *bubble.RespScript { return cur })
						if e == nil {
							return
						}
						defer e.close()
						for _, status := range []int{200, 204, 301, 404, 500, 503} {
							for _, n := range rsizes {
								for _, trailer := range []bool{false, true} {
									for _, method := range []string{"GET", "HEAD"} {
										if status == 204 && n > 0 {
											continue
										}
										if method == "HEAD" && (n > 1 || trailer) {
											continue
										}
										sp := respShape{status: status, hs: hs, pieces: pieces, body: pat(n, byte(status)), trailer: trailer && status != 204}
										cur = makeScript(sp)
										rs := reqShape{method: method, target: "/down", hs: hss[0], framing: "cl"}
										if proto == "h2" {
											rs.framing = "d16384"
										}
										desc := fmt.Sprintf("S %s %s status=%d headers=%s body=%d pieces=%s trailers=%v", proto, method, status, hs.name, n, pieces, sp.trailer)
										if table0 {
											desc += " client-header-table-size=0"
										}
										rec, g := e.exchange(rep, proto, rs, "localhost", nil)
										if rec == nil {
											return
										}
										rep.Add("evaluations", 1)
										rep.Note("distinct_nontrivial", desc)
										checkResponse(rep, desc, proto, method, sp, cur, g)
									}
								}
							}
						}
					})
					if res.Panic != nil {
						rep.HarnessError("S panic: %v\n%s", res.Panic, res.Stack)
					}
					if res.Hang != "" {
						rep.Violate(map[string]any{"kind": "hang"}, map[string]any{"hang": res.Hang}, "the exchange never completed: %s", res.Hang)
					}
				})
			}
		}
	}
	// ---- group X: concurrent h2 streams, every interleaving of their DATA frames, both release orders
	for _, nstreams := range []int{2, 3} {
		nstreams := nstreams
		orders := interleavings(nstreams, 2)
		for oi, ord := range orders {
			for rel := 0; rel < 2; rel++ {
				oi, ord, rel := oi, ord, rel
				if !thorough && nstreams == 3 && oi%6 != 0 {
					continue
				}
				jobs = append(jobs, func() { concurrent(t, rep, nstreams, ord, rel) })
			}
		}
	}
	for _, j := range groupY(t, rep) {
		jobs = append(jobs, job(j))
	}
	// ---- group "aged": connections older than the TLS handshake timeout (11 s > 10 s), under every on/off combination of
	// the read and write timeout flags; an upload and a download of 20 000 bytes each, both protocols
	for _, rd := range []string{"60s", "0s"} {
		for _, wr := range []string{"60s", "0s"} {
			for _, proto := range []string{"h1", "h2"} {
				rd, wr, proto := rd, wr, proto
				jobs = append(jobs, func() {
					res := bubble.Run(t, func() {
						flagRead, flagWrite, agedFor = rd, wr, 11*time.Second
						defer func() { flagRead, flagWrite, agedFor = "60s", "60s", 0 }()
						big := pat(20000, 5)
						e := newEnv(rep, false, func(r *bubble.RecReq) *bubble.RespScript {
							return &bubble.RespScript{Status: 200, Header: http.Header{"Content-Type": {"application/x-c08"}, "Content-Length": {fmt.Sprint(len(big))}}, Pieces: [][]byte{big}}
						})
						if e == nil {
							return
						}
						defer e.close()
						desc := fmt.Sprintf("aged %s: connection 11 s old (handshake timeout 10 s), -timeout-http-read %s -timeout-http-write %s", proto, rd, wr)
						for _, rs := range []reqShape{{method: "POST", target: "/up", hs: hss[0], body: pat(20000, 3), framing: map[string]string{"h1": "cl", "h2": "d16384"}[proto]},
							{method: "GET", target: "/down", hs: hss[0], framing: map[string]string{"h1": "cl", "h2": "d16384"}[proto]}} {
							rec, g := e.exchange(rep, proto, rs, "localhost", nil)
							if rec == nil {
								return
							}
							rep.Add("evaluations", 1)
							rep.Note("distinct_nontrivial", desc+" "+rs.method)
							checkRequest(rep, desc, proto, false, rs, "localhost", nil, rec)
							if g.status != 200 || !bytes.Equal(g.body, big) {
								rep.Violate(map[string]any{"kind": "response-damaged-on-aged-connection", "proto": proto}, map[string]any{"desc": desc},
									"%s: %s %s: the client got status %d with %d body bytes, the backend sent 200 with %d", desc, rs.method, rs.target, g.status, len(g.body), len(big))
							}
						}
					})
					if res.Panic != nil {
						rep.HarnessError("aged: panic: %v\n%s", res.Panic, res.Stack)
					}
					if res.Hang != "" {
						rep.Violate(map[string]any{"kind": "hang"}, map[string]any{"hang": res.Hang}, "aged: the exchange never completed: %s", res.Hang)
					}
				})
			}
		}
	}
	rep.Info["jobs_total"] = len(jobs)
	for i, j := range jobs {
		if i%of == shard {
			j()
		}
		if rep.NumViolations() > 30 {
			break
		}
	}
	if shard == 0 {
		rep.Sample(map[string]any{"request_shape": "POST /up headers=repeated body=16385 framing=chunk7 (h1)", "response_shape": "503 headers=8KiB body=16385 pieces=three-flush trailers=true (h2)"})
	}
}

// interleavings of n streams with k frames each: sequences over stream indices with each index k times.
func interleavings(n, k int) [][]int {
	var out [][]int
	cnt := make([]int, n)
	var cur []int
	var rec func()
	rec = func() {
		if len(cur) == n*k {
			out = append(out, append([]int(nil), cur...))
			return
		}
		for s := 0; s < n; s++ {
			if cnt[s] < k {
				cnt[s]++
				cur = append(cur, s)
				rec()
				cur = cur[:len(cur)-1]
				cnt[s]--
			}
		}
	}
	rec()
	return out
}

func concurrent(t *testing.T, rep *ev.Report, n int, order []int, rel int) {
	desc := fmt.Sprintf("X %d streams DATA order %v release %d", n, order, rel)
	res := bubble.Run(t, func() {
		held := map[string]chan struct{}{}
		var e *env
		e = newEnv(rep, false, func(r *bubble.RecReq) *bubble.RespScript {
			return &bubble.RespScript{Status: 200, Header: http.Header{"Content-Type": {"application/x-c08"}}, Pieces: [][]byte{[]byte("echo:"), r.Body}}
		})
		if e == nil {
			return
		}
		defer e.close()
		e.be.Hold = func(r *bubble.RecReq) {
			ch := make(chan struct{})
			e.st.Backend.Hold = nil
			heldMu.Lock()
			held[r.Path] = ch
			heldMu.Unlock()
			<-ch
		}
		bodies := make([][]byte, n)
		ids := make([]uint32, n)
		for s := 0; s < n; s++ {
			bodies[s] = pat(20000+s*777, byte(s+1))
			ids[s] = uint32(1 + 2*s)
			e.h2.Headers(ids[s], []h2wire.HF{{":method", "POST"}, {":scheme", "https"}, {":authority", "localhost"}, {":path", fmt.Sprintf("/s%d", s)}, {"content-length", fmt.Sprint(len(bodies[s]))}}, false)
		}
		e.sid = uint32(1 + 2*n)
		sent := make([]int, n)
		for _, s := range order {
			half := len(bodies[s]) / 2
			if sent[s] == 0 {
				e.h2.Data(ids[s], bodies[s][:half], 0, -1, false)
			} else {
				e.h2.Data(ids[s], bodies[s][half:], 0, -1, true)
			}
			sent[s]++
			synctest.Wait()
		}
		synctest.Wait()
		// release the held backend handlers in the chosen order
		var paths []string
		heldMu.Lock()
		for p := range held {
			paths = append(paths, p)
		}
		heldMu.Unlock()
		sort.Strings(paths)
		if rel == 1 {
			for i, j := 0, len(paths)-1; i < j; i, j = i+1, j-1 {
				paths[i], paths[j] = paths[j], paths[i]
			}
		}
		if len(paths) != n {
			rep.HarnessError("%s: %d of %d requests reached the backend", desc, len(paths), n)
			return
		}
		for _, p := range paths {
			heldMu.Lock()
			ch := held[p]
			heldMu.Unlock()
			close(ch)
			synctest.Wait()
		}
		e.h2.Pump()
		rep.Add("evaluations", 1)
		rep.Note("distinct_nontrivial", desc)
		for s := 0; s < n; s++ {
			var rec *bubble.RecReq
			for _, r := range e.be.All() {
				if r.Path == fmt.Sprintf("/s%d", s) {
					rec = r
				}
			}
			if rec == nil || !bytes.Equal(rec.Body, bodies[s]) {
				l := -1
				if rec != nil {
					l = len(rec.Body)
				}
				rep.Violate(map[string]any{"kind": "concurrent-body", "dir": "request", "proto": "h2"}, map[string]any{"desc": desc, "stream": ids[s]}, "%s: stream %d: backend got a %d-byte body, client sent %d bytes (or different content)", desc, ids[s], l, len(bodies[s]))
			}
			r := e.h2.Col.Resps[ids[s]]
			want := append([]byte("echo:"), bodies[s]...)
			if r == nil || !r.Ended || r.Status != "200" || !bytes.Equal(r.Body, want) {
				rep.Violate(map[string]any{"kind": "concurrent-body", "dir": "response", "proto": "h2"}, map[string]any{"desc": desc, "stream": ids[s]}, "%s: stream %d: client got %+v, backend sent 200 with %d bytes", desc, ids[s], summarize(r), len(want))
			}
		}
	})
	if res.Panic != nil {
		rep.HarnessError("%s: panic: %v\n%s", desc, res.Panic, res.Stack)
	}
	if res.Hang != "" {
		rep.Violate(map[string]any{"kind": "hang"}, map[string]any{"hang": res.Hang}, "the exchange never completed: %s", res.Hang)
	}
}

func summarize(r *bubble.H2Resp) string {
	if r == nil {
		return "<no response>"
	}
	return fmt.Sprintf("status=%s body=%d ended=%v rst=%v", r.Status, len(r.Body), r.Ended, r.RST)
}

var heldMu sync.Mutex
