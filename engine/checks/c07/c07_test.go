//go:build verif

// C07 — concurrent streams on one connection see consistent fingerprint data.
//
// Model checking of the real http2 serve loop + real metadata.Marshal under a
// controlled scheduler: every interleaving (up to a preemption bound) of the
// serve goroutine's capture stores with the four Marshal sections of the
// handlers of two multiplexed streams. Oracle: each handler's value is the
// reference fingerprint of SOME frame-history prefix between its own HEADERS
// and the moment it returned.
package c07

import (
	"fmt"
	"net/http"
	"os"
	"os/exec"
	"path/filepath"
	"sort"
	"strings"
	"sync"
	"testing"
	"testing/synctest"
	"time"

	fp "github.com/wi1dcard/fingerproxy/pkg/fingerprint"
	"github.com/wi1dcard/fingerproxy/pkg/http2"
	"verif/bubble"
	"verif/ev"
	"verif/mc"
	"verif/memnet"
	"verif/ref/h2fpref"
	"verif/ref/h2wire"
)

// one client frame of the script with its effect on the reference state
type step struct {
	name  string
	wire  func(enc *h2wire.Encoder) []byte
	apply func(s *h2fpref.State)
	gates int // capture gates the serve loop passes for this frame
}

func hdrs(stream uint32, prio *h2wire.Prio, names ...string) step {
	return step{
		name: fmt.Sprintf("HEADERS(%d,prio=%v)", stream, prio != nil),
		wire: func(enc *h2wire.Encoder) []byte {
			var fs []h2wire.HF
			for _, n := range names {
				v := map[string]string{":method": "GET", ":path": fmt.Sprintf("/s%d", stream), ":scheme": "https", ":authority": "localhost"}[n]
				fs = append(fs, h2wire.HF{Name: n, Value: v})
			}
			return h2wire.Headers(stream, enc.Block(fs...), true, true, prio, -1)
		},
		apply: func(s *h2fpref.State) {
			var p *h2fpref.Priority
			if prio != nil {
				p = &h2fpref.Priority{Stream: stream, Dep: prio.Dep, Excl: prio.Excl, Weight: prio.Weight}
			}
			s.OnHeaders(names, p)
		},
	}
}

func settings(ss ...h2wire.Setting) step {
	return step{name: fmt.Sprintf("SETTINGS%v", ss), wire: func(*h2wire.Encoder) []byte { return h2wire.Settings(ss...) },
		apply: func(s *h2fpref.State) {
			var r []h2fpref.Setting
			for _, x := range ss {
				r = append(r, h2fpref.Setting{ID: x.ID, Val: x.Val})
			}
			s.OnSettings(r)
		}}
}

func wu(stream, incr uint32) step {
	return step{name: fmt.Sprintf("WINDOW_UPDATE(%d,%d)", stream, incr), wire: func(*h2wire.Encoder) []byte { return h2wire.WindowUpdate(stream, incr) },
		apply: func(s *h2fpref.State) { s.OnWindowUpdate(incr) }}
}

func prio(stream uint32, p h2wire.Prio) step {
	return step{name: fmt.Sprintf("PRIORITY(%d)", stream), wire: func(*h2wire.Encoder) []byte { return h2wire.Priority(stream, p) },
		apply: func(s *h2fpref.State) {
			s.OnPriority(h2fpref.Priority{Stream: stream, Dep: p.Dep, Excl: p.Excl, Weight: p.Weight})
		}}
}

// goaway is the client's GOAWAY(NO_ERROR): it will open no more streams. It is not part of the fingerprint (no capture
// gate, no effect on the reference state); what has been captured stays what it was.
func goaway() step {
	return step{name: "GOAWAY(NO_ERROR)", wire: func(*h2wire.Encoder) []byte { return h2wire.GoAway(0, 0, nil) }, apply: func(*h2fpref.State) {}, gates: -1}
}

// ping: a frame that is neither captured nor changes anything.
func ping() step {
	return step{name: "PING", wire: func(*h2wire.Encoder) []byte { return h2wire.Ping(false, [8]byte{7}) }, apply: func(*h2fpref.State) {}, gates: -1}
}

type scenario struct {
	name  string
	steps []step
}

func scenarios() []scenario {
	return []scenario{
		{"two-streams", []step{
			settings(h2wire.Setting{ID: 3, Val: 100}),
			hdrs(1, nil, ":method", ":path", ":scheme", ":authority"),
			settings(h2wire.Setting{ID: 4, Val: 7}, h2wire.Setting{ID: 1, Val: 4096}),
			wu(0, 15663105),
			prio(5, h2wire.Prio{Dep: 0, Excl: false, Weight: 9}),
			prio(7, h2wire.Prio{Dep: 5, Excl: true, Weight: 200}),
			hdrs(3, &h2wire.Prio{Dep: 1, Excl: true, Weight: 41}, ":method", ":authority", ":scheme", ":path"),
		}},
		{"three-streams", []step{
			settings(h2wire.Setting{ID: 1, Val: 65536}),
			hdrs(1, nil, ":method", ":scheme", ":path", ":authority"),
			prio(9, h2wire.Prio{Dep: 0, Weight: 1}),
			hdrs(3, &h2wire.Prio{Dep: 1, Weight: 7}, ":path", ":method", ":scheme", ":authority"),
			settings(h2wire.Setting{ID: 3, Val: 5}),
			wu(0, 99),
			hdrs(5, &h2wire.Prio{Dep: 3, Excl: true, Weight: 70}, ":authority", ":path", ":method", ":scheme"),
			prio(11, h2wire.Prio{Dep: 9, Weight: 2}),
		}},
		{"prio-then-settings", []step{
			// a request in flight, then a PRIORITY frame, then SETTINGS and the first WINDOW_UPDATE, and no further HEADERS:
			// whatever the handler of stream 1 reads, a later frame is never visible without the earlier one
			settings(),
			hdrs(1, nil, ":method", ":scheme", ":path", ":authority"),
			prio(5, h2wire.Prio{Dep: 0, Excl: true, Weight: 200}),
			settings(h2wire.Setting{ID: 4, Val: 131072}),
			wu(0, 15663105),
		}},
		{"goaway-mid-request", []step{
			// the client announces that it will open no more streams while its request is still on its way through the
			// proxy; frames that only concern the connection follow
			settings(h2wire.Setting{ID: 2, Val: 0}, h2wire.Setting{ID: 4, Val: 6291456}),
			wu(0, 15663105),
			hdrs(1, &h2wire.Prio{Dep: 0, Weight: 200}, ":method", ":authority", ":scheme", ":path"),
			goaway(),
			ping(),
			prio(5, h2wire.Prio{Dep: 0, Weight: 100}),
		}},
		{"wu-then-settings", []step{
			settings(),
			hdrs(1, &h2wire.Prio{Dep: 0, Weight: 255}, ":method", ":scheme", ":path", ":authority"),
			wu(0, 7),
			settings(h2wire.Setting{ID: 2, Val: 0}),
			hdrs(3, nil, ":path", ":method", ":authority", ":scheme"),
			prio(3, h2wire.Prio{Dep: 1, Weight: 1}),
		}},
	}
}

type obsT struct {
	mu     sync.Mutex
	vals   map[uint32]string
	atDone map[uint32]int // frames fully captured when the handler returned
}

// run executes one schedule of a scenario. All choices are made through c.
func runOne(t *testing.T, sc scenario, c *mc.Chooser) (out mc.Outcome) {
	res := bubble.Run(t, func() {
		gates := bubble.NewGates(
			"http2.capture.settings", "http2.capture.headers", "http2.capture.headersPriority", "http2.capture.windowUpdate", "http2.capture.priority",
			"metadata.Marshal.settings", "metadata.Marshal.windowUpdate", "metadata.Marshal.priorities", "metadata.Marshal.headers",
			"vsync.Unlock")
		// a handler can also be parked right after it has left the frames lock (before it uses what it read)
		gates.Filter = func(site, who string) bool { return site != "vsync.Unlock" || strings.HasPrefix(who, "h") }
		defer gates.Uninstall()
		param := &fp.HTTP2FingerprintParam{MaxPriorityFrames: ^uint(0)}
		inj := fp.NewFingerprintHeaderInjector("X-HTTP2-Fingerprint", param.HTTP2Fingerprint)
		obs := &obsT{vals: map[uint32]string{}, atDone: map[uint32]int{}}
		var captured int // number of script frames whose capture has completed; written only by the explorer goroutine
		var capMu sync.Mutex
		handler := http.HandlerFunc(func(w http.ResponseWriter, r *http.Request) {
			var id uint32
			fmt.Sscanf(r.URL.Path, "/s%d", &id)
			gates.NameCurrent(fmt.Sprintf("h%d", id))
			v, err := inj.GetHeaderValue(r)
			if err != nil {
				v = "ERR:" + err.Error()
			}
			capMu.Lock()
			n := captured
			capMu.Unlock()
			obs.mu.Lock()
			obs.vals[id] = v
			obs.atDone[id] = n
			obs.mu.Unlock()
			w.WriteHeader(204)
		})
		conn := bubble.StartH2(&http2.Server{}, &http.Server{}, handler)
		gates.NameKey(&conn.MD.HTTP2Frames, "sc")
		// the client puts the whole script on the wire at once; the serve loop consumes it frame by frame
		buf := []byte(h2wire.Preface)
		for _, s := range sc.steps {
			buf = append(buf, s.wire(conn.Enc)...)
		}
		conn.Send(buf)
		// which script frame is the serve loop working on: count capture gates passed.
		// frame i is "captured" once the serve loop has been released from its last capture gate for it
		// and has reached the next quiescent point.
		gatesOf := make([]int, len(sc.steps))
		for i, s := range sc.steps {
			gatesOf[i] = 1
			if strings.HasPrefix(s.name, "HEADERS") && strings.Contains(s.name, "prio=true") {
				gatesOf[i] = 2
			}
			if s.gates < 0 {
				gatesOf[i] = 0 // not captured: the serve loop works it off on its way to the next capture gate
			}
		}
		frame, passed := 0, 0
		skip := func() {
			for frame < len(gatesOf) && gatesOf[frame] == 0 {
				frame++
			}
		}
		skip()
		last := ""
		for {
			synctest.Wait()
			ps := gates.ParkedList()
			if len(ps) == 0 {
				break
			}
			// canonical order: the actor that ran last first (if enabled), then by ID
			sort.SliceStable(ps, func(i, j int) bool { return (ps[i].Who == last) && (ps[j].Who != last) })
			labels := make([]string, len(ps))
			costs := make([]int, len(ps))
			for i, p := range ps {
				labels[i] = p.ID()
				if i > 0 && ps[0].Who == last {
					costs[i] = 1
				}
			}
			p := ps[c.Choose(labels, costs)]
			if p.Who == "sc" {
				passed++
				if passed == gatesOf[frame] {
					// after this release the store(s) for this frame complete before the next quiescent point (and so do
					// the frames after it that are not captured)
					frame++
					skip()
					capMu.Lock()
					captured = frame
					capMu.Unlock()
					passed = 0
				}
			}
			last = p.Who
			gates.Release(p)
		}
		gates.Open()
		synctest.Wait()
		// oracle
		ownIdx := map[uint32]int{}
		for i, s := range sc.steps {
			var id uint32
			if n, _ := fmt.Sscanf(s.name, "HEADERS(%d", &id); n == 1 {
				ownIdx[id] = i
			}
		}
		obs.mu.Lock()
		var keys []string
		for id, v := range obs.vals {
			keys = append(keys, fmt.Sprintf("s%d=%s", id, v))
			lo, hi := ownIdx[id]+1, obs.atDone[id]
			if hi < lo {
				hi = lo
			}
			ok := false
			var adm []string
			st := &h2fpref.State{}
			for i, s := range sc.steps {
				s.apply(st)
				if i+1 >= lo && i+1 <= hi {
					adm = append(adm, st.String(-1))
					if st.Equal(v, -1) {
						ok = true
					}
				}
			}
			if !ok {
				out.Violations = append(out.Violations, fmt.Sprintf("scenario %s: stream %d got fingerprint %q which is the fingerprint of no history prefix between its own HEADERS and its completion; admissible: %v", sc.name, id, v, adm))
				out.Sigs = append(out.Sigs, fmt.Sprintf("torn:%s:s%d", sc.name, id))
			}
		}
		if len(obs.vals) != len(ownIdx) {
			out.Violations = append(out.Violations, fmt.Sprintf("scenario %s: %d of %d handlers ran", sc.name, len(obs.vals), len(ownIdx)))
			out.Sigs = append(out.Sigs, "handlers-missing:"+sc.name)
		}
		obs.mu.Unlock()
		sort.Strings(keys)
		out.Obs = strings.Join(keys, " ")
		conn.Close()
	})
	if res.Panic != nil {
		if he, ok := res.Panic.(mc.HarnessError); ok {
			panic(he)
		}
		out.Violations = append(out.Violations, fmt.Sprintf("panic: %v\n%s", res.Panic, res.Stack))
		out.Sigs = append(out.Sigs, "panic")
	}
	if res.Hang != "" {
		out.Violations = append(out.Violations, "scenario "+sc.name+": "+res.Hang)
		out.Sigs = append(out.Sigs, "hang:"+sc.name)
	}
	if res.Deadlock != "" {
		out.Obs += " DEADLOCK"
		out.Violations = append(out.Violations, "goroutines blocked forever at the end of the execution: "+res.Deadlock)
		out.Sigs = append(out.Sigs, "deadlock:"+sc.name)
	}
	return out
}

func TestCheck(t *testing.T) {
	rep := ev.New("C07", "model_checking")
	defer rep.Write()
	shard, of := mc.ShardFromEnv()
	bound := 3
	budget := 60 * time.Second
	if ev.Thorough() {
		bound = 6
		budget = 20 * time.Minute
	}
	rep.Info["rule"] = "schedule = interleaving of {serve-loop capture stores, Marshal sections of handler 1, of handler 3} at gate granularity; deviation = preemption of a runnable actor; outcome = (fingerprint seen by stream 1, by stream 3)"
	rep.Info["preemption_bound"] = bound
	rep.Assume("interleavings are controlled at the vhook gates (capture stores, Marshal sections); code between two gates runs atomically with respect to other gated goroutines",
		"memory-model races are not visible to the cooperative scheduler; they are looked for by the separate free-running -race pass (TestRace), which is a detector, not an enumeration")
	if rq, ok := ev.ReplayRequest(); ok {
		// bin/check C07 --replay <file>: run exactly the recorded schedule once, without the explorer
		for _, sc := range scenarios() {
			if sc.name == rq["scenario"] {
				o, trace := mc.Replay(ev.Ints(rq["choices"]), func(c *mc.Chooser) mc.Outcome { return runOne(t, sc, c) })
				rep.Add("schedules", 1)
				rep.Add("states", int64(len(trace)))
				rep.Add("transitions", int64(len(trace)))
				rep.Add("traces_validated_against_impl", 1)
				rep.Sample(map[string]any{"replayed_schedule": trace, "observation": o.Obs})
				for i, v := range o.Violations {
					rep.Violate(map[string]any{"kind": strings.SplitN(o.Sigs[i], ":", 2)[0], "scenario": sc.name, "detail": o.Sigs[i]}, rq, "%s", v)
				}
			}
		}
		return
	}
	for _, sc := range scenarios() {
		b := bound
		if sc.name == "three-streams" && !ev.Thorough() {
			b = 2
		}
		e := &mc.Explorer{Bound: b, Shard: shard, Of: of, Deadline: time.Now().Add(budget)}
		func() {
			defer func() {
				if r := recover(); r != nil {
					if he, ok := r.(mc.HarnessError); ok {
						rep.HarnessError("%s: %v", sc.name, he)
						return
					}
					panic(r)
				}
			}()
			e.Explore(func(c *mc.Chooser) mc.Outcome { return runOne(t, sc, c) })
		}()
		rep.Add("schedules", int64(e.Schedules))
		rep.Add("states", int64(e.Points))
		rep.Add("transitions", int64(e.Points))
		rep.Add("traces_validated_against_impl", int64(e.Schedules))
		rep.Add("rechecked", int64(e.Rechecked))
		rep.SetMax("max_depth", int64(e.MaxDepth))
		for k := range e.Outcomes {
			rep.Note("distinct_outcomes", sc.name+":"+k)
		}
		for _, s := range e.SampleRuns {
			rep.Sample(map[string]any{"scenario": sc.name, "schedule": s})
		}
		if e.Capped {
			rep.NotExhaustive("time budget reached in scenario " + sc.name)
		}
		for _, d := range e.Diverged {
			rep.HarnessError("non-deterministic observation in %s: %s", sc.name, d)
		}
		for _, f := range e.Found {
			// confirm 5x
			okN := 0
			for i := 0; i < 5; i++ {
				o, _ := mc.Replay(f.Choices, func(c *mc.Chooser) mc.Outcome { return runOne(t, sc, c) })
				if len(o.Violations) > 0 && o.Obs == f.Obs {
					okN++
				}
			}
			if okN != 5 {
				rep.HarnessError("violation did not reproduce 5/5 (%d): %s", okN, f.What)
				continue
			}
			kind := strings.SplitN(f.Sig, ":", 2)[0]
			rep.Violate(map[string]any{"kind": kind, "scenario": sc.name, "detail": f.Sig},
				map[string]any{"scenario": sc.name, "choices": f.Choices, "schedule": f.Trace, "observation": f.Obs}, "%s", f.What)
		}
	}
	rep.Info["max_deviation_bound_completed"] = bound
}

// ---- free-running race pass ------------------------------------------------

// TestRace re-executes this binary (built with -race by the driver) running
// TestRaceWorkload with a race log, then reports races touching the captured data.
func TestRace(t *testing.T) {
	rep := ev.New("C07", "model_checking")
	defer rep.Write()
	dir := os.Getenv("VERIF_WORK")
	if dir == "" {
		dir = t.TempDir()
	}
	logp := filepath.Join(dir, "racelog")
	cmd := exec.Command(os.Args[0], "-test.run", "^TestRaceWorkload$", "-test.timeout", "300s")
	cmd.Env = append(os.Environ(), "GORACE=log_path="+logp+" halt_on_error=0 exitcode=0 history_size=3", "VERIF_OUT=", "VERIF_RACE_CHILD=1")
	outb, err := cmd.CombinedOutput()
	files, _ := filepath.Glob(logp + ".*")
	if err != nil && len(files) == 0 { // with a race log the non-zero exit is the testing package noticing the race
		rep.HarnessError("race workload failed: %v: %s", err, tail(string(outb), 800))
		return
	}
	nrace := 0
	for _, f := range files {
		b, _ := os.ReadFile(f)
		for _, blk := range strings.Split(string(b), "==================") {
			if !strings.Contains(blk, "DATA RACE") {
				continue
			}
			if strings.Contains(blk, "pkg/metadata") || strings.Contains(blk, "HTTP2Frames") || strings.Contains(blk, "metadata.") {
				nrace++
				if nrace == 1 {
					rep.Violate(map[string]any{"kind": "data-race", "where": "metadata"}, map[string]any{"report": tail(blk, 3000)},
						"race detector: unsynchronised concurrent access to the connection's captured HTTP/2 data: %s", firstLines(blk, 12))
				}
			}
		}
	}
	rep.Add("race_reports_on_metadata", int64(nrace))
	rep.Add("race_pass_runs", 1)
}

func tail(s string, n int) string {
	if len(s) > n {
		return s[len(s)-n:]
	}
	return s
}
func firstLines(s string, n int) string {
	ls := strings.Split(strings.TrimSpace(s), "\n")
	if len(ls) > n {
		ls = ls[:n]
	}
	return strings.Join(ls, " | ")
}

// TestRaceWorkload: real goroutines, no bubble, no gates: bursts of streams
// whose handlers compute the fingerprint while SETTINGS / WINDOW_UPDATE /
// PRIORITY / HEADERS frames keep arriving.
func TestRaceWorkload(t *testing.T) {
	if os.Getenv("VERIF_RACE_CHILD") == "" {
		t.Skip("only run as a child of TestRace")
	}
	param := &fp.HTTP2FingerprintParam{MaxPriorityFrames: ^uint(0)}
	inj := fp.NewFingerprintHeaderInjector("X-HTTP2-Fingerprint", param.HTTP2Fingerprint)
	var wg sync.WaitGroup
	handler := http.HandlerFunc(func(w http.ResponseWriter, r *http.Request) {
		for i := 0; i < 20; i++ {
			inj.GetHeaderValue(r)
		}
		w.WriteHeader(204)
		wg.Done()
	})
	conn := bubble.StartH2(&http2.Server{MaxConcurrentStreams: 1000}, &http.Server{}, handler)
	go func() { // drain server output
		b := make([]byte, 65536)
		for {
			if _, err := conn.Cl.Read(b); err != nil {
				return
			}
		}
	}()
	conn.Send([]byte(h2wire.Preface))
	conn.Send(h2wire.Settings(h2wire.Setting{ID: 3, Val: 1000}))
	id := uint32(1)
	for burst := 0; burst < 40; burst++ {
		for k := 0; k < 5; k++ {
			wg.Add(1)
			var p *h2wire.Prio
			if k%2 == 0 {
				p = &h2wire.Prio{Dep: 0, Weight: uint8(k)}
			}
			conn.Send(h2wire.Headers(id, conn.Enc.Block(h2wire.HF{":method", "GET"}, h2wire.HF{":path", "/"}, h2wire.HF{":scheme", "https"}, h2wire.HF{":authority", "x"}), true, true, p, -1))
			id += 2
			conn.Send(h2wire.Settings(h2wire.Setting{ID: 4, Val: 65535 + uint32(burst)}))
			conn.Send(h2wire.WindowUpdate(0, 1000))
			conn.Send(h2wire.Priority(id+100, h2wire.Prio{Dep: 0, Weight: 3}))
		}
		time.Sleep(2 * time.Millisecond)
	}
	done := make(chan struct{})
	go func() { wg.Wait(); close(done) }()
	select {
	case <-done:
	case <-time.After(60 * time.Second):
		t.Log("handlers did not all finish")
	}
	conn.Close()
	_ = memnet.ErrTimeout
}
