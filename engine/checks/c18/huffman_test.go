//go:build verif

package c18

import (
	"bytes"
	"fmt"

	"github.com/wi1dcard/fingerproxy/pkg/http2/hpack"
	"verif/ev"
	"verif/ref/hpackref"
)

// partHuffman — P4.
//
//	decode: every octet string of length <= 3; every 4-octet string starting ff; (thorough) every
//	        5-octet string starting ff ff — the codes longer than 14 bits all start with ff, the
//	        30-bit ones and EOS with ff ff ff — against the bit-by-bit reference;
//	encode: every symbol string of length <= 2 over all 256 symbols, and every string of length <= 4
//	        (thorough 5) over one representative symbol per code length (all bit alignments of the
//	        32-bit flush), against the reference encoder and through the real decoder.
func partHuffman(h *harness) {
	ev.Journal("P4 Huffman enumeration")
	var k int64
	mine := func() bool { k++; return int(k%int64(h.of)) == h.shard }

	decodeOne := func(v []byte) {
		h.rep.Add("evaluations", 1)
		h.rep.Add("p4_huffman_decodes", 1)
		var got string
		var err error
		pan := func() (p any) {
			defer func() { p = recover() }()
			got, err = hpack.HuffmanDecodeToString(v)
			return nil
		}()
		want, why := hpackref.HuffmanDecode(v)
		class := func() map[string]any {
			var g string
			var e error
			p := func() (p any) {
				defer func() { p = recover() }()
				g, e = hpack.HuffmanDecodeToString(v)
				return nil
			}()
			w, y := hpackref.HuffmanDecode(v)
			switch {
			case p != nil:
				return map[string]any{"part": "huffman", "kind": "panic", "panic": errClass(p)}
			case y != "" && e == nil:
				return map[string]any{"part": "huffman", "kind": "accepts-invalid-huffman", "rfc": y}
			case y == "" && e != nil:
				return map[string]any{"part": "huffman", "kind": "rejects-valid-huffman", "impl_error": errClass(e)}
			case y == "" && g != w:
				return map[string]any{"part": "huffman", "kind": "decodes-to-wrong-string"}
			}
			return nil
		}
		bad := pan != nil || (why != "") != (err != nil) || (why == "" && got != want)
		if bad {
			sig := class()
			h.violate(sig, map[string]any{"huffman_input_hex": hx(v)}, func() string { return sigKey(class()) },
				"Huffman decode of %s: real decoder gave (%q, err=%v, panic=%v), RFC 7541 s5.2 requires (%q, error=%q)", hx(v), got, err, pan, want, why)
			return
		}
		if len(v) > 0 {
			if why != "" {
				h.rep.Note("distinct_nontrivial", fmt.Sprintf("huff-dec:%d:%s", len(v), why))
			} else {
				h.rep.Note("distinct_nontrivial", fmt.Sprintf("huff-dec:%d:ok:%d", len(v), len(want)))
			}
		}
	}
	// all strings of length <= 3
	buf := make([]byte, 0, 8)
	for L := 0; L <= 3; L++ {
		n := 1 << uint(8*L)
		for i := 0; i < n; i++ {
			if !mine() {
				continue
			}
			buf = buf[:L]
			for j := 0; j < L; j++ {
				buf[j] = byte(i >> uint(8*(L-1-j)))
			}
			decodeOne(buf)
		}
	}
	// ff + 3 free octets; ff ff + 3 free octets
	prefixes := [][]byte{{0xff}}
	if ev.Thorough() {
		prefixes = append(prefixes, []byte{0xff, 0xff})
	}
	for _, p := range prefixes {
		for i := 0; i < 1<<24; i++ {
			if !mine() {
				continue
			}
			buf = append(buf[:0], p...)
			buf = append(buf, byte(i>>16), byte(i>>8), byte(i))
			decodeOne(buf)
		}
	}
	if h.shard == 0 {
		for _, v := range [][]byte{{0xff, 0xff, 0xff, 0xfc}, {0x1f}} {
			got, err := hpack.HuffmanDecodeToString(v)
			want, why := hpackref.HuffmanDecode(v)
			h.rep.Sample(map[string]any{"part": "P4 decode", "huffman_input_hex": hx(v), "real": map[string]any{"string": got, "error": fmt.Sprint(err)}, "reference": map[string]any{"string": want, "must_reject_because": why}})
		}
	}

	// encoder
	encodeOne := func(s string) {
		h.rep.Add("evaluations", 1)
		h.rep.Add("p4_huffman_encodes", 1)
		class := func() (map[string]any, string) {
			var out []byte
			var n uint64
			var back string
			var err error
			p := func() (p any) {
				defer func() { p = recover() }()
				out = hpack.AppendHuffmanString([]byte{0xa5}, s)
				n = hpack.HuffmanEncodeLength(s)
				var w bytes.Buffer
				if len(out) > 0 {
					_, err = hpack.HuffmanDecode(&w, out[1:])
					back = w.String()
				}
				return nil
			}()
			want := hpackref.HuffmanEncode(s)
			switch {
			case p != nil:
				return map[string]any{"part": "huffman", "kind": "panic", "panic": errClass(p)}, fmt.Sprint(p)
			case len(out) == 0 || out[0] != 0xa5:
				return map[string]any{"part": "huffman", "kind": "append-clobbers-destination"}, hx(out)
			case !bytes.Equal(out[1:], want):
				return map[string]any{"part": "huffman", "kind": "encodes-wrong-bits"}, fmt.Sprintf("got %s want %s", hx(out[1:]), hx(want))
			case n != uint64(len(want)):
				return map[string]any{"part": "huffman", "kind": "encode-length-wrong"}, fmt.Sprintf("HuffmanEncodeLength=%d, encoding has %d octets", n, len(want))
			case err != nil || back != s:
				return map[string]any{"part": "huffman", "kind": "huffman-roundtrip"}, fmt.Sprintf("decode(encode(s)) = %q, err=%v", back, err)
			}
			return nil, ""
		}
		if sig, what := class(); sig != nil {
			h.violate(sig, map[string]any{"symbols_hex": hx([]byte(s))}, func() string { s, _ := class(); return sigKey(s) },
				"Huffman encode of symbols %s: %s", hx([]byte(s)), what)
			return
		}
		if len(s) > 0 {
			bits := 0
			for i := 0; i < len(s); i++ {
				bits += int(hpackref.HuffLen[s[i]])
			}
			h.rep.Note("distinct_nontrivial", fmt.Sprintf("huff-enc:%d:%d", len(s), bits))
		}
	}
	for L := 0; L <= 2; L++ {
		n := 1 << uint(8*L)
		for i := 0; i < n; i++ {
			if !mine() {
				continue
			}
			b := make([]byte, L)
			for j := 0; j < L; j++ {
				b[j] = byte(i >> uint(8*(L-1-j)))
			}
			encodeOne(string(b))
		}
	}
	// one representative symbol per distinct code length
	var reps []byte
	seen := map[uint8]bool{}
	for s := 0; s < 256; s++ {
		if l := hpackref.HuffLen[s]; !seen[l] {
			seen[l] = true
			reps = append(reps, byte(s))
		}
	}
	maxL := 4
	if ev.Thorough() {
		maxL = 5
	}
	h.rep.Info["p4_code_lengths_represented"] = len(reps)
	for L := 3; L <= maxL; L++ {
		idx := make([]int, L)
		for {
			if mine() {
				b := make([]byte, L)
				for j := range b {
					b[j] = reps[idx[j]]
				}
				encodeOne(string(b))
			}
			j := L - 1
			for ; j >= 0; j-- {
				idx[j]++
				if idx[j] < len(reps) {
					break
				}
				idx[j] = 0
			}
			if j < 0 {
				break
			}
		}
	}
	if h.shard == 0 {
		sym := "\x0a\x16"
		h.rep.Sample(map[string]any{"part": "P4 encode", "symbols_hex": hx([]byte(sym)), "real_hex": hx(hpack.AppendHuffmanString(nil, sym)), "reference_hex": hx(hpackref.HuffmanEncode(sym))})
	}
}
