//go:build verif

package c18

import (
	"bytes"
	"fmt"
	"sort"
	"strings"

	"github.com/wi1dcard/fingerproxy/pkg/http2/hpack"
	"verif/ev"
	"verif/deep"
	"verif/ref/hpackref"
)

// ---- alphabet of header fields (DESIGN C18 (1)) ----

// 5000 octets of 0x00: larger than any table; Huffman would need 13 bits per octet, so the encoder
// sends it raw (long Huffman strings are the business of the 42-octet field and of P4)
var bigValue = strings.Repeat("\x00", 5000)

var fieldAlphabet = []F{
	{Name: ":method", Value: "GET"},                                 // static full match
	{Name: ":path", Value: "/x"},                                    // static name match
	{Name: "a", Value: "b"},                                         // new name (34 octets of table)
	{Name: "a", Value: "c"},                                         // name already in the dynamic table, other value
	{Name: "a", Value: "b", Sensitive: true},                        // sensitive twin of an indexable field
	{Name: "e", Value: ""},                                          // empty value
	{Name: "bin", Value: "\x00\xff"},                                // octets 0x00 / 0xff
	{Name: "long-name-0123456789", Value: "value-0123456789abcdef"}, // 74 octets: larger than a 68-octet table
	{Name: "vv", Value: "vv"},                                       // name = value
	{Name: "big", Value: bigValue},                                  // larger than any table
	{Name: ":method", Value: "GET", Sensitive: true},                // sensitive twin of a static entry
}

// ---- table-size change schedule between two blocks ----

type prim struct {
	op    string // "setmax" (Encoder.SetMaxDynamicTableSize) | "settings" (peer's SETTINGS_HEADER_TABLE_SIZE)
	v     uint32
	slack uint32 // settings: the decoder allows v+slack, the encoder is limited to v
}

func (p prim) String() string {
	if p.op == "setmax" {
		return fmt.Sprintf("enc.SetMaxDynamicTableSize(%d)", p.v)
	}
	return fmt.Sprintf("dec.SetAllowedMaxDynamicTableSize(%d)+enc.SetMaxDynamicTableSizeLimit(%d)", p.v+p.slack, p.v)
}

type gap []prim

func (g gap) String() string {
	var s []string
	for _, p := range g {
		s = append(s, p.String())
	}
	return strings.Join(s, "; ")
}

func gaps(thorough bool) []gap {
	sizes := []uint32{0, 68, 100, 4096} // 68 = exactly two 34-octet entries
	limits := []uint32{100, 4096}
	out := []gap{nil}
	for _, v := range sizes {
		out = append(out, gap{{op: "setmax", v: v}})
	}
	for _, a := range sizes {
		for _, b := range sizes {
			if a != b {
				out = append(out, gap{{op: "setmax", v: a}, {op: "setmax", v: b}})
			}
		}
	}
	for _, l := range limits {
		for _, s := range []uint32{0, 1000} {
			out = append(out, gap{{op: "settings", v: l, slack: s}})
		}
	}
	if thorough {
		for _, l := range limits {
			for _, v := range sizes {
				out = append(out, gap{{op: "settings", v: l}, {op: "setmax", v: v}})
				out = append(out, gap{{op: "setmax", v: v}, {op: "settings", v: l}})
			}
		}
	}
	// three changes between two blocks: the encoder has to signal the smallest size since its last update and the
	// final one. Quick: the middle value is the extreme (a valley or a peak); thorough: every triple.
	for _, a := range sizes {
		for _, b := range sizes {
			for _, c := range sizes {
				if a == b || b == c {
					continue
				}
				if thorough || (b < a && b < c) || (b > a && b > c) {
					out = append(out, gap{{op: "setmax", v: a}, {op: "setmax", v: b}, {op: "setmax", v: c}})
				}
			}
		}
	}
	return out
}

// ---- codec pair state ----

type sink struct{ buf bytes.Buffer }

func (s *sink) Write(p []byte) (int, error) { return s.buf.Write(p) }

type node struct {
	enc  *hpack.Encoder
	dec  *hpack.Decoder
	ref  *hpackref.Table
	path []string
}

func newNode() *node {
	return &node{enc: hpack.NewEncoder(&sink{}), dec: hpack.NewDecoder(4096, func(hpack.HeaderField) {}), ref: hpackref.NewTable(4096)}
}

func dumpKey(sb *strings.Builder, t hpack.VerifC18Table) {
	fmt.Fprintf(sb, "%d/%d/%d[", t.Size, t.MaxSize, t.AllowedMaxSize)
	for _, e := range t.Ents {
		fmt.Fprintf(sb, "%d:%s=%d:%s,", len(e.Name), e.Name, len(e.Value), e.Value)
	}
	sb.WriteString("]")
	// index maps, ids normalised to positions (id - evictCount)
	var ks []string
	for k, id := range t.ByName {
		ks = append(ks, fmt.Sprintf("n%q>%d", k, int64(id)-int64(t.EvictCount)))
	}
	for k, id := range t.ByNameValue {
		ks = append(ks, fmt.Sprintf("p%q%q>%d", k[0], k[1], int64(id)-int64(t.EvictCount)))
	}
	sort.Strings(ks)
	sb.WriteString(strings.Join(ks, ","))
}

// key is the canonical state key: everything either codec carries to the next block.
func (n *node) key() string {
	var sb strings.Builder
	minSize, limit, tsu := hpack.VerifC18EncoderCarry(n.enc)
	fmt.Fprintf(&sb, "E%d/%d/%v ", minSize, limit, tsu)
	dumpKey(&sb, hpack.VerifC18EncoderTable(n.enc))
	ff, saved := hpack.VerifC18DecoderCarry(n.dec)
	fmt.Fprintf(&sb, " D%v/%d ", ff, saved)
	dumpKey(&sb, hpack.VerifC18DecoderTable(n.dec))
	if genericState {
		sb.WriteString(" G")
		sb.Write(deep.Key(deep.Key(nil, n.enc), n.dec))
	}
	return sb.String()
}

type stepResult struct {
	next   *node
	sig    map[string]any
	what   string
	wire   []byte
	decPre *hpack.Decoder // decoder after the schedule, before the block (for the fragment closure)
	whole  obs
	res    hpackref.Result
	evict  bool
	nUpd   int
}

// step applies a schedule and one header block to a copy of n.
func step(n *node, g gap, block []F) (r stepResult) {
	sk := &sink{}
	nn := &node{ref: n.ref.Clone()}
	nn.enc = cloneEncoder(n.enc, sk)
	nn.dec = cloneDecoder(n.dec, func(hpack.HeaderField) {})
	fail := func(sig map[string]any, format string, a ...any) stepResult {
		sig["part"] = "roundtrip"
		r.sig = sig
		r.what = fmt.Sprintf(format, a...)
		return r
	}
	// schedule + encode, guarded
	var encErr error
	pan := func() (p any) {
		defer func() { p = recover() }()
		for _, p := range g {
			switch p.op {
			case "setmax":
				nn.enc.SetMaxDynamicTableSize(p.v)
			case "settings":
				nn.dec.SetAllowedMaxDynamicTableSize(p.v + p.slack)
				nn.ref.Limit = uint64(p.v + p.slack)
				nn.enc.SetMaxDynamicTableSizeLimit(p.v)
			}
		}
		for _, f := range block {
			if err := nn.enc.WriteField(hpack.HeaderField{Name: f.Name, Value: f.Value, Sensitive: f.Sensitive}); err != nil {
				encErr = err
				return nil
			}
		}
		return nil
	}()
	if pan != nil {
		return fail(map[string]any{"kind": "panic", "where": "encoder", "panic": errClass(pan)}, "encoder panicked: %v", pan)
	}
	if encErr != nil {
		return fail(map[string]any{"kind": "encoder-error", "impl_error": errClass(encErr)}, "WriteField failed: %v", encErr)
	}
	r.wire = append([]byte(nil), sk.buf.Bytes()...)
	r.decPre = nn.dec
	// the encoder's output must be a block EVERY RFC 7541 decoder accepts, carrying exactly the fields
	ev0 := nn.ref.Evictions
	r.res = hpackref.DecodeBlock(nn.ref, r.wire)
	r.evict = nn.ref.Evictions > ev0
	for _, rp := range r.res.Reps {
		if rp.Kind == "U" {
			r.nUpd++
		}
	}
	if !r.res.Accept {
		return fail(map[string]any{"kind": "encoder-output-invalid", "rfc": r.res.Reason}, "encoder produced %s, which RFC 7541 requires a decoder to reject: %s (representations %s)", hx(r.wire), r.res.Reason, hpackref.Shape(r.res.Reps))
	}
	if r.res.Either != "" {
		return fail(map[string]any{"kind": "encoder-output-invalid", "rfc": r.res.Either}, "encoder produced %s, which breaks RFC 7541 s4.2/s5.1: %s (representations %s)", hx(r.wire), r.res.Either, hpackref.Shape(r.res.Reps))
	}
	if !sameFields(r.res.Fields, block) {
		d, k := fieldDiff(block, r.res)
		return fail(map[string]any{"kind": "encoder-output-wrong-fields", "detail": d, "rep": k}, "encoder was given %s but its output %s means %s", fieldsString(block), hx(r.wire), fieldsString(r.res.Fields))
	}
	// the real decoder on the encoder's output
	r.whole = runDecoderKeep(nn.dec, r.wire)
	o := r.whole
	nn.dec = o.dec
	switch {
	case o.panic != "":
		return fail(map[string]any{"kind": "panic", "where": "decoder", "panic": o.panic}, "decoder panicked on encoder output %s: %s", hx(r.wire), o.panic)
	case !o.ok:
		shape := "at-close"
		for i := range r.res.Reps {
			if p := runDecoder(r.decPre, r.wire[:r.res.Reps[i].End], 0); !p.ok && p.at == "write" {
				prev := "-"
				if i > 0 {
					prev = r.res.Reps[i-1].Kind
				}
				shape = prev + ">" + r.res.Reps[i].Kind
				break
			}
		}
		return fail(map[string]any{"kind": "decoder-rejects-encoder-output", "impl_error": o.err(), "shape": shape},
			"decoder rejects what the encoder produced for %s: block %s (representations %s), error at %s: %q", fieldsString(block), hx(r.wire), hpackref.Shape(r.res.Reps), o.at, o.err())
	case !sameFields(o.fields, block):
		d, k := fieldDiff(o.fields, r.res)
		return fail(map[string]any{"kind": "roundtrip-fields-differ", "detail": d, "rep": k}, "encoded %s, decoded %s (block %s)", fieldsString(block), fieldsString(o.fields), hx(r.wire))
	case o.overMax != "":
		return fail(map[string]any{"kind": "table-exceeds-permitted-size", "detail": o.overClass}, "decoder table beyond the permitted size %s (block %s)", o.overMax, hx(r.wire))
	}
	// tables: encoder == decoder == reference, and the size bounds
	et := hpack.VerifC18EncoderTable(nn.enc)
	dt := hpack.VerifC18DecoderTable(nn.dec)
	if d := tableDiff(et, nn.ref); d != "" {
		return fail(map[string]any{"kind": "table-diverged", "who": "encoder-vs-rfc", "diff": diffClass(d)}, "after block %s the ENCODER's table differs from what RFC 7541 says its own output builds: %s", hx(r.wire), d)
	}
	if d := tableDiff(dt, nn.ref); d != "" {
		return fail(map[string]any{"kind": "table-diverged", "who": "decoder-vs-rfc", "diff": diffClass(d)}, "after block %s the DECODER's table differs from RFC 7541: %s", hx(r.wire), d)
	}
	var esum uint32
	for _, e := range et.Ents {
		esum += uint32(len(e.Name)+len(e.Value)) + 32
	}
	switch {
	case et.Size > et.MaxSize || esum != et.Size:
		return fail(map[string]any{"kind": "table-exceeds-permitted-size", "detail": "encoder"}, "encoder table size %d (entries add up to %d) with maxSize %d", et.Size, esum, et.MaxSize)
	case dt.MaxSize > dt.AllowedMaxSize:
		return fail(map[string]any{"kind": "maxsize-above-limit"}, "after block %s decoder maxSize %d exceeds the allowed %d: the encoder did not signal the reduction", hx(r.wire), dt.MaxSize, dt.AllowedMaxSize)
	}
	r.next = nn
	return r
}

func blockString(b []F) string { return fieldsString(b) }

// rtFeature: non-triviality signature of a transition.
func rtFeature(r *stepResult, g gap) string {
	var sb strings.Builder
	for _, rp := range r.res.Reps {
		sb.WriteString(rp.Kind)
		if rp.NameI {
			sb.WriteByte('n')
		}
		if rp.Huff {
			sb.WriteByte('h')
		}
	}
	fmt.Fprintf(&sb, "|ev=%v|g=%d|n=%d|max=%d", r.evict, len(g), min(len(r.next.ref.Ents), 4), r.next.ref.Max)
	return sb.String()
}

// partRoundTrip — P1: explicit-state BFS.
func partRoundTrip(h *harness) {
	thorough := ev.Thorough()
	type cfg struct {
		name      string
		maxFields int
		depth     int
		gaps      []gap
		fullFrag  int  // blocks up to this many octets get EVERY cut set at the inner levels
		lastFrag  bool // fragment closure (single cuts + octet-by-octet) also at the last level
	}
	var cfgs []cfg
	if thorough {
		cfgs = []cfg{
			{"K3-D1", 3, 1, gaps(true), 14, true},
			{"K2-D2", 2, 2, gaps(true), 14, true},
			{"K1-D5", 1, 5, gaps(false), 14, true},
			{"K2-D3", 2, 3, gaps(false), 12, false},
		}
	} else {
		cfgs = []cfg{
			{"K2-D2", 2, 2, gaps(false), 12, true},
			{"K1-D3", 1, 3, gaps(false), 12, true},
		}
	}
	feats := map[string]struct{}{}
	stateSet := map[uint64]struct{}{}
	var nTrans, nFragDec, nFragBlocks, nStatesExpanded, nRecheck int64
	for _, c := range cfgs {
		// blocks of 1..maxFields fields
		var blocks [][]F
		var rec func(cur []F)
		rec = func(cur []F) {
			if len(cur) > 0 {
				blocks = append(blocks, append([]F(nil), cur...))
			}
			if len(cur) == c.maxFields {
				return
			}
			for _, f := range fieldAlphabet {
				rec(append(cur, f))
			}
		}
		rec(nil)
		sort.SliceStable(blocks, func(i, j int) bool { return len(blocks[i]) < len(blocks[j]) })
		h.rep.Info["bound P1 "+c.name] = fmt.Sprintf("BFS to depth %d blocks; per state %d schedules x %d blocks (1..%d fields over %d-field alphabet); every cut set for blocks <= %d octets at depths < %d, single cuts + octet-by-octet for longer blocks; fragment closure at the last depth: %v",
			c.depth, len(c.gaps), len(blocks), c.maxFields, len(fieldAlphabet), c.fullFrag, c.depth, c.lastFrag)
		init := newNode()
		visited := map[string]struct{}{init.key(): {}}
		fragSeen := map[uint64]struct{}{}
		frontier := []*node{init}
		var tIndex int64
		sampled := 0
		for depth := 1; depth <= c.depth && !h.capped; depth++ {
			last := depth == c.depth
			var next []*node
			for _, n := range frontier {
				if h.timeUp() {
					break
				}
				nStatesExpanded++
				ev.Journal("P1 %s depth %d, expanding the state after history %v", c.name, depth, n.path)
				for gi, g := range c.gaps {
					for bi, blk := range blocks {
						tIndex++
						mine := int(tIndex%int64(h.of)) == h.shard
						if last && !mine {
							continue
						}
						r := step(n, g, blk)
						if mine {
							nTrans++
							if nTrans%50 == 0 {
								// determinism self-check (DESIGN s3 rule 2)
								nRecheck++
								r2 := step(n, g, blk)
								if sigKey(r2.sig) != sigKey(r.sig) || string(r2.wire) != string(r.wire) || (r.next != nil && r2.next.key() != r.next.key()) {
									h.rep.HarnessError("non-deterministic transition: history %v schedule [%s] block %s", n.path, g.String(), blockString(blk))
								}
							}
						}
						replay := func() map[string]any {
							return map[string]any{"history": n.path, "schedule": g.String(), "block": blockString(blk), "wire_hex": hx(r.wire), "config": c.name, "schedule_index": gi, "block_index": bi}
						}
						if r.sig != nil {
							if mine {
								h.violate(r.sig, replay(), func() string { return sigKey(step(n, g, blk).sig) },
									"after history %v, schedule [%s], block %s: %s", n.path, g.String(), blockString(blk), r.what)
							}
							continue
						}
						if mine {
							feats[c.name+":"+rtFeature(&r, g)] = struct{}{}
							if sampled < 2 && depth == c.depth && len(g) > 0 && r.evict {
								sampled++
								h.rep.Sample(replay())
							}
						}
						// fragment independence of the block
						if len(r.wire) >= 2 && (!last || c.lastFrag) {
							fk := h64(fmt.Sprint(r.decPreKey()), string(r.wire))
							full := !last && len(r.wire) <= c.fullFrag
							owner := mine
							if !last {
								owner = int(fk%uint64(h.of)) == h.shard
							}
							if _, dup := fragSeen[fk]; owner && !dup {
								fragSeen[fk] = struct{}{}
								nFragBlocks++
								cnt, bad, what, ok := fragmentClosure(r.decPre, r.wire, r.whole, full)
								nFragDec += int64(cnt)
								if !ok {
									whole := r.whole
									sig := func(what string) map[string]any {
										return map[string]any{"part": "fragments", "kind": "fragment-dependent", "differs": diffClass(what), "unfragmented_accepts": whole.ok}
									}
									rp := replay()
									rp["fragment_lengths"] = cutList(len(r.wire), bad)
									h.violate(sig(what), rp, func() string {
										r2 := step(n, g, blk)
										if r2.sig != nil {
											return ""
										}
										_, _, w2, ok2 := fragmentClosure(r2.decPre, r2.wire, r2.whole, full)
										if ok2 {
											return ""
										}
										return sigKey(sig(w2))
									}, "encoder output %s cut into fragments of lengths %v decodes differently than in one Write: %s", hx(r.wire), cutList(len(r.wire), bad), what)
								}
							}
						}
						k := r.next.key()
						if mine {
							stateSet[h64(k)] = struct{}{}
						}
						if !last {
							if _, ok := visited[k]; !ok {
								visited[k] = struct{}{}
								r.next.path = append(append([]string(nil), n.path...), fmt.Sprintf("[%s] block %s", g.String(), blockString(blk)))
								next = append(next, r.next)
							}
						}
					}
				}
			}
			h.rep.SetMax(fmt.Sprintf("p1_%s_states_after_depth_%d", c.name, depth), int64(len(next)))
			frontier = next
		}
		h.rep.SetMax("p1_"+c.name+"_transitions_total", tIndex)
	}
	h.rep.Add("evaluations", nTrans+nFragDec)
	h.rep.Add("transitions", nTrans)
	h.rep.Add("traces_validated_against_impl", nTrans)
	h.rep.Add("rechecked", nRecheck)
	h.rep.Add("p1_fragmented_decodes", nFragDec)
	h.rep.Add("p1_blocks_fragment_closed", nFragBlocks)
	h.rep.SetMax("p1_states_expanded", nStatesExpanded)
	for s := range stateSet {
		h.rep.Note("states", fmt.Sprintf("%x", s))
	}
	for f := range feats {
		h.rep.Note("distinct_nontrivial", "rt:"+f)
	}
}

// decPreKey identifies the decoder state the block is fed to.
func (r *stepResult) decPreKey() uint64 {
	t, _, _, _, _ := tableHashDec(r.decPre)
	ff, saved := hpack.VerifC18DecoderCarry(r.decPre)
	if ff {
		t ^= 0x9e3779b97f4a7c15
	}
	return t + uint64(saved)
}
