//go:build verif

// C18 — HPACK codec round-trips and decodes exactly per RFC 7541.
//
// Seam: github.com/wi1dcard/fingerproxy/pkg/http2/hpack (the in-repo copy) with
// an export shim for the private dynamic tables (_inpkg/hpack/zz_verif_c18_export.go).
// Reference: verif/ref/hpackref (own RFC 7541 model; Huffman code DATA and a
// static-table cross-check come from x/net v0.19.0's exported API).
//
// Parts (all exhaustive within the stated bounds, no sampling):
//
//	P1 roundtrip_test.go  explicit-state BFS over (encoder state, decoder state): transitions = (table-size
//	                 change schedule, header block); every transition: encoder output decoded by the real
//	                 decoder AND by the reference, fields/sensitivity equal, encoder table == decoder table
//	                 == reference table, size bounds, fragment closure of the block.
//	P2 decoder_test.go    the real decoder against the reference on every byte string up to a length over all
//	                 256 octets and over a 16/14-octet alphabet, after each of 3 table prefixes (P2c: integer encodings
//	                 against a 2^32-1 limit, overflow guard), plus
//	                 fragment independence over EVERY cut set.
//	P4 huffman_test.go    Huffman decoder on every short octet string, encoder on every short symbol string.
//	P5 decoder_test.go    the same decoder enumeration with SetMaxStringLength (implementation limit of RFC 7541 s5.1).
package c18

import (
	"encoding/hex"
	"encoding/json"
	"fmt"
	"hash/fnv"
	"io"
	"os"
	"regexp"
	"strings"
	"testing"
	"time"

	"github.com/wi1dcard/fingerproxy/pkg/http2/hpack"
	"verif/deep"
	"verif/ev"
	"verif/mc"
	"verif/ref/hpackref"
)

type F = hpackref.Field

// ---------------------------------------------------------------- reporting

type harness struct {
	rep       *ev.Report
	shard, of int
	seenSig   map[string]int
	start     time.Time
	deadline  time.Time
	capped    bool
}

var digits = regexp.MustCompile(`[0-9]+`)

// errClass normalises an error / panic text so that it can be part of a signature.
func errClass(v any) string {
	if v == nil {
		return ""
	}
	s := fmt.Sprint(v)
	s = digits.ReplaceAllString(s, "N")
	if len(s) > 90 {
		s = s[:90]
	}
	return s
}

// violate reports a violation once per signature after confirming it 5 times.
func (h *harness) violate(sig map[string]any, replay any, confirm func() string, format string, a ...any) {
	b, _ := json.Marshal(sig)
	key := string(b)
	h.rep.Add("violating_cases", 1)
	h.seenSig[key]++
	if h.seenSig[key] > 1 {
		return
	}
	if confirm != nil {
		for i := 0; i < 5; i++ {
			if got := confirm(); got != key {
				// Every call in this check is made from one goroutine on inputs the check owns, and the codec is a
				// function of (table state, input): a wrong result that the same call does not give again depends on
				// something left behind by earlier, unrelated calls - which is a violation of its own kind.
				part, _ := sig["part"].(string)
				h.rep.Violate(map[string]any{"kind": "result-depends-on-earlier-calls", "part": part},
					map[string]any{"first": replay, "note": "the wrong result was observed once; repeating the same call alone gave " + got + " (run " + fmt.Sprint(i) + "), so the replay needs the calls made before it in the same process"},
					"wrong result that depends on earlier unrelated calls: "+format, a...)
				return
			}
		}
	}
	h.rep.Violate(sig, replay, format, a...)
}

func sigKey(sig map[string]any) string {
	if sig == nil {
		return ""
	}
	b, _ := json.Marshal(sig)
	return string(b)
}

func (h *harness) timeUp() bool {
	if h.capped {
		return true
	}
	if time.Now().After(h.deadline) {
		h.capped = true
		h.rep.NotExhaustive("time budget reached")
	}
	return h.capped
}

func hx(b []byte) string {
	if len(b) > 64 {
		return hex.EncodeToString(b[:64]) + fmt.Sprintf("…(%d bytes)", len(b))
	}
	return hex.EncodeToString(b)
}

func fieldsString(fs []F) string {
	var sb strings.Builder
	sb.WriteByte('[')
	for i, f := range fs {
		if i > 0 {
			sb.WriteByte(' ')
		}
		v := f.Value
		if len(v) > 24 {
			v = fmt.Sprintf("%s…(%d)", v[:8], len(v))
		}
		if f.Sensitive {
			sb.WriteByte('!')
		}
		fmt.Fprintf(&sb, "%q=%q", f.Name, v)
	}
	sb.WriteByte(']')
	return sb.String()
}

func h64(parts ...string) uint64 {
	h := fnv.New64a()
	for _, p := range parts {
		h.Write([]byte(p))
		h.Write([]byte{0})
	}
	return h.Sum64()
}

// ---------------------------------------------------------------- running the real decoder

// obs is what one decode of one block by the real decoder shows.
type obs struct {
	ok     bool   // every Write and Close returned nil
	errv   error  // the first error
	at     string // "write" or "close"
	panic  string
	fields []F
	// table after the block
	tabHash uint64
	n       int
	size    uint32
	max     uint32
	allowed uint32
	// "never lets the dynamic table grow beyond the size permitted at that moment":
	// checked at every emit callback and at the end
	overMax   string         // human text, "" = never
	overClass string         // "size>maxSize@emit" | "size>maxSize@end" | "size-accounting"
	dec       *hpack.Decoder // the decoder after the block
}

func tableHashDec(d *hpack.Decoder) (uint64, int, uint32, uint32, uint32) {
	n, size, max, allowed := hpack.VerifC18DecoderQuick(d)
	const prime = 1099511628211
	h := uint64(14695981039346656037)
	mix := func(b byte) { h = (h ^ uint64(b)) * prime }
	for _, v := range [3]uint32{size, max, allowed} {
		mix(byte(v))
		mix(byte(v >> 8))
		mix(byte(v >> 16))
		mix(byte(v >> 24))
	}
	for _, e := range hpack.VerifC18DecoderEnts(d) {
		for i := 0; i < len(e.Name); i++ {
			mix(e.Name[i])
		}
		mix(0)
		h *= prime
		for i := 0; i < len(e.Value); i++ {
			mix(e.Value[i])
		}
		mix(1)
		h *= prime
	}
	return h, n, size, max, allowed
}

// runner owns a scratch decoder that is reset to the wanted start state before
// every run (cloning the index maps for every one of ~10^9 decodes is the
// dominant cost otherwise).
type runner struct {
	d   *hpack.Decoder
	cur *obs
	buf []F
}

func newRunner() *runner {
	r := &runner{}
	r.reset()
	return r
}

func (r *runner) reset() {
	r.d = hpack.NewDecoder(4096, nil)
	r.d.SetEmitFunc(r.emit)
}

func (r *runner) emit(f hpack.HeaderField) {
	o := r.cur
	r.buf = append(r.buf, F{Name: f.Name, Value: f.Value, Sensitive: f.Sensitive})
	o.fields = r.buf
	if _, size, max, _ := hpack.VerifC18DecoderQuick(r.d); size > max && o.overMax == "" {
		o.overMax = fmt.Sprintf("at emit of field %d: size %d > maxSize %d", len(o.fields), size, max)
		o.overClass = "size>maxSize@emit"
	}
}

// run feeds block to the scratch decoder reset to pre's state, cut at the
// positions in cuts (bit i set = cut after octet i), then Close. The returned
// obs (fields, dec) is valid until the next run of the same runner.
func (r *runner) run(pre *hpack.Decoder, block []byte, cuts uint32) (o obs) {
	d := r.d
	r.cur = &o
	r.buf = r.buf[:0]
	defer func() {
		if p := recover(); p != nil {
			o.ok = false
			o.panic = errClass(p)
			// the scratch decoder may be half-way through something: replace it
			r.reset()
		}
		r.cur = nil
	}()
	restoreDecoder(d, pre)
	o.dec = d
	o.ok = true
	write := func(p []byte) {
		if _, err := d.Write(p); err != nil {
			o.ok, o.errv, o.at = false, err, "write"
		}
	}
	switch {
	case len(block) == 0:
	case cuts == 0:
		write(block)
	case cuts&singleCut != 0:
		pos := int(cuts &^ singleCut)
		write(block[:pos+1])
		if o.ok && pos+1 < len(block) {
			write(block[pos+1:])
		}
	default:
		start := 0
		for i := 0; i < len(block) && o.ok; i++ {
			if i == len(block)-1 || (i < 31 && cuts&(1<<uint(i)) != 0) {
				write(block[start : i+1])
				start = i + 1
			}
		}
	}
	if o.ok {
		if err := d.Close(); err != nil {
			o.ok, o.errv, o.at = false, err, "close"
		}
	}
	o.tabHash, o.n, o.size, o.max, o.allowed = tableHashDec(d)
	if o.size > o.max && o.overMax == "" {
		o.overMax = fmt.Sprintf("after the block: size %d > maxSize %d", o.size, o.max)
		o.overClass = "size>maxSize@end"
	}
	var sum uint32
	for _, e := range hpack.VerifC18DecoderEnts(d) {
		sum += uint32(len(e.Name)+len(e.Value)) + 32
	}
	if sum != o.size && o.overMax == "" {
		o.overMax = fmt.Sprintf("after the block: recorded size %d but entries add up to %d (maxSize %d)", o.size, sum, o.max)
		o.overClass = "size-accounting"
	}
	return o
}

var (
	wholeRunner = newRunner() // unfragmented runs (result kept while the fragment runs go on)
	fragRunner  = newRunner()
	auxRunner   = newRunner()
)

// runDecoder: unfragmented or fragmented run on a scratch decoder; the result's
// fields/dec stay valid until the next runDecoder call.
func runDecoder(pre *hpack.Decoder, block []byte, cuts uint32) obs {
	return auxRunner.run(pre, block, cuts)
}

// runDecoderKeep runs on a fresh clone; the result (and o.dec) is owned by the caller.
func runDecoderKeep(pre *hpack.Decoder, block []byte) obs {
	r := newRunner()
	o := r.run(pre, block, 0)
	o.fields = append([]F(nil), o.fields...)
	return o
}

// err is the normalised class of the first error.
func (o *obs) err() string { return errClass(o.errv) }

func sameFields(a, b []F) bool {
	if len(a) != len(b) {
		return false
	}
	for i := range a {
		if a[i] != b[i] {
			return false
		}
	}
	return true
}

// tableDiff compares a real table dump with the reference table; "" = identical.
func tableDiff(t hpack.VerifC18Table, ref *hpackref.Table) string {
	if len(t.Ents) != len(ref.Ents) {
		return fmt.Sprintf("len: %d entries vs reference %d", len(t.Ents), len(ref.Ents))
	}
	for i := range ref.Ents {
		e := t.Ents[len(t.Ents)-1-i] // newest first
		if e.Name != ref.Ents[i].Name || e.Value != ref.Ents[i].Value {
			return fmt.Sprintf("entry: index %d is %q=%q vs reference %q=%q", 62+i, e.Name, e.Value, ref.Ents[i].Name, ref.Ents[i].Value)
		}
	}
	if uint64(t.Size) != ref.Size {
		return fmt.Sprintf("size: %d vs reference %d", t.Size, ref.Size)
	}
	if uint64(t.MaxSize) != ref.Max {
		return fmt.Sprintf("maxSize: %d vs reference %d", t.MaxSize, ref.Max)
	}
	return ""
}

func diffClass(d string) string {
	if i := strings.IndexByte(d, ':'); i > 0 {
		return d[:i]
	}
	return d
}

// singleCut marks a cut description that is not a bit mask but "one cut after
// octet (cuts &^ singleCut)" — needed for blocks longer than 32 octets.
const singleCut = 1 << 31

func isCut(cuts uint32, i int) bool {
	if cuts&singleCut != 0 {
		return int(cuts&^singleCut) == i
	}
	return i < 31 && cuts&(1<<uint(i)) != 0
}

// cutList renders a cut description as fragment lengths.
func cutList(n int, cuts uint32) []int {
	var out []int
	start := 0
	for i := 0; i < n; i++ {
		if i == n-1 || isCut(cuts, i) {
			out = append(out, i+1-start)
			start = i + 1
		}
	}
	return out
}

// fragmentClosure decodes block under every cut set in masks and compares with
// the unfragmented observation whole. It returns the number of decodes and the
// first differing cut set (ok=false).
func fragmentClosure(pre *hpack.Decoder, block []byte, whole obs, full bool) (n int, bad uint32, what string, ok bool) {
	L := len(block)
	if L < 2 {
		return 0, 0, "", true
	}
	check := func(m uint32) (string, bool) {
		o := fragRunner.run(pre, block, m)
		n++
		switch {
		case o.panic != "":
			return "panic: " + o.panic, false
		case o.ok != whole.ok:
			return fmt.Sprintf("verdict: accepted=%v (err %q) vs unfragmented accepted=%v (err %q)", o.ok, o.err(), whole.ok, whole.err()), false
		case !sameFields(o.fields, whole.fields):
			return fmt.Sprintf("fields: %s vs unfragmented %s", fieldsString(o.fields), fieldsString(whole.fields)), false
		case o.tabHash != whole.tabHash:
			return fmt.Sprintf("table: %d entries/size %d/max %d vs unfragmented %d/%d/%d", o.n, o.size, o.max, whole.n, whole.size, whole.max), false
		case o.overMax != "":
			return "size: " + o.overMax, false
		}
		return "", true
	}
	if full {
		for m := uint32(1); m < 1<<uint(L-1); m++ {
			if w, ok := check(m); !ok {
				return n, m, w, false
			}
		}
		return n, 0, "", true
	}
	// light mode: every single cut (blocks longer than 96 octets: the cuts within the first and the
	// last 12 octets and at every 1024th octet), every octet on its own (blocks up to 32 octets)
	for i := 0; i < L-1; i++ {
		if L > 96 && i >= 12 && i < L-13 && i%1024 != 0 {
			continue
		}
		if w, ok := check(uint32(i) | singleCut); !ok {
			return n, uint32(i) | singleCut, w, false
		}
	}
	if L > 2 && L <= 32 {
		all := uint32(1)<<uint(L-1) - 1
		if w, ok := check(all); !ok {
			return n, all, w, false
		}
	}
	return n, 0, "", true
}

// ---------------------------------------------------------------- TestCheck

func TestCheck(t *testing.T) {
	rep := ev.New("C18", "model_checking")
	defer rep.Write()
	if u := hpack.VerifC18UnknownFields(); len(u) > 0 {
		// the hand-written copy / key code (fast) does not know these fields: this run copies and keys the codec
		// objects by reflection over every field instead (verif/deep) - slower, the ids in the key are not
		// normalised (more states), nothing is merged or dropped
		genericState = true
		rep.Info["state_copy"] = fmt.Sprintf("generic (reflection over every field) because the codec structures have fields the hand-written copy does not know: %v", u)
	} else {
		rep.Info["state_copy"] = "hand-written copy and key of (dynamic table, index maps, carried flags); the field list is checked by reflection at start-up"
	}
	shard, of := mc.ShardFromEnv()
	h := &harness{rep: rep, shard: shard, of: of, seenSig: map[string]int{}, start: time.Now()}
	budget := 75 * time.Second
	if ev.Thorough() {
		budget = 13 * time.Minute
	}
	h.deadline = h.start.Add(budget)
	if err := hpackref.ValidateData(); err != nil {
		rep.HarnessError("reference data invalid: %v", err)
		return
	}
	rep.Info["rule"] = "P1: BFS over codec states (canonical key = encoder table+minSize+limit+pending-update flag, decoder table+allowed+firstField); " +
		"transition = (schedule of table-size changes, header block over the field alphabet); P2/P5: every octet string up to the stated length over the stated alphabet " +
		"after each table prefix, then every cut set; P4: every octet string / symbol string up to the stated length. " +
		"distinct_nontrivial = distinct feature signatures (part, table prefix, reference verdict and reason, sequence of representation kinds, eviction/Huffman/size-update flags) of cases that are not the plain empty/default case"
	rep.Assume(
		"Huffman code table DATA (256 code/length pairs) is taken from golang.org/x/net/http2/hpack v0.19.0 through AppendHuffmanString/HuffmanEncodeLength and checked for the structural facts of RFC 7541 App. B (lengths 5..30, prefix-free, complete with EOS = 30 ones, 11 codes quoted from the RFC); static table typed from App. A and cross-checked against x/net's decoder",
		"where RFC 7541 leaves the decision to the implementation (size update after a field or a third consecutive one; integers with more than 5 continuation octets or above 2^32-1; strings beyond a configured SetMaxStringLength) the reference admits both acceptance with the RFC result and rejection",
		"on a rejected block only the verdict (and, for fragment independence, the fields emitted before it) is compared, not the error text",
		"the decoder is exercised with emit enabled; SetEmitEnabled(false) is outside the statement")
	defer func() {
		if r := recover(); r != nil {
			rep.HarnessError("harness panic: %v", r)
		}
	}()
	only := os.Getenv("C18_ONLY")
	timed := func(name, tag string, f func()) {
		if only != "" && !strings.Contains(only, tag) {
			return
		}
		t0 := time.Now()
		f()
		rep.SetMax("max_shard_ms_"+name, time.Since(t0).Milliseconds())
	}
	timed("P4_huffman", "4", func() { partHuffman(h) })
	timed("P2a_P2c_decoder", "2", func() { partDecoder(h, "early") })
	timed("P1_roundtrip_bfs", "1", func() { partRoundTrip(h) })
	timed("P6_encoder_integers", "6", func() { partEncoderIntegers(h) })
	timed("P7_retained_results", "7", func() { partRetained(h) })
	timed("P2b_P5_decoder", "2", func() { partDecoder(h, "late") })
	rep.Add("wall_ms_shard", time.Since(h.start).Milliseconds())
}

// genericState: copy and key the codec objects by reflection (set when the structures have unknown fields).
var genericState bool

func cloneDecoder(d *hpack.Decoder, emit func(hpack.HeaderField)) *hpack.Decoder {
	if !genericState {
		return hpack.VerifC18CloneDecoder(d, emit)
	}
	c := deep.Clone(d)
	c.SetEmitFunc(emit)
	return c
}

func cloneEncoder(e *hpack.Encoder, w io.Writer) *hpack.Encoder {
	if !genericState {
		return hpack.VerifC18CloneEncoder(e, w)
	}
	c := deep.Clone(e)
	hpack.VerifC18SetEncoderWriter(c, w)
	return c
}

func restoreDecoder(dst, src *hpack.Decoder) {
	if !genericState {
		hpack.VerifC18RestoreDecoder(dst, src)
		return
	}
	emit := hpack.VerifC18DecoderEmit(dst)
	*dst = *deep.Clone(src)
	dst.SetEmitFunc(emit)
}
