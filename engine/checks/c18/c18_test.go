//go:build verif

// C18 — HPACK codec round-trips and decodes exactly per RFC 7541.
//
// Seam: github.com/wi1dcard/fingerproxy/pkg/http2/hpack (the in-repo copy) with
// an export shim for the private dynamic tables (_inpkg/hpack/zz_verif_c18_export.go).
// Reference: verif/ref/hpackref (own RFC 7541 model; Huffman code DATA and a
// static-table cross-check come from x/net v0.19.0's exported API).
//
// Parts (all exhaustive within the stated bounds, no sampling):
//
//	P1 roundtrip.go  explicit-state BFS over (encoder state, decoder state): transitions = (table-size
//	                 change schedule, header block); every transition: encoder output decoded by the real
//	                 decoder AND by the reference, fields/sensitivity equal, encoder table == decoder table
//	                 == reference table, size bounds, fragment closure of the block.
//	P2 decoder.go    the real decoder against the reference on every byte string up to a length over all
//	                 256 octets and over a 16-octet alphabet, after each of 3 table prefixes, plus
//	                 fragment independence over EVERY cut set.
//	P4 huffman.go    Huffman decoder on every short octet string, encoder on every short symbol string.
//	P5 decoder.go    the same decoder enumeration with SetMaxStringLength (implementation limit of RFC 7541 s5.1).
package c18

import (
	"encoding/hex"
	"encoding/json"
	"fmt"
	"hash/fnv"
	"os"
	"regexp"
	"strings"
	"testing"
	"time"

	"github.com/wi1dcard/fingerproxy/pkg/http2/hpack"
	"verif/ev"
	"verif/mc"
	"verif/ref/hpackref"
)

type F = hpackref.Field

// ---------------------------------------------------------------- reporting

type harness struct {
	rep       *ev.Report
	shard, of int
	seenSig   map[string]int
	start     time.Time
	deadline  time.Time
	capped    bool
}

var digits = regexp.MustCompile(`[0-9]+`)

// errClass normalises an error / panic text so that it can be part of a signature.
func errClass(v any) string {
	if v == nil {
		return ""
	}
	s := fmt.Sprint(v)
	s = digits.ReplaceAllString(s, "N")
	if len(s) > 90 {
		s = s[:90]
	}
	return s
}

// violate reports a violation once per signature after confirming it 5 times.
func (h *harness) violate(sig map[string]any, replay any, confirm func() string, format string, a ...any) {
	b, _ := json.Marshal(sig)
	key := string(b)
	h.rep.Add("violating_cases", 1)
	h.seenSig[key]++
	if h.seenSig[key] > 1 {
		return
	}
	if confirm != nil {
		for i := 0; i < 5; i++ {
			if got := confirm(); got != key {
				h.rep.HarnessError("violation did not reproduce 5/5 (run %d gave %q): sig=%s %s", i, got, key, fmt.Sprintf(format, a...))
				return
			}
		}
	}
	h.rep.Violate(sig, replay, format, a...)
}

func sigKey(sig map[string]any) string {
	if sig == nil {
		return ""
	}
	b, _ := json.Marshal(sig)
	return string(b)
}

func (h *harness) timeUp() bool {
	if h.capped {
		return true
	}
	if time.Now().After(h.deadline) {
		h.capped = true
		h.rep.NotExhaustive("time budget reached")
	}
	return h.capped
}

func hx(b []byte) string {
	if len(b) > 64 {
		return hex.EncodeToString(b[:64]) + fmt.Sprintf("…(%d bytes)", len(b))
	}
	return hex.EncodeToString(b)
}

func fieldsString(fs []F) string {
	var sb strings.Builder
	sb.WriteByte('[')
	for i, f := range fs {
		if i > 0 {
			sb.WriteByte(' ')
		}
		v := f.Value
		if len(v) > 24 {
			v = fmt.Sprintf("%s…(%d)", v[:8], len(v))
		}
		if f.Sensitive {
			sb.WriteByte('!')
		}
		fmt.Fprintf(&sb, "%q=%q", f.Name, v)
	}
	sb.WriteByte(']')
	return sb.String()
}

func h64(parts ...string) uint64 {
	h := fnv.New64a()
	for _, p := range parts {
		h.Write([]byte(p))
		h.Write([]byte{0})
	}
	return h.Sum64()
}

// ---------------------------------------------------------------- running the real decoder

// obs is what one decode of one block by the real decoder shows.
type obs struct {
	ok     bool   // every Write and Close returned nil
	err    string // class of the first error
	at     string // "write" or "close"
	panic  string
	fields []F
	// table after the block
	tabHash uint64
	n       int
	size    uint32
	max     uint32
	allowed uint32
	// "never lets the dynamic table grow beyond the size permitted at that moment":
	// checked at every emit callback and at the end
	overMax string
}

func tableHashDec(d *hpack.Decoder) (uint64, int, uint32, uint32, uint32) {
	n, size, max, allowed := hpack.VerifC18DecoderQuick(d)
	h := fnv.New64a()
	var b [12]byte
	put := func(o int, v uint32) { b[o], b[o+1], b[o+2], b[o+3] = byte(v), byte(v>>8), byte(v>>16), byte(v>>24) }
	put(0, size)
	put(4, max)
	put(8, allowed)
	h.Write(b[:])
	for _, e := range hpack.VerifC18DecoderEnts(d) {
		h.Write([]byte(e.Name))
		h.Write([]byte{0})
		h.Write([]byte(e.Value))
		h.Write([]byte{1})
	}
	return h.Sum64(), n, size, max, allowed
}

// runDecoder feeds block to a clone of pre, cut at the positions in cuts
// (bit i of cuts set = cut after octet i), then Close.
func runDecoder(pre *hpack.Decoder, block []byte, cuts uint32, keepFields bool) (o obs) {
	var d *hpack.Decoder
	var fh uint64 = 14695981039346656037
	defer func() {
		if r := recover(); r != nil {
			o.ok = false
			o.panic = errClass(r)
		}
		if !keepFields {
			// fold the emitted fields into tabHash's companion: stored in size-independent field
			o.fields = nil
		}
		_ = fh
	}()
	d = hpack.VerifC18CloneDecoder(pre, nil)
	d.SetEmitFunc(func(f hpack.HeaderField) {
		o.fields = append(o.fields, F{Name: f.Name, Value: f.Value, Sensitive: f.Sensitive})
		if _, size, max, _ := hpack.VerifC18DecoderQuick(d); size > max && o.overMax == "" {
			o.overMax = fmt.Sprintf("at emit of field %d: size %d > maxSize %d", len(o.fields), size, max)
		}
	})
	o.ok = true
	start := 0
	for i := 0; i < len(block) && o.ok; i++ {
		if i == len(block)-1 || cuts&(1<<uint(i)) != 0 {
			if _, err := d.Write(block[start : i+1]); err != nil {
				o.ok, o.err, o.at = false, errClass(err), "write"
			}
			start = i + 1
		}
	}
	if o.ok {
		if err := d.Close(); err != nil {
			o.ok, o.err, o.at = false, errClass(err), "close"
		}
	}
	o.tabHash, o.n, o.size, o.max, o.allowed = tableHashDec(d)
	if o.size > o.max && o.overMax == "" {
		o.overMax = fmt.Sprintf("after the block: size %d > maxSize %d", o.size, o.max)
	}
	var sum uint32
	for _, e := range hpack.VerifC18DecoderEnts(d) {
		sum += uint32(len(e.Name)+len(e.Value)) + 32
	}
	if sum != o.size && o.overMax == "" {
		o.overMax = fmt.Sprintf("after the block: recorded size %d but entries add up to %d (maxSize %d)", o.size, sum, o.max)
	}
	return o
}

func sameFields(a, b []F) bool {
	if len(a) != len(b) {
		return false
	}
	for i := range a {
		if a[i] != b[i] {
			return false
		}
	}
	return true
}

// tableDiff compares a real table dump with the reference table; "" = identical.
func tableDiff(t hpack.VerifC18Table, ref *hpackref.Table) string {
	if len(t.Ents) != len(ref.Ents) {
		return fmt.Sprintf("len: %d entries vs reference %d", len(t.Ents), len(ref.Ents))
	}
	for i := range ref.Ents {
		e := t.Ents[len(t.Ents)-1-i] // newest first
		if e.Name != ref.Ents[i].Name || e.Value != ref.Ents[i].Value {
			return fmt.Sprintf("entry: index %d is %q=%q vs reference %q=%q", 62+i, e.Name, e.Value, ref.Ents[i].Name, ref.Ents[i].Value)
		}
	}
	if uint64(t.Size) != ref.Size {
		return fmt.Sprintf("size: %d vs reference %d", t.Size, ref.Size)
	}
	if uint64(t.MaxSize) != ref.Max {
		return fmt.Sprintf("maxSize: %d vs reference %d", t.MaxSize, ref.Max)
	}
	return ""
}

func diffClass(d string) string {
	if i := strings.IndexByte(d, ':'); i > 0 {
		return d[:i]
	}
	return d
}

// cutList renders a cut mask as fragment lengths.
func cutList(n int, cuts uint32) []int {
	var out []int
	start := 0
	for i := 0; i < n; i++ {
		if i == n-1 || cuts&(1<<uint(i)) != 0 {
			out = append(out, i+1-start)
			start = i + 1
		}
	}
	return out
}

// fragmentClosure decodes block under every cut set in masks and compares with
// the unfragmented observation whole. It returns the number of decodes and the
// first differing cut set (ok=false).
func fragmentClosure(pre *hpack.Decoder, block []byte, whole obs, full bool) (n int, bad uint32, what string, ok bool) {
	L := len(block)
	if L < 2 {
		return 0, 0, "", true
	}
	check := func(m uint32) (string, bool) {
		o := runDecoder(pre, block, m, true)
		n++
		switch {
		case o.panic != "":
			return "panic: " + o.panic, false
		case o.ok != whole.ok:
			return fmt.Sprintf("verdict: accepted=%v (err %q) vs unfragmented accepted=%v (err %q)", o.ok, o.err, whole.ok, whole.err), false
		case !sameFields(o.fields, whole.fields):
			return fmt.Sprintf("fields: %s vs unfragmented %s", fieldsString(o.fields), fieldsString(whole.fields)), false
		case o.tabHash != whole.tabHash:
			return fmt.Sprintf("table: %d entries/size %d/max %d vs unfragmented %d/%d/%d", o.n, o.size, o.max, whole.n, whole.size, whole.max), false
		case o.overMax != "":
			return "size: " + o.overMax, false
		}
		return "", true
	}
	if full {
		for m := uint32(1); m < 1<<uint(L-1); m++ {
			if w, ok := check(m); !ok {
				return n, m, w, false
			}
		}
		return n, 0, "", true
	}
	// light mode: every single cut, every octet on its own
	for i := 0; i < L-1; i++ {
		if w, ok := check(1 << uint(i)); !ok {
			return n, 1 << uint(i), w, false
		}
	}
	if L > 2 && L <= 32 {
		all := uint32(1)<<uint(L-1) - 1
		if w, ok := check(all); !ok {
			return n, all, w, false
		}
	}
	return n, 0, "", true
}

// ---------------------------------------------------------------- TestCheck

func TestCheck(t *testing.T) {
	rep := ev.New("C18", "model_checking")
	defer rep.Write()
	shard, of := mc.ShardFromEnv()
	h := &harness{rep: rep, shard: shard, of: of, seenSig: map[string]int{}, start: time.Now()}
	budget := 75 * time.Second
	if ev.Thorough() {
		budget = 13 * time.Minute
	}
	h.deadline = h.start.Add(budget)
	if err := hpackref.ValidateData(); err != nil {
		rep.HarnessError("reference data invalid: %v", err)
		return
	}
	rep.Info["rule"] = "P1: BFS over codec states (canonical key = encoder table+minSize+limit+pending-update flag, decoder table+allowed+firstField); " +
		"transition = (schedule of table-size changes, header block over the field alphabet); P2/P5: every octet string up to the stated length over the stated alphabet " +
		"after each table prefix, then every cut set; P4: every octet string / symbol string up to the stated length. " +
		"distinct_nontrivial = distinct feature signatures (part, table prefix, reference verdict and reason, sequence of representation kinds, eviction/Huffman/size-update flags) of cases that are not the plain empty/default case"
	rep.Assume(
		"Huffman code table DATA (256 code/length pairs) is taken from golang.org/x/net/http2/hpack v0.19.0 through AppendHuffmanString/HuffmanEncodeLength and checked for the structural facts of RFC 7541 App. B (lengths 5..30, prefix-free, complete with EOS = 30 ones, 11 codes quoted from the RFC); static table typed from App. A and cross-checked against x/net's decoder",
		"where RFC 7541 leaves the decision to the implementation (size update after a field or a third consecutive one; integers with more than 5 continuation octets or above 2^32-1; strings beyond a configured SetMaxStringLength) the reference admits both acceptance with the RFC result and rejection",
		"on a rejected block only the verdict (and, for fragment independence, the fields emitted before it) is compared, not the error text",
		"the decoder is exercised with emit enabled; SetEmitEnabled(false) is outside the statement")
	defer func() {
		if r := recover(); r != nil {
			rep.HarnessError("harness panic: %v", r)
		}
	}()
	only := os.Getenv("C18_ONLY")
	if only == "" || strings.Contains(only, "4") {
		partHuffman(h)
	}
	if only == "" || strings.Contains(only, "2") {
		partDecoder(h)
	}
	if only == "" || strings.Contains(only, "1") {
		partRoundTrip(h)
	}
	rep.Add("wall_ms_shard", time.Since(h.start).Milliseconds())
}
