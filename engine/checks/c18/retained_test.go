//go:build verif

package c18

import (
	"fmt"
	"strings"

	"github.com/wi1dcard/fingerproxy/pkg/http2/hpack"
	"verif/ev"
	"verif/ref/hpackref"
)

// Part P7: what the codec handed out stays what it was. A field list returned by DecodeFull, a field passed to the emit
// function and a string returned by HuffmanDecodeToString belong to the caller: no later call on the same Decoder, on
// another Decoder or on the package-level Huffman functions may change them. Every sequence of up to 3 (quick) / 4
// (thorough) calls over the alphabet below is made on one Decoder, every result is copied (deep, fresh strings) when it
// is handed out and compared with its copy and with the reference after every later call.
//
// The part uses no clone/state-key code, so it stays valid when the Decoder grows a field.

type p7call struct {
	name  string
	block []byte // DecodeFull / Write+Close input; nil for the Huffman call
	huff  []byte // input of HuffmanDecodeToString
	emit  bool   // use Write+Close with an emit function instead of DecodeFull
}

type p7held struct {
	by    string
	live  []hpack.HeaderField // the slice as handed out (never copied)
	want  []hpack.HeaderField // deep copy taken at hand-out time
	liveS string
	wantS string
}

func p7copy(l []hpack.HeaderField) []hpack.HeaderField {
	out := make([]hpack.HeaderField, len(l))
	for i, f := range l {
		out[i] = hpack.HeaderField{Name: strings.Clone(f.Name), Value: strings.Clone(f.Value), Sensitive: f.Sensitive}
	}
	return out
}

func p7same(a, b []hpack.HeaderField) bool {
	if len(a) != len(b) {
		return false
	}
	for i := range a {
		if a[i] != b[i] {
			return false
		}
	}
	return true
}

func p7alphabet() []p7call {
	lit := func(fs ...[2]string) []byte {
		var b []byte
		for _, f := range fs {
			b = append(b, 0x00, byte(len(f[0])))
			b = append(b, f[0]...)
			b = append(b, byte(len(f[1])))
			b = append(b, f[1]...)
		}
		return b
	}
	hv := hpackref.HuffmanEncode("zebra")
	huffLit := append([]byte{0x00, 0x01, 'h', 0x80 | byte(len(hv))}, hv...)
	return []p7call{
		{name: "DecodeFull(3 literal fields)", block: lit([2]string{"a", "1"}, [2]string{"b", "2"}, [2]string{"c", "3"})},
		{name: "DecodeFull(1 literal field)", block: lit([2]string{"x", "long-value-xxxxxxxxxxxxxxxxxxxxxxxx"})},
		{name: "DecodeFull(2 indexed static fields)", block: []byte{0x82, 0x87}},
		{name: "DecodeFull(incremental a2: v, then index 62)", block: []byte{0x40, 0x02, 'a', '2', 0x01, 'v', 0xbe}},
		{name: "DecodeFull(Huffman value)", block: huffLit},
		{name: "DecodeFull(empty block)", block: []byte{}},
		{name: "DecodeFull(field, then index 0: rejected)", block: append(lit([2]string{"e", "5"}), 0x80)},
		{name: "Write+Close(2 literal fields) with emit", block: lit([2]string{"p", "7"}, [2]string{"q", "8"}), emit: true},
		{name: "HuffmanDecodeToString(\"mango\")", huff: hpackref.HuffmanEncode("mango")},
		{name: "HuffmanDecodeToString(\"\")", huff: []byte{}},
	}
}

func partRetained(h *harness) {
	alpha := p7alphabet()
	depth := 3
	if ev.Thorough() {
		depth = 4
	}
	h.rep.Info["P7"] = map[string]any{"alphabet": len(alpha), "depth": depth,
		"oracle": "every result handed out equals the reference result for its call and equals its own copy after every later call"}
	n := 0
	var rec func(seq []int)
	run := func(seq []int) (sig map[string]any, what string) {
		d := hpack.NewDecoder(4096, nil)
		ref := hpackref.NewTable(4096)
		var held []p7held
		var namesSoFar []string
		for _, ci := range seq {
			c := alpha[ci]
			namesSoFar = append(namesSoFar, c.name)
			switch {
			case c.block == nil:
				s, err := hpack.HuffmanDecodeToString(c.huff)
				want, _ := hpackref.HuffmanDecode(c.huff)
				if err != nil || s != want {
					return map[string]any{"kind": "wrong-result-in-sequence", "call": "HuffmanDecodeToString"}, fmt.Sprintf("%v: returned %q, %v; the reference decodes %q", namesSoFar, s, err, want)
				}
				held = append(held, p7held{by: c.name, liveS: s, wantS: strings.Clone(s)})
			default:
				var got []hpack.HeaderField
				var err error
				if c.emit {
					var l []hpack.HeaderField
					d.SetEmitFunc(func(f hpack.HeaderField) { l = append(l, f) })
					_, err = d.Write(c.block)
					if err == nil {
						err = d.Close()
					}
					got = l
				} else {
					got, err = d.DecodeFull(c.block)
				}
				r := hpackref.DecodeBlock(ref, c.block)
				if r.Accept != (err == nil) {
					return map[string]any{"kind": "wrong-result-in-sequence", "call": "verdict"}, fmt.Sprintf("%v: error %v, the reference accepts=%v (%s)", namesSoFar, err, r.Accept, r.Reason)
				}
				if err != nil {
					// a rejected block ends the connection: a fresh decoder and table for what follows
					d = hpack.NewDecoder(4096, nil)
					ref = hpackref.NewTable(4096)
					continue
				}
				var want []hpack.HeaderField
				for _, f := range r.Fields {
					want = append(want, hpack.HeaderField{Name: f.Name, Value: f.Value, Sensitive: f.Sensitive})
				}
				if !p7same(got, want) {
					return map[string]any{"kind": "wrong-result-in-sequence", "call": "fields"}, fmt.Sprintf("%v: returned %v, RFC 7541 gives %v", namesSoFar, got, want)
				}
				held = append(held, p7held{by: c.name, live: got, want: p7copy(got)})
			}
			for _, x := range held {
				if !p7same(x.live, x.want) || x.liveS != x.wantS {
					return map[string]any{"kind": "handed-out-result-changed-by-later-call"},
						fmt.Sprintf("after %v the result handed out by %s reads %v%q, it was %v%q", namesSoFar, x.by, x.live, x.liveS, x.want, x.wantS)
				}
			}
		}
		return nil, ""
	}
	rec = func(seq []int) {
		if len(seq) > 0 {
			n++
			if n%h.of == h.shard {
				h.rep.Add("evaluations", 1)
				h.rep.Add("cases P7 call sequences", 1)
				if sig, what := run(seq); sig != nil {
					sig["part"] = "retained-results"
					var names []string
					for _, i := range seq {
						names = append(names, alpha[i].name)
					}
					s2 := append([]int(nil), seq...)
					h.violate(sig, map[string]any{"calls": names}, func() string {
						g, _ := run(s2)
						if g != nil {
							g["part"] = "retained-results"
						}
						return sigKey(g)
					}, "%s", what)
				}
			}
		}
		if len(seq) == depth {
			return
		}
		for i := range alpha {
			rec(append(seq, i))
		}
	}
	rec(nil)
}
