//go:build verif

package c18

import (
	"fmt"
	"strings"

	"github.com/wi1dcard/fingerproxy/pkg/http2/hpack"
	"verif/ev"
	"verif/ref/hpackref"
)

// prefixState is a decoder (real + reference) brought to a table state by a
// fixed script; every test input is decoded as the NEXT header block.
type prefixState struct {
	name   string
	script string
	dec    *hpack.Decoder
	ref    *hpackref.Table
	maxStr int // SetMaxStringLength in force (0 = none)
}

// alphabet for the long strings (P2b): every representation class, the index
// boundaries 61/62/63/64 of the three prefix widths that fit one octet, prefix-full
// octets that need continuation (3f 7f ff), string length octets with and
// without the Huffman bit, a printable octet.
var alpha16 = []byte{0x00, 0x01, 0x10, 0x20, 0x21, 0x3f, 0x40, 0x41, 0x61, 0x7e, 0x7f, 0x81, 0xbe, 0xbf, 0xc0, 0xff}

// alpha14 = alpha16 without 10 (never-indexed: same parse path as 00 apart from the flag) and 7e
// (name index 62 with a 6-bit prefix; 7f 00 / be / bf / c0 stay): the longest strings (DESIGN: 14 octets)
var alpha14 = []byte{0x00, 0x01, 0x20, 0x21, 0x3f, 0x40, 0x41, 0x61, 0x7f, 0x81, 0xbe, 0xbf, 0xc0, 0xff}

func buildPrefixes(h *harness, maxStr int) []*prefixState {
	type stepT struct {
		block   []byte
		allowed int // >=0: SETTINGS change before the block
	}
	scripts := []struct {
		name  string
		steps []stepT
	}{
		{"empty", nil},
		{"two-entries", []stepT{{[]byte{0x40, 1, 'a', 1, 'b', 0x40, 1, 'c', 1, 'd'}, -1}}},
		{"filled-then-shrunk-to-64", []stepT{
			{[]byte{0x40, 1, 'a', 1, 'b', 0x40, 1, 'c', 1, 'd', 0x41, 1, 'e'}, -1},
			{[]byte{0x3f, 0x21, 0xbe}, 64}}},
		// a table that holds exactly its one entry (34 octets): the next insertion evicts it, and an entry larger than
		// the whole table (41 01 61: :authority with a one-octet value, 43 octets) must leave the table empty (RFC 7541 4.4)
		{"full-table-of-34", []stepT{{[]byte{0x3f, 0x03, 0x40, 1, 'a', 1, 'b'}, 34}}},
	}
	var out []*prefixState
	for _, sc := range scripts {
		ps := &prefixState{name: sc.name, maxStr: maxStr}
		ps.dec = hpack.NewDecoder(4096, func(hpack.HeaderField) {})
		ps.ref = hpackref.NewTable(4096)
		var desc []string
		okAll := true
		for _, st := range sc.steps {
			if st.allowed >= 0 {
				ps.dec.SetAllowedMaxDynamicTableSize(uint32(st.allowed))
				ps.ref.Limit = uint64(st.allowed)
				desc = append(desc, fmt.Sprintf("SETTINGS_HEADER_TABLE_SIZE=%d", st.allowed))
			}
			desc = append(desc, "block "+hx(st.block))
			// the prefix blocks are themselves cases
			pre := &prefixState{name: sc.name + "/setup", dec: ps.dec, ref: ps.ref}
			c := evalCase(pre, st.block)
			if c.sig != nil {
				h.violate(c.sig, map[string]any{"prefix_script": desc}, nil, "while building table prefix %q: %s", sc.name, c.what)
				okAll = false
				break
			}
			if _, err := ps.dec.Write(st.block); err != nil {
				okAll = false
			}
			if err := ps.dec.Close(); err != nil {
				okAll = false
			}
			hpackref.DecodeBlock(ps.ref, st.block)
		}
		if !okAll {
			continue
		}
		if d := tableDiff(hpack.VerifC18DecoderTable(ps.dec), ps.ref); d != "" {
			h.rep.HarnessError("prefix %s: tables differ after a clean setup: %s", sc.name, d)
			continue
		}
		if maxStr > 0 {
			ps.dec.SetMaxStringLength(maxStr)
			desc = append(desc, fmt.Sprintf("SetMaxStringLength(%d)", maxStr))
		}
		ps.script = strings.Join(desc, "; ")
		out = append(out, ps)
	}
	return out
}

type caseResult struct {
	sig   map[string]any
	what  string
	whole obs
	res   hpackref.Result
	evict bool
}

// longestString returns the largest encoded or decoded string-literal length and
// the largest emitted name/value length of an accepted reference result.
func longestString(res hpackref.Result) int {
	m := 0
	for _, f := range res.Fields {
		m = max(m, len(f.Name), len(f.Value))
	}
	for _, r := range res.Reps {
		m = max(m, r.MaxStr)
	}
	return m
}

// evalCase decodes input as one block with the real decoder (unfragmented) and
// the reference and compares. sig == nil: the real result is admissible.
func evalCase(ps *prefixState, input []byte) (c caseResult) {
	c.whole = wholeRunner.run(ps.dec, input, 0)
	ref := ps.ref.Clone()
	ev0 := ref.Evictions
	c.res = hpackref.DecodeBlock(ref, input)
	c.evict = ref.Evictions > ev0
	o, res := c.whole, c.res
	either := res.Either
	if ps.maxStr > 0 && res.Accept && either == "" && longestString(res) > ps.maxStr {
		either = "string-beyond-configured-max-length"
	}
	repKind := func(i int) string {
		if i >= 0 && i < len(res.Reps) {
			return res.Reps[i].Kind
		}
		return "-"
	}
	switch {
	case o.panic != "":
		c.sig = map[string]any{"part": "decoder", "kind": "panic", "panic": o.panic}
		c.what = fmt.Sprintf("decoder panicked on block %s (table prefix %s): %s", hx(input), ps.name, o.panic)
	case o.overMax != "":
		c.sig = map[string]any{"part": "decoder", "kind": "table-exceeds-permitted-size", "detail": o.overClass}
		c.what = fmt.Sprintf("block %s (table prefix %s): dynamic table beyond the permitted size %s", hx(input), ps.name, o.overMax)
	case !res.Accept && o.ok:
		c.sig = map[string]any{"part": "decoder", "kind": "accepts-invalid-block", "rfc": res.Reason, "rep": repKind(len(res.Reps) - 1)}
		c.what = fmt.Sprintf("block %s (table prefix %s) accepted with fields %s; RFC 7541 requires a decoding error: %s in representation %d (%s)",
			hx(input), ps.name, fieldsString(o.fields), res.Reason, len(res.Reps), repKind(len(res.Reps)-1))
	case res.Accept && !o.ok && either == "":
		// which representation does the real decoder stumble on
		shape := "at-close"
		for i := range res.Reps {
			if p := runDecoder(ps.dec, input[:res.Reps[i].End], 0); !p.ok && p.at == "write" {
				shape = repKind(i-1) + ">" + repKind(i)
				break
			}
		}
		c.sig = map[string]any{"part": "decoder", "kind": "rejects-valid-block", "impl_error": o.err(), "shape": shape}
		c.what = fmt.Sprintf("block %s (table prefix %s) rejected at %s with %q after emitting %s; RFC 7541 requires acceptance with fields %s (representations %s)",
			hx(input), ps.name, o.at, o.err(), fieldsString(o.fields), fieldsString(res.Fields), hpackref.Shape(res.Reps))
	case res.Accept && o.ok:
		if !sameFields(o.fields, res.Fields) {
			detail, kind := fieldDiff(o.fields, res)
			c.sig = map[string]any{"part": "decoder", "kind": "decodes-wrong-fields", "detail": detail, "rep": kind}
			c.what = fmt.Sprintf("block %s (table prefix %s) decoded to %s; RFC 7541 gives %s", hx(input), ps.name, fieldsString(o.fields), fieldsString(res.Fields))
			break
		}
		// table after the block
		if diff := tableDiff(hpack.VerifC18DecoderTable(o.dec), ref); diff != "" {
			c.sig = map[string]any{"part": "decoder", "kind": "decoder-table-wrong", "diff": diffClass(diff)}
			c.what = fmt.Sprintf("block %s (table prefix %s) decoded to the right fields but the dynamic table afterwards is wrong: %s", hx(input), ps.name, diff)
		} else if uint64(o.max) > ref.Limit {
			c.sig = map[string]any{"part": "decoder", "kind": "maxsize-above-limit"}
			c.what = fmt.Sprintf("block %s (table prefix %s): maxSize %d above the permitted %d", hx(input), ps.name, o.max, ref.Limit)
		}
	}
	return c
}

// fieldDiff names the first difference between emitted fields and the
// reference's and the kind of representation that produced it.
func fieldDiff(got []F, res hpackref.Result) (detail, kind string) {
	fi := 0
	for _, r := range res.Reps {
		if r.Kind == "U" {
			continue
		}
		if fi >= len(got) || fi >= len(res.Fields) {
			break
		}
		if got[fi] != res.Fields[fi] {
			switch {
			case got[fi].Name != res.Fields[fi].Name:
				return "name", r.Kind
			case got[fi].Value != res.Fields[fi].Value:
				return "value", r.Kind
			}
			return "sensitive", r.Kind
		}
		fi++
	}
	return "count", "-"
}

var reasonCode = map[string]uint64{"": 0, "truncated": 1, "index-0": 2, "index-beyond-table": 3, "size-update-above-limit": 4,
	hpackref.HuffEOS: 5, hpackref.HuffPadLong: 6, hpackref.HuffPadNotOnes: 7,
	"integer-beyond-must-support": 8, "size-update-after-field": 9, "more-than-two-size-updates": 10, "string-beyond-configured-max-length": 11}

var kindCode = map[string]uint64{"I": 1, "Li": 2, "Ln": 3, "Lv": 4, "U": 5}

// feature is the non-triviality signature of a decoder case.
func feature(pi int, c *caseResult) uint64 {
	var f uint64 = uint64(pi) & 7
	if c.res.Accept {
		f |= 1 << 3
	}
	f |= reasonCode[c.res.Reason] << 4
	f |= reasonCode[c.res.Either] << 8
	if c.evict {
		f |= 1 << 12
	}
	sh := uint64(0)
	for i, r := range c.res.Reps {
		if i >= 5 {
			break
		}
		k := kindCode[r.Kind]
		if r.NameI {
			k |= 8
		}
		sh = sh<<4 | k
		if r.Huff {
			f |= 1 << 13
		}
	}
	if len(c.res.Reps) > 5 {
		f |= 1 << 14
	}
	return f | sh<<16
}

// enumerate calls fn for every string of length 0..maxLen over alphabet, in a
// fixed order, that belongs to this shard.
func enumerate(h *harness, alphabet []byte, maxLen int, counter *int64, fn func(b []byte) bool) {
	buf := make([]byte, maxLen)
	idx := make([]int, maxLen)
	for L := 0; L <= maxLen; L++ {
		for i := range idx[:L] {
			idx[i] = 0
		}
		for {
			*counter++
			if int(*counter%int64(h.of)) == h.shard {
				for j := 0; j < L; j++ {
					buf[j] = alphabet[idx[j]]
				}
				if !fn(buf[:L]) {
					return
				}
			}
			j := L - 1
			for ; j >= 0; j-- {
				idx[j]++
				if idx[j] < len(alphabet) {
					break
				}
				idx[j] = 0
			}
			if j < 0 {
				break
			}
		}
	}
}

// decodeFullCase runs Decoder.DecodeFull on a clone and compares with the reference result in c.
func decodeFullCase(ps *prefixState, in []byte, c *caseResult) (map[string]any, string) {
	var fs []hpack.HeaderField
	var err error
	pan := func() (p any) {
		defer func() { p = recover() }()
		restoreDecoder(auxRunner.d, ps.dec)
		fs, err = auxRunner.d.DecodeFull(in)
		return nil
	}()
	if pan != nil {
		auxRunner.reset()
		return map[string]any{"part": "decoder", "kind": "panic", "api": "DecodeFull", "panic": errClass(pan)}, fmt.Sprintf("DecodeFull(%s) panicked: %v", hx(in), pan)
	}
	got := make([]F, len(fs))
	for i, f := range fs {
		got[i] = F{Name: f.Name, Value: f.Value, Sensitive: f.Sensitive}
	}
	switch {
	case !c.res.Accept && err == nil:
		return map[string]any{"part": "decoder", "kind": "accepts-invalid-block", "api": "DecodeFull", "rfc": c.res.Reason}, fmt.Sprintf("DecodeFull(%s) on prefix %s returned %s; RFC 7541 requires an error: %s", hx(in), ps.name, fieldsString(got), c.res.Reason)
	case c.res.Accept && c.res.Either == "" && err != nil:
		return map[string]any{"part": "decoder", "kind": "rejects-valid-block", "api": "DecodeFull", "impl_error": errClass(err)}, fmt.Sprintf("DecodeFull(%s) on prefix %s failed with %v; RFC 7541 requires %s", hx(in), ps.name, err, fieldsString(c.res.Fields))
	case c.res.Accept && err == nil && !sameFields(got, c.res.Fields):
		return map[string]any{"part": "decoder", "kind": "decodes-wrong-fields", "api": "DecodeFull"}, fmt.Sprintf("DecodeFull(%s) on prefix %s returned %s; RFC 7541 requires %s", hx(in), ps.name, fieldsString(got), fieldsString(c.res.Fields))
	}
	return nil, ""
}

// decRun accumulates the decoder-part counters of one shard.
type decRun struct {
	h                                        *harness
	feats                                    map[uint64]struct{}
	nCases, nFrag, nAccept, nReject, nEither int64
	rechecked                                int64
}

// one evaluates one (table prefix, block) case: reference comparison + fragment closure.
func (dr *decRun) one(ps *prefixState, pi int, in []byte, fullFrag bool) {
	h := dr.h
	dr.nCases++
	c := evalCase(ps, in)
	if c.sig != nil {
		input := append([]byte(nil), in...)
		h.violate(c.sig, map[string]any{"table_prefix": ps.name, "prefix_script": ps.script, "block_hex": hx(input), "max_string_length": ps.maxStr},
			func() string { return sigKey(evalCase(ps, input).sig) }, "%s", c.what)
		return
	}
	switch {
	case !c.res.Accept:
		dr.nReject++
	case c.res.Either != "":
		dr.nEither++
	default:
		dr.nAccept++
	}
	if len(in) > 0 {
		dr.feats[feature(pi, &c)|uint64(ps.maxStr)<<60] = struct{}{}
	}
	if ps.maxStr == 0 && len(in) <= 3 {
		// the one-shot API must give the same answer as Write+Close
		if sig, what := decodeFullCase(ps, in, &c); sig != nil {
			input := append([]byte(nil), in...)
			h.violate(sig, map[string]any{"table_prefix": ps.name, "prefix_script": ps.script, "block_hex": hx(input), "api": "DecodeFull"},
				func() string { c2 := evalCase(ps, input); s, _ := decodeFullCase(ps, input, &c2); return sigKey(s) }, "%s", what)
			return
		}
	}
	if dr.nCases%50 == 0 {
		// determinism self-check (DESIGN s3 rule 2): the same case again must observe the same
		dr.rechecked++
		if o2 := auxRunner.run(ps.dec, in, 0); o2.ok != c.whole.ok || o2.tabHash != c.whole.tabHash || !sameFields(o2.fields, c.whole.fields) {
			h.rep.HarnessError("non-deterministic observation for block %s on prefix %s", hx(in), ps.name)
		}
	}
	// fragment independence
	n, bad, what, ok := fragmentClosure(ps.dec, in, c.whole, fullFrag)
	dr.nFrag += int64(n)
	if !ok {
		input := append([]byte(nil), in...)
		whole := c.whole
		sig := func(what string) map[string]any {
			return map[string]any{"part": "fragments", "kind": "fragment-dependent", "differs": diffClass(what), "unfragmented_accepts": whole.ok}
		}
		h.violate(sig(what), map[string]any{"table_prefix": ps.name, "prefix_script": ps.script, "block_hex": hx(input), "fragment_lengths": cutList(len(input), bad), "max_string_length": ps.maxStr},
			func() string {
				w := runDecoder(ps.dec, input, 0)
				_, _, what2, ok2 := fragmentClosure(ps.dec, input, w, fullFrag)
				if ok2 {
					return ""
				}
				return sigKey(sig(what2))
			},
			"block %s (table prefix %s) cut into fragments of lengths %v gives a different result than in one Write: %s", hx(input), ps.name, cutList(len(input), bad), what)
	}
}

func (dr *decRun) flush() {
	h := dr.h
	h.rep.Add("evaluations", dr.nCases+dr.nFrag)
	h.rep.Add("p2_decoder_cases", dr.nCases)
	h.rep.Add("p2_fragmented_decodes", dr.nFrag)
	h.rep.Add("p2_ref_must_accept", dr.nAccept)
	h.rep.Add("p2_ref_must_reject", dr.nReject)
	h.rep.Add("p2_ref_either", dr.nEither)
	h.rep.Add("traces_validated_against_impl", dr.nCases)
	h.rep.Add("rechecked", dr.rechecked)
	for f := range dr.feats {
		h.rep.Note("distinct_nontrivial", fmt.Sprintf("dec:%x", f))
	}
}

// hugeLimitPrefix: a decoder whose SETTINGS_HEADER_TABLE_SIZE is 2^32-1, so that every size
// update value that fits 32 bits must be accepted and shows up exactly as maxSize.
func hugeLimitPrefix() *prefixState {
	ps := &prefixState{name: "limit-2^32-1", script: "NewDecoder(4096); SETTINGS_HEADER_TABLE_SIZE=4294967295"}
	ps.dec = hpack.NewDecoder(4096, func(hpack.HeaderField) {})
	ps.dec.SetAllowedMaxDynamicTableSize(1<<32 - 1)
	ps.ref = hpackref.NewTable(4096)
	ps.ref.Limit = 1<<32 - 1
	return ps
}

// partDecoder — P2 / P5. stage "early": everything but the largest space; "late": the largest.
func partDecoder(h *harness, stage string) {
	all256 := make([]byte, 256)
	for i := range all256 {
		all256[i] = byte(i)
	}
	// integers (P2c): prefix-full first octets of every representation, continuation octets with and
	// without the continuation bit at the extremes
	alphaInt := []byte{0x00, 0x01, 0x0f, 0x3f, 0x7f, 0x80, 0x81, 0xff}
	type space struct {
		name     string
		alphabet []byte
		maxLen   int
		maxStr   int
		huge     bool // only the 2^32-1 limit prefix
		late     bool
	}
	var spaces []space
	if ev.Thorough() {
		spaces = []space{
			{"P2a all-256", all256, 3, 0, false, false},
			{"P2c integers", alphaInt, 7, 0, true, false},
			{"P2b alpha16", alpha16, 5, 0, false, true},
			{"P2b alpha14", alpha14, 6, 0, false, true},
			{"P5 all-256 maxstr=1", all256, 2, 1, false, true},
			{"P5 alpha16 maxstr=1", alpha16, 5, 1, false, true},
			{"P5 alpha16 maxstr=2", alpha16, 5, 2, false, true},
		}
	} else {
		spaces = []space{
			{"P2a all-256", all256, 2, 0, false, false},
			{"P2c integers", alphaInt, 6, 0, true, false},
			{"P2b alpha16", alpha16, 5, 0, false, true},
			{"P5 all-256 maxstr=1", all256, 2, 1, false, true},
			{"P5 alpha16 maxstr=1", alpha16, 4, 1, false, true},
			{"P5 alpha16 maxstr=2", alpha16, 4, 2, false, true},
		}
	}
	h.rep.Info["p2_alphabet16"] = hx(alpha16)
	h.rep.Info["p2_alphabet14"] = hx(alpha14)
	h.rep.Info["p2c_alphabet"] = hx(alphaInt)
	dr := &decRun{h: h, feats: map[uint64]struct{}{}}
	defer dr.flush()
	var counter int64
	prefixCache := map[int][]*prefixState{}
	for _, sp := range spaces {
		if sp.late != (stage == "late") {
			continue
		}
		if _, ok := prefixCache[sp.maxStr]; !ok {
			prefixCache[sp.maxStr] = buildPrefixes(h, sp.maxStr)
		}
		prefixes := prefixCache[sp.maxStr]
		base := 0
		if sp.huge {
			prefixes = []*prefixState{hugeLimitPrefix()}
			base = 3
		}
		h.rep.Info["bound "+sp.name] = fmt.Sprintf("all octet strings of length <= %d over %d octets x %d table prefixes x every cut set", sp.maxLen, len(sp.alphabet), len(prefixes))
		before := dr.nCases
		var tick int64
		enumerate(h, sp.alphabet, sp.maxLen, &counter, func(in []byte) bool {
			if tick&0xffff == 0 {
				if h.timeUp() {
					return false
				}
				ev.Journal("%s input %s", sp.name, hx(in))
			}
			tick++
			for pi, ps := range prefixes {
				dr.one(ps, base+pi, in, true)
			}
			return true
		})
		h.rep.Add("cases "+sp.name, dr.nCases-before)
		if len(prefixes) > 0 && h.shard == 0 {
			// one actual case of this space, written out with what both sides said
			ps := prefixes[len(prefixes)-1]
			in := []byte{0x41, 0x00, 0xbe, 0xbf, 0x3f, 0x21, 0xff}[:min(sp.maxLen, 7)]
			if sp.huge {
				in = []byte{0x3f, 0xff, 0x81, 0x01, 0x7f, 0x80, 0x00}[:min(sp.maxLen, 7)]
			}
			c := evalCase(ps, in)
			h.rep.Sample(map[string]any{"part": sp.name, "table_prefix": ps.name, "prefix_script": ps.script, "block_hex": hx(in),
				"reference":      map[string]any{"accept": c.res.Accept, "reject_reason": c.res.Reason, "either": c.res.Either, "fields": fieldsString(c.res.Fields), "representations": hpackref.Shape(c.res.Reps)},
				"real_decoder":   map[string]any{"accepted": c.whole.ok, "error": c.whole.err(), "fields": fieldsString(c.whole.fields), "table_entries": c.whole.n, "table_size": c.whole.size, "max_size": c.whole.max},
				"cut_sets_tried": 1<<uint(max(len(in)-1, 0)) - 1})
		}
	}
	if stage == "early" {
		// P2c': the overflow guard. first octet with a full prefix (or 00 + full string-length octet),
		// k continuation octets from {80, ff}, one final octet from {00, 01, 7f}; k = 0..11
		ps := hugeLimitPrefix()
		before := dr.nCases
		for _, first := range [][]byte{{0x3f}, {0x7f}, {0xff}, {0x0f}, {0x1f}, {0x00, 0x7f}, {0x00, 0xff}, {0x40, 0x00, 0x7f}} {
			for k := 0; k <= 11; k++ {
				for m := 0; m < 1<<uint(k); m++ {
					for _, fin := range []byte{0x00, 0x01, 0x7f} {
						counter++
						if int(counter%int64(h.of)) != h.shard {
							continue
						}
						in := append([]byte(nil), first...)
						for j := 0; j < k; j++ {
							if m&(1<<uint(j)) != 0 {
								in = append(in, 0xff)
							} else {
								in = append(in, 0x80)
							}
						}
						in = append(in, fin)
						dr.one(ps, 3, in, len(in) <= 8)
					}
				}
			}
		}
		h.rep.Add("cases P2c overflow-guard", dr.nCases-before)
		h.rep.Info["bound P2c overflow-guard"] = "8 representation heads x k<=11 continuation octets over {80,ff} x final octet {00,01,7f}; every cut set up to 8 octets, single cuts + octet-by-octet above"
	}
}
