//go:build verif

package c18

// P6 - the integers the encoder writes (RFC 7541 section 5.1), at every prefix width it uses, across the points where
// the representation gains an octet: string lengths (7-bit prefix; raw and Huffman-coded), table-size updates (5-bit),
// indexed fields (7-bit), literals with a name index - incremental indexing (6-bit) and never-indexed (4-bit). Each
// value is one encoder call on a suitably prepared encoder/decoder pair, judged by the same round-trip step as P1
// (reference decoder, real decoder, tables in lock step).

import (
	"fmt"
	"strings"
)

func partEncoderIntegers(h *harness) {
	n := 0
	try := func(base *node, g gap, blk []F, what string) {
		n++
		if n%h.of != h.shard {
			return
		}
		r := step(base, g, blk)
		h.rep.Add("evaluations", 1)
		h.rep.Add("cases P6 encoder integers", 1)
		if r.sig != nil {
			r.sig["part"] = "encoder-integers"
			h.violate(r.sig, map[string]any{"case": what, "schedule": g.String(), "wire_hex": hx(r.wire[:min(len(r.wire), 64)])},
				func() string {
					s2 := step(base, g, blk).sig
					if s2 != nil {
						s2["part"] = "encoder-integers"
					}
					return sigKey(s2)
				}, "%s: %s", what, r.what)
		}
	}
	fresh := newNode()
	// string lengths: values that do not shrink under Huffman coding stay raw, 'a' is coded in 5 bits
	var lens []int
	for l := 0; l <= 1100; l++ {
		lens = append(lens, l)
	}
	for l := 16300; l <= 16700; l++ {
		lens = append(lens, l)
	}
	for _, l := range lens {
		try(fresh, nil, []F{{Name: "x", Value: strings.Repeat("\xfe", l)}}, fmt.Sprintf("value of %d octets, sent raw", l))
		try(fresh, nil, []F{{Name: "x", Value: strings.Repeat("a", l)}}, fmt.Sprintf("value of %d octets, Huffman-coded to %d", l, (5*l+7)/8))
		if l <= 600 && l > 0 {
			try(fresh, nil, []F{{Name: strings.Repeat("q", l), Value: "v"}}, fmt.Sprintf("name of %d octets", l))
		}
	}
	// table-size updates
	for v := uint32(0); v <= 4096; v++ {
		try(fresh, gap{{op: "setmax", v: v}}, []F{{Name: ":method", Value: "GET"}}, fmt.Sprintf("table size update to %d", v))
	}
	for _, v := range []uint32{16383, 16384, 16414, 16415, 16416, 20000, 65535, 65536} {
		try(fresh, gap{{op: "settings", v: 1 << 20}, {op: "setmax", v: v}}, []F{{Name: ":method", Value: "GET"}}, fmt.Sprintf("table size update to %d (limit 2^20)", v))
	}
	// indices: a table of 420 small entries (the peer allows 65536 octets)
	big := newNode()
	var names []string
	for round := 0; round < 7; round++ {
		var blk []F
		for i := 0; i < 60; i++ {
			nm := fmt.Sprintf("k%d", round*60+i)
			names = append(names, nm)
			blk = append(blk, F{Name: nm, Value: "v"})
		}
		var g gap
		if round == 0 {
			g = gap{{op: "settings", v: 65536}, {op: "setmax", v: 65536}}
		}
		r := step(big, g, blk)
		if r.sig != nil {
			h.violate(r.sig, map[string]any{"case": "building the index table"}, func() string { return sigKey(step(big, g, blk).sig) }, "building a 420-entry table: %s", r.what)
			return
		}
		big = r.next
	}
	for i, nm := range names {
		idx := 61 + len(names) - i // the entry's index now
		try(big, nil, []F{{Name: nm, Value: "v"}}, fmt.Sprintf("indexed field, index %d", idx))
		try(big, nil, []F{{Name: nm, Value: "other"}}, fmt.Sprintf("literal with incremental indexing, name index %d", idx))
		try(big, nil, []F{{Name: nm, Value: "secret", Sensitive: true}}, fmt.Sprintf("never-indexed literal, name index %d", idx))
	}
}
