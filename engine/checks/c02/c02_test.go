//go:build verif

// C02 — X-JA4-Fingerprint equals the JA4 of the ClientHello; reordering
// ciphers/extensions and adding/moving/altering GREASE never changes it.
//
// Seam A (this file): fingerprint.JA4Fingerprint(&metadata.Metadata{
// ClientHelloRecord: rec}) on records synthesized by verif/ref/chello.
// Oracles: (1) membership in the admissible set of the from-scratch reference
// ja4ref, (2) metamorphic closure, independent of the reference: every
// permutation of the cipher and extension lists and every GREASE insertion /
// alteration gives a byte-identical value, (3) the form clause. A hello counts
// only if the real crypto/tls server accepts it (accepted()).
//
// A second seam (real proxy stack) can be added as another function called
// from TestCheck.
package c02

import (
	"encoding/hex"
	"encoding/json"
	"fmt"
	"log"
	"os"
	"path/filepath"
	"sort"
	"strings"
	"testing"
	"verif/plumb"

	"github.com/wi1dcard/fingerproxy/pkg/fingerprint"
	"github.com/wi1dcard/fingerproxy/pkg/ja4"
	"github.com/wi1dcard/fingerproxy/pkg/metadata"
	"verif/ev"
	"verif/mc"
	"verif/ref/chello"
	"verif/ref/chello/pcapscan"
	"verif/ref/chello/seqs"
	"verif/ref/chello/tlsdomain"
	"verif/ref/ja4ref"
)

func TestCheck(t *testing.T) {
	rep := ev.New("C02", "exploration")
	defer rep.Write()
	seamA(rep)
	shard, of := mc.ShardFromEnv()
	plumb.SeamB(t, rep, "C02", "X-JA4-Fingerprint", func(rec []byte) ([]string, bool) {
		p, err := chello.Parse(rec)
		if err != nil {
			return nil, false
		}
		return ja4ref.Of(p).Strings(), true
	}, shard, of)
}

// accepted is the domain rule (DESIGN §3 rule 1): a real crypto/tls server fed
// the record over an in-memory conn reaches GetConfigForClient. Evaluated for
// every record, not cached.
func accepted(rec []byte) bool { return tlsdomain.Accepted(rec) }

func callJA4(rec []byte) (v string, err error, pv any) {
	defer func() {
		if x := recover(); x != nil {
			pv = x
		}
	}()
	// the binary's -verbose flag only adds log lines: for a quarter of the records (chosen by their bytes, so that a
	// record is always evaluated the same way) the package logs verbosely, to a logger that does format its arguments
	verbose := mc.Hash64(string(rec))[0]&3 == 0
	fingerprint.VerboseLogs = verbose
	if verbose {
		fingerprint.Logger = verboseLogger
	}
	v, err = fingerprint.JA4Fingerprint(&metadata.Metadata{ClientHelloRecord: rec})
	fingerprint.VerboseLogs = false
	return
}

type countingWriter struct{ n int }

func (w *countingWriter) Write(p []byte) (int, error) { w.n += len(p); return len(p), nil }

var verboseLogger = log.New(&countingWriter{}, "", 0)

func obsOf(v string, err error, pv any) string {
	switch {
	case pv != nil:
		return fmt.Sprintf("panic: %v", pv)
	case err != nil:
		return "error: " + err.Error()
	}
	return v
}

type recheck struct {
	rec       []byte
	obs, desc string
}

type runner struct {
	rep       *ev.Report
	shard, of int
	k         int64
	bySig     map[string]int
	kinds     map[string]int
	pend      map[string]*pending
	order     []string
	slice     []recheck
	evals     int64
	phase     string
}

func (r *runner) mine() bool {
	k := r.k
	r.k++
	return int(k%int64(r.of)) == r.shard
}

// result of one evaluation, for the metamorphic comparisons
type result struct {
	inDomain bool
	obs      string // value, "error: …" or "panic: …"
}

func greaseMask(vs []uint16) string {
	m, n := 0, len(vs)
	for i, v := range vs {
		if chello.IsGREASE(v) && i < 8 {
			m |= 1 << i
		}
	}
	if n > 8 {
		n = 8 + min((n-8)/45, 3) // 9..: coarse classes so that 99/100/101 differ from 10
	}
	return fmt.Sprintf("%d.%x", n, m)
}

// report records a violating case. One witness per signature is kept; a
// witness for which a permissive crypto/tls server answers with a ServerHello
// (nothing in the hello prevents the handshake from completing) replaces an
// earlier one that lacks this. Witnesses are confirmed and emitted by flush.
func (r *runner) report(sig map[string]any, rec []byte, obs, desc, what string, extra map[string]any) {
	rep := r.rep
	rep.Add("violating_cases", 1)
	rep.Add("violating_cases_"+sig["kind"].(string), 1)
	kb, _ := json.Marshal(sig)
	key := string(kb)
	r.bySig[key]++
	p := r.pend[key]
	if p != nil && (p.capable || p.tries >= 300) {
		return
	}
	capable := tlsdomain.ServerHello(rec)
	if p == nil {
		p = &pending{}
		r.pend[key] = p
		r.order = append(r.order, key)
	} else {
		p.tries++
		if !capable {
			return
		}
	}
	*p = pending{sig: sig, rec: append([]byte(nil), rec...), obs: obs, desc: desc, what: what, extra: extra, capable: capable, tries: p.tries, phase: r.phase}
}

type pending struct {
	sig                    map[string]any
	rec                    []byte
	obs, desc, what, phase string
	extra                  map[string]any
	capable                bool
	tries                  int
}

func (r *runner) flush() {
	rep := r.rep
	for _, key := range r.order {
		p := r.pend[key]
		kind := p.sig["kind"].(string)
		r.kinds[kind]++
		if r.kinds[kind] > 6 {
			continue
		}
		ok := true
		for i := 0; i < 5 && ok; i++ { // confirm 5x on fresh copies
			v2, err2, pv2 := callJA4(append([]byte(nil), p.rec...))
			if o2 := obsOf(v2, err2, pv2); o2 != p.obs {
				// the same bytes gave two different results on one goroutine: the value is not a pure function of the
				// ClientHello bytes (it depends on what was fingerprinted before) - that is itself what the property forbids
				rep.Violate(map[string]any{"kind": "value-depends-on-history", "seam": "A"},
					map[string]any{"record_hex": fmt.Sprintf("%x", p.rec), "first": p.obs, "again": o2, "case": p.desc, "phase": p.phase},
					"the same ClientHello bytes gave %q and, evaluated again, %q - the JA4 value is not a pure function of the ClientHello bytes [case %s]", p.obs, o2, p.desc)
				ok = false
			}
		}
		if !ok {
			continue
		}
		replay := map[string]any{
			"seam": "A: fingerprint.JA4Fingerprint(&metadata.Metadata{ClientHelloRecord: record})", "phase": p.phase, "case": p.desc,
			"record_hex": hex.EncodeToString(p.rec), "observed": p.obs,
			"crypto_tls_reaches_GetConfigForClient": true, "crypto_tls_answers_with_ServerHello": p.capable,
			"violating_cases_with_this_signature_in_this_shard": r.bySig[key],
		}
		for k, v := range p.extra {
			replay[k] = v
		}
		rep.Violate(p.sig, replay, "%s [case %s]", p.what, p.desc)
	}
}

// implParts shows the components the implementation computed (diagnostics).
func implParts(rec []byte) string {
	defer func() { recover() }()
	fp := &ja4.JA4Fingerprint{}
	if err := fp.UnmarshalBytes(append([]byte(nil), rec...), 't'); err != nil {
		return "error: " + err.Error()
	}
	return fmt.Sprintf("a-fields{ver=%s sni=%c nc=%s ne=%s alpn=%q} b-input=%q c-input=%q sigalgs=%q", fp.TLSVersion, fp.SNI, fp.NumberOfCipherSuites, fp.NumberOfExtensions, fp.FirstALPN,
		fp.CipherSuites.String(), fp.Extensions.String(), fp.SignatureAlgorithms.String())
}

func hasGREASE(vs []uint16) bool {
	for _, v := range vs {
		if chello.IsGREASE(v) {
			return true
		}
	}
	return false
}

// cause refines the signature of a reference mismatch so that different
// defects get different signatures.
func cause(p *chello.Parsed, field string) string {
	switch {
	case p.HasALPN && len(p.ALPN) > 0 && len(p.ALPN[0]) == 1 && (field == "form" || field == "alpn"):
		return "first-alpn-one-byte" // D7
	case field == "c" && hasGREASE(p.SigAlgs):
		return "grease-in-signature-algorithms"
	case field == "version" && p.HasSupportedVersions:
		return "supported-versions"
	case field == "version":
		return "legacy-version"
	}
	return "-"
}

// eval runs one case against the reference and the form clause.
func (r *runner) eval(rec []byte, desc string) result {
	rep := r.rep
	rep.Add("cases", 1)
	rep.Add("cases_"+r.phase, 1)
	if !accepted(rec) {
		rep.Add("out_of_domain", 1)
		return result{}
	}
	p, perr := chello.Parse(rec)
	if perr != nil {
		rep.HarnessError("%s: reference parser rejects a record crypto/tls accepts (%s): %v", r.phase, desc, perr)
		return result{}
	}
	orig := append([]byte(nil), rec...)
	v, err, pv := callJA4(rec)
	obs := obsOf(v, err, pv)
	rep.Add("evaluations", 1)
	r.evals++
	if r.evals%50 == 0 && len(r.slice) < 60000 {
		r.slice = append(r.slice, recheck{orig, obs, desc})
	}
	ref := ja4ref.Of(p)
	// coverage: feature signature of the input
	alpnClass := "none"
	if p.HasALPN && len(p.ALPN) > 0 {
		a := p.ALPN[0]
		alpnClass = fmt.Sprintf("len%d", min(len(a), 3))
		if a[0] >= 0x80 || a[len(a)-1] >= 0x80 {
			alpnClass += "-nonascii"
		}
	}
	sv := "none"
	if p.HasSupportedVersions {
		sv = greaseMask(p.SupportedVersions)
	}
	sa := "none"
	if p.HasSigAlgs {
		sa = greaseMask(p.SigAlgs)
	}
	sh := fmt.Sprintf("%s sni=%v c=%s e=%s alpn=%s sv=%s sa=%s x=%v", ref.Versions[0], p.HasSNI, greaseMask(p.Ciphers), greaseMask(p.ExtTypes()), alpnClass, sv, sa, p.HasExtBlock)
	rep.Note("distinct_nontrivial", sh)
	if r.evals <= 2 || r.evals%20000 == 11 {
		rep.Sample(map[string]any{"phase": r.phase, "case": desc, "record": hex.EncodeToString(orig), "admissible": ref.Strings(), "impl": obs})
	}

	switch {
	case string(rec) != string(orig):
		r.report(map[string]any{"kind": "ja4-mutates-record"}, orig, obs, desc, "JA4Fingerprint modified the captured ClientHello record", nil)
	case pv != nil:
		r.report(map[string]any{"kind": "ja4-panic"}, orig, obs, desc, fmt.Sprintf("JA4Fingerprint panicked on a ClientHello crypto/tls accepts: %v", pv), nil)
	case err != nil:
		if missingCause(p, err) != "other" {
			for _, e := range p.Exts {
				if utlsKnown[e.Type] != "" {
					rep.Note("ja4_missing_offending_ext_types", fmt.Sprintf("%d", e.Type))
					fmt.Printf("ja4-missing: extension %d (%s) body %x\n", e.Type, utlsKnown[e.Type], e.Body)
				}
			}
		}
		r.report(map[string]any{"kind": "ja4-missing", "cause": missingCause(p, err)}, orig, obs, desc,
			fmt.Sprintf("no JA4 for a ClientHello crypto/tls accepts: JA4Fingerprint returned error %q; required one of %v", err.Error(), ref.Strings()), map[string]any{"required": ref.Strings()})
	default:
		if ok, field := ref.Match(v); !ok {
			c := cause(p, field)
			r.report(map[string]any{"kind": "ja4-mismatch", "field": field, "cause": c}, orig, obs, desc,
				fmt.Sprintf("JA4 differs from the JA4 of the hello in component %q (%s): got %q, required one of %v (b = sha256[:12] of %q, c = of %q); implementation computed %s",
					field, c, v, ref.Strings(), ref.BInput, ref.CInput, implParts(orig)),
				map[string]any{"required": ref.Strings(), "b_input": ref.BInput, "c_input": ref.CInput})
		} else if !ja4ref.WellFormed(v) {
			r.report(map[string]any{"kind": "ja4-malformed"}, orig, obs, desc, fmt.Sprintf("JA4 value %q does not have the form a_b_c with 12 hex digits in b and c", v), nil)
		}
	}
	return result{true, obs}
}

// utls knows more extension types than crypto/tls and validates their bodies
var utlsKnown = map[uint16]string{17: "status_request_v2", 24: "token_binding", 27: "compress_certificate", 28: "record_size_limit", 34: "delegated_credentials",
	57: "quic_transport_parameters", 13172: "next_protocol_negotiation", 17513: "application_settings", 30031: "channel_id_old", 30032: "channel_id", 5: "status_request"}

// missingCause: which extension made the parser give up (from the input, not from the error text).
func missingCause(p *chello.Parsed, err error) string {
	for _, e := range p.Exts {
		if _, ok := utlsKnown[e.Type]; ok {
			return fmt.Sprintf("extension-body-rejected-by-utls/type=%d", e.Type)
		}
	}
	return "other"
}

// same compares a transformed hello's value with its base (metamorphic clause).
func (r *runner) same(base, got result, rec []byte, kind, where, desc string) {
	if !base.inDomain || !got.inDomain || base.obs == got.obs {
		return
	}
	c := "-"
	if where == "signature_algorithms" {
		c = "grease-in-signature-algorithms"
	}
	r.report(map[string]any{"kind": kind, "where": where, "cause": c}, rec, got.obs, desc,
		fmt.Sprintf("JA4 changed under a transformation that must not change it (%s in %s): base %q, transformed %q", strings.TrimPrefix(kind, "ja4-"), where, base.obs, got.obs),
		map[string]any{"base_value": base.obs})
}

// ---- alphabets -------------------------------------------------------------

var allGREASE = func() []uint16 {
	var g []uint16
	for i := 0; i < 16; i++ {
		g = append(g, uint16(i<<12|0x0a00|i<<4|0x0a))
	}
	return g
}()

var key32 = func() []byte {
	b := make([]byte, 32)
	for i := range b {
		b[i] = byte(i + 1)
	}
	return b
}()

type kind struct {
	name string
	ext  chello.Ext
}

// extension kinds with valid bodies; pre_shared_key is last so that the sorted order of any subset is a legal hello
var extKinds = []kind{
	{"sni", chello.SNI("a.example")},
	{"alpn", chello.ALPN("h2", "http/1.1")},
	{"supported_versions", chello.SupportedVersions(0x0304, 0x0303)},
	{"signature_algorithms", chello.SigAlgs(0x0403, 0x0804, 0x0401)},
	{"supported_groups", chello.Groups(29, 23)},
	{"key_share", chello.KeyShare(chello.KS{Group: 29, Data: key32})},
	{"psk_key_exchange_modes", chello.PSKModes(1)},
	{"padding", chello.Padding(3)},
	{"status_request", chello.StatusRequest()},
	{"extended_master_secret", chello.EMS()},
	{"session_ticket", chello.SessionTicket(nil)},
	{"compress_certificate", chello.CompressCert(2)},
	{"record_size_limit", chello.RecordSizeLimit(16385)},
	{"application_settings", chello.ALPS("h2")},
	{"unknown_1234", chello.Raw(0x1234, 1, 2, 3)},
	{"encrypted_client_hello_fe0d", chello.Raw(0xfe0d, 0, 0, 1, 0, 1, 9, 0, 2, 1, 2, 0, 3, 1, 2, 3)}, // outer ECH: kdf 1, aead 1, config id 9, enc<2>, payload<3>
	{"grease_2a2a_empty", chello.Raw(0x2a2a)},
	{"grease_eaea_1byte", chello.Raw(0xeaea, 0)},
	{"renegotiation_info", chello.RenegotiationInfo()},
	{"signed_certificate_timestamp", chello.SCT()},
	{"ec_point_formats", chello.PointFormats(0)},
	{"signature_algorithms_cert", chello.SigAlgsCert(0x0403, 0x0401)},
	{"pre_shared_key", chello.PreSharedKey([]byte("ticket-identity"), 7, key32)},
}

var realCiphers = []uint16{0x1301, 0xc02b, 0x002f, 0x00ff}

func names(idx []int) string {
	s := make([]string, len(idx))
	for i, x := range idx {
		s[i] = extKinds[x].name
	}
	return strings.Join(s, ",")
}

// combos calls f with every strictly increasing index sequence of length 0..k over 0..n-1.
func combos(n, k int, f func(idx []int)) {
	var cur []int
	var rec func(start int)
	rec = func(start int) {
		f(cur)
		if len(cur) == k {
			return
		}
		for i := start; i < n; i++ {
			cur = append(cur, i)
			rec(i + 1)
			cur = cur[:len(cur)-1]
		}
	}
	rec(0)
}

func insert16(vs []uint16, pos int, v uint16) []uint16 {
	out := make([]uint16, 0, len(vs)+1)
	out = append(out, vs[:pos]...)
	out = append(out, v)
	return append(out, vs[pos:]...)
}

func insertExt(xs []chello.Ext, pos int, e chello.Ext) []chello.Ext {
	out := make([]chello.Ext, 0, len(xs)+1)
	out = append(out, xs[:pos]...)
	out = append(out, e)
	return append(out, xs[pos:]...)
}

type base struct {
	name    string
	version uint16
	ciphers []uint16
	exts    []chello.Ext
	// structured copies of the list-valued bodies, for GREASE insertion inside them
	sv, sa, groups []uint16
}

func (b *base) hello() *chello.Hello {
	return &chello.Hello{Version: b.version, Ciphers: b.ciphers, Exts: b.exts}
}

func seamA(rep *ev.Report) {
	shard, of := mc.ShardFromEnv()
	r := &runner{rep: rep, shard: shard, of: of, bySig: map[string]int{}, kinds: map[string]int{}, pend: map[string]*pending{}}
	thorough := ev.Thorough()
	K, CL, permC, permX := 3, 4, 3, 5
	if thorough {
		K, CL, permC, permX = 5, 6, 4, 7
	}
	rep.Info["rule"] = "every record of the bounded alphabets that crypto/tls accepts (GetConfigForClient reached) -> fingerprint.JA4Fingerprint; oracles: admissible set of ja4ref, form clause, and (reference-free) equality with the untransformed base under every permutation of ciphers/extensions and every GREASE insertion/alteration; distinct_nontrivial = distinct input feature signatures (version code, SNI, per-list length + GREASE-position mask for ciphers/extensions/supported_versions/signature_algorithms, first-ALPN class)"
	rep.Info["bounds"] = map[string]any{
		"ext_kinds":        len(extKinds),
		"P1":               fmt.Sprintf("every subset of <=%d of the %d extension kinds (valid bodies), in EVERY order", K, len(extKinds)),
		"P2":               "ALPN first value (8 variants) x supported_versions (7) x legacy version (3) x signature_algorithms (4) x SNI (2)",
		"P2b":              "status_request_v2 with two RFC 6961-valid bodies (first item ocsp(1) / ocsp_multi(2)); 9 extension types that utls parses but crypto/tls ignores x 4 minimal bodies",
		"P3":               fmt.Sprintf("every cipher sequence (repetition allowed) of length 0..%d over {0x0a0a,0xfafa GREASE, 0x1301,0xc02b,0x002f,0x00ff}", CL),
		"P4":               "cipher counts and extension counts 97..102, 150, 255..257, 300, 512, 1000 (with and without extra GREASE)",
		"P5":               fmt.Sprintf("24 base hellos: all permutations of %d ciphers x all permutations of up to %d extensions; all single GREASE insertions (16 values, every position) into ciphers / extensions (2 bodies) / supported_versions / supported_groups / key_share / signature_algorithms, all double insertions with 2 values", permC, permX),
		"P6":               "every 16-bit value as cipher (2 contexts), extension type (empty and 1-byte body), signature algorithm, supported_versions entry (2 contexts), legacy version; every byte value as first / last / only byte of the first ALPN value; every first-ALPN length 1..255",
		"P7":               "ClientHellos found in /repo/pkg/ja4pcap/testdata/pcap",
		"domain":           "tlsdomain.Accepted: real crypto/tls server over an in-memory conn reaches GetConfigForClient; evaluated for every record, not cached",
		"reference_checks": "ja4ref self-test: FoxIO's published values for the literal hello of pkg/ja4 and 146/156 pcap hellos (the other 10 are second hellos after HelloRetryRequest, which FoxIO's tool does not list)",
	}
	rep.Assume("seam A only: the value is observed as the return of fingerprint.JA4Fingerprint on a synthesized first record; that the value reaches the backend as X-JA4-Fingerprint on h1 and h2 is the business of seam B",
		"domain membership = crypto/tls (go1.26.8) server reaches GetConfigForClient on the record; each reported witness additionally states whether a permissive server answers with a ServerHello",
		"where the statement leaves a choice the reference admits every outcome: only-GREASE supported_versions ('00' or legacy code), empty hash input (sha256('')[:12] or '000000000000'), non-ASCII first/last ALPN byte (any two bytes)")

	stdExts := func(idx ...int) []chello.Ext {
		out := make([]chello.Ext, len(idx))
		for i, x := range idx {
			out[i] = extKinds[x].ext
		}
		return out
	}

	// ---- P1: every subset of <=K extension kinds in every order ------------------------------
	r.phase = "P1_ext_subsets_all_orders"
	combos(len(extKinds), K, func(set []int) {
		if !r.mine() {
			return
		}
		var baseRes result
		first := true
		seqs.Perms(len(set), func(pm []int) {
			idx := make([]int, len(set))
			for i, x := range pm {
				idx[i] = set[x]
			}
			h := &chello.Hello{Version: 0x0303, Ciphers: []uint16{0x1301, 0xc02b, 0x002f}, Exts: stdExts(idx...)}
			rec := h.Record()
			d := "exts=[" + names(idx) + "]"
			res := r.eval(rec, d)
			if first {
				baseRes, first = res, false
				return
			}
			r.same(baseRes, res, rec, "ja4-order-dependent", "extensions", d+" vs sorted order of the same set")
		})
	})

	// ---- P2: field variants ----------------------------------------------------------------
	r.phase = "P2_field_variants"
	alpns := [][]string{nil, {"h2", "http/1.1"}, {"http/1.1"}, {"h", "http/1.1"}, {"ab", "h2"}, {"abc", "h2"}, {"\x80x", "h2"}, {"x\xff", "h2"}}
	svs := [][]uint16{{0x0304, 0x0303}, nil, {0x8a8a, 0x0304, 0x0303}, {0x0303}, {0x0305, 0x0304}, {0x0303, 0x0304}, {0x1a1a}}
	sas := [][]uint16{{0x0403, 0x0804, 0x0401}, {0x0403}, nil, {0x0401, 0x0804, 0x0403}}
	for _, al := range alpns {
		for _, sv := range svs {
			for _, lv := range []uint16{0x0303, 0x0302, 0x0301} {
				for _, sa := range sas {
					for _, sni := range []bool{true, false} {
						if shard != 0 { // small phase, run by shard 0 only so that the reported witness is the first in this order
							continue
						}
						var xs []chello.Ext
						if sni {
							xs = append(xs, chello.SNI("a.example"))
						}
						xs = append(xs, chello.EMS())
						if al != nil {
							xs = append(xs, chello.ALPN(al...))
						}
						if sv != nil {
							xs = append(xs, chello.SupportedVersions(sv...))
						}
						if sa != nil {
							xs = append(xs, chello.SigAlgs(sa...))
						}
						xs = append(xs, chello.Groups(29, 23), chello.KeyShare(chello.KS{Group: 29, Data: key32}))
						h := &chello.Hello{Version: lv, Ciphers: []uint16{0x1301, 0xc02b, 0x002f}, Exts: xs}
						r.eval(h.Record(), fmt.Sprintf("alpn=%q supported_versions=%04x legacy=%04x sigalgs=%04x sni=%v", al, sv, lv, sa, sni))
					}
				}
			}
		}
	}

	// ---- P2b: extension types utls interprets but crypto/tls ignores, with minimal bodies (shard 0 only: deterministic witness)
	r.phase = "P2b_utls_only_extension_bodies"
	// first an RFC 6961-valid status_request_v2 whose first item has status_type ocsp(1); then minimal (malformed) bodies
	v2ocsp := []byte{0, 7, 1, 0, 4, 0, 0, 0, 0}
	v2multi := []byte{0, 7, 2, 0, 4, 0, 0, 0, 0}
	for ti, typ := range []uint16{17, 17513, 27, 28, 34, 24, 17, 13172, 30031, 30032} {
		bodies := [][]byte{nil, {0}, {0, 0}, {0, 1, 0}}
		if ti == 0 {
			bodies = [][]byte{v2ocsp, v2multi}
		}
		for _, body := range bodies {
			if shard != 0 {
				continue
			}
			xs := append(stdExts(0, 1, 2, 3, 4, 5), chello.Raw(typ, body...))
			r.eval((&chello.Hello{Version: 0x0303, Ciphers: realCiphers, Exts: xs}).Record(), fmt.Sprintf("extension type %d (%s) with body %x after sni,alpn,supported_versions,signature_algorithms,supported_groups,key_share", typ, utlsKnown[typ], body))
		}
	}

	// ---- P3: cipher sequences with GREASE anywhere -------------------------------------------
	r.phase = "P3_cipher_sequences"
	cAlpha := append([]uint16{0x0a0a, 0xfafa}, realCiphers...)
	canon := map[string]result{}
	for _, cs := range seqs.U16(cAlpha, 0, CL, false) {
		if !r.mine() {
			continue
		}
		var plain []uint16
		for _, c := range cs {
			if !chello.IsGREASE(c) {
				plain = append(plain, c)
			}
		}
		sort.Slice(plain, func(i, j int) bool { return plain[i] < plain[j] })
		key := fmt.Sprintf("%04x", plain)
		exts := stdExts(0, 2, 3, 4)
		b, ok := canon[key]
		if !ok {
			b = r.eval((&chello.Hello{Version: 0x0303, Ciphers: plain, Exts: exts}).Record(), "ciphers="+key+" (sorted, GREASE-free form)")
			canon[key] = b
		}
		rec := (&chello.Hello{Version: 0x0303, Ciphers: cs, Exts: exts}).Record()
		d := fmt.Sprintf("ciphers=%04x", cs)
		res := r.eval(rec, d)
		where := "ciphers(order)"
		if hasGREASE(cs) {
			where = "ciphers(order+GREASE)"
		}
		r.same(b, res, rec, "ja4-order-or-grease-dependent", where, d+" vs sorted GREASE-free form "+key)
	}

	// ---- P4: counts around the two-digit cap -------------------------------------------------
	r.phase = "P4_count_cap"
	for _, n := range []int{97, 98, 99, 100, 101, 102, 150, 255, 256, 257, 300, 512, 1000} { // around the two-digit cap and around the widths of the integer types a count could be kept in
		for _, g := range []bool{false, true} {
			if r.mine() {
				cs := make([]uint16, 0, n+1)
				for i := 0; i < n; i++ {
					cs = append(cs, uint16(0xc000+n-i)) // descending: sorting matters
				}
				if g {
					cs = insert16(cs, n/2, 0x5a5a)
				}
				r.eval((&chello.Hello{Version: 0x0303, Ciphers: cs, Exts: stdExts(0, 2, 3)}).Record(), fmt.Sprintf("%d cipher suites, extra GREASE=%v", n, g))
			}
			if r.mine() {
				xs := make([]chello.Ext, 0, n+1)
				for i := 0; i < n; i++ {
					xs = append(xs, chello.Raw(uint16(0x3000+n-i), byte(i)))
				}
				if g {
					xs = insertExt(xs, n/2, chello.Raw(0x5a5a))
				}
				r.eval((&chello.Hello{Version: 0x0303, Ciphers: realCiphers, Exts: xs}).Record(), fmt.Sprintf("%d extensions of unknown types, extra GREASE=%v", n, g))
			}
		}
	}

	// ---- P4b: record lengths around 2^8, 2^12, 2^13 and up to the 2^14 limit of a TLS record ----
	r.phase = "P4b_record_length"
	{
		mk := func(pad int) []byte {
			return (&chello.Hello{Version: 0x0303, Ciphers: realCiphers, Exts: append(stdExts(0, 2, 3), chello.Padding(pad))}).Record()
		}
		base0 := len(mk(0)) - 5
		var want []int
		for _, c := range []int{256, 4096, 8192} {
			for d := -2; d <= 2; d++ {
				want = append(want, c+d)
			}
		}
		for l := 16384 - 12; l <= 16384; l++ {
			want = append(want, l)
		}
		for _, l := range want {
			if l >= base0 && r.mine() {
				r.eval(mk(l-base0), fmt.Sprintf("first record with a fragment of %d bytes", l))
			}
		}
	}

	// ---- P4c: every SNI host name length 1..300 (the longest the DNS allows is 253), SNI first / last / alone ----
	r.phase = "P4c_sni_length"
	for n := 1; n <= 300; n++ {
		b := make([]byte, n)
		for i := range b {
			b[i] = 'a'
			if (i+1)%64 == 0 && i != n-1 {
				b[i] = '.'
			}
		}
		sni := chello.SNI(string(b))
		for li, exts := range [][]chello.Ext{append([]chello.Ext{sni}, stdExts(2, 3)...), append(stdExts(2, 3), sni), {sni}} {
			if r.mine() {
				r.eval((&chello.Hello{Version: 0x0303, Ciphers: realCiphers, Exts: exts}).Record(), fmt.Sprintf("SNI host name of %d bytes, extension layout %d", n, li))
			}
		}
	}

	// ---- P5: metamorphic closure over a family of base hellos --------------------------------
	r.phase = "P5_metamorphic_closure"
	var bases []base
	for _, al := range []bool{false, true} {
		for svi, sv := range [][]uint16{nil, {0x0304, 0x0303}, {0x6a6a, 0x0304, 0x0303}} {
			for _, sa := range [][]uint16{nil, {0x0403, 0x0804, 0x0401}} {
				for _, sni := range []bool{true, false} {
					b := base{version: 0x0303, ciphers: realCiphers[:permC], sv: sv, sa: sa, groups: []uint16{29, 23}}
					b.name = fmt.Sprintf("base(alpn=%v sv=%d sa=%v sni=%v)", al, svi, sa != nil, sni)
					if sni {
						b.exts = append(b.exts, chello.SNI("a.example"))
					}
					if al {
						b.exts = append(b.exts, chello.ALPN("h2", "http/1.1"))
					}
					if sv != nil {
						b.exts = append(b.exts, chello.SupportedVersions(sv...))
					}
					if sa != nil {
						b.exts = append(b.exts, chello.SigAlgs(sa...))
					}
					b.exts = append(b.exts, chello.Groups(b.groups...), chello.KeyShare(chello.KS{Group: 29, Data: key32}), chello.EMS())
					if len(b.exts) > permX {
						b.exts = b.exts[:permX]
					}
					bases = append(bases, b)
				}
			}
		}
	}
	for bi := range bases {
		b := &bases[bi]
		// every shard evaluates the base itself (not counted twice: only shard owning case index counts it)
		baseRec := b.hello().Record()
		var br result
		if accepted(baseRec) {
			v, err, pv := callJA4(append([]byte(nil), baseRec...))
			br = result{true, obsOf(v, err, pv)}
		}
		if r.mine() {
			r.eval(baseRec, b.name)
		}
		// (a) all permutations of ciphers x all permutations of extensions
		seqs.Perms(len(b.ciphers), func(pc []int) {
			cs := make([]uint16, len(pc))
			for i, x := range pc {
				cs[i] = b.ciphers[x]
			}
			seqs.Perms(len(b.exts), func(px []int) {
				if !r.mine() {
					return
				}
				xs := make([]chello.Ext, len(px))
				for i, x := range px {
					xs[i] = b.exts[x]
				}
				rec := (&chello.Hello{Version: b.version, Ciphers: cs, Exts: xs}).Record()
				d := fmt.Sprintf("%s cipher-perm=%v ext-perm=%v", b.name, pc, px)
				r.same(br, r.eval(rec, d), rec, "ja4-order-dependent", "ciphers-or-extensions", d)
			})
		})
		// (b) single GREASE insertions, all 16 values, every position
		try := func(h *chello.Hello, where, d string) {
			if !r.mine() {
				return
			}
			rec := h.Record()
			r.same(br, r.eval(rec, b.name+" "+d), rec, "ja4-grease-dependent", where, b.name+" "+d)
		}
		replaceExt := func(typ uint16, e chello.Ext) []chello.Ext {
			xs := append([]chello.Ext(nil), b.exts...)
			for i := range xs {
				if xs[i].Type == typ {
					xs[i] = e
				}
			}
			return xs
		}
		hasExt := func(typ uint16) bool {
			for _, e := range b.exts {
				if e.Type == typ {
					return true
				}
			}
			return false
		}
		for _, g := range allGREASE {
			for pos := 0; pos <= len(b.ciphers); pos++ {
				try(&chello.Hello{Version: b.version, Ciphers: insert16(b.ciphers, pos, g), Exts: b.exts}, "ciphers", fmt.Sprintf("+GREASE %04x at cipher position %d", g, pos))
			}
			for pos := 0; pos <= len(b.exts); pos++ {
				for _, body := range [][]byte{nil, {0}, {1, 2, 3, 4, 5, 6, 7, 8, 9, 10}} {
					try(&chello.Hello{Version: b.version, Ciphers: b.ciphers, Exts: insertExt(b.exts, pos, chello.Raw(g, body...))}, "extensions", fmt.Sprintf("+GREASE extension %04x (%d-byte body) at position %d", g, len(body), pos))
				}
			}
			if b.sv != nil && hasExt(chello.ExtSupportedVersions) {
				for pos := 0; pos <= len(b.sv); pos++ {
					try(&chello.Hello{Version: b.version, Ciphers: b.ciphers, Exts: replaceExt(chello.ExtSupportedVersions, chello.SupportedVersions(insert16(b.sv, pos, g)...))}, "supported_versions", fmt.Sprintf("+GREASE %04x at supported_versions position %d", g, pos))
				}
			}
			if hasExt(chello.ExtSupportedGroups) {
				for pos := 0; pos <= len(b.groups); pos++ {
					try(&chello.Hello{Version: b.version, Ciphers: b.ciphers, Exts: replaceExt(chello.ExtSupportedGroups, chello.Groups(insert16(b.groups, pos, g)...))}, "supported_groups", fmt.Sprintf("+GREASE %04x at supported_groups position %d", g, pos))
				}
			}
			if hasExt(chello.ExtKeyShare) {
				try(&chello.Hello{Version: b.version, Ciphers: b.ciphers, Exts: replaceExt(chello.ExtKeyShare, chello.KeyShare(chello.KS{Group: g, Data: []byte{0}}, chello.KS{Group: 29, Data: key32}))}, "key_share", fmt.Sprintf("+GREASE %04x key share", g))
			}
			if b.sa != nil && hasExt(chello.ExtSignatureAlgs) {
				for pos := 0; pos <= len(b.sa); pos++ {
					try(&chello.Hello{Version: b.version, Ciphers: b.ciphers, Exts: replaceExt(chello.ExtSignatureAlgs, chello.SigAlgs(insert16(b.sa, pos, g)...))}, "signature_algorithms", fmt.Sprintf("+GREASE %04x at signature_algorithms position %d", g, pos))
				}
			}
		}
		// (c) double insertions: two GREASE ciphers, two GREASE extensions, one of each
		g2 := []uint16{0x0a0a, 0xfafa}
		for i := 0; i <= len(b.ciphers); i++ {
			for j := i; j <= len(b.ciphers); j++ {
				for _, ga := range g2 {
					for _, gb := range g2 {
						try(&chello.Hello{Version: b.version, Ciphers: insert16(insert16(b.ciphers, j, gb), i, ga), Exts: b.exts}, "ciphers", fmt.Sprintf("+GREASE %04x,%04x at cipher positions %d,%d", ga, gb, i, j))
					}
				}
			}
		}
		for i := 0; i <= len(b.exts); i++ {
			for j := i; j <= len(b.exts); j++ {
				try(&chello.Hello{Version: b.version, Ciphers: b.ciphers, Exts: insertExt(insertExt(b.exts, j, chello.Raw(0xfafa, 0)), i, chello.Raw(0x0a0a))}, "extensions", fmt.Sprintf("+GREASE extensions 0a0a,fafa at positions %d,%d", i, j))
			}
			for ci := 0; ci <= len(b.ciphers); ci++ {
				try(&chello.Hello{Version: b.version, Ciphers: insert16(b.ciphers, ci, 0x7a7a), Exts: insertExt(b.exts, i, chello.Raw(0x7a7a))}, "ciphers+extensions", fmt.Sprintf("+GREASE 7a7a at cipher position %d and extension position %d", ci, i))
			}
		}
	}

	// ---- P6: value sweeps ----------------------------------------------------------------------
	r.phase = "P6_value_sweeps"
	for v := 0; v < 65536; v++ {
		u := uint16(v)
		for ci, cs := range [][]uint16{{u, 0x1301}, {0xc02b, u, 0x1301}} {
			if r.mine() {
				r.eval((&chello.Hello{Version: 0x0303, Ciphers: cs, Exts: stdExts(0, 2, 3)}).Record(), fmt.Sprintf("cipher value %#04x in context %d", u, ci))
			}
		}
		for bi, body := range [][]byte{nil, {0}} {
			if r.mine() {
				xs := append(stdExts(0, 2, 3, 4, 5), chello.Raw(u, body...), chello.Raw(0x3456))
				r.eval((&chello.Hello{Version: 0x0303, Ciphers: realCiphers, Exts: xs}).Record(), fmt.Sprintf("extension type %#04x with %d-byte body after sni,supported_versions,signature_algorithms,supported_groups,key_share", u, bi))
			}
		}
		if r.mine() {
			r.eval((&chello.Hello{Version: 0x0303, Ciphers: realCiphers, Exts: []chello.Ext{chello.EMS(), chello.SigAlgs(0x0403, u)}}).Record(), fmt.Sprintf("signature algorithm %#04x", u))
		}
		for si, sv := range [][]uint16{{u, 0x0303}, {u}} {
			if r.mine() {
				r.eval((&chello.Hello{Version: 0x0303, Ciphers: realCiphers, Exts: []chello.Ext{chello.EMS(), chello.SupportedVersions(sv...)}}).Record(), fmt.Sprintf("supported_versions entry %#04x in context %d", u, si))
			}
		}
		if r.mine() {
			r.eval((&chello.Hello{Version: u, Ciphers: realCiphers, Exts: stdExts(0, 3)}).Record(), fmt.Sprintf("legacy version %#04x without supported_versions", u))
		}
	}
	for v := 0; v < 256; v++ {
		c := string([]byte{byte(v)})
		for ai, a := range []string{c + "x", "x" + c, c, c + "xyz", "xyz" + c} {
			if r.mine() {
				r.eval((&chello.Hello{Version: 0x0303, Ciphers: realCiphers, Exts: []chello.Ext{chello.SNI("a.example"), chello.ALPN(a, "http/1.1"), chello.SigAlgs(0x0403)}}).Record(), fmt.Sprintf("first ALPN value %q (byte %#02x, layout %d)", a, v, ai))
			}
		}
	}
	for n := 1; n <= 255; n++ {
		if r.mine() {
			a := "p" + strings.Repeat("m", max(n-2, 0))
			if n >= 2 {
				a += "q"
			}
			r.eval((&chello.Hello{Version: 0x0303, Ciphers: realCiphers, Exts: []chello.Ext{chello.ALPN(a, "h2"), chello.SigAlgs(0x0403)}}).Record(), fmt.Sprintf("first ALPN value of %d bytes", n))
		}
	}

	// ---- P7: pcap seeds -----------------------------------------------------------------------
	r.phase = "P7_pcap_seeds"
	repo := os.Getenv("VERIF_REPO")
	if repo == "" {
		repo = "/repo"
	}
	seeds, err := pcapscan.Dir(filepath.Join(repo, "pkg/ja4pcap/testdata/pcap"))
	if err != nil {
		rep.HarnessError("pcap seeds: %v", err)
	}
	seenSeed := map[string]bool{}
	nseed := 0
	for _, s := range seeds {
		if seenSeed[string(s.Record)] {
			continue
		}
		seenSeed[string(s.Record)] = true
		nseed++
		if r.mine() {
			r.eval(s.Record, fmt.Sprintf("pcap seed %s@%d", s.File, s.Offset))
		}
	}
	rep.Info["pcap_seed_records"] = nseed

	r.flush()

	// ---- determinism / purity self-check (DESIGN §3 rule 2) ------------------------------------
	for _, c := range r.slice {
		v, err, pv := callJA4(append([]byte(nil), c.rec...))
		rep.Add("rechecked", 1)
		if o := obsOf(v, err, pv); o != c.obs {
			rep.HarnessError("self-check: re-execution of %q gave %q, first run %q (result depends on something else than the record bytes)", c.desc, o, c.obs)
			break
		}
	}
	if r.evals == 0 {
		rep.HarnessError("vacuous run: no case evaluated in shard %d/%d", shard, of)
	}
	sigs := make([]string, 0, len(r.bySig))
	for k, n := range r.bySig {
		sigs = append(sigs, fmt.Sprintf("%s x%d", k, n))
	}
	sort.Strings(sigs)
	for _, s := range sigs {
		fmt.Println("violating cases in this shard:", s)
	}
}
