//go:build verif

package c06

import (
	"context"
	"fmt"
	"github.com/wi1dcard/fingerproxy/pkg/metadata"
	"testing"
	"testing/synctest"
	"time"

	utls "github.com/refraction-networking/utls"
	"github.com/wi1dcard/fingerproxy"
	"verif/bubble"
	"verif/ev"
	"verif/mc"
	"verif/memnet"
	"verif/ref/chello"
	"verif/ref/h2fpref"
	"verif/ref/h2wire"
	"verif/ref/ja3ref"
	"verif/ref/ja4ref"
)

// Population pass: the "past or concurrent" of the statement on the scale of a process that has been up for a while.
// One proxy; a keep-alive HTTP/1.1 client and an HTTP/2 client stay connected while
//   - a heavy HTTP/2 connection sends a storm of PRIORITY frames (more than any per-process budget a connection could
//     be made to share) and stays open,
//   - a population of P clients with pairwise different cipher-suite AND extension lists connects, sends one request
//     and leaves (more distinct hellos than any table of recently seen ones holds),
//
// then the two residents send again, and their hellos come back on fresh connections. Every request that reaches the
// backend is judged as in the interleaving part: the three fingerprints are those of its own connection.
func populationPass(t *testing.T, rep *ev.Report) {
	P, storm := 300, 70000
	if ev.Thorough() {
		P = 700
	}
	rep.Info["population_pass"] = map[string]any{"distinct_hellos": P + 3, "priority_storm_frames_on_another_connection": storm,
		"residents": "h1 keep-alive (requests before and after the population), h2 with 3 PRIORITY frames (opened after the storm, requests before and after the population)"}
	type sent struct {
		cl *bubble.Client
		h2 *h2fpref.State
	}
	res := bubble.Run(t, func() {
		// library use: the caller's own context has been through metadata.NewContext already (it carries a Metadata of
		// its own, e.g. because it was derived from another connection's context); every connection still gets its own
		baseCtx, _ := metadata.NewContext(context.Background())
		st := bubble.NewStack(bubble.StackOpts{Injectors: fingerproxy.DefaultHeaderInjectors(), HandshakeTimeout: 10 * time.Second, BaseCtx: baseCtx})
		defer st.Shutdown()
		addr := memnet.TCPAddr("198.51.100.7", 44444)
		by := map[string]sent{}
		variant := func(k int, alpn []string) bubble.Hello {
			return bubble.Hello{Name: fmt.Sprintf("variant-%d", k), ID: &utls.HelloChrome_102, ALPN: alpn, SNI: "localhost", Rand: bubble.FixedRand{},
				Mutate: func(spec *utls.ClientHelloSpec) {
					// a cipher-suite code and an extension code of its own (both unknown to the server, which ignores them)
					spec.CipherSuites = append(append([]uint16{}, spec.CipherSuites...), uint16(0x5000+k))
					spec.Extensions = append(append([]utls.TLSExtension{}, spec.Extensions[:len(spec.Extensions)-1]...),
						&utls.GenericExtension{Id: uint16(0x6000 + k)}, spec.Extensions[len(spec.Extensions)-1])
				}}
		}
		connect := func(name string, h bubble.Hello) *bubble.Client {
			cl := st.Connect(name, addr, h)
			synctest.Wait()
			if d, err := cl.Handshake(); !d || err != nil {
				panic(mc.HarnessError{Msg: fmt.Sprintf("population pass: handshake of %s: %v %v", name, d, err)})
			}
			return cl
		}
		h1 := func(cl *bubble.Client, path string) {
			cl.SendH1(bubble.Req{Path: path, Host: "localhost"})
			by[path] = sent{cl, nil}
			synctest.Wait()
		}
		std := []string{":method", ":scheme", ":authority", ":path"}
		h2 := func(cl *bubble.Client, state *h2fpref.State, stream uint32, path string) {
			vals := map[string]string{":method": "GET", ":scheme": "https", ":authority": "localhost", ":path": path}
			var fs []h2wire.HF
			for _, n := range std {
				fs = append(fs, h2wire.HF{Name: n, Value: vals[n]})
			}
			cl.Write(h2wire.Headers(stream, cl.Enc.Block(fs...), true, true, nil, -1))
			state.OnHeaders(std, nil)
			by[path] = sent{cl, state.Clone()}
			synctest.Wait()
		}
		openH2 := func(name string, h bubble.Hello) (*bubble.Client, *h2fpref.State) {
			cl := connect(name, h)
			state := &h2fpref.State{}
			cl.StartH2(h2wire.Setting{ID: 3, Val: 1000}, h2wire.Setting{ID: 4, Val: 6291456})
			state.OnSettings([]h2fpref.Setting{{ID: 3, Val: 1000}, {ID: 4, Val: 6291456}})
			cl.Write(h2wire.WindowUpdate(0, 15663105))
			state.OnWindowUpdate(15663105)
			for i, wgt := range []uint8{200, 100, 0} {
				cl.Write(h2wire.Priority(uint32(3+2*i), h2wire.Prio{Dep: 0, Weight: wgt}))
				state.OnPriority(h2fpref.Priority{Stream: uint32(3 + 2*i), Dep: 0, Weight: wgt})
			}
			synctest.Wait()
			return cl, state
		}

		keeper := connect("resident-h1", variant(0, []string{"http/1.1"}))
		h1(keeper, "/resident-h1/1")

		heavy := connect("heavy-h2", variant(1, []string{"h2"}))
		heavy.StartH2()
		var chunk []byte
		for i := 0; i < storm; i++ {
			chunk = append(chunk, h2wire.Priority(uint32(3+2*(i%1000)), h2wire.Prio{Dep: 0, Weight: uint8(i)})...)
			if len(chunk) >= 14000 || i == storm-1 {
				heavy.Write(chunk)
				chunk = chunk[:0]
				synctest.Wait()
			}
		}
		if e := heavy.ReadErr(); e != nil {
			panic(mc.HarnessError{Msg: fmt.Sprintf("population pass: the heavy connection was closed: %v", e)})
		}

		resident2, state2 := openH2("resident-h2", variant(2, []string{"h2"}))
		h2(resident2, state2, 1, "/resident-h2/1")

		for k := 3; k < 3+P; k++ {
			cl := connect(fmt.Sprintf("p%d", k), variant(k, []string{"http/1.1"}))
			h1(cl, fmt.Sprintf("/p/%d", k))
			cl.Close()
			synctest.Wait()
		}

		// twins: hellos that differ from an earlier client's only in what one of the two TLS fingerprints ignores (the
		// ALPN list: JA3 does not see it, JA4 does)
		for k := 3; k < 9; k++ {
			cl := connect(fmt.Sprintf("twin-of-p%d", k), variant(k, []string{"spdy/3", "http/1.1"}))
			h1(cl, fmt.Sprintf("/twin/%d", k))
			cl.Close()
			synctest.Wait()
		}
		// a connection that opens with the SAME SETTINGS, WINDOW_UPDATE and PRIORITY frames as the HTTP/2 resident and then
		// changes one of its settings in the middle of the connection
		changer, stateC := openH2("settings-changer", variant(1001, []string{"h2"}))
		h2(changer, stateC, 1, "/settings-changer/1")
		changer.Write(h2wire.Settings(h2wire.Setting{ID: 4, Val: 1048576}))
		stateC.OnSettings([]h2fpref.Setting{{ID: 4, Val: 1048576}})
		synctest.Wait()
		h2(changer, stateC, 9, "/settings-changer/2")

		h1(keeper, "/resident-h1/2")
		h2(resident2, state2, 9, "/resident-h2/2")
		again := connect("resident-h1-again", variant(0, []string{"http/1.1"}))
		h1(again, "/resident-h1-again/1")
		again2, stateA := openH2("resident-h2-again", variant(2, []string{"h2"}))
		h2(again2, stateA, 1, "/resident-h2-again/1")
		early := connect("p3-again", variant(3, []string{"http/1.1"}))
		h1(early, "/p3-again/1")

		// oracle
		got := st.Backend.All()
		rep.Add("population_requests", int64(len(got)))
		if len(got) != len(by) {
			rep.Violate(map[string]any{"kind": "population-request-lost"}, map[string]any{"sent": len(by), "received": len(got)},
				"population pass: %d requests sent, the backend received %d", len(by), len(got))
		}
		triples := map[string]bool{}
		for _, r := range got {
			s, okk := by[r.Path]
			if !okk {
				rep.Violate(map[string]any{"kind": "unknown-request", "pass": "population"}, map[string]any{"path": r.Path}, "population pass: backend received %s which no client sent", r.Path)
				continue
			}
			p, err := chello.Parse(s.cl.FirstRecord())
			if err != nil {
				panic(mc.HarnessError{Msg: "reference parser rejected a hello: " + err.Error()})
			}
			j3, j4, hf := r.Values("X-JA3-Fingerprint"), r.Values("X-JA4-Fingerprint"), r.Values("X-HTTP2-Fingerprint")
			replay := map[string]any{"pass": "population", "request": r.Path, "client": s.cl.Name, "distinct_hellos_before": P + 3, "priority_storm": storm}
			if len(j3) != 1 || j3[0] != ja3ref.Admissible(p)[0] {
				rep.Violate(map[string]any{"kind": "ja3-of-other-connection", "pass": "population"}, replay, "population pass: request %s (client %s) carries X-JA3-Fingerprint %v, its own connection's hello gives %v", r.Path, s.cl.Name, j3, ja3ref.Admissible(p))
			}
			if m, _ := ja4ref.Of(p).Match(first(j4)); len(j4) != 1 || !m {
				rep.Violate(map[string]any{"kind": "ja4-of-other-connection", "pass": "population"}, replay, "population pass: request %s (client %s) carries X-JA4-Fingerprint %v, its own connection's hello gives %v", r.Path, s.cl.Name, j4, ja4ref.Of(p).Strings())
			}
			if s.h2 != nil {
				if len(hf) != 1 || !s.h2.Equal(hf[0], -1) {
					rep.Violate(map[string]any{"kind": "h2fp-of-other-connection", "pass": "population"}, replay, "population pass: request %s (client %s) carries X-HTTP2-Fingerprint %v, its own connection's frames give %s", r.Path, s.cl.Name, hf, s.h2.String(-1))
				}
			} else if len(hf) != 0 {
				rep.Violate(map[string]any{"kind": "h2fp-on-h1", "pass": "population"}, replay, "population pass: HTTP/1.1 request %s carries X-HTTP2-Fingerprint %v", r.Path, hf)
			}
			triples[first(j3)+"|"+first(j4)] = true
		}
		rep.Add("population_distinct_fingerprint_pairs", int64(len(triples)))
		if len(triples) < P {
			rep.HarnessError("population pass is vacuous: only %d distinct (JA3, JA4) pairs among %d different hellos", len(triples), P+3)
		}
		heavy.Close()
	})
	if res.Panic != nil {
		if he, ok := res.Panic.(mc.HarnessError); ok {
			rep.HarnessError("%v", he)
		} else {
			rep.Violate(map[string]any{"kind": "panic", "pass": "population"}, map[string]any{"panic": fmt.Sprint(res.Panic)}, "population pass: panic: %v\n%s", res.Panic, res.Stack)
		}
	}
	if res.Hang != "" {
		rep.Violate(map[string]any{"kind": "hang", "pass": "population"}, map[string]any{"hang": res.Hang}, "population pass: %s", res.Hang)
	}
}
