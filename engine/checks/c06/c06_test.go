//go:build verif

// C06 — fingerprints are attributed to the right connection under concurrency.
package c06

import (
	"fmt"
	"sort"
	"strings"
	"testing"
	"time"

	utls "github.com/refraction-networking/utls"
	"github.com/wi1dcard/fingerproxy"
	"verif/bubble"
	"verif/ev"
	"verif/mc"
	"verif/memnet"
	"verif/racepass"
	"verif/ref/chello"
	"verif/ref/h2fpref"
	"verif/ref/h2wire"
	"verif/ref/ja3ref"
	"verif/ref/ja4ref"
)

// conn is one connection of a client actor with the ground truth of what it sent
type conn struct {
	cl    *bubble.Client
	h2    *h2fpref.State // frames sent so far (h2 only)
	paths map[string]*h2fpref.State
}

type world struct {
	st    *bubble.Stack
	conns map[string]*conn // path prefix -> connection that sent it
	// abandoned: requests the backend had not seen yet when their client closed the connection. Whether such a request
	// is still served is decided between goroutines of net/http the explorer does not own; it is judged like any other
	// if it arrives, but it is not part of the observation the determinism self-check compares.
	abandoned map[string]bool
}

// closeConn closes a client connection, noting the requests it abandons.
func (w *world) closeConn(c *conn) {
	seen := map[string]bool{}
	for _, r := range w.st.Backend.All() {
		seen[r.Path] = true
	}
	for p := range c.paths {
		if !seen[p] {
			w.abandoned[p] = true
		}
	}
	c.cl.Close()
}

func (w *world) h2req(c *conn, stream uint32, path string, prio *h2wire.Prio, order []string) {
	vals := map[string]string{":method": "GET", ":scheme": "https", ":authority": "localhost", ":path": path}
	var fs []h2wire.HF
	for _, n := range order {
		fs = append(fs, h2wire.HF{Name: n, Value: vals[n]})
	}
	c.cl.Write(h2wire.Headers(stream, c.cl.Enc.Block(fs...), true, true, prio, -1))
	var p *h2fpref.Priority
	if prio != nil {
		p = &h2fpref.Priority{Stream: stream, Dep: prio.Dep, Excl: prio.Excl, Weight: prio.Weight}
	}
	c.h2.OnHeaders(order, p)
	c.paths[path] = c.h2.Clone()
	w.conns[path] = c
}

func (w *world) h1req(c *conn, path string) {
	c.cl.SendH1(bubble.Req{Path: path, Host: "localhost"})
	c.paths[path] = nil
	w.conns[path] = c
}

func ok(cl *bubble.Client) bool {
	if cl == nil {
		return false
	}
	d, e := cl.Handshake()
	return d && e == nil
}

func runOne(t *testing.T, c *mc.Chooser) (out mc.Outcome) {
	viol := func(sig, f string, a ...any) {
		out.Violations = append(out.Violations, fmt.Sprintf(f, a...)+fmt.Sprintf(" [schedule %v]", c.Trace()))
		out.Sigs = append(out.Sigs, sig)
	}
	res := bubble.Run(t, func() {
		gates := bubble.NewGates("proxyserver.serveConn.handshook", "proxyserver.serveConn.beforeSend", "hack.ChannelListener.accepted")
		defer gates.Uninstall()
		st := bubble.NewStack(bubble.StackOpts{Injectors: fingerproxy.DefaultHeaderInjectors(), HandshakeTimeout: 10 * time.Second})
		w := &world{st: st, conns: map[string]*conn{}, abandoned: map[string]bool{}}
		shared := memnet.TCPAddr("198.51.100.7", 44444) // A and B report the same peer address
		var a, b, c1, c2 *conn
		mk := func(name string, addr any, h bubble.Hello) *conn {
			var cl *bubble.Client
			_ = addr
			h.Rand = bubble.FixedRand{}      // every ClientHello carries the same client random: nothing chosen by the client identifies a connection
			cl = st.Connect(name, shared, h) // every client reports the same peer address (e.g. behind one NAT)
			return &conn{cl: cl, h2: &h2fpref.State{}, paths: map[string]*h2fpref.State{}}
		}
		std := []string{":method", ":scheme", ":authority", ":path"}
		actors := []*bubble.Actor{
			{Name: "A", Steps: []bubble.Step{
				{Name: "connect h2 (chrome)", Do: func() {
					a = mk("A", shared, bubble.Hello{Name: "chrome", ID: &utls.HelloChrome_102, ALPN: []string{"h2", "http/1.1"}, SNI: "localhost"})
				}},
				{Name: "preface S{3:100,4:7}+WU 1000", Do: func() {
					if !ok(a.cl) {
						return
					}
					a.cl.StartH2(h2wire.Setting{ID: 3, Val: 100}, h2wire.Setting{ID: 4, Val: 7})
					a.h2.OnSettings([]h2fpref.Setting{{ID: 3, Val: 100}, {ID: 4, Val: 7}})
					a.cl.Write(h2wire.WindowUpdate(0, 1000))
					a.h2.OnWindowUpdate(1000)
				}},
				{Name: "request /a1 (stream 1, prio)", Do: func() {
					if ok(a.cl) {
						w.h2req(a, 1, "/a1", &h2wire.Prio{Dep: 0, Weight: 41}, std)
					}
				}},
				{Name: "request /a2 (stream 3)", Do: func() {
					if ok(a.cl) {
						w.h2req(a, 3, "/a2", nil, []string{":method", ":path", ":authority", ":scheme"})
					}
				}},
				{Name: "close", Do: func() { w.closeConn(a) }},
			}},
			{Name: "B", Steps: []bubble.Step{
				{Name: "connect h1 (firefox, same peer address as A)", Do: func() {
					b = mk("B", shared, bubble.Hello{Name: "firefox", ID: &utls.HelloFirefox_105, ALPN: []string{"http/1.1"}, SNI: "localhost"})
				}},
				{Name: "request /b1", Do: func() {
					if ok(b.cl) {
						w.h1req(b, "/b1")
					}
				}},
				{Name: "request /b2 (keep-alive)", Do: func() {
					if ok(b.cl) {
						w.h1req(b, "/b2")
					}
				}},
				{Name: "close", Do: func() { w.closeConn(b) }},
			}},
			{Name: "C", Steps: []bubble.Step{
				{Name: "connect h2 (safari)", Do: func() {
					c1 = mk("C", nil, bubble.Hello{Name: "safari", ID: &utls.HelloSafari_16_0, ALPN: []string{"h2", "http/1.1"}, SNI: "localhost"})
				}},
				{Name: "preface S{2:0}+12 PRIORITY+request /c1", Do: func() {
					if !ok(c1.cl) {
						return
					}
					c1.cl.StartH2(h2wire.Setting{ID: 2, Val: 0})
					c1.h2.OnSettings([]h2fpref.Setting{{ID: 2, Val: 0}})
					// a PRIORITY storm: far more entries than the other connections record (whatever room a connection has
					// for them, this one outgrows it)
					for i := 0; i < 12; i++ {
						pr := h2wire.Prio{Dep: uint32(2 * (i % 3)), Excl: i%2 == 0, Weight: uint8(200 - i)}
						c1.cl.Write(h2wire.Priority(uint32(3+2*i), pr))
						c1.h2.OnPriority(h2fpref.Priority{Stream: uint32(3 + 2*i), Dep: pr.Dep, Excl: pr.Excl, Weight: pr.Weight})
					}
					w.h2req(c1, 1, "/c1", nil, []string{":method", ":scheme", ":path", ":authority"})
				}},
				{Name: "request /c1b (stream 27)", Do: func() {
					if ok(c1.cl) {
						w.h2req(c1, 27, "/c1b", nil, []string{":method", ":scheme", ":path", ":authority"})
					}
				}},
				{Name: "disconnect", Do: func() { w.closeConn(c1) }},
				{Name: "reconnect h1 (chrome102 without ec_point_formats)", Do: func() {
					// a hello WITHOUT ec_point_formats (legal; RFC 8422 then assumes uncompressed): a fingerprint field that is
					// empty for this connection while every other connection has it
					c2 = mk("C", nil, bubble.Hello{Name: "chrome102-nopoints", ID: &utls.HelloChrome_102, SNI: "example.com", ALPN: []string{"http/1.1"},
						Mutate: func(spec *utls.ClientHelloSpec) {
							var keep []utls.TLSExtension
							for _, e := range spec.Extensions {
								if _, ok := e.(*utls.SupportedPointsExtension); !ok {
									keep = append(keep, e)
								}
							}
							spec.Extensions = keep
						}})
				}},
				{Name: "request /c2", Do: func() {
					if ok(c2.cl) {
						w.h1req(c2, "/c2")
					}
				}},
				{Name: "close", Do: func() { w.closeConn(c2) }},
			}},
		}
		named := 0
		bubble.ScheduleStrict(c, gates, actors, func() bool {
			cls := st.Clients()
			for ; named < len(cls); named++ {
				if cls[named].Srv != nil {
					gates.NameKey(cls[named].Srv, cls[named].Name)
				}
			}
			gates.Rename()
			return true
		})
		gates.Open()
		// oracle
		var obs []string
		triples := map[string]bool{}
		for _, r := range st.Backend.All() {
			cn := w.conns[r.Path]
			if cn == nil {
				viol("unknown-request", "backend received %s which no client sent", r.Path)
				continue
			}
			rec := cn.cl.FirstRecord()
			p, err := chello.Parse(rec)
			if err != nil {
				panic(mc.HarnessError{Msg: "reference parser rejected a hello: " + err.Error()})
			}
			j3 := r.Values("X-JA3-Fingerprint")
			j4 := r.Values("X-JA4-Fingerprint")
			h2 := r.Values("X-HTTP2-Fingerprint")
			if len(j3) != 1 || j3[0] != ja3ref.Admissible(p)[0] {
				viol("ja3-of-other-connection", "request %s (client %s) carries X-JA3-Fingerprint %v, its own connection's hello gives %v", r.Path, cn.cl.Name, j3, ja3ref.Admissible(p))
			}
			if m, _ := ja4ref.Of(p).Match(first(j4)); len(j4) != 1 || !m {
				viol("ja4-of-other-connection", "request %s (client %s) carries X-JA4-Fingerprint %v, its own connection's hello gives %v", r.Path, cn.cl.Name, j4, ja4ref.Of(p).Strings())
			}
			if st8 := cn.paths[r.Path]; st8 != nil {
				// admissible: any state from the request's own HEADERS to everything this connection has sent
				good := len(h2) == 1 && (st8.Equal(h2[0], -1) || cn.h2.Equal(h2[0], -1))
				if !good {
					viol("h2fp-of-other-connection", "request %s (client %s) carries X-HTTP2-Fingerprint %v, its own connection's frames give %s", r.Path, cn.cl.Name, h2, st8.String(-1))
				}
			} else if len(h2) != 0 {
				viol("h2fp-on-h1", "HTTP/1.1 request %s carries X-HTTP2-Fingerprint %v", r.Path, h2)
			}
			if w.abandoned[r.Path] {
				continue
			}
			obs = append(obs, r.Path)
			triples[first(j3)+"|"+first(j4)+"|"+first(h2)] = true
		}
		// (which requests reached the backend, not in which order: two requests of one connection that were waiting behind a
		// parked gate are handled by two handler goroutines at once)
		sort.Strings(obs)
		out.Obs = strings.Join(obs, ",") + fmt.Sprintf(" triples=%d", len(triples))
		if len(obs) == 7 && len(triples) < 4 {
			viol("vacuous", "only %d distinct fingerprint triples among 4 connections with different hellos", len(triples))
		}
		st.Shutdown()
	})
	if res.Panic != nil {
		if he, ok := res.Panic.(mc.HarnessError); ok {
			panic(he)
		}
		viol("panic", "panic: %v\n%s", res.Panic, res.Stack)
	}
	if res.Hang != "" {
		viol("hang", "%s", res.Hang)
	}
	return out
}

func first(v []string) string {
	if len(v) > 0 {
		return v[0]
	}
	return ""
}

func TestCheck(t *testing.T) {
	rep := ev.New("C06", "model_checking")
	defer rep.Write()
	shard, of := mc.ShardFromEnv()
	bound, budget := 3, 70*time.Second
	if ev.Thorough() {
		bound, budget = 4, 40*time.Minute
	}
	rep.Info["max_deviation_bound_completed"] = bound
	rep.Info["rule"] = "3 client actors (A: h2, two multiplexed requests; B: h1 keep-alive, two requests, same peer address as A; C: h2, one request, disconnect, reconnect as h1 with a fourth hello) x serveConn gates; all interleavings with <= bound deviations from the sequential order"
	rep.Assume("interleavings at environment-step and vhook-gate granularity", "references: chello parser + ja3ref + ja4ref + h2fpref (independent of the code under test)")
	if rq, ok := ev.ReplayRequest(); ok {
		o, trace := mc.Replay(ev.Ints(rq["choices"]), func(c *mc.Chooser) mc.Outcome { return runOne(t, c) })
		rep.Add("schedules", 1)
		rep.Add("states", int64(len(trace)))
		rep.Add("transitions", int64(len(trace)))
		rep.Add("traces_validated_against_impl", 1)
		rep.Sample(map[string]any{"replayed_schedule": trace, "observation": o.Obs})
		for i, v := range o.Violations {
			rep.Violate(map[string]any{"kind": o.Sigs[i]}, rq, "%s", v)
		}
		return
	}
	if shard == of-1 {
		populationPass(t, rep)
	}
	e := &mc.Explorer{Bound: bound, Shard: shard, Of: of, Deadline: time.Now().Add(budget)}
	func() {
		defer func() {
			if r := recover(); r != nil {
				if he, ok := r.(mc.HarnessError); ok {
					rep.HarnessError("%v", he)
					return
				}
				panic(r)
			}
		}()
		e.Explore(func(c *mc.Chooser) mc.Outcome { return runOne(t, c) })
	}()
	rep.Add("schedules", int64(e.Schedules))
	rep.Add("states", int64(e.Points))
	rep.Add("transitions", int64(e.Points))
	rep.Add("traces_validated_against_impl", int64(e.Schedules))
	rep.Add("rechecked", int64(e.Rechecked))
	for k := range e.Outcomes {
		rep.Note("distinct_outcomes", k)
	}
	for _, s := range e.SampleRuns {
		rep.Sample(map[string]any{"schedule": s})
	}
	if e.Capped {
		rep.NotExhaustive("time budget reached")
	}
	for _, d := range e.Diverged {
		rep.HarnessError("non-deterministic observation: %s", d)
	}
	for _, f := range e.Found {
		okN := 0
		for i := 0; i < 5; i++ {
			if o, _ := mc.Replay(f.Choices, func(c *mc.Chooser) mc.Outcome { return runOne(t, c) }); len(o.Violations) > 0 {
				okN++
			}
		}
		if okN != 5 {
			rep.HarnessError("violation did not reproduce 5/5 (%d): %s", okN, f.What)
			continue
		}
		rep.Violate(map[string]any{"kind": f.Sig}, map[string]any{"choices": f.Choices, "schedule": f.Trace}, "%s", f.What)
	}
}

// ---- free-running race pass: many concurrent connections, real goroutines, no bubble ------------------------------------

func TestRace(t *testing.T) {
	rep := ev.New("C06", "model_checking")
	defer rep.Write()
	racepass.Parent(t, rep, "TestRaceWorkload", []string{"pkg/proxyserver", "pkg/metadata", "pkg/hack", "pkg/fingerprint", "pkg/reverseproxy", "fingerproxy."},
		"unsynchronised sharing between connections in the proxy's own code while many clients connect at once")
}

func TestRaceWorkload(t *testing.T) {
	if !racepass.IsChild() {
		t.Skip("only run as a child of TestRace")
	}
	st := bubble.NewStack(bubble.StackOpts{Injectors: fingerproxy.DefaultHeaderInjectors(), HandshakeTimeout: 10 * time.Second})
	hellos := []bubble.Hello{
		{Name: "chrome", ID: &utls.HelloChrome_102, ALPN: []string{"h2", "http/1.1"}, SNI: "localhost"},
		{Name: "firefox", ID: &utls.HelloFirefox_105, ALPN: []string{"http/1.1"}, SNI: "localhost"},
		{Name: "safari", ID: &utls.HelloSafari_16_0, ALPN: []string{"h2", "http/1.1"}, SNI: "localhost"},
		{Name: "go", SNI: "example.com", ALPN: []string{"h2"}},
	}
	waitFor := func(cond func() bool) {
		for i := 0; i < 2000 && !cond(); i++ {
			time.Sleep(time.Millisecond)
		}
	}
	rounds := 60
	if ev.Thorough() {
		rounds = 300
	}
	for round := 0; round < rounds; round++ {
		var cls []*bubble.Client
		for i := 0; i < 8; i++ {
			cls = append(cls, st.Connect(fmt.Sprintf("r%dc%d", round, i), memnet.TCPAddr("198.51.100.7", 44444), hellos[(round+i)%len(hellos)]))
		}
		for i, cl := range cls {
			cl := cl
			waitFor(func() bool { d, _ := cl.Handshake(); return d })
			if d, err := cl.Handshake(); !d || err != nil {
				continue
			}
			path := fmt.Sprintf("/race-%d-%d", round, i)
			if cl.Proto == "h2" {
				cl.StartH2(h2wire.Setting{ID: 3, Val: uint32(100 + i)})
				cl.SendH2(1, bubble.Req{Path: path, Host: "localhost"})
			} else {
				cl.SendH1(bubble.Req{Path: path, Host: "localhost"})
			}
		}
		waitFor(func() bool { return st.Backend.Count() >= 8*(round+1) })
		for _, cl := range cls {
			cl.Close()
		}
	}
	st.Shutdown()
	t.Logf("race workload: backend saw %d requests; counter %v", st.Backend.Count(), st.Counter())
	if st.Backend.Count() < 8*rounds-8 {
		t.Errorf("race workload did not run as intended: only %d of %d requests were served", st.Backend.Count(), 8*rounds)
	}
}
