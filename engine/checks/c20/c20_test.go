//go:build verif

// C20 — write schedulers lose nothing, keep order and respect windows.
//
// Explicit-state breadth-first search over the REAL scheduler objects
// (round-robin, random, priority with several configurations) driven through
// the WriteScheduler interface with stream/serverConn shells (export shim in
// pkg/http2). State = operation history; successor = replay + one operation;
// states are merged on a canonical dump of the scheduler's entire private
// structure (+ the harness' view: stream states, windows). After every
// operation the result is compared with the set of outcomes admitted by the
// list-of-queues reference scheduler verif/ref/schedref; at every state the
// priority tree invariant is checked and a drain (open all windows, Pop until
// "nothing") must hand out exactly what is still owed.
package c20

import (
	"crypto/sha256"
	"encoding/json"
	"fmt"
	"os"
	"os/exec"
	"runtime"
	"runtime/debug"
	"sort"
	"strconv"
	"strings"
	"sync"
	"sync/atomic"
	"testing"
	"time"
	"unsafe"

	"github.com/wi1dcard/fingerproxy/pkg/http2"
	"verif/ev"
	"verif/mc"
	"verif/ref/schedref"
)

// ---- operations -----------------------------------------------------------------

type opKind uint8

const (
	opOpen opKind = iota
	opClose
	opPushCtl
	opPushRST
	opPushH
	opPushD
	opPop
	opSetSW
	opSetCW
	opAdjust
	opSetMF
)

var opKindName = [...]string{"Open", "Close", "PushCtl", "PushRST", "PushHEADERS", "PushDATA", "Pop", "SetStreamWindow", "SetConnWindow", "Adjust", "SetMaxFrame"}

type op struct {
	k      opKind
	s      uint32 // stream
	n      int    // DATA size
	end    bool   // DATA: endStream + completion channel
	w      int32  // window value
	dep    uint32
	excl   bool
	weight uint8
	pusher uint32
	name   string
}

func mkOpen(s, pusher uint32) op {
	n := fmt.Sprintf("Open(%d)", s)
	if pusher != 0 {
		n = fmt.Sprintf("Open(%d,pusher=%d)", s, pusher)
	}
	return op{k: opOpen, s: s, pusher: pusher, name: n}
}
func mkClose(s uint32) op { return op{k: opClose, s: s, name: fmt.Sprintf("Close(%d)", s)} }
func mkCtl() op           { return op{k: opPushCtl, name: "Push(control)"} }
func mkRST(s uint32) op   { return op{k: opPushRST, s: s, name: fmt.Sprintf("Push(RST_STREAM %d)", s)} }
func mkH(s uint32) op     { return op{k: opPushH, s: s, name: fmt.Sprintf("Push(HEADERS %d)", s)} }
func mkD(s uint32, n int, end bool) op {
	return op{k: opPushD, s: s, n: n, end: end, name: fmt.Sprintf("Push(DATA %d,len=%d,endStream=%v)", s, n, end)}
}
func mkPop() op { return op{k: opPop, name: "Pop"} }
func mkSW(s uint32, w int32) op {
	return op{k: opSetSW, s: s, w: w, name: fmt.Sprintf("SetStreamWindow(%d,%d)", s, w)}
}
func mkCW(w int32) op { return op{k: opSetCW, w: w, name: fmt.Sprintf("SetConnWindow(%d)", w)} }
func mkMF(w int32) op { return op{k: opSetMF, w: w, name: fmt.Sprintf("SetMaxFrame(%d)", w)} }
func mkAdj(s, dep uint32, excl bool, weight uint8) op {
	return op{k: opAdjust, s: s, dep: dep, excl: excl, weight: weight, name: fmt.Sprintf("Adjust(%d,dep=%d,excl=%v,w=%d)", s, dep, excl, weight)}
}

// ---- jobs ---------------------------------------------------------------------------

type job struct {
	name     string
	sched    string // rr | random | priority
	cfgName  string // priority: "default", "0/0", "1/1", "2/2", "throttle"
	cfg      *http2.PriorityWriteSchedulerConfig
	maxFrame int32
	initSW   int32
	initCW   int32
	ops      []op
	depthQ   int
	depthT   int
	maxQ     int // > 0: a frame is pushed to a stream only while fewer than maxQ are queued on it (keeps deep jobs finite)
}

func (j *job) newSched() http2.WriteScheduler {
	switch j.sched {
	case "rr":
		return http2.VerifC20NewRoundRobin()
	case "random":
		return http2.NewRandomWriteScheduler()
	}
	return http2.NewPriorityWriteScheduler(j.cfg)
}

// flow profile: few streams, every kind of push, windows and frame sizes that force splitting
func flowOps(streams []uint32, sizes []int, sws, cws []int32, rsts []uint32, adj []op) []op {
	var o []op
	for _, s := range streams {
		o = append(o, mkOpen(s, 0))
	}
	for _, s := range streams {
		o = append(o, mkClose(s))
	}
	o = append(o, mkCtl())
	for _, s := range rsts {
		o = append(o, mkRST(s))
	}
	for _, s := range streams {
		o = append(o, mkH(s))
	}
	for _, s := range streams {
		for i, n := range sizes {
			o = append(o, mkD(s, n, i == len(sizes)-1 || n == 0)) // the largest size (and the empty frame) carry endStream + completion channel
		}
	}
	o = append(o, mkPop())
	for _, s := range streams {
		for _, w := range sws {
			o = append(o, mkSW(s, w))
		}
	}
	for _, w := range cws {
		o = append(o, mkCW(w))
	}
	o = append(o, adj...)
	return o
}

// tree profile (priority scheduler): every priority update over open / idle / closed streams
func treeOps(open []uint32, adjIDs, deps []uint32, weights []uint8, extraIdle []uint32, pushers [][2]uint32, data []uint32) []op {
	var o []op
	for _, s := range open {
		o = append(o, mkOpen(s, 0))
	}
	for _, p := range pushers {
		o = append(o, mkOpen(p[0], p[1]))
	}
	for _, s := range open {
		o = append(o, mkClose(s))
	}
	for _, s := range adjIDs {
		for _, d := range deps {
			for _, ex := range []bool{false, true} {
				for _, w := range weights {
					o = append(o, mkAdj(s, d, ex, w))
				}
			}
		}
	}
	for _, s := range extraIdle {
		o = append(o, mkAdj(s, 0, false, 15))
	}
	o = append(o, mkCtl())
	for _, s := range open {
		o = append(o, mkH(s))
	}
	for _, s := range data {
		o = append(o, mkD(s, 5, true))
	}
	o = append(o, mkPop())
	return o
}

func jobs() []*job {
	var js []*job
	u := func(x ...uint32) []uint32 { return x }
	adj1 := []op{mkAdj(1, 3, true, 255), mkAdj(3, 1, false, 0)}
	// depths: [flow mf=2, flow mf=16384, ring, edge-windows] x {quick, thorough}
	depths := map[string][4][2]int{
		"rr":     {{7, 9}, {6, 8}, {8, 10}, {6, 8}},
		"random": {{6, 8}, {5, 7}, {7, 9}, {6, 7}},
	}
	for _, sched := range []string{"rr", "random"} {
		d := depths[sched]
		for i, mf := range []int32{2, 16384} {
			js = append(js, &job{name: fmt.Sprintf("%s/flow/maxframe=%d", sched, mf), sched: sched, maxFrame: mf, initSW: 3, initCW: 8,
				ops:    flowOps(u(1, 3), []int{1, 5}, []int32{0, 1, 3}, []int32{0, 2, 8}, u(1, 7), adj1[:1]),
				depthQ: d[i][0], depthT: d[i][1]})
		}
		js = append(js, &job{name: sched + "/ring", sched: sched, maxFrame: 16384, initSW: 3, initCW: 8,
			ops:    flowOps(u(1, 3, 5), []int{5}, nil, []int32{0, 8}, u(7), nil),
			depthQ: d[2][0], depthT: d[2][1]})
		// recycling: streams come and go while frames are half written (queues return to the pool and are handed out
		// again); only open / close / one DATA size that splits in two / pop, at most two frames queued per stream, deep
		js = append(js, &job{name: sched + "/recycle", sched: sched, maxFrame: 2, initSW: 1000, initCW: 100000, maxQ: 2,
			ops:    []op{mkOpen(1, 0), mkOpen(3, 0), mkOpen(5, 0), mkClose(1), mkClose(3), mkClose(5), mkD(1, 4, false), mkD(3, 4, false), mkD(5, 4, false), mkPop()},
			depthQ: map[string]int{"rr": 13, "random": 11}[sched], depthT: map[string]int{"rr": 16, "random": 11}[sched]})
		// (random: a history is replayed until Go's map iteration reproduces its Pop choices; with two candidates the
		// less likely one has probability 1/8, so histories with many such Pops cannot be replayed - depth 11 is what
		// 200 000 attempts reproduce reliably)
		js = append(js, &job{name: sched + "/edge-windows", sched: sched, maxFrame: 3, initSW: 1, initCW: 2,
			ops:    flowOps(u(1, 3), []int{0, 2, 4}, []int32{-1, 5}, []int32{-2, 1, 6}, nil, []op{mkMF(1), mkMF(16384)}),
			depthQ: d[3][0], depthT: d[3][1]})
	}
	type pc struct {
		name string
		cfg  *http2.PriorityWriteSchedulerConfig
	}
	pcs := []pc{
		{"default", nil},
		{"0/0", &http2.PriorityWriteSchedulerConfig{}},
		{"1/1", &http2.PriorityWriteSchedulerConfig{MaxClosedNodesInTree: 1, MaxIdleNodesInTree: 1}},
		{"2/2", &http2.PriorityWriteSchedulerConfig{MaxClosedNodesInTree: 2, MaxIdleNodesInTree: 2}},
		{"throttle", &http2.PriorityWriteSchedulerConfig{MaxClosedNodesInTree: 10, MaxIdleNodesInTree: 10, ThrottleOutOfOrderWrites: true}},
		{"0/2", &http2.PriorityWriteSchedulerConfig{MaxClosedNodesInTree: 0, MaxIdleNodesInTree: 2}},
		{"2/0", &http2.PriorityWriteSchedulerConfig{MaxClosedNodesInTree: 2, MaxIdleNodesInTree: 0}},
	}
	for _, c := range pcs {
		// tree: all updates among 3 openable streams + idle 7 (+ 9, 11 to overflow the idle list)
		js = append(js, &job{name: "priority[" + c.name + "]/tree", sched: "priority", cfgName: c.name, cfg: c.cfg, maxFrame: 16384, initSW: 3, initCW: 8,
			ops:    treeOps(u(1, 3, 5), u(1, 3, 5, 7), u(0, 1, 3, 5, 7), []uint8{0, 255}, u(9, 11), [][2]uint32{{3, 1}, {5, 7}}, u(1, 3)),
			depthQ: map[bool]int{true: 3, false: 4}[c.name == "throttle" || c.name == "0/2" || c.name == "2/0"], depthT: map[bool]int{true: 4, false: 5}[c.name == "throttle"]}) // with 5-byte frames the throttle tree job repeats the default one
		// flow: same alphabet as the other schedulers plus two re-parentings
		for _, mf := range []int32{2, 16384} {
			if mf == 16384 && c.name != "default" && c.name != "throttle" || c.name == "0/2" || c.name == "2/0" {
				continue
			}
			js = append(js, &job{name: fmt.Sprintf("priority[%s]/flow/maxframe=%d", c.name, mf), sched: "priority", cfgName: c.name, cfg: c.cfg, maxFrame: mf, initSW: 3, initCW: 8,
				ops:    flowOps(u(1, 3), []int{1, 5}, []int32{0, 1, 3}, []int32{0, 2, 8}, u(1, 7), adj1),
				depthQ: 5, depthT: map[bool]int{true: 7, false: 6}[c.name == "default" && mf == 2]})
		}
	}
	// throttle with frames larger than the 1024-byte throttle quantum
	js = append(js, &job{name: "priority[throttle]/big-frames", sched: "priority", cfgName: "throttle", cfg: pcs[4].cfg, maxFrame: 16384, initSW: 4000, initCW: 4000,
		ops:    flowOps(u(1, 3), []int{5, 1500}, []int32{0, 1100}, []int32{0, 1030}, nil, []op{mkAdj(3, 1, false, 15), mkAdj(1, 3, true, 15)}),
		depthQ: 6, depthT: 8})
	return js
}

// ---- system = real scheduler + shells + reference ---------------------------------------------

type hframe struct {
	ref  *schedref.Frame
	info http2.VerifC20Frame
	orig []byte
	done chan error
}

type sys struct {
	j      *job
	sh     *http2.VerifC20Shell
	ws     http2.WriteScheduler
	ref    *schedref.Model
	frames []*hframe
}

func newSys(j *job) *sys {
	return &sys{j: j, sh: http2.VerifC20NewShell(j.maxFrame, j.initCW), ws: j.newSched(), ref: schedref.New(j.maxFrame, j.initCW)}
}

type violation struct {
	kind   string
	extra  map[string]any
	msg    string
	stream uint32 // evicted-open-node: which stream
}

func (s *sys) enabled(o *op) bool {
	st := s.ref.Status(o.s)
	switch o.k {
	case opOpen:
		// the interface forbids opening an open stream; a closed stream is never re-opened in HTTP/2
		if st != schedref.Idle {
			return false
		}
		return true
	case opPushH, opPushD:
		if st != schedref.Open {
			return false
		}
		return s.j.maxQ == 0 || len(s.ref.Streams[o.s].Q) < s.j.maxQ
	case opClose, opSetSW:
		return st == schedref.Open
	}
	return true
}

func payload(tag, n int) []byte {
	p := make([]byte, n)
	for i := range p {
		p[i] = byte((tag+1)*29 + i*7 + i>>8)
	}
	return p
}

// describe matches a popped request with the frame it was pushed as.
func (s *sys) describe(wr http2.FrameWriteRequest, ok bool) schedref.Popped {
	p := schedref.Popped{OK: ok}
	if !ok {
		return p
	}
	info := http2.VerifC20Info(wr)
	p.Desc = func() string {
		return fmt.Sprintf("[%s stream=%d len=%d endStream=%v done=%v]", info.Kind, info.StreamID, len(info.P), info.EndStream, info.Done != nil)
	}
	p.Bytes, p.EndStream, p.DoneIsNil = info.P, info.EndStream, info.Done == nil
	var hf *hframe
	for _, f := range s.frames {
		if f.info.Kind == info.Kind && f.info.W == info.W {
			hf = f
			break
		}
	}
	if hf == nil && info.Kind == "data" && len(info.P) > 0 {
		a := uintptr(unsafe.Pointer(&info.P[0]))
		for _, f := range s.frames {
			if f.info.Kind == "data" && len(f.orig) > 0 {
				b := uintptr(unsafe.Pointer(&f.orig[0]))
				if a >= b && a < b+uintptr(len(f.orig)) {
					hf = f
					break
				}
			}
		}
	}
	if hf == nil {
		return p
	}
	p.Frame = hf.ref
	p.StreamOK = info.Stream == hf.info.Stream && info.StreamID == hf.info.StreamID
	p.DoneIsOrig = hf.done != nil && info.Done == hf.done
	p.Identical = p.StreamOK && info.W == hf.info.W && info.Done == hf.done
	return p
}

func (s *sys) push(kind schedref.Kind, o *op) {
	tag := len(s.frames)
	hf := &hframe{ref: &schedref.Frame{Tag: tag, Kind: kind, Stream: o.s}}
	var wr http2.FrameWriteRequest
	switch kind {
	case schedref.Ctl:
		wr = http2.VerifC20Control(uint32(tag))
	case schedref.Rst:
		wr = http2.VerifC20RST(o.s, uint32(tag))
	case schedref.Hdr:
		wr = s.sh.Headers(o.s, tag)
	case schedref.Data:
		hf.orig = payload(tag, o.n)
		if o.end {
			hf.done = make(chan error, 1)
		}
		hf.ref.Orig, hf.ref.EndStream, hf.ref.HasDone = hf.orig, o.end, o.end
		wr = s.sh.Data(o.s, hf.orig, o.end, hf.done)
	}
	hf.info = http2.VerifC20Info(wr)
	s.frames = append(s.frames, hf)
	s.ref.Push(hf.ref)
	s.ws.Push(wr)
}

// step applies one operation to the real scheduler and the reference.
// choice (Pop): id of the stream served, 0 for control / nothing.
func (s *sys) step(o *op) (out string, choice uint8, vi *violation) {
	defer func() {
		if r := recover(); r != nil {
			if he, ok := r.(mc.HarnessError); ok {
				panic(he)
			}
			st := string(debug.Stack())
			if !implPanic(st) {
				panic(fmt.Sprintf("harness panic: %v\n%s", r, st))
			}
			msg := fmt.Sprint(r)
			vi = &violation{kind: "panic", extra: map[string]any{"op": opKindName[o.k], "panic": stripNumbers(msg)},
				msg: fmt.Sprintf("%s panicked: %s", o.name, msg)}
		}
	}()
	switch o.k {
	case opOpen:
		s.sh.NewStream(o.s, s.j.initSW)
		s.ref.Open(o.s, s.j.initSW)
		s.ws.OpenStream(o.s, http2.OpenStreamOptions{PusherID: o.pusher})
		out = "open"
	case opClose:
		if s.ref.Close(o.s) > 0 {
			out = "close-discarding"
		} else {
			out = "close-empty"
		}
		s.ws.CloseStream(o.s)
	case opPushCtl:
		s.push(schedref.Ctl, o)
	case opPushRST:
		s.push(schedref.Rst, o)
		out = "rst-on-" + [...]string{"idle", "open", "closed"}[s.ref.Status(o.s)]
	case opPushH:
		s.push(schedref.Hdr, o)
	case opPushD:
		s.push(schedref.Data, o)
	case opSetSW:
		cur := s.ref.Streams[o.s].Win
		s.sh.AddStreamWindow(o.s, o.w-cur)
		s.ref.Streams[o.s].Win = o.w
	case opSetCW:
		s.sh.AddConnWindow(o.w - s.ref.ConnWin)
		s.ref.ConnWin = o.w
	case opSetMF:
		s.sh.SetMaxFrame(o.w)
		s.ref.MaxFrame = o.w
	case opAdjust:
		s.ws.AdjustStream(o.s, http2.PriorityParam{StreamDep: o.dep, Exclusive: o.excl, Weight: o.weight})
		out = "adjust-" + [...]string{"idle", "open", "closed"}[s.ref.Status(o.s)]
		if o.dep == o.s {
			out += "-self"
		}
	case opPop:
		wr, ok := s.ws.Pop()
		p := s.describe(wr, ok)
		oc, rv := s.ref.Pop(p)
		if rv != nil {
			vi = &violation{kind: rv.Kind, extra: map[string]any{}, msg: rv.Msg}
			if rv.Limit != "" {
				vi.extra["limit"] = rv.Limit
			}
			return
		}
		out = string(oc)
		if ok && p.Frame != nil && (p.Frame.Kind == schedref.Hdr || p.Frame.Kind == schedref.Data) {
			choice = uint8(p.Frame.Stream)
		}
	}
	return
}

// implPanic: did the panic originate in the code under test (first non-runtime
// frame below panic() is in pkg/http2 and is not the export shim)?
func implPanic(st string) bool {
	ls := strings.Split(st, "\n")
	for i, l := range ls {
		if strings.HasPrefix(l, "panic(") {
			for k := i + 1; k < len(ls); k++ {
				f := ls[k]
				if strings.HasPrefix(f, "\t") || strings.HasPrefix(f, "runtime.") || strings.HasPrefix(f, "panic(") {
					continue
				}
				return strings.Contains(f, "fingerproxy/pkg/http2.") && !strings.Contains(f, "VerifC20") && !strings.Contains(f, "verifC20")
			}
		}
	}
	return false
}

func stripNumbers(s string) string {
	var b strings.Builder
	for _, r := range s {
		if r >= '0' && r <= '9' {
			if !strings.HasSuffix(b.String(), "N") {
				b.WriteByte('N')
			}
			continue
		}
		b.WriteRune(r)
	}
	return b.String()
}

// ---- canonical state key ------------------------------------------------------------------------------------

func fdesc(b *strings.Builder, frs []http2.FrameWriteRequest) {
	b.WriteByte('[')
	for _, wr := range frs {
		in := http2.VerifC20Info(wr)
		b.WriteString(in.Kind[:1])
		b.WriteString(strconv.Itoa(int(in.StreamID)))
		if in.Kind == "data" {
			b.WriteByte(':')
			b.WriteString(strconv.Itoa(len(in.P)))
			if in.EndStream {
				b.WriteByte('E')
			}
			if in.Done != nil {
				b.WriteByte('D')
			}
		}
		b.WriteByte(' ')
	}
	b.WriteByte(']')
}

func (s *sys) key(snap *http2.VerifC20Snap) string {
	var b strings.Builder
	b.Grow(256)
	s.ref.WriteKey(&b)
	b.WriteString(" | cw=")
	b.WriteString(strconv.Itoa(int(s.sh.ConnWindow())))
	for _, id := range []uint32{1, 3, 5} {
		if s.sh.HasStream(id) {
			b.WriteString(" w" + strconv.Itoa(int(id)) + "=" + strconv.Itoa(int(s.sh.StreamWindow(id))))
		}
	}
	b.WriteString(" | ctl")
	fdesc(&b, snap.Control)
	b.WriteString(" pool")
	b.WriteString(" uncovered=" + snap.Uncovered)
	if strings.Contains(snap.Uncovered, "<unsupported>") {
		uncoveredUnsupported.Store(snap.Uncovered)
	}
	for _, n := range snap.Pool {
		if n != 0 {
			b.WriteString(" dirty" + strconv.Itoa(n))
		}
	}
	switch snap.Kind {
	case "rr":
		b.WriteString(" head=" + snap.Head)
		for _, q := range snap.Queues {
			b.WriteString(" " + q.Label + ">" + q.Next + "<" + q.Prev)
			fdesc(&b, q.Frames)
		}
	case "random":
		for _, q := range snap.Queues {
			b.WriteString(" " + q.Label)
			fdesc(&b, q.Frames)
		}
	case "priority":
		b.WriteString(" max=" + strconv.Itoa(int(snap.MaxID)) + " thr=" + strconv.Itoa(int(snap.ThrottleLimit)) + " map=")
		for _, id := range snap.MapIDs {
			b.WriteString(strconv.Itoa(int(id)) + ",")
		}
		b.WriteString(" closed=" + strings.Join(snap.Closed, ",") + " idle=" + strings.Join(snap.Idle, ","))
		for i, n := range snap.Nodes {
			b.WriteString(" {" + n.Label + " id" + strconv.Itoa(int(n.ID)) + " w" + strconv.Itoa(int(n.Weight)) + " s" + strconv.Itoa(n.State) +
				" b" + strconv.FormatInt(n.Bytes, 10) + "/" + strconv.FormatInt(n.SubtreeBytes, 10) + " p" + n.Parent + " k" + n.Kids + " <" + n.Prev + " >" + n.Next)
			if i > 0 {
				fdesc(&b, n.Frames)
			}
			if !n.InMap {
				b.WriteString(" !map")
			}
			b.WriteByte('}')
		}
	}
	return b.String()
}

// ---- priority tree invariant -------------------------------------------------------------------------------------

// checkTree: the dependency structure is a tree rooted at stream 0: every node
// in the id map has a parent chain ending at the root, parent/kids/prev/next
// agree with each other, no node is listed twice, and every stream that is
// open has a node (state open).
func (s *sys) checkTree(snap *http2.VerifC20Snap) *violation {
	by := map[string]*http2.VerifC20Node{}
	for i := range snap.Nodes {
		by[snap.Nodes[i].Label] = &snap.Nodes[i]
	}
	bad := func(kind, f string, a ...any) *violation {
		return &violation{kind: kind, extra: map[string]any{}, msg: fmt.Sprintf(f, a...) + " — structure: " + treeString(snap)}
	}
	root := by["0"]
	if root == nil {
		return bad("tree-root", "no root node")
	}
	if !root.InMap || root.Parent != "" || root.Prev != "" || root.Next != "" || root.ID != 0 {
		return bad("tree-root", "the root node (stream 0) is not a proper root (in map=%v parent=%q prev=%q next=%q)", root.InMap, root.Parent, root.Prev, root.Next)
	}
	N := len(snap.Nodes) + 1
	childOf := map[string]string{}
	for i := range snap.Nodes {
		p := &snap.Nodes[i]
		prev := ""
		steps := 0
		for k := p.Kids; k != ""; {
			kn := by[k]
			if kn == nil || steps > N {
				return bad("tree-links", "the child list of node %s does not terminate or leaves the known nodes", p.Label)
			}
			steps++
			if kn.Parent != p.Label {
				if p.InMap || kn.InMap {
					return bad("tree-links", "node %s is in the child list of %s but its parent pointer is %q", k, p.Label, kn.Parent)
				}
			}
			if kn.Prev != prev {
				if p.InMap || kn.InMap {
					return bad("tree-links", "sibling links broken in the child list of %s: node %s has prev=%q, expected %q", p.Label, k, kn.Prev, prev)
				}
			}
			if o, dup := childOf[k]; dup && (p.InMap || kn.InMap) {
				return bad("tree-links", "node %s appears in two child lists (%s and %s) or twice in one", k, o, p.Label)
			}
			childOf[k] = p.Label
			prev = k
			k = kn.Next
		}
	}
	for i := range snap.Nodes {
		n := &snap.Nodes[i]
		if !n.InMap || n.Label == "0" {
			continue
		}
		if n.Parent == "" {
			return bad("tree-detached", "node %s is in the stream map but has no parent: it is not part of the tree rooted at stream 0", n.Label)
		}
		if childOf[n.Label] != n.Parent {
			return bad("tree-links", "node %s has parent %s but is not in that node's child list", n.Label, n.Parent)
		}
		cur, steps := n, 0
		for cur.Label != "0" {
			nx := by[cur.Parent]
			if cur.Parent == "" || nx == nil {
				return bad("tree-detached", "node %s is in the stream map but its ancestor chain ends at %s, not at the root", n.Label, cur.Label)
			}
			steps++
			if steps > N {
				return bad("tree-cycle", "node %s is in the stream map but its ancestor chain is a cycle that never reaches the root", n.Label)
			}
			cur = nx
		}
	}
	for _, id := range []uint32{1, 3, 5} {
		st := s.ref.Streams[id]
		if st == nil || st.Status != schedref.Open {
			continue
		}
		n := by[strconv.Itoa(int(id))]
		if n == nil || !n.InMap {
			v := bad("evicted-open-node", "stream %d is open but the priority scheduler has no node for it any more (idle list was %v, closed list %v)", id, snap.Idle, snap.Closed)
			v.stream = id
			return v
		}
		if n.State != 0 {
			return bad("open-node-state", "stream %d is open but its node is in state %d", id, n.State)
		}
	}
	return nil
}

func treeString(snap *http2.VerifC20Snap) string {
	var b strings.Builder
	for _, n := range snap.Nodes {
		fmt.Fprintf(&b, "{%s parent=%s kids=%s prev=%s next=%s state=%d inmap=%v} ", n.Label, n.Parent, n.Kids, n.Prev, n.Next, n.State, n.InMap)
	}
	fmt.Fprintf(&b, "idle=%v closed=%v", snap.Idle, snap.Closed)
	return b.String()
}

// ---- drain ----------------------------------------------------------------------------------------------------------

const bigWindow = 1 << 20

const watchdogTicks = 30 // x 500 ms

// drain opens every window and pops until the scheduler reports nothing: what
// comes out must be exactly what the reference still owes.
func (s *sys) drain() (pops int, vi *violation) {
	defer func() {
		if r := recover(); r != nil {
			if he, ok := r.(mc.HarnessError); ok {
				panic(he)
			}
			st := string(debug.Stack())
			if !implPanic(st) {
				panic(fmt.Sprintf("harness panic: %v\n%s", r, st))
			}
			vi = &violation{kind: "panic", extra: map[string]any{"op": "Pop", "panic": stripNumbers(fmt.Sprint(r))}, msg: fmt.Sprintf("Pop (while draining) panicked: %v", r)}
		}
	}()
	s.sh.AddConnWindow(bigWindow - s.ref.ConnWin)
	s.ref.ConnWin = bigWindow
	for id, st := range s.ref.Streams {
		if st.Status == schedref.Open {
			s.sh.AddStreamWindow(id, bigWindow-st.Win)
			st.Win = bigWindow
		}
	}
	bound := s.ref.QueuedWork() + 2
	for {
		wr, ok := s.ws.Pop()
		pops++
		_, rv := s.ref.Pop(s.describe(wr, ok))
		if rv != nil {
			vi = &violation{kind: rv.Kind, extra: map[string]any{"ctx": "drain"}, msg: "while draining with all windows open: " + rv.Msg}
			if rv.Limit != "" {
				vi.extra["limit"] = rv.Limit
			}
			if rv.Kind == "pop-false-while-sendable" {
				vi.kind = "lost-frame"
				vi.msg = fmt.Sprintf("with all windows open Pop reports nothing to write but %v were pushed on streams that were never closed and have not been handed out", s.ref.QueuedFrames())
			}
			return
		}
		if !ok {
			return
		}
		if pops > bound {
			return pops, &violation{kind: "drain-does-not-finish", extra: map[string]any{}, msg: fmt.Sprintf("%d Pops with all windows open and the scheduler still hands out frames; owed: %v", pops, s.ref.QueuedFrames())}
		}
	}
}

// ---- histories ---------------------------------------------------------------------------------------------------------

const maxDepth = 16

type hist []byte // 2 bytes per step: op index, Pop choice

func (h hist) ops(j *job) []string {
	var r []string
	for i := 0; i+1 < len(h); i += 2 {
		n := j.ops[h[i]].name
		if j.sched == "random" && j.ops[h[i]].k == opPop && h[i+1] != 0 {
			n += fmt.Sprintf("→stream %d", h[i+1])
		}
		r = append(r, n)
	}
	return r
}

// replay rebuilds the state a history leads to. For the random scheduler the
// stream served by Pop comes from Go's map iteration order: replay restarts
// until the recorded choice is taken.
func replay(j *job, h hist) *sys {
	for attempt := 0; attempt < 200000; attempt++ {
		s := newSys(j)
		good := true
		for i := 0; i+1 < len(h); i += 2 {
			o := &j.ops[h[i]]
			_, ch, vi := s.step(o)
			if vi != nil {
				if j.sched == "random" {
					// another map iteration order was taken and misbehaved; that path is examined where its choice is enumerated
					good = false
					break
				}
				panic(mc.HarnessError{Msg: fmt.Sprintf("replay of %v: step %d now violates (%s): non-deterministic implementation or harness", h.ops(j), i/2, vi.msg)})
			}
			if ch != h[i+1] {
				if j.sched != "random" {
					panic(mc.HarnessError{Msg: fmt.Sprintf("replay of %v: Pop at step %d served stream %d, recorded %d", h.ops(j), i/2, ch, h[i+1])})
				}
				good = false
				break
			}
		}
		if good {
			return s
		}
	}
	panic(mc.HarnessError{Msg: fmt.Sprintf("replay of %v: recorded Pop choices not reproduced in 200000 attempts", h.ops(j))})
}

// ---- the search -------------------------------------------------------------------------------------------------------

type entry struct {
	lvl uint8
	n   uint8
	h   [2 * maxDepth]byte
}

const nBuckets = 256

type bucket struct {
	mu    sync.Mutex
	m     map[[16]byte]entry
	fresh [][16]byte
}

type found struct {
	h    hist   // history INCLUDING the violating operation (state-level: the history of the state)
	last string // name of the violating op, "" for state-level
	vi   *violation
}

type search struct {
	j           *job
	depth       int
	buckets     [nBuckets]bucket
	mu          sync.Mutex
	found       map[string]*found
	feats       map[string]struct{}
	samples     []map[string]any
	states      int64
	trans       int64
	drains      int64
	drainPops   int64
	replays     int64
	incomplete  int64 // random: Pop choices never observed
	zombies     int64 // frames of closed streams handed out (tolerated)
	levelStates []int64
	stop        atomic.Bool
	deadline    time.Time
	capped      string
	maxStates   int64
	// watchdog
	workers []*workerState
}

type workerState struct {
	seq  atomic.Uint64 // incremented at the start of every execution (replay + operation / state checks)
	busy atomic.Bool
	cur  atomic.Pointer[curExec]
}

func (w *workerState) begin() {
	w.seq.Add(1)
	w.busy.Store(true)
}

type curExec struct {
	h    hist
	op   int // -1: state checks
	what string
}

func lessHist(a, b []byte) bool {
	if len(a) != len(b) {
		return len(a) < len(b)
	}
	return string(a) < string(b)
}

func (se *search) record(h hist, last string, vi *violation) {
	sig := se.sigKey(vi)
	se.mu.Lock()
	defer se.mu.Unlock()
	if f, ok := se.found[sig]; ok && !lessHist(h, f.h) {
		return
	}
	se.found[sig] = &found{h: append(hist(nil), h...), last: last, vi: vi}
}

func (se *search) sig(vi *violation) map[string]any {
	m := map[string]any{"kind": vi.kind, "sched": se.j.sched}
	if se.j.sched == "priority" {
		m["config"] = se.j.cfgName
	}
	for k, v := range vi.extra {
		m[k] = v
	}
	return m
}

func (se *search) sigKey(vi *violation) string {
	b, _ := json.Marshal(se.sig(vi))
	return string(b)
}

func hashKey(k string) [16]byte {
	s := sha256.Sum256([]byte(k))
	var r [16]byte
	copy(r[:], s[:16])
	return r
}

// insert registers the state reached by history h at level lvl; it keeps the smallest history per state and level.
func (se *search) insert(k [16]byte, h hist, lvl int) {
	b := &se.buckets[k[0]]
	b.mu.Lock()
	e, ok := b.m[k]
	if !ok {
		var ne entry
		ne.lvl, ne.n = uint8(lvl), uint8(len(h))
		copy(ne.h[:], h)
		b.m[k] = ne
		b.fresh = append(b.fresh, k)
	} else if int(e.lvl) == lvl && lessHist(h, e.h[:e.n]) {
		e.n = uint8(len(h))
		copy(e.h[:], h)
		b.m[k] = e
	}
	b.mu.Unlock()
}

type local struct {
	trans, drains, drainPops, replays, incomplete, zombies int64
	feats                                                  map[string]struct{}
}

func (se *search) replayW(w *workerState, lc *local, h hist) *sys {
	lc.replays++
	return replay(se.j, h)
}

// expand runs the state checks on the state reached by h and, below the depth bound, every enabled operation.
func (se *search) expand(w *workerState, lc *local, h hist, lvl int) {
	j := se.j
	w.cur.Store(&curExec{h: h, op: -1, what: "replay + tree invariant + drain"})
	w.begin()
	s := se.replayW(w, lc, h)
	snap := http2.VerifC20Snapshot(s.ws)
	if j.sched == "priority" {
		if vi := s.checkTree(&snap); vi != nil {
			se.record(h, "", vi)
			w.busy.Store(false)
			return
		}
	}
	var en []int
	if lvl < se.depth {
		for i := range j.ops {
			if s.enabled(&j.ops[i]) {
				en = append(en, i)
			}
		}
	}
	ctl, ready := s.ref.Sendable()
	z0 := s.ref.ZombiePops
	pops, vi := s.drain() // destroys s
	lc.zombies += int64(s.ref.ZombiePops - z0)
	lc.drains++
	lc.drainPops += int64(pops)
	if vi != nil {
		se.record(h, "", vi)
		w.busy.Store(false)
		return
	}
	nh := make(hist, len(h)+2)
	copy(nh, h)
	for _, i := range en {
		o := &j.ops[i]
		nh[len(h)] = byte(i)
		want := 1
		if j.sched == "random" && o.k == opPop && !ctl && len(ready) > 1 {
			want = len(ready)
		}
		seen := map[uint8]bool{}
		for attempt := 0; len(seen) < want && attempt < 400*want; attempt++ {
			w.cur.Store(&curExec{h: h, op: i, what: o.name})
			w.begin()
			s2 := se.replayW(w, lc, h)
			z0 := s2.ref.ZombiePops
			out, ch, vi := s2.step(o)
			lc.zombies += int64(s2.ref.ZombiePops - z0)
			if vi != nil {
				lc.trans++
				nh[len(h)+1] = 0
				se.record(nh, o.name, vi)
				break
			}
			if seen[ch] {
				continue
			}
			seen[ch] = true
			lc.trans++
			nh[len(h)+1] = ch
			lc.feats[j.sched+":"+opKindName[o.k]+":"+out] = struct{}{}
			sn := http2.VerifC20Snapshot(s2.ws)
			se.insert(hashKey(s2.key(&sn)), nh, lvl+1)
		}
		if len(seen) < want && len(seen) > 0 {
			lc.incomplete++
		}
	}
	w.busy.Store(false)
}

func (se *search) run(nw int) {
	for i := range se.buckets {
		se.buckets[i].m = map[[16]byte]entry{}
	}
	se.found = map[string]*found{}
	se.feats = map[string]struct{}{}
	// root
	{
		s := newSys(se.j)
		sn := http2.VerifC20Snapshot(s.ws)
		se.insert(hashKey(s.key(&sn)), nil, 0)
	}
	wk := make([]*workerState, nw)
	for i := range wk {
		wk[i] = &workerState{}
	}
	se.mu.Lock()
	se.workers = wk
	se.mu.Unlock()
	for lvl := 0; lvl <= se.depth; lvl++ {
		var frontier []hist
		for i := range se.buckets {
			b := &se.buckets[i]
			for _, k := range b.fresh {
				e := b.m[k]
				frontier = append(frontier, append(hist(nil), e.h[:e.n]...))
			}
			b.fresh = nil
		}
		if len(frontier) == 0 {
			break
		}
		sort.Slice(frontier, func(a, b int) bool { return lessHist(frontier[a], frontier[b]) })
		se.levelStates = append(se.levelStates, int64(len(frontier)))
		se.states += int64(len(frontier))
		if lvl == se.depth {
			// one deep case per job, written out with the state it leads to
			h := frontier[len(frontier)/2]
			st := replay(se.j, h)
			sn := http2.VerifC20Snapshot(st.ws)
			se.samples = append(se.samples, map[string]any{"job": se.j.name, "ops": h.ops(se.j), "state": st.key(&sn)})
		}
		var next atomic.Int64
		var wg sync.WaitGroup
		var herr atomic.Pointer[string]
		for wi := 0; wi < nw; wi++ {
			wg.Add(1)
			go func(w *workerState) {
				defer wg.Done()
				lc := &local{feats: map[string]struct{}{}}
				defer func() {
					if r := recover(); r != nil {
						m := fmt.Sprint(r)
						if _, ok := r.(mc.HarnessError); !ok {
							m += "\n" + string(debug.Stack())
						}
						herr.CompareAndSwap(nil, &m)
						se.stop.Store(true)
						w.busy.Store(false)
					}
					se.mu.Lock()
					se.trans += lc.trans
					se.drains += lc.drains
					se.drainPops += lc.drainPops
					se.replays += lc.replays
					se.incomplete += lc.incomplete
					se.zombies += lc.zombies
					for f := range lc.feats {
						se.feats[f] = struct{}{}
					}
					se.mu.Unlock()
				}()
				for !se.stop.Load() {
					i := int(next.Add(1)) - 1
					if i >= len(frontier) {
						return
					}
					if i%256 == 0 && !se.deadline.IsZero() && time.Now().After(se.deadline) {
						se.mu.Lock()
						se.capped = fmt.Sprintf("time budget reached in job %s at level %d (%d of %d states of that level expanded)", se.j.name, lvl, i, len(frontier))
						se.mu.Unlock()
						se.stop.Store(true)
						return
					}
					se.expand(w, lc, frontier[i], lvl)
				}
			}(se.workers[wi])
		}
		wg.Wait()
		if p := herr.Load(); p != nil {
			panic(mc.HarnessError{Msg: *p})
		}
		if se.stop.Load() {
			return
		}
		if se.maxStates > 0 && se.states > se.maxStates && lvl < se.depth {
			se.capped = fmt.Sprintf("state cap %d reached in job %s after level %d", se.maxStates, se.j.name, lvl)
			return
		}
	}
}

// ---- confirmation, hang handling, reporting -------------------------------------------------------------------------------

// reproduce re-runs a recorded violation and returns the signature observed ("" = none).
func reproduce(se *search, f *found) string {
	defer func() { recover() }()
	j := se.j
	if f.last == "" {
		s := replay(j, f.h)
		snap := http2.VerifC20Snapshot(s.ws)
		if j.sched == "priority" {
			if vi := s.checkTree(&snap); vi != nil {
				return se.sigKey(vi)
			}
		}
		if _, vi := s.drain(); vi != nil {
			return se.sigKey(vi)
		}
		return ""
	}
	s := replay(j, f.h[:len(f.h)-2])
	for attempt := 0; attempt < 2000; attempt++ {
		_, _, vi := s.step(&j.ops[f.h[len(f.h)-2]])
		if vi != nil {
			return se.sigKey(vi)
		}
		if j.sched != "random" {
			break
		}
		s = replay(j, f.h[:len(f.h)-2])
	}
	return ""
}

// consequences shows what the interface then does for a stream whose node was evicted while open.
func consequences(j *job, h hist, id uint32) string {
	var out []string
	try := func(o op) {
		s := replay(j, h)
		_, _, vi := s.step(&o)
		if vi != nil {
			out = append(out, vi.msg)
			return
		}
		if _, vi := s.drain(); vi != nil {
			out = append(out, o.name+" then drain: "+vi.msg)
			return
		}
		out = append(out, o.name+": accepted")
	}
	try(mkD(id, 5, true))
	try(mkH(id))
	try(mkClose(id))
	// the same history with a HEADERS frame queued on the stream right after it was opened
	func() {
		defer func() { recover() }()
		hi := -1
		for i := range j.ops {
			if j.ops[i].k == opPushH && j.ops[i].s == id {
				hi = i
			}
		}
		for i := 0; i+1 < len(h) && hi >= 0; i += 2 {
			if o := j.ops[h[i]]; o.k == opOpen && o.s == id {
				h2 := append(hist(nil), h[:i+2]...)
				h2 = append(h2, byte(hi), 0)
				h2 = append(h2, h[i+2:]...)
				s := replay(j, h2)
				if _, vi := s.drain(); vi != nil {
					out = append(out, fmt.Sprintf("same history with %s right after the Open: %s", j.ops[hi].name, vi.msg))
				}
				return
			}
		}
	}()
	return strings.Join(out, "; ")
}

type childCase struct {
	Job  string `json:"job"`
	Hist []byte `json:"hist"`
	Op   int    `json:"op"`
}

// TestChild re-executes one (history, operation) in a fresh process; used to confirm a hang.
func TestChild(t *testing.T) {
	raw := os.Getenv("VERIF_C20_CHILD")
	if raw == "" {
		t.Skip("only run as a child of TestCheck")
	}
	var c childCase
	if err := json.Unmarshal([]byte(raw), &c); err != nil {
		t.Fatal(err)
	}
	for _, j := range jobs() {
		if j.name != c.Job {
			continue
		}
		s := replay(j, hist(c.Hist))
		if c.Op >= 0 {
			s.step(&j.ops[c.Op])
		} else {
			s.drain()
		}
		fmt.Println("CHILD-COMPLETED")
		return
	}
	t.Fatal("unknown job")
}

func confirmHang(c childCase) (hung, completed int) {
	raw, _ := json.Marshal(c)
	var wg sync.WaitGroup
	var mu sync.Mutex
	for i := 0; i < 5; i++ {
		wg.Add(1)
		go func() {
			defer wg.Done()
			cmd := exec.Command(os.Args[0], "-test.run", "^TestChild$", "-test.timeout", "60s")
			cmd.Env = append(os.Environ(), "VERIF_C20_CHILD="+string(raw), "VERIF_OUT=")
			done := make(chan []byte, 1)
			if err := cmd.Start(); err != nil {
				return
			}
			go func() { cmd.Wait(); done <- nil }()
			select {
			case <-done:
				mu.Lock()
				completed++
				mu.Unlock()
			case <-time.After(6 * time.Second):
				cmd.Process.Kill()
				<-done
				mu.Lock()
				hung++
				mu.Unlock()
			}
		}()
	}
	wg.Wait()
	return
}

func TestCheck(t *testing.T) {
	rep := ev.New("C20", "model_checking")
	defer rep.Write()
	defer func() {
		if v := uncoveredUnsupported.Load(); v != nil {
			rep.HarnessError("a scheduler structure has a field the canonical state dump cannot cover; states may have been merged unsoundly: %v", v)
		}
	}()
	defer func() {
		if r := recover(); r != nil {
			rep.HarnessError("harness panic: %v", r)
		}
	}()
	debug.SetMaxStack(256 << 20)
	shard, of := mc.ShardFromEnv()
	thorough := ev.Thorough()
	nw := runtime.GOMAXPROCS(0)
	if v, _ := strconv.Atoi(os.Getenv("VERIF_C20_WORKERS")); v > 0 {
		nw = v
	}
	budget := 70 * time.Second
	if thorough {
		budget = 13 * time.Minute
	}
	start := time.Now()
	if os.Getenv("VERIF_REPLAY") == "" {
		treeShapes(t, rep, shard, of)
		longDrains(t, rep)
	}
	rep.Info["rule"] = "case = state of a real write scheduler (canonical dump of its whole private structure + stream states + windows) reached by a sequence of interface operations; BFS per job (scheduler × configuration × alphabet) to the job's depth, every enabled operation of the alphabet from every distinct state; a transition is non-trivial/distinct by (scheduler, operation kind, outcome class) = distinct_nontrivial"
	rep.Assume("two histories with the same canonical dump (scheduler structure incl. queues, tree links, byte counters, retention lists, throttle limit; stream states; windows) have the same futures up to renaming of frame identities — the dump lists every field the scheduler code reads",
		"states are merged on the first 128 bits of SHA-256 of the dump (collision probability negligible, not zero)",
		"operations the WriteScheduler contract forbids are not generated: OpenStream of an open or once-closed stream, CloseStream of a non-open stream, HEADERS/DATA pushes on non-open streams, stream id 0",
		"random scheduler: which ready stream Pop serves is decided by Go's map iteration; Pop is repeated (≤400 tries per ready stream) until every ready stream has been observed as the choice, so all successors are explored; states where that did not succeed are counted in random_pop_choice_sets_incomplete (0 = none)",
		"frames queued on a stream at the time it is closed are outside the statement's hand-out obligation: handing one out (at most once) is tolerated and counted in zombie_pops",
		"a Pop that never returns is detected by a watchdog (a worker that stays in one scheduler call for 30 watchdog ticks of 500 ms; a call takes microseconds) and confirmed in 5 fresh processes")
	all := jobs()
	type jobSum struct {
		Name        string  `json:"job"`
		Depth       int     `json:"depth"`
		Alphabet    int     `json:"alphabet"`
		States      int64   `json:"states"`
		Transitions int64   `json:"transitions"`
		Levels      []int64 `json:"states_per_level"`
		WallS       float64 `json:"wall_s"`
	}
	var sums []jobSum
	var allSamples []map[string]any
	for k, j := range all {
		if k%of != shard {
			continue
		}
		if len(j.ops) > 255 {
			rep.HarnessError("alphabet too large in %s", j.name)
			continue
		}
		depth := j.depthQ
		if thorough {
			depth = j.depthT
		}
		if v, _ := strconv.Atoi(os.Getenv("VERIF_C20_DEPTH_DELTA")); v != 0 {
			depth += v
		}
		if depth > maxDepth {
			depth = maxDepth
		}
		if only := os.Getenv("VERIF_C20_JOB"); only != "" && !strings.Contains(j.name, only) {
			continue
		}
		ev.Journal("job %s", j.name)
		se := &search{j: j, depth: depth, deadline: start.Add(budget), maxStates: 40_000_000}
		t0 := time.Now()
		// watchdog
		wdStop := make(chan struct{})
		hangCh := make(chan *curExec)
		go func() {
			// no clock comparison (the wall clock of the sandbox VM can jump): an execution is suspected to hang
			// when the watchdog itself has been scheduled watchdogTicks times, 500 ms apart, and the worker is
			// still inside the same execution
			tk := time.NewTicker(500 * time.Millisecond)
			defer tk.Stop()
			last := map[*workerState]uint64{}
			stuck := map[*workerState]int{}
			for {
				select {
				case <-wdStop:
					return
				case <-tk.C:
					se.mu.Lock()
					ws := se.workers
					se.mu.Unlock()
					for _, w := range ws {
						q := w.seq.Load()
						if w.busy.Load() && q == last[w] {
							stuck[w]++
						} else {
							stuck[w] = 0
						}
						last[w] = q
						if stuck[w] >= watchdogTicks {
							stuck[w] = 0
							select {
							case hangCh <- w.cur.Load():
							case <-wdStop:
								return
							}
						}
					}
				}
			}
		}()
		done := make(chan any, 1)
		go func() {
			defer func() { done <- recover() }()
			se.run(nw)
		}()
	wait:
		for {
			select {
			case r := <-done:
				if r != nil {
					rep.HarnessError("%s: %v", j.name, r)
				}
				break wait
			case hang := <-hangCh:
				hung, completed := confirmHang(childCase{Job: j.name, Hist: hang.h, Op: hang.op})
				opsList := hang.h.ops(j)
				if hang.op >= 0 {
					opsList = append(opsList, j.ops[hang.op].name)
				} else {
					opsList = append(opsList, "(open all windows) Pop…")
				}
				if hung < 5 {
					// the worker was merely starved (loaded machine): keep searching
					rep.Add("watchdog_suspicions_not_confirmed", 1)
					_ = completed
					continue
				}
				se.stop.Store(true)
				vi := &violation{kind: "hang", extra: map[string]any{}}
				rep.Violate(se.sig(vi), map[string]any{"job": j.name, "ops": opsList},
					"%s: the scheduler does not return: after %v the call %s runs forever (the worker stayed in this one call for %d watchdog ticks of 500 ms; reproduced in 5 of 5 fresh processes, each killed after 6 s)", j.name, hang.h.ops(j), opsList[len(opsList)-1], watchdogTicks)
				// a goroutine is spinning inside the scheduler: report and leave
				rep.NotExhaustive("search of " + j.name + " abandoned: a scheduler call does not return")
				rep.Add("states", max64(se.states, 1))
				rep.Add("transitions", max64(se.trans, 1))
				rep.Add("traces_validated_against_impl", se.trans)
				rep.Sample(map[string]any{"job": j.name, "ops": opsList})
				rep.Write()
				os.Exit(1)
			}
		}
		close(wdStop)
		// merge
		rep.Add("states", se.states)
		rep.Add("transitions", se.trans)
		rep.Add("evaluations", se.trans)
		rep.Add("traces_validated_against_impl", se.trans+se.drains)
		rep.Add("drains", se.drains)
		rep.Add("drain_pops", se.drainPops)
		rep.Add("replays", se.replays)
		rep.Add("random_pop_choice_sets_incomplete", se.incomplete)
		rep.Add("zombie_pops", se.zombies)
		rep.Add("jobs", 1)
		rep.SetMax("max_depth", int64(depth))
		for f := range se.feats {
			rep.Note("distinct_nontrivial", f)
		}
		allSamples = append(allSamples, se.samples...)
		sums = append(sums, jobSum{j.name, depth, len(j.ops), se.states, se.trans, se.levelStates, time.Since(t0).Seconds()})
		if se.capped != "" {
			rep.NotExhaustive(se.capped)
		}
		if se.incomplete > 0 {
			rep.NotExhaustive(fmt.Sprintf("%s: %d Pop choice sets of the random scheduler not fully observed", j.name, se.incomplete))
		}
		// violations: smallest history per signature, confirmed 5x
		var keys []string
		for k := range se.found {
			keys = append(keys, k)
		}
		sort.Strings(keys)
		for _, k := range keys {
			f := se.found[k]
			okN := 0
			for i := 0; i < 5; i++ {
				if reproduce(se, f) == k {
					okN++
				}
			}
			opsList := f.h.ops(j)
			if okN != 5 {
				rep.HarnessError("%s: violation did not reproduce 5/5 (%d): %v: %s", j.name, okN, opsList, f.vi.msg)
				continue
			}
			if f.vi.kind == "evicted-open-node" {
				f.vi.msg += " — consequences on the real scheduler: " + consequences(j, f.h, f.vi.stream)
			}
			where := "in the state reached"
			if f.last != "" {
				where = "at the last operation"
			}
			rep.Violate(se.sig(f.vi), map[string]any{"job": j.name, "ops": opsList, "maxFrame": j.maxFrame, "initialStreamWindow": j.initSW, "initialConnWindow": j.initCW, "where": where},
				"%s: after %v: %s", j.name, opsList, f.vi.msg)
		}
	}
	for i := 0; i < 6 && len(allSamples) > 0; i++ {
		rep.Sample(allSamples[i*len(allSamples)/6])
	}
	rep.Info["jobs_detail"] = sums
	rep.Info["tier_bounds"] = "depth per job in jobs_detail; quick and thorough use the same alphabets, thorough searches deeper"
	rep.Info["workers"] = nw
	rep.Info["bounds_vs_design"] = "DESIGN.md §5 C20 asked for one 113-operation alphabet to depth 8/7 (quick 6/5); that space is too large, so it is split into focused alphabets, each searched exhaustively to its own depth: flow (2 streams, all push kinds, stream windows {0,1,3}, connection windows {0,2,8}, max frame 2 or 16384), ring (3 streams, open/close/push/pop), edge-windows (negative and zero windows, empty DATA, SetMaxFrame), tree (priority: all 80 Adjust(s in {1,3,5,7}, dep in {0,1,3,5,7}, exclusive, weight in {0,255}) + idle 9, 11 + pushed streams), big-frames (throttle, 1500-byte DATA). Depth per job is in jobs_detail."
}

func max64(a, b int64) int64 {
	if a > b {
		return a
	}
	return b
}

// set when a scheduler structure has a field the canonical dump cannot cover (state merging may then be unsound)
var uncoveredUnsupported atomic.Value
