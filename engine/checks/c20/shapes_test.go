//go:build verif

package c20

// Tree-shape part of C20 (priority scheduler): the BFS reaches dependency trees of depth <= 2 over three or four
// streams with two weights only after 5-7 operations, which its large Adjust alphabet does not allow. Here every
// dependency forest over the four open streams 1, 3, 5, 7 (125 parent functions) x every assignment of the weights
// {0, 255} (16) is built directly, and for every non-empty set of streams with a queued HEADERS frame (15), with and
// without a DATA frame behind it, the scheduler is popped until it says it has nothing: it must hand out every frame
// exactly once, in stream order, and say "nothing" only when nothing is left; the structure must be a tree rooted at
// stream 0 before and after.

import (
	"fmt"
	"testing"

	"github.com/wi1dcard/fingerproxy/pkg/http2"
	"verif/ev"
)

func treeShapes(t *testing.T, rep *ev.Report, shard, of int) {
	ids := []uint32{1, 3, 5, 7}
	cfgs := []struct {
		name string
		cfg  *http2.PriorityWriteSchedulerConfig
	}{
		{"default", nil},
		{"throttle", &http2.PriorityWriteSchedulerConfig{MaxClosedNodesInTree: 10, MaxIdleNodesInTree: 10, ThrottleOutOfOrderWrites: true}},
	}
	if !ev.Thorough() {
		cfgs = cfgs[:1]
	}
	// parent functions: parent[i] in {0 (root), ids[j] (j != i)} without cycles
	var parents [][4]uint32
	var rec func(i int, cur [4]uint32)
	acyclic := func(p [4]uint32) bool {
		for i := range ids {
			seen := 0
			for x := ids[i]; x != 0; seen++ {
				if seen > 4 {
					return false
				}
				for k, id := range ids {
					if id == x {
						x = p[k]
						break
					}
				}
			}
		}
		return true
	}
	rec = func(i int, cur [4]uint32) {
		if i == 4 {
			if acyclic(cur) {
				parents = append(parents, cur)
			}
			return
		}
		for _, p := range append([]uint32{0}, ids...) {
			if p == ids[i] {
				continue
			}
			cur[i] = p
			rec(i+1, cur)
		}
	}
	rec(0, [4]uint32{})
	job0 := 0
	for _, c := range cfgs {
		j := &job{name: "priority[" + c.name + "]/shapes", sched: "priority", cfgName: c.name, cfg: c.cfg, maxFrame: 16384, initSW: 100, initCW: 1000}
		for pi, par := range parents {
			for wm := 0; wm < 16; wm++ {
				job0++
				if job0%of != shard {
					continue
				}
				var prelude []op
				for _, id := range ids {
					prelude = append(prelude, mkOpen(id, 0))
				}
				// re-parent top-down so that every Adjust names a parent that is already where it belongs
				placed := map[uint32]bool{0: true}
				for len(placed) < 5 {
					for k, id := range ids {
						if !placed[id] && placed[par[k]] {
							w := uint8(0)
							if wm>>k&1 == 1 {
								w = 255
							}
							prelude = append(prelude, mkAdj(id, par[k], false, w))
							placed[id] = true
						}
					}
				}
				for ready := 1; ready < 16; ready++ {
					for _, withData := range []bool{false, true} {
						s := newSys(j)
						var names []string
						fail := func(vi *violation, where string) {
							rep.Violate(map[string]any{"kind": vi.kind, "scheduler": "priority", "config": c.name, "part": "tree-shapes"},
								map[string]any{"operations": names},
								"priority scheduler (%s), dependency tree #%d weights %04b: after %v: %s%s", c.name, pi, wm, names, where, vi.msg)
						}
						bad := false
						run := func(o op) {
							if bad {
								return
							}
							names = append(names, o.name)
							if _, _, vi := s.step(&o); vi != nil {
								fail(vi, "")
								bad = true
							}
						}
						for _, o := range prelude {
							run(o)
						}
						if !bad {
							snap := http2.VerifC20Snapshot(s.ws)
							if vi := s.checkTree(&snap); vi != nil {
								fail(vi, "")
								bad = true
							}
						}
						for k, id := range ids {
							if ready>>k&1 == 1 {
								run(mkH(id))
								if withData {
									run(mkD(id, 5, true))
								}
							}
						}
						if bad {
							continue
						}
						pops, vi := s.drain()
						rep.Add("tree_shape_drains", 1)
						rep.Add("drain_pops", int64(pops))
						rep.Add("evaluations", 1)
						if vi != nil {
							fail(vi, "")
							continue
						}
						snap := http2.VerifC20Snapshot(s.ws)
						if vi := s.checkTree(&snap); vi != nil {
							fail(vi, "after draining: ")
						}
					}
				}
				rep.Note("distinct_nontrivial", fmt.Sprintf("shape/%s/%d/%d", c.name, pi, wm))
			}
		}
	}
	rep.Info["tree_shapes"] = fmt.Sprintf("%d dependency forests over streams 1,3,5,7 x 16 weight assignments x 15 ready sets x {HEADERS, HEADERS+DATA}", len(parents))
}

// longDrains: counters of the priority scheduler that grow with every Pop. With ThrottleOutOfOrderWrites the budget
// for streams below an open ancestor grows by 1024 per consecutive Pop and is an int32: 2^21 consecutive one-byte Pops
// from such a stream cross its width. One DATA frame of 2^21+16 bytes on a stream that depends on an open stream is
// drained with a maximum frame size of 1: every byte must come out.
func longDrains(t *testing.T, rep *ev.Report) {
	for _, dep := range []uint32{0, 1} {
		j := &job{name: "priority[throttle]/long-drain", sched: "priority", cfgName: "throttle",
			cfg:      &http2.PriorityWriteSchedulerConfig{MaxClosedNodesInTree: 10, MaxIdleNodesInTree: 10, ThrottleOutOfOrderWrites: true},
			maxFrame: 1, initSW: 100, initCW: 1000}
		s := newSys(j)
		var names []string
		ops := []op{mkOpen(1, 0), mkOpen(3, 0), mkAdj(3, dep, false, 15), mkH(3), mkD(3, 1<<21+16, true)}
		var vi *violation
		for _, o := range ops {
			names = append(names, o.name)
			if _, _, vi = s.step(&o); vi != nil {
				break
			}
		}
		pops := 0
		for round := 0; vi == nil && round < 4 && (round == 0 || s.ref.QueuedWork() > 0); round++ {
			// (drain opens every window to 2^20 bytes: the frame needs three rounds)
			var n int
			n, vi = s.drain()
			pops += n
		}
		if vi == nil && s.ref.QueuedWork() > 0 {
			vi = &violation{kind: "lost-frame", msg: fmt.Sprintf("after four drains with all windows open %v are still queued", s.ref.QueuedFrames())}
		}
		rep.Add("long_drain_pops", int64(pops))
		rep.Add("evaluations", 1)
		if vi != nil {
			rep.Violate(map[string]any{"kind": vi.kind, "scheduler": "priority", "config": "throttle", "part": "long-drain"}, map[string]any{"operations": names},
				"priority scheduler (throttle), maximum frame size 1, after %v and %d Pops: %s", names, pops, vi.msg)
		}
	}
}
