//go:build verif

// C05 — fingerprint headers cannot be supplied or spoofed by the client.
// Exhaustive enumeration of (protocol x client-supplied variant x injector
// outcome x injector set) on the real stack: real TLS handshake, real h1
// (net/http via the channel listener) and h2 (forked server) paths, real
// reverseproxy.HTTPHandler, recording backend.
package c05

import (
	"errors"
	"fmt"
	"net/http"
	"strings"
	"testing"
	"testing/synctest"

	utls "github.com/refraction-networking/utls"
	"github.com/wi1dcard/fingerproxy"
	"github.com/wi1dcard/fingerproxy/pkg/reverseproxy"
	"verif/bubble"
	"verif/ev"
	"verif/mc"
	"verif/ref/chello"
	"verif/ref/h2fpref"
	"verif/ref/h2wire"
	"verif/ref/ja3ref"
	"verif/ref/ja4ref"
)

// stub injector: outcome is chosen per request by the path segment for its index: v (value), e (empty), x (error)
type stub struct {
	name string
	idx  int
}

func (s stub) GetHeaderName() string { return s.name }
func (s stub) GetHeaderValue(r *http.Request) (string, error) {
	seg := strings.Split(strings.TrimPrefix(r.URL.Path, "/"), "-")
	o := "v"
	if s.idx < len(seg) && len(seg[s.idx]) > 0 {
		o = seg[s.idx][:1]
	}
	switch o {
	case "e":
		return "", nil
	case "x":
		return "", errors.New("stub failure")
	case "p":
		panic("stub injector panics")
	}
	return "proxy-value-" + fmt.Sprint(s.idx), nil
}

type variant struct {
	name  string
	lines func(hdr string) [][2]string // header lines the client adds for header name hdr
	h2ok  bool
}

func mixed(s string) string {
	b := []byte(strings.ToLower(s))
	for i := range b {
		if i%2 == 1 && b[i] >= 'a' && b[i] <= 'z' {
			b[i] -= 32
		}
	}
	return string(b)
}

var variants = []variant{
	{"absent", func(h string) [][2]string { return nil }, true},
	{"exact", func(h string) [][2]string { return [][2]string{{h, "forged-exact"}} }, false},
	{"lower", func(h string) [][2]string { return [][2]string{{strings.ToLower(h), "forged-lower"}} }, true},
	{"mixed", func(h string) [][2]string { return [][2]string{{mixed(h), "forged-mixed"}} }, false},
	{"two", func(h string) [][2]string {
		return [][2]string{{strings.ToLower(h), "forged-1"}, {strings.ToLower(h), "forged-2"}}
	}, true},
	{"twocase", func(h string) [][2]string { return [][2]string{{h, "forged-A"}, {strings.ToUpper(h), "forged-B"}} }, false},
	{"empty", func(h string) [][2]string { return [][2]string{{strings.ToLower(h), ""}} }, true},
	// HTTP/1.1 only: the client declares the name a connection option (hop-by-hop), without / with a value of its own.
	// What a proxy strips on behalf of the Connection header is the client's field, never its own
	{"conn-option", func(h string) [][2]string { return [][2]string{{"Connection", "keep-alive, " + h}} }, false},
	{"conn-option+value", func(h string) [][2]string {
		return [][2]string{{"Connection", strings.ToLower(h)}, {h, "forged-hop"}}
	}, false},
	// the value travels in the trailer section of an upload (announced with a Trailer field); a line whose name starts
	// with "@" is a trailer field
	{"trailer", func(h string) [][2]string {
		return [][2]string{{"Trailer", strings.ToLower(h)}, {"@" + strings.ToLower(h), "forged-trailer"}}
	}, true},
}

// splitLines separates the header lines of a case from its trailer fields ("@name").
func splitLines(lines [][2]string) (hdr, tr [][2]string) {
	for _, l := range lines {
		if strings.HasPrefix(l[0], "@") {
			tr = append(tr, [2]string{l[0][1:], l[1]})
		} else {
			hdr = append(hdr, l)
		}
	}
	return
}

type reqCase struct {
	proto    string // h1 | h2
	path     string
	lines    [][2]string
	expect   map[string]*string // configured name -> expected single value (nil pointer = must be absent)
	desc     string
	supplied bool
}

// two DIFFERENT hellos that carry the SAME client random (fixed randomness): nothing the client chooses identifies a connection
var helloChrome = bubble.Hello{Name: "chrome120", ID: &utls.HelloChrome_120, ALPN: []string{"h2", "http/1.1"}, SNI: "localhost", Rand: bubble.FixedRand{}}
var helloChromeH1 = bubble.Hello{Name: "firefox105-h1", ID: &utls.HelloFirefox_105, ALPN: []string{"http/1.1"}, SNI: "localhost", Rand: bubble.FixedRand{}}

var helloPred = bubble.Hello{Name: "safari-pred", ID: &utls.HelloSafari_16_0, ALPN: []string{"h2", "http/1.1"}, SNI: "localhost"}
var helloIntruder = bubble.Hello{Name: "go-noalpn", SNI: "x.example"}

// runCases runs a batch of requests on one h1 and one h2 connection of a fresh stack.
// prefill: the connections first carry a request with many distinct, long, uncommon header names (per-connection
// header-name caches and HPACK tables are then in a non-initial state when the matrix starts).
var prefill bool

func fillerLines() [][2]string {
	var l [][2]string
	for i := 0; i < 48; i++ {
		l = append(l, [2]string{fmt.Sprintf("X-Filler-Header-Name-Number-%02d-%s", i, strings.Repeat("z", 40)), "f"})
	}
	return l
}

// lateInjectors: see runCases.
var lateInjectors bool

func runCases(t *testing.T, rep *ev.Report, set string, inj []reverseproxy.HeaderInjector, cases []reqCase, expectDefault bool) {
	res := bubble.Run(t, func() {
		var st *bubble.Stack
		if lateInjectors {
			// the handler is built first and given its injectors through the exported field afterwards (as the binary
			// does with PreserveHost and IsProbeRequest), before the first request
			st = bubble.NewStack(bubble.StackOpts{})
			st.RP.HeaderInjectors = inj
		} else {
			st = bubble.NewStack(bubble.StackOpts{Injectors: inj})
		}
		defer st.Shutdown()
		extra := 0
		if prefill {
			// a predecessor: an h2 connection with its own hello, SETTINGS and WINDOW_UPDATE that is served and gone before
			// the connections of the matrix exist (whatever the proxy keeps per connection has been used once)
			p := st.Connect("predecessor", nil, helloPred)
			synctest.Wait()
			if done, err := p.Handshake(); !done || err != nil {
				rep.HarnessError("handshake predecessor: done=%v err=%v", done, err)
				return
			}
			p.Write([]byte(h2wire.Preface))
			p.Write(h2wire.Settings(h2wire.Setting{ID: 2, Val: 0}))
			p.Write(h2wire.WindowUpdate(0, 4242))
			p.SendH2(1, bubble.Req{Path: "/v-v-v-pred", Host: "localhost"})
			synctest.Wait()
			// the predecessor's own request is judged too (default sets): it is itself the successor of the connections of
			// the executions that ran in this process before
			if rs := st.Backend.ByPath("/v-v-v-pred"); len(rs) == 1 && expectDefault {
				refP := &h2fpref.State{}
				refP.OnSettings([]h2fpref.Setting{{ID: 2, Val: 0}})
				refP.OnWindowUpdate(4242)
				refP.OnHeaders([]string{":method", ":scheme", ":authority", ":path"}, nil)
				if v := rs[0].Values("X-HTTP2-Fingerprint"); len(v) != 1 || !refP.Equal(v[0], -1) {
					rep.Violate(map[string]any{"kind": "wrong-value", "proto": "h2", "injector_outcome": "value", "set": set, "header": "X-HTTP2-Fingerprint", "who": "predecessor"},
						map[string]any{"set": set, "backend_values": v, "want": refP.String(-1)},
						"set %s: the first connection of this execution (SETTINGS{2:0}, WINDOW_UPDATE 4242) was forwarded with X-HTTP2-Fingerprint %q, its own frames give %q (connections of earlier executions in this process used WINDOW_UPDATE 983041)", set, v, refP.String(-1))
				}
			}
			p.Close()
			synctest.Wait()
			extra++
		}
		// (after a predecessor the h2 connection is accepted first: it is the one that could inherit anything h2-specific)
		var c1, c2 *bubble.Client
		if prefill {
			c2 = st.Connect("h2", nil, helloChrome)
			synctest.Wait()
			c1 = st.Connect("h1", nil, helloChromeH1)
		} else {
			c1 = st.Connect("h1", nil, helloChromeH1)
			c2 = st.Connect("h2", nil, helloChrome)
		}
		synctest.Wait()
		for _, c := range []*bubble.Client{c1, c2} {
			if done, err := c.Handshake(); !done || err != nil {
				rep.HarnessError("handshake %s: done=%v err=%v", c.Name, done, err)
				return
			}
		}
		// h2 preface
		ref := &h2fpref.State{}
		c2.Write([]byte(h2wire.Preface))
		c2.Write(h2wire.Settings(h2wire.Setting{ID: 3, Val: 100}, h2wire.Setting{ID: 4, Val: 65535}))
		ref.OnSettings([]h2fpref.Setting{{ID: 3, Val: 100}, {ID: 4, Val: 65535}})
		c2.Write(h2wire.WindowUpdate(0, 983041))
		ref.OnWindowUpdate(983041)
		synctest.Wait()
		col := bubble.NewH2Collector()
		stream := uint32(1)
		if prefill {
			c1.SendH1(bubble.Req{Path: "/v-v-v-fill", Host: "localhost", Lines: fillerLines()})
			c2.SendH2(stream, bubble.Req{Path: "/v-v-v-fill", Host: "localhost", Lines: fillerLines()})
			ref.OnHeaders([]string{":method", ":scheme", ":authority", ":path"}, nil)
			stream += 2
			synctest.Wait()
			c1.TakeH1Responses()
			col.Add(c2.Dec, c2.TakeFrames())
			if st.Backend.Count() != 2+extra {
				rep.HarnessError("prefill requests not forwarded (%d)", st.Backend.Count())
				return
			}
		}
		for i, rc := range cases {
			if prefill && i%10 == 5 {
				// an intruder: another client (a shorter hello, another protocol) completes its handshake and a request
				// while the connections of the matrix stay open; their later requests are still theirs
				in := st.Connect(fmt.Sprintf("intruder-%d", i), nil, helloIntruder)
				synctest.Wait()
				if done, err := in.Handshake(); done && err == nil {
					in.SendH1(bubble.Req{Path: "/v-v-v-intruder", Host: "localhost"})
					synctest.Wait()
				}
			}
			before := st.Backend.Count()
			var refBefore *h2fpref.State
			path := rc.path + fmt.Sprintf("-n%d", i)
			var cl *bubble.Client
			if rc.proto == "h1" {
				cl = c1
				hdr, tr := splitLines(rc.lines)
				var sb strings.Builder
				method := "GET"
				if len(tr) > 0 {
					method = "POST"
				}
				fmt.Fprintf(&sb, "%s /%s HTTP/1.1\r\nHost: localhost\r\n", method, path)
				for _, l := range hdr {
					fmt.Fprintf(&sb, "%s: %s\r\n", l[0], l[1])
				}
				if len(tr) > 0 {
					sb.WriteString("Transfer-Encoding: chunked\r\n\r\n4\r\nbody\r\n0\r\n")
					for _, l := range tr {
						fmt.Fprintf(&sb, "%s: %s\r\n", l[0], l[1])
					}
				}
				sb.WriteString("\r\n")
				cl.Write([]byte(sb.String()))
			} else {
				cl = c2
				hdr, tr := splitLines(rc.lines)
				method := "GET"
				if len(tr) > 0 {
					method = "POST"
				}
				fs := []h2wire.HF{{":method", method}, {":scheme", "https"}, {":authority", "localhost"}, {":path", "/" + path}}
				for _, l := range hdr {
					fs = append(fs, h2wire.HF{Name: strings.ToLower(l[0]), Value: l[1]})
				}
				cl.Write(h2wire.Headers(stream, cl.Enc.Block(fs...), len(tr) == 0, true, nil, -1))
				ref.OnHeaders([]string{":method", ":scheme", ":authority", ":path"}, nil)
				if len(tr) > 0 {
					cl.Write(h2wire.Data(stream, []byte("body"), false, -1))
					var tf []h2wire.HF
					var tn []string
					for _, l := range tr {
						tf = append(tf, h2wire.HF{Name: l[0], Value: l[1]})
						tn = append(tn, l[0])
					}
					cl.Write(h2wire.Headers(stream, cl.Enc.Block(tf...), true, true, nil, -1))
					// the request's handler may compute its fingerprint before or after the trailer HEADERS frame is read
					refBefore = ref.Clone()
					ref.OnHeaders(tn, nil)
				}
			}
			synctest.Wait()
			rep.Add("evaluations", 1)
			// the client must have got a response
			if rc.proto == "h1" {
				rs := cl.TakeH1Responses()
				if len(rs) != 1 || rs[0].Status != 200 {
					rep.HarnessError("set %s case %s: h1 response missing/unexpected (%d)", set, rc.desc, len(rs))
					return
				}
			} else {
				col.Add(cl.Dec, cl.TakeFrames())
				r := col.Resps[stream]
				if r == nil || r.Status != "200" {
					rep.HarnessError("set %s case %s: h2 response missing/unexpected %+v", set, rc.desc, r)
					return
				}
				stream += 2
			}
			if st.Backend.Count() != before+1 {
				rep.HarnessError("set %s case %s: backend saw %d requests for one request", set, rc.desc, st.Backend.Count()-before)
				return
			}
			got := st.Backend.All()[before]
			if rc.supplied {
				rep.Note("distinct_nontrivial", set+"|"+rc.desc)
			}
			expect := rc.expect
			if expectDefault {
				// default injectors: the value is a function of this client's own connection
				expect = map[string]*string{}
				// independent references (own parser + ja3ref / ja4ref), not the code under test
				if p, perr := chello.Parse(cl.FirstRecord()); perr == nil {
					j3 := ja3ref.Admissible(p)[0]
					expect["X-JA3-Fingerprint"] = &j3
					j4 := ja4ref.Of(p).Strings()
					if len(j4) > 0 {
						expect["X-JA4-Fingerprint"] = &j4[0]
					}
				} else {
					rep.HarnessError("reference parser rejected the client's hello: %v", perr)
					return
				}
				if rc.proto == "h2" {
					s := ref.String(-1)
					expect["X-HTTP2-Fingerprint"] = &s
				} else {
					expect["X-HTTP2-Fingerprint"] = nil
				}
				for k, v := range rc.expect {
					expect[k] = v
				}
			}
			for name := range expect {
				// the trailer section of the forwarded request: nothing the client put under a configured name
				for k, tv := range got.Trailer {
					if !strings.EqualFold(k, name) {
						continue
					}
					for _, v := range tv {
						if v != "" {
							rep.Violate(map[string]any{"kind": "client-value-reaches-backend", "proto": rc.proto, "where": "trailer", "set": set, "header": name},
								map[string]any{"set": set, "proto": rc.proto, "path": path, "client_lines": rc.lines, "backend_trailer": got.Trailer},
								"set %s, %s request %s: the backend received %q under %s in the trailer section of the request (client lines %v)", set, rc.proto, rc.desc, v, name, rc.lines)
						}
					}
				}
			}
			for name, want := range expect {
				vals := got.Values(name)
				okv := false
				if want == nil {
					okv = len(vals) == 0
				} else if name == "X-HTTP2-Fingerprint" && expectDefault {
					okv = len(vals) == 1 && (ref.Equal(vals[0], -1) || (refBefore != nil && refBefore.Equal(vals[0], -1)))
				} else {
					okv = len(vals) == 1 && vals[0] == *want
				}
				if !okv {
					w := "<no header>"
					if want != nil {
						w = *want
					}
					kind := "client-value-reaches-backend"
					forged := false
					for _, v := range vals {
						if strings.HasPrefix(v, "forged") || v == "" {
							forged = true
						}
					}
					if !forged {
						kind = "wrong-value"
					}
					outcome := "value"
					if want == nil {
						outcome = "none"
					}
					rep.Violate(map[string]any{"kind": kind, "proto": rc.proto, "injector_outcome": outcome, "set": set, "header": name},
						map[string]any{"set": set, "proto": rc.proto, "path": path, "client_lines": rc.lines, "backend_values": vals, "want": w, "backend_header": got.Header},
						"set %s, %s request %s: backend received %q under %s, required %q (client lines %v)", set, rc.proto, rc.desc, vals, name, w, rc.lines)
				}
			}
			if i < 2 {
				rep.Sample(map[string]any{"set": set, "proto": rc.proto, "path": path, "client_lines": rc.lines, "backend": got.Header})
			}
		}
	})
	if res.Panic != nil {
		rep.HarnessError("panic in batch %s: %v\n%s", set, res.Panic, res.Stack)
	}
	if res.Hang != "" {
		rep.Violate(map[string]any{"kind": "hang"}, map[string]any{"hang": res.Hang}, "the exchange never completed: %s", res.Hang)
	}
	if res.Deadlock != "" {
		rep.HarnessError("batch %s: goroutines left blocked: %s", set, res.Deadlock)
	}
}

// runPanicPart: a fourth injector outcome - the injector panics (user code on client-controlled data). Whatever the
// handler makes of that (the request is aborted, or it is forwarded without that fingerprint), the backend must not
// receive a client-supplied value under ANY configured name, in particular not under the names of the injectors that
// come after the one that panicked. One fresh connection per request (an aborted HTTP/1.1 exchange ends its connection).
func runPanicPart(t *testing.T, rep *ev.Report, shard, of int) {
	names := []string{"X-JA3-Fingerprint", "X-Fp-Two", "x-lower-name"}
	inj := []reverseproxy.HeaderInjector{stub{names[0], 0}, stub{names[1], 1}, stub{names[2], 2}}
	k := 0
	for _, proto := range []string{"h1", "h2"} {
		for pos := 0; pos < 3; pos++ {
			for _, other := range []string{"v", "e", "x"} {
				for _, va := range variants {
					if proto == "h2" && !va.h2ok || va.name == "absent" {
						continue
					}
					k++
					if k%of != shard {
						continue
					}
					seg := []string{other, other, other}
					seg[pos] = "p"
					path := strings.Join(seg, "-")
					var lines [][2]string
					for _, n := range names {
						lines = append(lines, va.lines(n)...)
					}
					hdr, tr := splitLines(lines)
					if len(tr) > 0 {
						continue
					}
					desc := fmt.Sprintf("%s injector %d panics, others %s, client supplies every name (%s)", proto, pos, other, va.name)
					res := bubble.Run(t, func() {
						st := bubble.NewStack(bubble.StackOpts{Injectors: inj})
						defer st.Shutdown()
						hello := helloChromeH1
						if proto == "h2" {
							hello = helloChrome
						}
						cl := st.Connect(proto, nil, hello)
						synctest.Wait()
						if done, err := cl.Handshake(); !done || err != nil {
							rep.HarnessError("panic part: handshake %s: done=%v err=%v", proto, done, err)
							return
						}
						if proto == "h1" {
							var sb strings.Builder
							fmt.Fprintf(&sb, "GET /%s HTTP/1.1\r\nHost: localhost\r\n", path)
							for _, l := range hdr {
								fmt.Fprintf(&sb, "%s: %s\r\n", l[0], l[1])
							}
							sb.WriteString("\r\n")
							cl.Write([]byte(sb.String()))
						} else {
							cl.Write([]byte(h2wire.Preface))
							cl.Write(h2wire.Settings())
							fs := []h2wire.HF{{":method", "GET"}, {":scheme", "https"}, {":authority", "localhost"}, {":path", "/" + path}}
							for _, l := range hdr {
								fs = append(fs, h2wire.HF{Name: strings.ToLower(l[0]), Value: l[1]})
							}
							cl.Write(h2wire.Headers(1, cl.Enc.Block(fs...), true, true, nil, -1))
						}
						synctest.Wait()
						rep.Add("evaluations", 1)
						rep.Add("panicking_injector_requests", 1)
						rep.Note("distinct_nontrivial", "panic|"+desc)
						all := st.Backend.All()
						rep.Note("panic_part_outcomes", fmt.Sprintf("forwarded=%d", len(all)))
						for _, got := range all {
							for _, n := range names {
								for _, v := range got.Values(n) {
									if strings.HasPrefix(v, "forged") || v == "" {
										rep.Violate(map[string]any{"kind": "client-value-reaches-backend", "proto": proto, "injector_outcome": "panic", "set": "stubs", "header": n},
											map[string]any{"proto": proto, "path": path, "client_lines": lines, "backend_header": got.Header},
											"%s: the backend received the client's %q under %s", desc, v, n)
									}
								}
							}
						}
					})
					if res.Panic != nil {
						rep.HarnessError("panic part %s: %v\n%s", desc, res.Panic, res.Stack)
					}
					if res.Hang != "" {
						rep.HarnessError("panic part %s: hang %s", desc, res.Hang)
					}
				}
			}
		}
	}
}

func TestCheck(t *testing.T) {
	rep := ev.New("C05", "exploration")
	defer rep.Write()
	shard, of := mc.ShardFromEnv()
	rep.Info["rule"] = "complete product protocol{h1,h2} x client-supplied variant (absent, exact case, lower, mixed, two lines, two lines differing in case, empty value) per configured name x injector outcome{value,empty,error}, for stub injector sets (incl. a non-canonical configured name) and for the binary's default set (+custom); one request each through the real stack; non-trivial = client supplied at least one configured name"
	str := func(s string) *string { return &s }

	// --- set A: stub injectors, full product over two names, third name cycles
	names := []string{"X-JA3-Fingerprint", "X-Fp-Two", "x-lower-name"}
	injA := []reverseproxy.HeaderInjector{stub{names[0], 0}, stub{names[1], 1}, stub{names[2], 2}}
	outcomes := []string{"v", "e", "x"}
	var casesA []reqCase
	k := 0
	for _, proto := range []string{"h1", "h2"} {
		for _, o0 := range outcomes {
			for _, o1 := range outcomes {
				for v0, va0 := range variants {
					for v1, va1 := range variants {
						if proto == "h2" && (!va0.h2ok || !va1.h2ok) {
							continue
						}
						o2 := outcomes[k%3]
						va2 := variants[(k/3)%len(variants)]
						if proto == "h2" && !va2.h2ok {
							va2 = variants[2]
						}
						k++
						rc := reqCase{proto: proto, path: o0 + "-" + o1 + "-" + o2}
						rc.lines = append(rc.lines, va0.lines(names[0])...)
						rc.lines = append(rc.lines, va1.lines(names[1])...)
						rc.lines = append(rc.lines, va2.lines(names[2])...)
						rc.lines = append(rc.lines, [2]string{"X-Unrelated", "keep"})
						rc.expect = map[string]*string{}
						for i, o := range []string{o0, o1, o2} {
							if o == "v" {
								rc.expect[names[i]] = str("proxy-value-" + fmt.Sprint(i))
							} else {
								rc.expect[names[i]] = nil
							}
						}
						rc.desc = fmt.Sprintf("%s out=%s%s%s var=%s,%s,%s", proto, o0, o1, o2, va0.name, va1.name, va2.name)
						rc.supplied = v0 != 0 || v1 != 0 || va2.name != "absent"
						casesA = append(casesA, rc)
					}
				}
			}
		}
	}
	// --- set B/C: default injectors (flags uninitialised => unlimited), and default + custom
	custom := stub{"X-My-FP", 0}
	var casesB []reqCase
	defNames := []string{"X-JA3-Fingerprint", "X-JA4-Fingerprint", "X-HTTP2-Fingerprint"}
	for _, proto := range []string{"h1", "h2"} {
		for _, va0 := range variants {
			for _, va1 := range variants {
				for _, va2 := range variants {
					if proto == "h2" && (!va0.h2ok || !va1.h2ok || !va2.h2ok) {
						continue
					}
					rc := reqCase{proto: proto, path: "v"}
					rc.lines = append(rc.lines, va0.lines(defNames[0])...)
					rc.lines = append(rc.lines, va1.lines(defNames[1])...)
					rc.lines = append(rc.lines, va2.lines(defNames[2])...)
					rc.desc = fmt.Sprintf("%s default var=%s,%s,%s", proto, va0.name, va1.name, va2.name)
					rc.supplied = va0.name != "absent" || va1.name != "absent" || va2.name != "absent"
					casesB = append(casesB, rc)
				}
			}
		}
	}
	var casesC []reqCase
	for _, proto := range []string{"h1", "h2"} {
		for _, o := range outcomes {
			for _, va := range variants {
				for _, vb := range variants {
					if proto == "h2" && (!va.h2ok || !vb.h2ok) {
						continue
					}
					rc := reqCase{proto: proto, path: o}
					rc.lines = append(rc.lines, va.lines("X-My-FP")...)
					rc.lines = append(rc.lines, vb.lines("X-HTTP2-Fingerprint")...)
					rc.expect = map[string]*string{"X-My-FP": nil}
					if o == "v" {
						rc.expect["X-My-FP"] = str("proxy-value-0")
					}
					rc.desc = fmt.Sprintf("%s default+custom out=%s var=%s,%s", proto, o, va.name, vb.name)
					rc.supplied = va.name != "absent" || vb.name != "absent"
					casesC = append(casesC, rc)
				}
			}
		}
	}
	type batch struct {
		set      string
		inj      []reverseproxy.HeaderInjector
		cases    []reqCase
		defaults bool
	}
	var batches []batch
	split := func(set string, inj []reverseproxy.HeaderInjector, cs []reqCase, def bool) {
		const per = 60
		for i := 0; i < len(cs); i += per {
			j := i + per
			if j > len(cs) {
				j = len(cs)
			}
			batches = append(batches, batch{set, inj, cs[i:j], def})
		}
	}
	split("stubs", injA, casesA, false)
	split("default", fingerproxy.DefaultHeaderInjectors(), casesB, true)
	setC := append(fingerproxy.DefaultHeaderInjectors(), custom)
	// a second, different set is built the same (documented) way afterwards; the first one must be unaffected by it
	_ = append(fingerproxy.DefaultHeaderInjectors(), stub{"X-Other-Tenant-FP", 0})
	split("default+custom", setC, casesC, true)
	rep.Info["cases_total"] = len(casesA) + len(casesB) + len(casesC)
	runPanicPart(t, rep, shard, of)
	for pass := 0; pass < 3; pass++ {
		prefill = pass == 1
		lateInjectors = pass == 2
		for i, b := range batches {
			if i%of != shard {
				continue
			}
			if pass > 0 && !ev.Thorough() && i%3 != pass-1 {
				continue // quick: a third of the matrix again on pre-filled connections, another third with late injectors
			}
			name := b.set
			if prefill {
				name += "+prefilled-conn"
			}
			if lateInjectors {
				name += "+injectors-assigned-after-construction"
			}
			runCases(t, rep, name, b.inj, b.cases, b.defaults)
			if rep.NumViolations() > 40 {
				break
			}
		}
	}
}
