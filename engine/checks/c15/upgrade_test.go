//go:build verif

package c15

import (
	"context"
	"crypto/tls"
	"fmt"
	"io"
	"net/http"
	"net/url"
	"strings"
	"sync"
	"testing"
	"testing/synctest"

	utls "github.com/refraction-networking/utls"
	"github.com/wi1dcard/fingerproxy"
	"github.com/wi1dcard/fingerproxy/pkg/proxyserver"
	"github.com/wi1dcard/fingerproxy/pkg/reverseproxy"
	"verif/bubble"
	"verif/ev"
)

// Requests that ask for a protocol upgrade (HTTP/1.1 "Connection: Upgrade", e.g. a WebSocket handshake) are requests
// like any other: with a probe User-Agent and probe support on they are answered locally, otherwise they are forwarded,
// the backend's 101 reaches the client and the connection becomes a tunnel to the backend.

// echoConn is the backend's side of an upgraded connection: what is written to it can be read back with "echo:" in front.
type echoConn struct {
	ch     chan []byte
	closed chan struct{}
	once   sync.Once
	rest   []byte
}

func (e *echoConn) Write(b []byte) (int, error) {
	select {
	case <-e.closed:
		return 0, io.ErrClosedPipe
	case e.ch <- append([]byte("echo:"), b...):
		return len(b), nil
	}
}

func (e *echoConn) Read(b []byte) (int, error) {
	if len(e.rest) == 0 {
		select {
		case <-e.closed:
			return 0, io.EOF
		case e.rest = <-e.ch:
		}
	}
	n := copy(b, e.rest)
	e.rest = e.rest[n:]
	return n, nil
}

func (e *echoConn) Close() error { e.once.Do(func() { close(e.closed) }); return nil }

type upgradingBackend struct {
	mu    sync.Mutex
	n     int
	conns []*echoConn
}

func (u *upgradingBackend) RoundTrip(req *http.Request) (*http.Response, error) {
	u.mu.Lock()
	u.n++
	u.mu.Unlock()
	if req.Body != nil {
		io.Copy(io.Discard, req.Body)
		req.Body.Close()
	}
	if up := req.Header.Get("Upgrade"); up != "" && strings.EqualFold(req.Header.Get("Connection"), "upgrade") {
		e := &echoConn{ch: make(chan []byte, 16), closed: make(chan struct{})}
		u.mu.Lock()
		u.conns = append(u.conns, e)
		u.mu.Unlock()
		return &http.Response{StatusCode: 101, Status: "101 Switching Protocols", Proto: "HTTP/1.1", ProtoMajor: 1, ProtoMinor: 1,
			Header: http.Header{"Upgrade": {up}, "Connection": {"Upgrade"}, "X-Backend": {"1"}}, Body: e, Request: req}, nil
	}
	// the backend saw no upgrade request: it answers like a plain backend would
	return &http.Response{StatusCode: 203, Status: "203 Non-Authoritative Information", Proto: "HTTP/1.1", ProtoMajor: 1, ProtoMinor: 1,
		Header: http.Header{"X-Backend": {"1"}, "X-Upgrade-Seen": {"no"}}, Body: io.NopCloser(strings.NewReader("plain")), ContentLength: 5, Request: req}, nil
}

func (u *upgradingBackend) count() int {
	u.mu.Lock()
	defer u.mu.Unlock()
	return u.n
}

func runUpgradeGroup(t *testing.T, rep *ev.Report, probeOn bool) {
	res := bubble.Run(t, func() {
		fingerproxy.VerifSetFlags(fingerproxy.VerifFlags{Probe: probeOn, Verbose: verboseFlag, Flush: "100ms", Idle: "180s", Read: "60s", Write: "60s", TLSHandshake: "10s"})
		to, _ := url.Parse("http://backend.internal:8080")
		h := fingerproxy.VerifDefaultReverseProxyHTTPHandler(to, fingerproxy.DefaultHeaderInjectors())
		be := &upgradingBackend{}
		h.(*reverseproxy.HTTPHandler).VerifReverseProxy().Transport = be
		st := bubble.NewStack(bubble.StackOpts{Handler: h, Build: func(ctx context.Context, hh http.Handler, tc *tls.Config) *proxyserver.Server {
			return fingerproxy.VerifDefaultProxyServer(ctx, hh, tc)
		}})
		defer st.Shutdown()
		defer func() {
			for _, e := range be.conns {
				e.Close()
			}
		}()
		for _, u := range uas {
			for _, proto := range []string{"websocket", "x-verif/1"} {
				cl := st.Connect("h1", nil, bubble.Hello{Name: "chrome", ID: &utls.HelloChrome_120, ALPN: []string{"http/1.1"}, SNI: "localhost"})
				synctest.Wait()
				if done, err := cl.Handshake(); !done || err != nil {
					rep.HarnessError("handshake: %v %v", done, err)
					return
				}
				before := be.count()
				var sb strings.Builder
				sb.WriteString("GET /ws HTTP/1.1\r\nHost: localhost\r\nConnection: Upgrade\r\nUpgrade: " + proto + "\r\n")
				for _, l := range u.lines {
					sb.WriteString(l[0] + ": " + l[1] + "\r\n")
				}
				sb.WriteString("\r\n")
				cl.Write([]byte(sb.String()))
				synctest.Wait()
				rep.Add("evaluations", 1)
				rep.Add("upgrade_requests", 1)
				grew := be.count() - before
				rs := cl.TakeH1Responses("GET")
				desc := fmt.Sprintf("probe=%v verbose=%v h1 GET /ws with Connection: Upgrade, Upgrade: %s, ua=%s", probeOn, verboseFlag, proto, u.name)
				rep.Note("distinct_nontrivial", desc)
				replay := map[string]any{"probe_support": probeOn, "proto": "h1", "request": sb.String(), "backend_requests": grew}
				if len(rs) != 1 {
					rep.Violate(map[string]any{"kind": "upgrade-request-not-answered", "ua": u.name}, replay, "%s: %d responses, pending %q", desc, len(rs), cl.Pending())
					cl.Close()
					continue
				}
				r := rs[0]
				replay["status"] = r.Status
				if probeOn && u.probe {
					if !(r.Status == 200 && string(r.Body) == "OK" && grew == 0) {
						rep.Violate(map[string]any{"kind": "probe-forwarded", "ua": u.name, "proto": "h1-upgrade"}, replay, "%s: must be answered locally (200 OK, backend untouched) but client saw %d %q and backend received %d request(s)", desc, r.Status, r.Body, grew)
					}
					cl.Close()
					synctest.Wait()
					continue
				}
				if !(grew == 1 && r.Status == 101 && r.Header.Get("X-Backend") == "1" && strings.EqualFold(r.Header.Get("Upgrade"), proto)) {
					kind := "non-probe-answered-locally"
					if grew == 1 {
						kind = "forwarded-but-wrong-response"
					}
					rep.Violate(map[string]any{"kind": kind, "ua": u.name, "proto": "h1-upgrade"}, replay, "%s: must be forwarded and get the backend's 101 (backend +1) but client saw %d %v %q and backend received %d request(s)", desc, r.Status, r.Header, r.Body, grew)
					cl.Close()
					synctest.Wait()
					continue
				}
				// the tunnel: bytes in both directions, twice
				for i, msg := range []string{"ping-1\n", "second message\n"} {
					cl.Write([]byte(msg))
					synctest.Wait()
					if got := string(cl.Pending()); got != expectEcho(i, "ping-1\n", "second message\n") {
						rep.Violate(map[string]any{"kind": "upgraded-connection-is-not-a-tunnel", "proto": "h1-upgrade"}, replay, "%s: after the 101 the client sent %q and has received %q in total", desc, msg, got)
						break
					}
				}
				cl.Close()
				synctest.Wait()
			}
		}
	})
	if res.Panic != nil {
		rep.HarnessError("panic: %v\n%s", res.Panic, res.Stack)
	}
	if res.Hang != "" {
		rep.Violate(map[string]any{"kind": "hang"}, map[string]any{"hang": res.Hang}, "the upgrade exchange never completed: %s", res.Hang)
	}
	if res.Deadlock != "" {
		rep.HarnessError("goroutines left blocked: %s", res.Deadlock)
	}
}

func expectEcho(i int, msgs ...string) string {
	s := ""
	for j := 0; j <= i; j++ {
		s += "echo:" + msgs[j]
	}
	return s
}
