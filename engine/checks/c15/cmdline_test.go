//go:build verif

package c15

import (
	"context"
	"crypto/tls"
	"fmt"
	"net/http"
	"net/url"
	"os"
	"strings"
	"testing"
	"testing/synctest"

	utls "github.com/refraction-networking/utls"
	"github.com/wi1dcard/fingerproxy"
	"github.com/wi1dcard/fingerproxy/pkg/proxyserver"
	"github.com/wi1dcard/fingerproxy/pkg/reverseproxy"
	"verif/bubble"
	"verif/ev"
)

// "With probe support enabled / disabled" as the binary is told: every command line over
//   -enable-kubernetes-probe  {absent, =true, =false}  x  -preserve-host {absent, bare, =true, =false}  x  -verbose {absent, bare}
// in both orders of the first two, and the ENABLE_KUBERNETES_PROBE environment variable {unset, true, false} behind
// it, parsed by the binary's own flag set-up (initFlags + Parse); the handler is built by the binary's constructor. A
// probe request and a request that is not a probe are sent; what happens to them follows from the probe switch alone.
func commandLines(t *testing.T, rep *ev.Report, shard, of int) {
	probeArgs := []string{"", "-enable-kubernetes-probe=true", "-enable-kubernetes-probe=false"}
	hostArgs := []string{"", "-preserve-host", "-preserve-host=true", "-preserve-host=false"}
	verbArgs := []string{"", "-verbose"}
	envs := []string{"", "true", "false"}
	job := 0
	for _, pa := range probeArgs {
		for _, ha := range hostArgs {
			for _, va := range verbArgs {
				for order := 0; order < 2; order++ {
					for _, env := range envs {
						job++
						if job%of != shard {
							continue
						}
						var args []string
						for _, a := range map[int][]string{0: {pa, ha, va}, 1: {ha, va, pa}}[order] {
							if a != "" {
								args = append(args, a)
							}
						}
						want := true // the documented default
						if env != "" {
							want = env == "true"
						}
						if pa != "" {
							want = strings.HasSuffix(pa, "=true")
						}
						commandLineCase(t, rep, args, env, want)
					}
				}
			}
		}
	}
}

func commandLineCase(t *testing.T, rep *ev.Report, args []string, env string, probeOn bool) {
	desc := fmt.Sprintf("command line %q, ENABLE_KUBERNETES_PROBE=%q", strings.Join(args, " "), env)
	res := bubble.Run(t, func() {
		if env == "" {
			os.Unsetenv("ENABLE_KUBERNETES_PROBE")
		} else {
			os.Setenv("ENABLE_KUBERNETES_PROBE", env)
		}
		defer os.Unsetenv("ENABLE_KUBERNETES_PROBE")
		if err := fingerproxy.VerifParseCommandLine(args); err != nil {
			rep.HarnessError("%s: the binary's flag set rejects it: %v", desc, err)
			return
		}
		to, _ := url.Parse("http://backend.internal:8080")
		h := fingerproxy.VerifDefaultReverseProxyHTTPHandler(to, fingerproxy.DefaultHeaderInjectors())
		rec := &bubble.RecBackend{Respond: func(r *bubble.RecReq) *bubble.Resp {
			return &bubble.Resp{Status: 203, Body: []byte("backend:" + r.Path), Header: http.Header{"X-Backend": {"1"}}}
		}}
		h.(*reverseproxy.HTTPHandler).VerifReverseProxy().Transport = rec
		st := bubble.NewStack(bubble.StackOpts{Handler: h, Build: func(ctx context.Context, hh http.Handler, tc *tls.Config) *proxyserver.Server {
			return fingerproxy.VerifDefaultProxyServer(ctx, hh, tc)
		}})
		st.Backend = rec
		defer st.Shutdown()
		cl := st.Connect("h1", nil, bubble.Hello{Name: "chrome", ID: &utls.HelloChrome_120, ALPN: []string{"http/1.1"}, SNI: "localhost"})
		synctest.Wait()
		if done, err := cl.Handshake(); !done || err != nil {
			rep.HarnessError("%s: handshake: %v %v", desc, done, err)
			return
		}
		for _, probe := range []bool{true, false} {
			ua := "curl/8"
			if probe {
				ua = "kube-probe/1.30"
			}
			before := rec.Count()
			cl.SendH1(bubble.Req{Path: "/healthz", Host: "localhost", Lines: [][2]string{{"User-Agent", ua}}})
			synctest.Wait()
			rs := cl.TakeH1Responses("GET")
			rep.Add("evaluations", 1)
			rep.Add("command_line_requests", 1)
			rep.Note("distinct_nontrivial", desc)
			if len(rs) != 1 {
				rep.HarnessError("%s: %d responses", desc, len(rs))
				return
			}
			grew := rec.Count() - before
			local := rs[0].Status == 200 && string(rs[0].Body) == "OK" && grew == 0
			forwarded := rs[0].Status == 203 && rs[0].Header.Get("X-Backend") == "1" && grew == 1
			replay := map[string]any{"args": args, "env_ENABLE_KUBERNETES_PROBE": env, "user_agent": ua, "status": rs[0].Status, "backend_requests": grew}
			switch {
			case probe && probeOn && !local:
				rep.Violate(map[string]any{"kind": "probe-forwarded", "part": "command-line"}, replay, "%s: probe support is on, but the probe request was not answered locally (status %d, backend +%d)", desc, rs[0].Status, grew)
			case (!probe || !probeOn) && !forwarded:
				rep.Violate(map[string]any{"kind": "non-probe-answered-locally", "part": "command-line"}, replay, "%s: a request with User-Agent %q must be forwarded (probe support on: %v) but the client saw %d %q and the backend received %d request(s)", desc, ua, probeOn, rs[0].Status, rs[0].Body, grew)
			}
		}
	})
	if res.Panic != nil {
		rep.HarnessError("%s: panic %v\n%s", desc, res.Panic, res.Stack)
	}
	if res.Hang != "" {
		rep.Violate(map[string]any{"kind": "hang", "part": "command-line"}, map[string]any{"hang": res.Hang}, "%s: %s", desc, res.Hang)
	}
}
