//go:build verif

// C15 — probe requests are answered locally; everything else is forwarded.
package c15

import (
	"context"
	"crypto/tls"
	"fmt"
	"net/http"
	"net/url"
	"strings"
	"testing"
	"testing/synctest"
	"time"

	utls "github.com/refraction-networking/utls"
	"github.com/wi1dcard/fingerproxy"
	"github.com/wi1dcard/fingerproxy/pkg/proxyserver"
	"github.com/wi1dcard/fingerproxy/pkg/reverseproxy"
	"verif/bubble"
	"verif/ev"
	"verif/mc"
	"verif/ref/h2wire"
)

type ua struct {
	name   string
	lines  [][2]string
	probe  bool // first User-Agent value begins with "kube-probe/"
	h1only bool
}

var uas = []ua{
	{"absent", nil, false, false},
	{"empty", [][2]string{{"User-Agent", ""}}, false, false},
	{"prefix-only", [][2]string{{"User-Agent", "kube-probe/"}}, true, false},
	{"probe", [][2]string{{"User-Agent", "kube-probe/1.26"}}, true, false},
	{"no-slash", [][2]string{{"User-Agent", "kube-probe"}}, false, false},
	{"typo", [][2]string{{"User-Agent", "kube-prob/1"}}, false, false},
	{"case", [][2]string{{"User-Agent", "Kube-Probe/1.26"}}, false, false},
	{"upper", [][2]string{{"User-Agent", "KUBE-PROBE/1.26"}}, false, false},
	// HTTP/1.1: optional whitespace around a field value is not part of it (a probe). HTTP/2 carries the octets as
	// they are: the value begins with a space or a tab, not with "kube-probe/" (forwarded)
	{"lead-ows", [][2]string{{"User-Agent", " kube-probe/1.26"}}, true, true},
	{"lead-tab", [][2]string{{"User-Agent", "\tkube-probe/1.26"}}, true, true},
	{"trail-ows", [][2]string{{"User-Agent", "curl/8 "}, {"User-Agent", "kube-probe/1.26"}}, false, false},
	{"infix", [][2]string{{"User-Agent", "curl/8 kube-probe/1.26"}}, false, false},
	{"suffix", [][2]string{{"User-Agent", "Mozilla/5.0 (kube-probe/)"}}, false, false},
	{"probe-then-text", [][2]string{{"User-Agent", "kube-probe/1.26 x"}}, true, false},
	{"two-probe-first", [][2]string{{"User-Agent", "kube-probe/1.26"}, {"User-Agent", "curl/8"}}, true, false},
	{"two-probe-second", [][2]string{{"User-Agent", "curl/8"}, {"User-Agent", "kube-probe/1.26"}}, false, false},
}

func TestCheck(t *testing.T) {
	rep := ev.New("C15", "exploration")
	defer rep.Write()
	shard, of := mc.ShardFromEnv()
	job := 0
	for i, probeOn := range []bool{true, false} {
		if (12+i)%of == shard {
			verboseFlag = i == 1
			runUpgradeGroup(t, rep, probeOn)
		}
	}
	commandLines(t, rep, shard, of)
	for _, probeOn := range []bool{true, false} {
		for _, proto := range []string{"h1", "h2"} {
			methods := []string{"GET", "HEAD", "POST"}
			if ev.Thorough() {
				methods = append(methods, "PUT", "DELETE", "OPTIONS", "PATCH")
			}
			for _, method := range methods {
				job++
				if job%of != shard {
					continue
				}
				// the binary's other switch that reaches the handler's construction: -verbose (half of the groups; it may
				// only add log lines)
				verboseFlag = job%2 == 0
				runGroup(t, rep, probeOn, proto, method, false)
				// the same matrix on a connection with a past: an upload with a trailer section has been forwarded on it, and it
				// is older than the TLS handshake timeout (but younger than the read and idle timeouts)
				runGroup(t, rep, probeOn, proto, method, true)
			}
		}
	}
}

var verboseFlag bool

func runGroup(t *testing.T, rep *ev.Report, probeOn bool, proto, method string, aged bool) {
	res := bubble.Run(t, func() {
		fingerproxy.VerifSetFlags(fingerproxy.VerifFlags{Probe: probeOn, Verbose: verboseFlag, Flush: "100ms", Idle: "180s", Read: "60s", Write: "60s", TLSHandshake: "10s"})
		to, _ := url.Parse("http://backend.internal:8080")
		h := fingerproxy.VerifDefaultReverseProxyHTTPHandler(to, fingerproxy.DefaultHeaderInjectors())
		rec := &bubble.RecBackend{Respond: func(r *bubble.RecReq) *bubble.Resp {
			return &bubble.Resp{Status: 203, Body: []byte("backend:" + r.Path), Header: http.Header{"X-Backend": {"1"}}}
		}}
		h.(*reverseproxy.HTTPHandler).VerifReverseProxy().Transport = rec
		st := bubble.NewStack(bubble.StackOpts{Handler: h, Build: func(ctx context.Context, hh http.Handler, tc *tls.Config) *proxyserver.Server {
			return fingerproxy.VerifDefaultProxyServer(ctx, hh, tc)
		}})
		st.Backend = rec
		defer st.Shutdown()
		alpn := []string{"http/1.1"}
		if proto == "h2" {
			alpn = []string{"h2", "http/1.1"}
		}
		cl := st.Connect(proto, nil, bubble.Hello{Name: "chrome", ID: &utls.HelloChrome_120, ALPN: alpn, SNI: "localhost"})
		synctest.Wait()
		if done, err := cl.Handshake(); !done || err != nil {
			rep.HarnessError("handshake: %v %v", done, err)
			return
		}
		if proto == "h2" {
			cl.StartH2()
			cl.Write(h2wire.WindowUpdate(0, 1<<30)) // the client of this check never runs out of connection window
			synctest.Wait()
		}
		col := bubble.NewH2Collector()
		stream := uint32(1)
		if aged {
			if proto == "h2" {
				blk := cl.Enc.Block(h2wire.HF{Name: ":method", Value: "POST"}, h2wire.HF{Name: ":scheme", Value: "https"}, h2wire.HF{Name: ":authority", Value: "localhost"},
					h2wire.HF{Name: ":path", Value: "/upload"}, h2wire.HF{Name: "user-agent", Value: "uploader/1"}, h2wire.HF{Name: "trailer", Value: "X-Sum"})
				cl.Write(h2wire.Headers(stream, blk, false, true, nil, -1))
				cl.Write(h2wire.Data(stream, []byte("payload"), false, -1))
				cl.Write(h2wire.Headers(stream, cl.Enc.Block(h2wire.HF{Name: "x-sum", Value: "1"}), true, true, nil, -1))
				synctest.Wait()
				col.Add(cl.Dec, cl.TakeFrames())
				if r := col.Resps[stream]; r == nil || !r.Ended || r.Status != "203" {
					rep.Violate(map[string]any{"kind": "upload-with-trailers-not-forwarded", "proto": proto}, map[string]any{"proto": proto}, "h2 upload with a trailer section (no probe User-Agent) was not forwarded and answered by the backend: %+v", r)
					return
				}
				stream += 2
			} else {
				cl.Write([]byte("POST /upload HTTP/1.1\r\nHost: localhost\r\nUser-Agent: uploader/1\r\nTransfer-Encoding: chunked\r\nTrailer: X-Sum\r\n\r\n7\r\npayload\r\n0\r\nX-Sum: 1\r\n\r\n"))
				synctest.Wait()
				if rs := cl.TakeH1Responses("POST"); len(rs) != 1 || rs[0].Status != 203 {
					rep.Violate(map[string]any{"kind": "upload-with-trailers-not-forwarded", "proto": proto}, map[string]any{"proto": proto}, "h1 chunked upload with a trailer section (no probe User-Agent) was not forwarded and answered by the backend (%d responses)", len(rs))
					return
				}
			}
			time.Sleep(11 * time.Second)
			synctest.Wait()
		}
		n := 0
		for _, u := range uas {
			if u.h1only && proto == "h2" {
				u.probe = false
			}
			for oi, other := range [][][2]string{nil, {{"X-UA", "kube-probe/1.26"}}, {{"X-User-Agent", "kube-probe/1.26"}, {"Referer", "kube-probe/1.26"}},
				{{"Range", "bytes=0-0"}, {"If-None-Match", "*"}}, {{"Range", "bytes=100-"}, {"If-Match", "\"x\""}, {"If-Modified-Since", "Mon, 02 Jan 2006 15:04:05 GMT"}},
				nil /* oi == 5: a repeated field around User-Agent, see below */} {
				paths := []string{"/", "/healthz?x=1"}
				if ev.Thorough() {
					paths = append(paths, "/kube-probe/1.26", "/a/b/../c?ua=kube-probe/1.26", "/"+strings.Repeat("p", 2000))
				}
				for _, path := range paths {
					n++
					var lines [][2]string
					if oi == 5 {
						// field order: x-trace, user-agent..., x-trace (a repeated name that is NOT adjacent, with the probe text in it)
						lines = append(lines, [2]string{"X-Trace", "a"})
						lines = append(lines, u.lines...)
						lines = append(lines, [2]string{"X-Trace", "kube-probe/1.26"})
					} else {
						lines = append(lines, u.lines...)
						lines = append(lines, other...)
					}
					rq := bubble.Req{Method: method, Path: path, Host: "localhost", Lines: lines}
					if method == "POST" || method == "PUT" || method == "PATCH" {
						rq.Body = []byte("payload")
					}
					before := rec.Count()
					if proto == "h1" {
						cl.SendH1(rq)
					} else {
						cl.SendH2(stream, rq)
					}
					synctest.Wait()
					rep.Add("evaluations", 1)
					var status int
					var body string
					var fromBackend bool
					if proto == "h1" {
						rs := cl.TakeH1Responses(method)
						if len(rs) != 1 {
							rep.HarnessError("h1 response missing (%d) pending=%q", len(rs), cl.Pending())
							return
						}
						status, body, fromBackend = rs[0].Status, string(rs[0].Body), rs[0].Header.Get("X-Backend") == "1"
					} else {
						col.Add(cl.Dec, cl.TakeFrames())
						r := col.Resps[stream]
						if r == nil || !r.Ended {
							rep.HarnessError("h2 response missing: %+v", r)
							return
						}
						fmt.Sscanf(r.Status, "%d", &status)
						body = string(r.Body)
						for _, hf := range r.Header {
							if hf.Name == "x-backend" {
								fromBackend = true
							}
						}
						stream += 2
					}
					grew := rec.Count() - before
					wantLocal := probeOn && u.probe
					desc := fmt.Sprintf("probe=%v verbose=%v %s %s %s ua=%s other=%d", probeOn, verboseFlag, proto, method, path, u.name, len(other))
					if aged {
						desc += " (connection 11 s old, after an upload with trailers)"
					}
					if strings.Contains(fmt.Sprint(lines), "kube-probe") {
						rep.Note("distinct_nontrivial", desc)
					}
					replay := map[string]any{"probe_support": probeOn, "proto": proto, "method": method, "path": path, "client_lines": lines, "status": status, "body": body, "backend_requests": grew}
					wantBody := "OK"
					wantBackendBody := "backend:" + strings.SplitN(path, "?", 2)[0]
					if method == "HEAD" {
						wantBody, wantBackendBody = "", ""
					}
					local := status == 200 && body == wantBody && !fromBackend
					forwarded := grew == 1 && status == 203 && fromBackend && body == wantBackendBody
					switch {
					case wantLocal && !(local && grew == 0):
						kind := "probe-forwarded"
						if local && grew > 0 {
							kind = "probe-answered-and-forwarded"
						}
						rep.Violate(map[string]any{"kind": kind, "ua": u.name, "proto": proto}, replay, "%s: must be answered locally (200 OK, backend untouched) but client saw %d %q and backend received %d request(s)", desc, status, body, grew)
					case !wantLocal && !forwarded:
						kind := "non-probe-answered-locally"
						if grew == 1 {
							kind = "forwarded-but-wrong-response"
						}
						rep.Violate(map[string]any{"kind": kind, "ua": u.name, "proto": proto}, replay, "%s: must be forwarded (backend +1, backend's response) but client saw %d %q (from backend: %v) and backend received %d request(s)", desc, status, body, fromBackend, grew)
					}
					if grew == 1 && !wantLocal {
						got := rec.All()[before]
						if got.Method != method || got.Path != strings.SplitN(path, "?", 2)[0] {
							rep.Violate(map[string]any{"kind": "forwarded-request-differs"}, replay, "%s: backend got %s %s", desc, got.Method, got.Path)
						}
					}
					if n <= 1 {
						rep.Sample(replay)
					}
				}
			}
		}
	})
	if res.Panic != nil {
		rep.HarnessError("panic: %v\n%s", res.Panic, res.Stack)
	}
	if res.Hang != "" {
		rep.Violate(map[string]any{"kind": "hang"}, map[string]any{"hang": res.Hang}, "the exchange never completed: %s", res.Hang)
	}
	if res.Deadlock != "" {
		rep.HarnessError("goroutines left blocked: %s", res.Deadlock)
	}
}
