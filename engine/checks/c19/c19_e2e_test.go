//go:build verif

package c19

import (
	"fmt"
	"net/http"
	"testing"
	"testing/synctest"
	"time"

	"github.com/wi1dcard/fingerproxy/pkg/http2"
	"verif/bubble"
	"verif/ev"
	"verif/ref/h2wire"
)

// TestE2E is not part of the check (run it with: bin/check C19 --run '^TestE2E$' --shards 1 --evidence /tmp/x.json).
// It shows the end-to-end consequence of the finding of part A/B on the real http2.Server.ServeConn:
// a frame that is too short for its mandatory fields makes the server drop the connection without the
// GOAWAY(FRAME_SIZE_ERROR) that RFC 7540 §4.2 requires, while other frame-size defects do get the GOAWAY.
func TestE2E(t *testing.T) {
	cases := []struct {
		name  string
		frame []byte
	}{
		{"control: PING of 7 octets", h2wire.Raw(nil, -1, h2wire.TPing, 0, 0, make([]byte, 7))},
		{"control: HEADERS PADDED, pad length 9 > remaining 2", h2wire.Raw(nil, -1, h2wire.THeaders, 0x0c, 1, []byte{9, 0x82, 0x84})},
		{"DATA PADDED, length 0", h2wire.Raw(nil, -1, h2wire.TData, 0x08, 1, nil)},
		{"HEADERS PADDED, length 0", h2wire.Raw(nil, -1, h2wire.THeaders, 0x0c, 1, nil)},
		{"HEADERS PRIORITY, length 4", h2wire.Raw(nil, -1, h2wire.THeaders, 0x24, 1, []byte{0, 0, 0, 3})},
		{"PUSH_PROMISE, length 3", h2wire.Raw(nil, -1, h2wire.TPushPromise, 0x04, 1, []byte{0, 0, 0})},
	}
	rep := ev.New("C19", "exploration")
	defer rep.Write()
	rep.Info["rule"] = "supplementary end-to-end probe, not the check"
	for _, tc := range cases {
		var got []string
		closed := false
		bubble.Run(t, func() {
			conn := bubble.StartH2(&http2.Server{}, &http.Server{}, http.HandlerFunc(func(w http.ResponseWriter, r *http.Request) {}))
			conn.Send([]byte(h2wire.Preface))
			conn.Send(h2wire.Settings())
			synctest.Wait()
			conn.Frames()
			conn.Send(tc.frame)
			synctest.Wait()
			time.Sleep(5 * time.Second) // fake clock: lets the GOAWAY linger timer run
			synctest.Wait()
			for _, f := range conn.Frames() {
				s := f.String()
				if f.Type == h2wire.TGoAway {
					_, code := f.GoAwayFields()
					s += fmt.Sprintf(" code=%#x", code)
				}
				if f.Type == h2wire.TRSTStream {
					s += fmt.Sprintf(" code=%#x", f.RSTCode())
				}
				got = append(got, s)
			}
			closed = conn.Sv.Closed()
			conn.Close()
		})
		rep.Add("evaluations", 1)
		rep.Note("distinct_nontrivial", tc.name)
		rep.Sample(map[string]any{"frame": tc.name, "server_wrote": got, "server_closed": closed})
		t.Logf("%-55s -> server wrote %v, server closed its end: %v", tc.name, got, closed)
	}
}
