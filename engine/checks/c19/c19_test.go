//go:build verif

// C19 — HTTP/2 frame codec round-trips; the reader survives any bytes.
//
// Exhaustive enumeration of bounded input spaces against the independent
// reference decoder verif/ref/h2frameref (RFC 7540 §4/§5.4/§6, admissible SETS):
//
//	part W  every Write* method of the real http2.Framer over boundary grids of
//	        its parameters: the written bytes are decoded by the independent
//	        parser and compared with the parameters, then read back by the real
//	        Framer.ReadFrame (several read limits, plain / ReadMetaHeaders /
//	        SetReuseFrames) and compared field by field;
//	part C  every cut of HPACK blocks (<= 20 bytes) into <= 4 fragments written
//	        as HEADERS + CONTINUATION*, reassembled under ReadMetaHeaders;
//	part A  reader on every single frame of the header grid type x flags x
//	        stream id x length x payload pattern x read limit;
//	part B  reader on every payload over a 5-byte alphabet up to a length bound,
//	        for every type x defined-flag subset x stream {0,1};
//	part S  reader on every sequence of length <= 3 (thorough: <= 5) over an
//	        alphabet of 21 HEADERS/CONTINUATION/other frames, plain, meta and reuse;
//	part T  every truncation point of valid frames; part M the 2^24-1 limit;
//	part H  HPACK byte strings as header blocks under ReadMetaHeaders.
package c19

import (
	"bytes"
	"encoding/hex"
	"fmt"
	"hash/fnv"
	"io"
	"runtime/debug"
	"sort"
	"strings"
	"testing"

	"github.com/wi1dcard/fingerproxy/pkg/http2"
	"golang.org/x/net/http2/hpack"
	"verif/ev"
	"verif/mc"
	ref "verif/ref/h2frameref"
	"verif/ref/h2wire"
)

// ---------------------------------------------------------------------------
// observation of the implementation

type result struct {
	kind   string // accept | conn | stream | toolarge | eof | other | panic
	code   uint32
	stream uint32
	fields *ref.Fields
	msg    string
	trunc  bool // MetaHeadersFrame.Truncated
}

func (r result) String() string {
	switch r.kind {
	case "accept":
		return "accept " + r.fields.String()
	case "conn":
		return fmt.Sprintf("ConnectionError(%#x)", r.code)
	case "stream":
		return fmt.Sprintf("StreamError(stream=%d, %#x)", r.stream, r.code)
	}
	return r.kind + ": " + r.msg
}

func (r result) terminal() bool { return r.kind != "accept" && r.kind != "stream" }

// key is a compact outcome key for determinism checks and coverage.
func (r result) key() string {
	switch r.kind {
	case "accept":
		return "ok"
	case "conn", "stream":
		return fmt.Sprintf("%s:%x", r.kind, r.code)
	}
	return r.kind
}

var wantGoType = map[uint8]string{0: "*http2.DataFrame", 1: "*http2.HeadersFrame", 2: "*http2.PriorityFrame", 3: "*http2.RSTStreamFrame",
	4: "*http2.SettingsFrame", 5: "*http2.PushPromiseFrame", 6: "*http2.PingFrame", 7: "*http2.GoAwayFrame", 8: "*http2.WindowUpdateFrame", 9: "*http2.ContinuationFrame"}

// fromFramer converts a frame handed out by the real Framer into canonical fields, through exported accessors only.
func fromFramer(f http2.Frame) (out *ref.Fields, trunc bool, problem string) {
	h := f.Header()
	o := &ref.Fields{Type: uint8(h.Type), Flags: uint8(h.Flags), Stream: h.StreamID, Length: h.Length, PadLen: -1}
	gt := fmt.Sprintf("%T", f)
	want, known := wantGoType[o.Type]
	if !known {
		want = "*http2.UnknownFrame"
	}
	if gt == "*http2.MetaHeadersFrame" && o.Type == 1 {
		want = gt
	}
	if gt != want {
		problem = fmt.Sprintf("frame of wire type %d returned as %s", o.Type, gt)
	}
	padded := func(fixed int, frag []byte) {
		if o.Flags&h2wire.FPadded != 0 {
			o.PadLen = int(o.Length) - 1 - fixed - len(frag)
		}
	}
	cp := func(b []byte) []byte { return append([]byte{}, b...) }
	switch x := f.(type) {
	case *http2.DataFrame:
		o.Data = cp(x.Data())
		padded(0, o.Data)
		if x.StreamEnded() != (o.Flags&1 != 0) {
			problem = "StreamEnded() disagrees with flags"
		}
	case *http2.MetaHeadersFrame:
		o.Meta = true
		o.HasPrio = x.HasPriority()
		o.Dep, o.Excl, o.Weight = x.Priority.StreamDep, x.Priority.Exclusive, x.Priority.Weight
		for _, hf := range x.Fields {
			o.HeaderList = append(o.HeaderList, h2wire.HF{Name: hf.Name, Value: hf.Value})
		}
		trunc = x.Truncated
		o.PadLen = -2 // not observable once the fragment is gone; patched by the caller
	case *http2.HeadersFrame:
		o.Data = cp(x.HeaderBlockFragment())
		o.HasPrio = x.HasPriority()
		o.Dep, o.Excl, o.Weight = x.Priority.StreamDep, x.Priority.Exclusive, x.Priority.Weight
		fixed := 0
		if o.HasPrio {
			fixed = 5
		}
		padded(fixed, o.Data)
		if x.StreamEnded() != (o.Flags&1 != 0) || x.HeadersEnded() != (o.Flags&4 != 0) {
			problem = "StreamEnded()/HeadersEnded() disagree with flags"
		}
	case *http2.PriorityFrame:
		o.HasPrio = true
		o.Dep, o.Excl, o.Weight = x.StreamDep, x.Exclusive, x.Weight
	case *http2.RSTStreamFrame:
		o.Code = uint32(x.ErrCode)
	case *http2.SettingsFrame:
		n := x.NumSettings()
		for i := 0; i < n; i++ {
			s := x.Setting(i)
			o.Settings = append(o.Settings, h2wire.Setting{ID: uint16(s.ID), Val: s.Val})
		}
		var viaForeach []h2wire.Setting
		x.ForeachSetting(func(s http2.Setting) error {
			viaForeach = append(viaForeach, h2wire.Setting{ID: uint16(s.ID), Val: s.Val})
			return nil
		})
		if fmt.Sprint(viaForeach) != fmt.Sprint(o.Settings) {
			problem = "ForeachSetting disagrees with Setting(i)"
		}
		if x.IsAck() != (o.Flags&1 != 0) {
			problem = "IsAck() disagrees with flags"
		}
	case *http2.PushPromiseFrame:
		o.Promise = x.PromiseID
		o.Data = cp(x.HeaderBlockFragment())
		padded(4, o.Data)
	case *http2.PingFrame:
		o.Data = cp(x.Data[:])
		if x.IsAck() != (o.Flags&1 != 0) {
			problem = "IsAck() disagrees with flags"
		}
	case *http2.GoAwayFrame:
		o.Last, o.Code = x.LastStreamID, uint32(x.ErrCode)
		o.Data = cp(x.DebugData())
	case *http2.WindowUpdateFrame:
		o.Incr = x.Increment
	case *http2.ContinuationFrame:
		o.Data = cp(x.HeaderBlockFragment())
		if x.HeadersEnded() != (o.Flags&4 != 0) {
			problem = "HeadersEnded() disagrees with flags"
		}
	case *http2.UnknownFrame:
		o.Data = cp(x.Payload())
	default:
		problem = "unexpected Go type " + gt
	}
	return o, trunc, problem
}

func readOne(fr *http2.Framer) (res result) {
	defer func() {
		if p := recover(); p != nil {
			res = result{kind: "panic", msg: fmt.Sprintf("%v\n%s", p, firstLines(string(debug.Stack()), 30))}
		}
	}()
	f, err := fr.ReadFrame()
	switch e := err.(type) {
	case nil:
		if f == nil {
			return result{kind: "other", msg: "nil frame and nil error"}
		}
		fl, trunc, problem := fromFramer(f)
		if problem != "" {
			return result{kind: "other", msg: problem}
		}
		return result{kind: "accept", fields: fl, trunc: trunc}
	case http2.ConnectionError:
		return result{kind: "conn", code: uint32(e)}
	case http2.StreamError:
		return result{kind: "stream", code: uint32(e.Code), stream: e.StreamID}
	}
	switch err {
	case http2.ErrFrameTooLarge:
		return result{kind: "toolarge", msg: err.Error()}
	case io.EOF, io.ErrUnexpectedEOF:
		return result{kind: "eof", msg: err.Error()}
	}
	return result{kind: "other", msg: fmt.Sprintf("%T: %v", err, err)}
}

func firstLines(s string, n int) string {
	ls := strings.Split(s, "\n")
	if len(ls) > n {
		ls = ls[:n]
	}
	return strings.Join(ls, " | ")
}

// ---------------------------------------------------------------------------
// findings

type finding struct {
	sig    map[string]any
	what   string
	replay map[string]any
	rerun  func() *finding // re-executes the case
}

func sigKey(s map[string]any) string {
	ks := make([]string, 0, len(s))
	for k := range s {
		ks = append(ks, k)
	}
	sort.Strings(ks)
	var b strings.Builder
	for _, k := range ks {
		fmt.Fprintf(&b, "%s=%v;", k, s[k])
	}
	return b.String()
}

func tname(t uint8) string {
	if n, ok := h2wire.TypeNames[t]; ok {
		return n
	}
	return fmt.Sprintf("TYPE_%#x", t)
}

func hexs(b []byte) string {
	if len(b) <= 96 {
		return hex.EncodeToString(b)
	}
	return fmt.Sprintf("%s..(%d bytes, fnv %08x)", hex.EncodeToString(b[:64]), len(b), hash32(b))
}

func hash32(b []byte) uint32 {
	h := fnv.New32a()
	h.Write(b)
	return h.Sum32()
}

// judge compares one implementation outcome with the reference verdict.
// It returns nil if the outcome is admissible.
func judge(v ref.Verdict, res result, limit uint32, frameType uint8) (sig map[string]any, what string) {
	ft := tname(frameType)
	switch res.kind {
	case "panic":
		return map[string]any{"kind": "panic", "frame": ft}, "ReadFrame panicked: " + res.msg
	case "accept":
		if res.fields.Length > limit {
			return map[string]any{"kind": "frame-over-read-limit", "frame": ft},
				fmt.Sprintf("ReadFrame returned a frame of length %d with read limit %d", res.fields.Length, limit)
		}
		if !v.Accept {
			var why []string
			for e, w := range v.Errs {
				why = append(why, e.String()+": "+w)
			}
			sort.Strings(why)
			return map[string]any{"kind": "malformed-frame-accepted", "frame": ft, "required": strings.Join(keysOf(v), ",")},
				fmt.Sprintf("ReadFrame accepted %s which must be rejected: %s", res.fields, strings.Join(why, "; "))
		}
		want := *v.Fields
		got := *res.fields
		if got.Meta && got.PadLen == -2 {
			got.PadLen = want.PadLen
		}
		if d := ref.Diff(&got, &want); d != "" {
			return map[string]any{"kind": "field-mismatch", "frame": ft, "field": d},
				fmt.Sprintf("ReadFrame returned %s, the independent parser reads %s (differ in %s)", &got, &want, d)
		}
		return nil, ""
	case "conn", "stream":
		e := ref.Err{Conn: res.kind == "conn", Code: res.code}
		if _, ok := v.Errs[e]; !ok {
			k := "wrong-error"
			if v.Accept && !v.Hard {
				k = "legal-frame-rejected"
			}
			return map[string]any{"kind": k, "frame": ft, "got": e.String(), "admissible": strings.Join(keysOf(v), ",")},
				fmt.Sprintf("ReadFrame returned %s; admissible outcomes: %s", res, v.Admissible())
		}
		if res.kind == "stream" && res.stream != v.Stream {
			return map[string]any{"kind": "stream-error-on-wrong-stream", "frame": ft},
				fmt.Sprintf("ReadFrame returned %s for a frame on stream %d", res, v.Stream)
		}
		return nil, ""
	case "toolarge":
		if !v.TooLarge {
			return map[string]any{"kind": "too-large-within-limit", "frame": ft},
				fmt.Sprintf("ReadFrame returned ErrFrameTooLarge with read limit %d; admissible outcomes: %s", limit, v.Admissible())
		}
		return nil, ""
	case "eof":
		if !v.EOF {
			// the whole frame was available: this is not an I/O condition but the rejection of a malformed frame
			// (or of a legal one) with an error that is neither a stream nor a connection error
			k := "malformed-frame-rejected-without-h2-error"
			if v.Accept {
				k = "legal-frame-rejected"
			}
			return map[string]any{"kind": k, "frame": ft, "got": res.msg},
				fmt.Sprintf("ReadFrame returned the bare I/O error %q although the complete frame was available; admissible outcomes: %s", res.msg, v.Admissible())
		}
		return nil, ""
	}
	return map[string]any{"kind": "unexpected-result", "frame": ft, "got": firstLines(res.msg, 1)}, "ReadFrame: " + res.msg + "; admissible outcomes: " + v.Admissible()
}

func keysOf(v ref.Verdict) []string {
	var s []string
	if v.Accept {
		s = append(s, "accept")
	}
	for e := range v.Errs {
		s = append(s, e.String())
	}
	if v.TooLarge {
		s = append(s, "ErrFrameTooLarge")
	}
	if v.EOF {
		s = append(s, "EOF")
	}
	sort.Strings(s)
	return s
}

// ---------------------------------------------------------------------------
// one reader execution: input bytes x read limit x mode

type mode struct{ meta, reuse bool }

func (m mode) String() string { return fmt.Sprintf("meta=%v,reuse=%v", m.meta, m.reuse) }

type runOut struct {
	find     *finding
	outcomes []string // outcome key per ReadFrame call while the reference was authoritative
	frames   int
	unspec   bool
	trunc    bool
}

// runInput reads in to the end with the real Framer and checks every ReadFrame result
// against the reference, until the first rejected frame; after it only the universal
// invariants (no panic, no frame above the limit) are checked.
func runInput(part string, in []byte, limit uint32, m mode) (out runOut) {
	fr := http2.NewFramer(io.Discard, bytes.NewReader(in))
	fr.SetMaxReadFrameSize(limit)
	if m.meta {
		fr.ReadMetaHeaders = hpack.NewDecoder(4096, nil)
	}
	if m.reuse {
		fr.SetReuseFrames()
	}
	r := ref.NewReader(limit)
	eff := r.Limit()
	off, strict := 0, true
	mk := func(sig map[string]any, what string, step int) *finding {
		return &finding{sig: sig, what: fmt.Sprintf("[%s %s limit=%d read#%d] %s; input=%s", part, m, limit, step, what, hexs(in)),
			replay: map[string]any{"part": part, "input_hex": hex.EncodeToString(clip(in, 4096)), "input_len": len(in), "read_limit": limit, "meta": m.meta, "reuse_frames": m.reuse, "read_call": step}}
	}
	for step := 0; step < 64; step++ {
		var v ref.Verdict
		unit := false
		var ftype uint8 = 0xff
		if strict {
			if len(in)-off >= 9 {
				ftype = in[off+3]
			}
			if m.meta {
				v, unit = r.NextMeta(in[off:])
			} else {
				v = r.Next(in[off:])
			}
			if v.Unspecified {
				strict = false
				out.unspec = true
			}
		}
		res := readOne(fr)
		out.frames++
		if res.trunc {
			strict = false
			out.trunc = true
		}
		if !strict {
			// universal invariants only
			if res.kind == "panic" {
				out.find = mk(map[string]any{"kind": "panic", "frame": "after-first-error"}, "ReadFrame panicked: "+res.msg, step)
				return
			}
			if res.kind == "accept" && res.fields.Length > eff {
				out.find = mk(map[string]any{"kind": "frame-over-read-limit", "frame": tname(res.fields.Type)},
					fmt.Sprintf("ReadFrame returned a frame of length %d with read limit %d", res.fields.Length, eff), step)
				return
			}
			if res.terminal() {
				return
			}
			continue
		}
		out.outcomes = append(out.outcomes, res.key())
		if sig, what := judge(v, res, eff, ftype); sig != nil {
			out.find = mk(sig, what, step)
			return
		}
		if res.terminal() {
			return
		}
		if res.kind == "accept" {
			if !unit {
				r.Accepted(v.Fields)
			}
			off += v.Consumed
		} else if v.Accept {
			// a stream error for an optional (message-level) defect of a frame that was read completely: the
			// connection goes on (RFC 7540 §5.4.2), so the frames after it are judged like any others
			if !unit {
				r.Accepted(v.Fields)
			}
			off += v.Consumed
		} else if v.Consumed > 0 && !v.EOF && !v.TooLarge && ftype != h2wire.THeaders && ftype != h2wire.TPushPromise && ftype != h2wire.TContinuation {
			// a stream error for a complete frame outside a header block: skipped, the connection goes on
			off += v.Consumed
		} else {
			strict = false // a stream error inside a header block: the statement does not define the reader state after it
		}
	}
	return
}

func clip(b []byte, n int) []byte {
	if len(b) > n {
		return b[:n]
	}
	return b
}

// ---------------------------------------------------------------------------
// the driver of all parts

type ctx struct {
	rep       *ev.Report
	shard, of int
	k         int64 // running case index
	finds     map[string]*finding
	order     []string
	nrecheck  int64
	outHash   map[string]int
	uncounted bool
}

func (c *ctx) mine() bool {
	k := c.k
	c.k++
	return int(k%int64(c.of)) == c.shard
}

func (c *ctx) found(f *finding) {
	if f == nil {
		return
	}
	k := sigKey(f.sig)
	if !c.uncounted {
		c.rep.Add("violating_cases", 1)
		c.rep.Add("violating_cases:"+k, 1)
	}
	if _, ok := c.finds[k]; ok {
		return
	}
	c.finds[k] = f
	c.order = append(c.order, k)
}

var allModes = []mode{{false, false}, {false, true}, {true, false}}

// reader runs one reader case in the given modes and limits.
func (c *ctx) reader(part string, in []byte, limits []uint32, modes []mode, feature string) {
	for _, l := range limits {
		for _, m := range modes {
			o := runInput(part, in, l, m)
			c.rep.Add("evaluations", 1)
			c.rep.Add("reader_executions", 1)
			c.rep.Add("readframe_calls", int64(o.frames))
			c.rep.Add("cases_"+part[:1]+"_reads", 1)
			if o.unspec {
				c.rep.Add("sequences_after_open_push_promise_block_unspecified", 1)
			}
			if o.trunc {
				c.rep.Add("meta_truncated_skipped", 1)
			}
			ok := strings.Join(o.outcomes, ",")
			c.outHash[ok]++
			if ok != "ok" && ok != "" || len(o.outcomes) > 1 {
				c.rep.Note("distinct_nontrivial", part+"|"+feature+"|"+m.String()+"|"+ok)
			}
			c.rep.Note("distinct_outcome_vectors", ok)
			if o.find != nil {
				in2, l2, m2 := in, l, m
				o.find.rerun = func() *finding { return runInput(part, in2, l2, m2).find }
				c.found(o.find)
			}
			// determinism self-check on a fixed slice of the executions
			if c.rep.Sum["reader_executions"]%50 == 0 {
				o2 := runInput(part, in, l, m)
				c.nrecheck++
				if strings.Join(o2.outcomes, ",") != ok || (o2.find == nil) != (o.find == nil) {
					c.rep.HarnessError("non-deterministic reader outcome on input %s limit %d %s: %v vs %v", hexs(in), l, m, o.outcomes, o2.outcomes)
				}
			}
		}
	}
}

func TestCheck(t *testing.T) {
	rep := ev.New("C19", "exploration")
	defer rep.Write()
	shard, of := mc.ShardFromEnv()
	c := &ctx{rep: rep, shard: shard, of: of, finds: map[string]*finding{}, outHash: map[string]int{}}
	thorough := ev.Thorough()
	rep.Info["rule"] = "case = (Write* call sequence with parameters | reader input bytes) x read limit x reader mode, enumerated exhaustively over the grids listed in 'grids'; " +
		"distinct_nontrivial = distinct (part, frame-feature signature, mode, vector of ReadFrame outcome classes) with at least one rejection or more than one frame, " +
		"plus distinct written-frame feature signatures that were written, independently decoded and read back"
	rep.Info["grids"] = gridsInfo(thorough)
	rep.Assume("golang.org/x/net/http2/hpack (module cache) is trusted as the HPACK decoder of the reference (HPACK is property C18)",
		"a frame the reference classifies as carrying only 'optional at the framing layer' defects (SETTINGS values, self-dependency, promised id 0, malformed header LIST) may be accepted or rejected",
		"after the first rejected frame of an input, and after a PUSH_PROMISE without END_HEADERS (the statement speaks of HEADERS/CONTINUATION interleavings only), only 'no panic' and 'no frame above the read limit' are checked",
		"Framer options outside the quantifier (MaxHeaderListSize, AllowIllegalReads) keep their defaults")

	part0(c)
	partW(c, thorough)
	partC(c, thorough)
	partA(c, thorough)
	partB(c, thorough)
	partS(c, thorough)
	partT(c)
	partM(c, thorough)
	partH(c, thorough)

	rep.Add("determinism_rechecks", c.nrecheck)
	// samples
	rep.Sample(map[string]any{"part": "A", "input_hex": hex.EncodeToString(h2wire.Raw(nil, -1, 1, 0x2c, 1, []byte{0, 0x80, 0, 0, 3, 7, 0x82})), "read_limit": 16384, "meaning": "HEADERS PADDED|PRIORITY|END_HEADERS, pad 0, exclusive dep 3, weight 7, fragment 82"})
	rep.Sample(map[string]any{"part": "B", "input_hex": hex.EncodeToString(h2wire.Raw(nil, -1, 8, 0, 1, []byte{0x80, 0, 0, 0})), "read_limit": 16384, "meaning": "WINDOW_UPDATE whose increment is 0 after masking the reserved bit: stream error PROTOCOL_ERROR"})
	rep.Sample(map[string]any{"part": "S", "sequence": []string{"HEADERS(1,-EH)", "CONTINUATION(3,+EH)"}, "meaning": "CONTINUATION on another stream inside a header block: connection error PROTOCOL_ERROR"})
	rep.Sample(map[string]any{"part": "W", "call": "WriteHeaders{StreamID:2147483647, BlockFragment:16384 bytes, EndStream, PadLength:255, Priority:{2147483647,true,255}}", "meaning": "written, decoded independently, read back with limits {len-1,len,2^24-1}"})

	// confirm and report
	n := 0
	for _, k := range c.order {
		f := c.finds[k]
		if n >= 40 {
			break
		}
		okN := 0
		for i := 0; i < 5; i++ {
			if f.rerun == nil {
				okN++
				continue
			}
			if g := f.rerun(); g != nil && sigKey(g.sig) == k {
				okN++
			}
		}
		if okN != 5 {
			rep.HarnessError("violation did not reproduce 5/5 (%d/5): %s", okN, f.what)
			continue
		}
		n++
		rep.Violate(f.sig, f.replay, "%s", f.what)
	}
	if rep.DistinctCount("distinct_outcome_vectors") < 2 && of == 1 {
		rep.HarnessError("vacuity: fewer than 2 distinct outcome vectors")
	}
}

func gridsInfo(thorough bool) map[string]any {
	g := map[string]any{
		"W": "Write*: stream ids {0,1,2,2^31-1,2^31,2^31+1,2^32-1}; payload/block lengths {0,1,2,16383,16384}(+{16385,65535} thorough) and {2^24-2,2^24-1,2^24}; pad {nil,empty,1,255,256,non-zero}; PadLength {0,1,255}; priority dep {0,1,2^31-1,2^31} x exclusive x weight {0,1,255}; settings lists of length <=3 (quick <=2) over ids {1,2,4,5,0xabcd} x values {0,1,2^31-1,2^32-1}; error codes {0,13,2^32-1}; increments {0,1,2,2^31-1,2^31,2^31+1,2^32-1}; GOAWAY last {0,1,2^31-1,2^31,2^32-1} x debug {0,1,64}; raw frames types {0..10,0xfa,0xff}; with and without AllowIllegalWrites; read back with limits {len-1,len,16384,2^24-1,2^32-1} in plain / reuse / meta mode",
		"C": "3 HPACK blocks (<=20 bytes), every cut into <=4 fragments (empty fragments included) x stream {1,2^31-1} x PadLength {0,1,255} x priority {no,yes} x END_STREAM; written by WriteHeaders/WriteContinuation; read in meta and plain mode",
		"A": "single frames: type {0..10,0xfa} x flags (quick: every subset of the defined bits, with and without undefined bit 0x40; thorough: all 256) x stream {0,1,2,2^31-1,2^31,2^31+1} x length {0..10} x payload patterns (5 fills + first-octet boundary values) x limit {16384 + small limits 0,4,5,8,9} (HEADERS also under ReadMetaHeaders, DATA also with SetReuseFrames); and lengths {limit,limit+1} for limits {16384,16385} x 3 patterns",
		"B": "every payload over the alphabet {00,01,7f,80,ff} of length <= 6 (thorough 8) x type {0..10,0xfa} x every subset of the defined flag bits x stream {0,1}; limit 16384 (HEADERS also under ReadMetaHeaders, DATA also with SetReuseFrames)",
		"S": "every sequence of length 1, 2 and 3 (thorough: up to 5) over 21 frame letters (HEADERS/CONTINUATION on streams 1,3 with/without END_HEADERS, CONTINUATION on 0, DATA, SETTINGS, PRIORITY, PING, unknown, zero WINDOW_UPDATE, over-padded HEADERS, PUSH_PROMISE +/-EH, oversized, truncated) in plain, meta and reuse mode, read limit 100",
		"T": "every truncation point of one valid frame per type and of a HEADERS+CONTINUATION unit",
		"M": "limit 2^24-1 (and 2^24, 2^32-1 which clamp): frames of length 2^24-1 per type; limit 2^24-2: length 2^24-1 rejected",
		"H": "header blocks = every byte string of length <=3 (thorough 5) over {00,0f,40,82,84,88,be,ff,20,3f,e1,01,61} as HEADERS(+CONTINUATION split at every point) under ReadMetaHeaders",
	}
	return g
}

// part0 is run by EVERY shard and counted nowhere: the smallest frames on stream 1 (all-zero payload of
// length 0..6, every subset of the defined flags), so that the witness kept for a violation signature is a
// minimal one whatever shard meets it first. All of these inputs are enumerated (and counted) again in part A/B.
func part0(c *ctx) {
	c.uncounted = true
	defer func() { c.uncounted = false }()
	for _, t := range gridTypes {
		for n := 0; n <= 6; n++ {
			for _, fl := range subsets(definedFlags[t]) {
				in := h2wire.Raw(nil, -1, t, fl, 1, make([]byte, n))
				if o := runInput("A", in, 16384, mode{}); o.find != nil {
					in2 := in
					o.find.rerun = func() *finding { return runInput("A", in2, 16384, mode{}).find }
					c.found(o.find)
				}
			}
		}
	}
}

// ---------------------------------------------------------------------------
// part W: Write* -> independent decode -> ReadFrame

const mask31 = 0x7fffffff

var bigBuf = func() []byte {
	b := make([]byte, 1<<24+16)
	for i := range b {
		b[i] = byte(i*7 + 3)
	}
	return b
}()

func pat(n int) []byte { return bigBuf[:n:n] }

var zeros = make([]byte, 1<<16)

type wop struct {
	desc      string
	do        func(fr *http2.Framer) error
	want      *ref.Fields   // typed expectation (nil: parameters illegal per the API documentation -> only the reader is judged)
	wantRaw   *h2wire.Frame // expectation for WriteRawFrame
	mustWrite bool          // parameters are legal: the call must succeed
}

type wcase struct {
	feature string
	illegal bool
	ops     []wop
}

func validSID(s uint32) bool { return s != 0 && s&(1<<31) == 0 }

func (c *ctx) runW(w wcase) {
	c.rep.Add("evaluations", 1)
	c.rep.Add("cases_W", 1)
	var buf bytes.Buffer
	fr := http2.NewFramer(&buf, nil)
	fr.AllowIllegalWrites = w.illegal
	rr := ref.NewReader(ref.MaxFrameSize)
	maxLen := uint32(0)
	written := 0
	var descs []string
	mk := func(sig map[string]any, what string, i int) *finding {
		return &finding{sig: sig, what: fmt.Sprintf("[W AllowIllegalWrites=%v] %s: %s", w.illegal, w.ops[i].desc, what),
			replay: map[string]any{"part": "W", "calls": descs, "allow_illegal_writes": w.illegal, "failing_call": i}}
	}
	rerun := func() *finding {
		c2 := &ctx{rep: ev.New("C19", "exploration"), of: 1, finds: map[string]*finding{}, outHash: map[string]int{}}
		c2.runW(w)
		for _, f := range c2.finds {
			return f
		}
		return nil
	}
	for _, op := range w.ops {
		descs = append(descs, op.desc)
	}
	for i, op := range w.ops {
		before := buf.Len()
		var err error
		func() {
			defer func() {
				if p := recover(); p != nil {
					err = fmt.Errorf("PANIC: %v", p)
				}
			}()
			err = op.do(fr)
		}()
		delta := buf.Bytes()[before:]
		if err != nil && strings.HasPrefix(err.Error(), "PANIC") {
			f := mk(map[string]any{"kind": "write-panic", "method": strings.SplitN(op.desc, "(", 2)[0]}, err.Error(), i)
			f.rerun = rerun
			c.found(f)
			return
		}
		if err != nil {
			c.rep.Add("writes_refused", 1)
			if len(delta) != 0 {
				f := mk(map[string]any{"kind": "bytes-written-by-failed-write", "method": strings.SplitN(op.desc, "(", 2)[0]}, fmt.Sprintf("returned %v but wrote %d bytes", err, len(delta)), i)
				f.rerun = rerun
				c.found(f)
				return
			}
			if op.mustWrite {
				f := mk(map[string]any{"kind": "legal-frame-not-written", "method": strings.SplitN(op.desc, "(", 2)[0]}, fmt.Sprintf("legal parameters refused: %v", err), i)
				f.rerun = rerun
				c.found(f)
				return
			}
			continue
		}
		written++
		c.rep.Add("frames_written", 1)
		// independent split: exactly one frame
		var p h2wire.Parser
		frames := p.Feed(delta)
		if len(frames) != 1 || p.Pending() != 0 {
			f := mk(map[string]any{"kind": "written-bytes-are-not-one-frame", "method": strings.SplitN(op.desc, "(", 2)[0]},
				fmt.Sprintf("wrote %d bytes which the independent parser splits into %d frame(s) + %d pending bytes: %s", len(delta), len(frames), p.Pending(), hexs(delta)), i)
			f.rerun = rerun
			c.found(f)
			return
		}
		if uint32(len(frames[0].Payload)) > maxLen {
			maxLen = uint32(len(frames[0].Payload))
		}
		if op.wantRaw != nil {
			g := frames[0]
			if g.Type != op.wantRaw.Type || g.Flags != op.wantRaw.Flags || g.Stream != op.wantRaw.Stream&mask31 || !bytes.Equal(g.Payload, op.wantRaw.Payload) {
				f := mk(map[string]any{"kind": "writer-field-mismatch", "method": "WriteRawFrame"}, fmt.Sprintf("wrote %s, parameters say %s", g, *op.wantRaw), i)
				f.rerun = rerun
				c.found(f)
				return
			}
		}
		v := rr.Next(delta)
		if op.want != nil {
			if v.Fields == nil {
				// decode without contiguity context (a lone CONTINUATION is fine for the WRITER)
				v2 := ref.NewReader(ref.MaxFrameSize)
				if frames[0].Type == h2wire.TContinuation {
					v2.Accepted(&ref.Fields{Type: h2wire.THeaders, Stream: frames[0].Stream})
				}
				v = v2.Next(delta)
			}
			if v.Fields == nil {
				f := mk(map[string]any{"kind": "legal-parameters-wrote-malformed-frame", "method": strings.SplitN(op.desc, "(", 2)[0]},
					fmt.Sprintf("wrote %s which the independent parser rejects: %s", hexs(delta), v.Admissible()), i)
				f.rerun = rerun
				c.found(f)
				return
			}
			if d := ref.Diff(v.Fields, op.want); d != "" {
				f := mk(map[string]any{"kind": "writer-field-mismatch", "method": strings.SplitN(op.desc, "(", 2)[0], "field": d},
					fmt.Sprintf("the independent parser reads the written bytes as %s, the parameters say %s (differ in %s); bytes=%s", v.Fields, op.want, d, hexs(delta)), i)
				f.rerun = rerun
				c.found(f)
				return
			}
		}
		if v.Accept {
			rr.Accepted(v.Fields)
		}
	}
	if written == 0 {
		return
	}
	c.rep.Note("distinct_nontrivial", "W|"+w.feature)
	in := append([]byte{}, buf.Bytes()...)
	limits := []uint32{maxLen, 1<<24 - 1}
	if maxLen > 0 {
		limits = append(limits, maxLen-1)
	}
	if maxLen < 16384 {
		limits = append(limits, 16384)
	}
	modes := allModes
	if maxLen > 1<<20 {
		limits = []uint32{maxLen, maxLen - 1, 1<<32 - 1}
		modes = allModes[:1]
	}
	c.reader("W:"+strings.SplitN(w.feature, "|", 2)[0], in, limits, modes, w.feature)
}

func b2i(b bool) uint8 {
	if b {
		return 1
	}
	return 0
}

func partW(c *ctx, thorough bool) {
	allSids := []uint32{0, 1, 2, mask31, 1 << 31, 1<<31 + 1, 1<<32 - 1}
	lens := []int{0, 1, 2, 16383, 16384}
	if thorough {
		lens = append(lens, 16385, 65535)
	}
	bools := []bool{false, true}
	// every call that may be refused is also made with a plain, legal DATA frame written on the same Framer
	// straight after it: a refused call leaves nothing behind that could end up in the next frame
	after := wop{
		desc:      "WriteData(1,false,\"hello\") after the call before",
		do:        func(fr *http2.Framer) error { return fr.WriteData(1, false, []byte("hello")) },
		want:      &ref.Fields{Type: 0, Stream: 1, Length: 5, Data: []byte("hello"), PadLen: -1},
		mustWrite: true,
	}
	run := func(w wcase) {
		if c.mine() {
			c.runW(w)
			if len(w.ops) == 1 && !w.ops[0].mustWrite {
				c.rep.Add("cases_W_followed_by_a_legal_write", 1)
				c.runW(wcase{feature: w.feature + "|then-DATA", illegal: w.illegal, ops: []wop{w.ops[0], after}})
			}
		}
	}
	// --- WriteData / WriteDataPadded
	type padT struct {
		name string
		b    []byte
		ok   bool
	}
	pads := []padT{{"nil", nil, true}, {"empty", []byte{}, true}, {"z1", zeros[:1], true}, {"z255", zeros[:255], true}, {"z256", zeros[:256], false}, {"nz1", []byte{7}, false}, {"nz255", append(append([]byte{}, zeros[:254]...), 1), false}}
	for _, ill := range bools {
		for _, sid := range allSids {
			for _, es := range bools {
				for _, n := range lens {
					sid, es, n := sid, es, n
					data := pat(n)
					run(wcase{feature: fmt.Sprintf("WriteData|sid=%x|es=%v|n=%d|ill=%v", sid, es, n, ill), illegal: ill, ops: []wop{{
						desc:      fmt.Sprintf("WriteData(%d,%v,pat[%d])", sid, es, n),
						do:        func(fr *http2.Framer) error { return fr.WriteData(sid, es, data) },
						want:      legalOnly(validSID(sid), &ref.Fields{Type: 0, Flags: b2i(es), Stream: sid, Length: uint32(n), Data: data, PadLen: -1}),
						mustWrite: validSID(sid),
					}}})
					for _, pd := range pads {
						pd := pd
						if pd.b == nil {
							continue
						}
						if sid != 1 && sid != mask31 && !(pd.name == "z1" && n <= 1) {
							continue
						}
						legal := validSID(sid) && pd.ok
						pl := len(pd.b)
						w := &ref.Fields{Type: 0, Flags: b2i(es) | 8, Stream: sid, Length: uint32(1 + n + pl), Data: data, PadLen: pl, Pad: pd.b}
						run(wcase{feature: fmt.Sprintf("WriteDataPadded|sid=%x|es=%v|n=%d|pad=%s|ill=%v", sid, es, n, pd.name, ill), illegal: ill, ops: []wop{{
							desc:      fmt.Sprintf("WriteDataPadded(%d,%v,pat[%d],pad %s)", sid, es, n, pd.name),
							do:        func(fr *http2.Framer) error { return fr.WriteDataPadded(sid, es, data, pd.b) },
							want:      legalOnly(legal, w),
							mustWrite: legal,
						}}})
					}
				}
			}
		}
	}
	// nil pad through WriteDataPadded == WriteData
	for _, n := range []int{0, 1, 16384} {
		n := n
		run(wcase{feature: fmt.Sprintf("WriteDataPadded|nilpad|n=%d", n), ops: []wop{{
			desc:      fmt.Sprintf("WriteDataPadded(1,true,pat[%d],nil)", n),
			do:        func(fr *http2.Framer) error { return fr.WriteDataPadded(1, true, pat(n), nil) },
			want:      &ref.Fields{Type: 0, Flags: 1, Stream: 1, Length: uint32(n), Data: pat(n), PadLen: -1},
			mustWrite: true,
		}}})
	}
	// the 24-bit length boundary
	for _, n := range []int{1<<24 - 2, 1<<24 - 1, 1 << 24} {
		n := n
		run(wcase{feature: fmt.Sprintf("WriteData|max|n=%d", n), ops: []wop{{
			desc:      fmt.Sprintf("WriteData(1,false,pat[%d])", n),
			do:        func(fr *http2.Framer) error { return fr.WriteData(1, false, pat(n)) },
			want:      legalOnly(n < 1<<24, &ref.Fields{Type: 0, Stream: 1, Length: uint32(n), Data: pat(n), PadLen: -1}),
			mustWrite: n < 1<<24,
		}}})
	}
	for _, x := range []struct{ n, pad int }{{1<<24 - 2, 0}, {1<<24 - 1, 0}, {1<<24 - 257, 255}, {1<<24 - 256, 255}} {
		x := x
		total := 1 + x.n + x.pad
		run(wcase{feature: fmt.Sprintf("WriteDataPadded|max|n=%d|pad=%d", x.n, x.pad), ops: []wop{{
			desc:      fmt.Sprintf("WriteDataPadded(3,true,pat[%d],zeros[%d])", x.n, x.pad),
			do:        func(fr *http2.Framer) error { return fr.WriteDataPadded(3, true, pat(x.n), zeros[:x.pad:x.pad]) },
			want:      legalOnly(total < 1<<24, &ref.Fields{Type: 0, Flags: 9, Stream: 3, Length: uint32(total), Data: pat(x.n), PadLen: x.pad, Pad: zeros[:x.pad:x.pad]}),
			mustWrite: total < 1<<24,
		}}})
	}
	for _, n := range []int{1<<24 - 1, 1 << 24} {
		n := n
		run(wcase{feature: fmt.Sprintf("WriteContinuation|max|n=%d", n), ops: []wop{
			{desc: "WriteHeaders{1,-EH}", do: func(fr *http2.Framer) error { return fr.WriteHeaders(http2.HeadersFrameParam{StreamID: 1}) },
				want: &ref.Fields{Type: 1, Stream: 1, PadLen: -1, Data: []byte{}}, mustWrite: true},
			{desc: fmt.Sprintf("WriteContinuation(1,true,pat[%d])", n), do: func(fr *http2.Framer) error { return fr.WriteContinuation(1, true, pat(n)) },
				want: legalOnly(n < 1<<24, &ref.Fields{Type: 9, Flags: 4, Stream: 1, Length: uint32(n), Data: pat(n), PadLen: -1}), mustWrite: n < 1<<24},
		}})
	}

	// --- WriteSettings
	ids := []uint16{1, 2, 4, 5, 0xabcd}
	vals := []uint32{0, 1, 1<<31 - 1, 1<<32 - 1}
	var pairs []h2wire.Setting
	for _, id := range ids {
		for _, v := range vals {
			pairs = append(pairs, h2wire.Setting{ID: id, Val: v})
		}
	}
	maxList := 2
	if thorough {
		maxList = 3
	}
	var lists [][]h2wire.Setting
	var gen func(cur []h2wire.Setting)
	gen = func(cur []h2wire.Setting) {
		lists = append(lists, append([]h2wire.Setting{}, cur...))
		if len(cur) == maxList {
			return
		}
		for _, p := range pairs {
			gen(append(cur, p))
		}
	}
	gen(nil)
	for _, l := range lists {
		l := l
		var hl []http2.Setting
		for _, s := range l {
			hl = append(hl, http2.Setting{ID: http2.SettingID(s.ID), Val: s.Val})
		}
		// feature: ids and value classes only up to two entries, to keep the distinct set small
		feat := fmt.Sprintf("WriteSettings|n=%d", len(l))
		if len(l) <= 2 {
			feat += fmt.Sprintf("|%v", l)
		}
		w := &ref.Fields{Type: 4, Length: uint32(6 * len(l)), PadLen: -1, Settings: l}
		run(wcase{feature: feat, ops: []wop{{desc: fmt.Sprintf("WriteSettings(%v)", l), do: func(fr *http2.Framer) error { return fr.WriteSettings(hl...) },
			want: w, mustWrite: true}}})
	}
	run(wcase{feature: "WriteSettingsAck", ops: []wop{{desc: "WriteSettingsAck()", do: func(fr *http2.Framer) error { return fr.WriteSettingsAck() },
		want: &ref.Fields{Type: 4, Flags: 1, PadLen: -1}, mustWrite: true}}})
	// a long list
	{
		var hl []http2.Setting
		var l []h2wire.Setting
		for i := 0; i < 2731; i++ { // 16386 bytes: above the default frame size
			hl = append(hl, http2.Setting{ID: http2.SettingID(i), Val: uint32(i) * 65537})
			l = append(l, h2wire.Setting{ID: uint16(i), Val: uint32(i) * 65537})
		}
		run(wcase{feature: "WriteSettings|n=2731", ops: []wop{{desc: "WriteSettings(2731 settings)", do: func(fr *http2.Framer) error { return fr.WriteSettings(hl...) },
			want: &ref.Fields{Type: 4, Length: 16386, PadLen: -1, Settings: l}, mustWrite: true}}})
	}

	// --- WritePing
	pings := [][8]byte{{}, {0xff, 0xff, 0xff, 0xff, 0xff, 0xff, 0xff, 0xff}, {1, 2, 3, 4, 5, 6, 7, 8}, {0x80, 0, 0, 0, 0, 0, 0, 1}}
	for _, ack := range bools {
		for _, d := range pings {
			ack, d := ack, d
			run(wcase{feature: fmt.Sprintf("WritePing|%v|%x", ack, d), ops: []wop{{desc: fmt.Sprintf("WritePing(%v,%x)", ack, d), do: func(fr *http2.Framer) error { return fr.WritePing(ack, d) },
				want: &ref.Fields{Type: 6, Flags: b2i(ack), Length: 8, Data: d[:], PadLen: -1}, mustWrite: true}}})
		}
	}
	// --- WriteGoAway
	codes := []uint32{0, 13, 1<<32 - 1}
	for _, last := range []uint32{0, 1, mask31, 1 << 31, 1<<32 - 1} {
		for _, code := range codes {
			for _, dl := range []int{0, 1, 64, 16376} {
				last, code, dl := last, code, dl
				// the API masks the reserved bit of the last-stream-id ("maxStreamID" is a 31-bit id)
				run(wcase{feature: fmt.Sprintf("WriteGoAway|%x|%x|%d", last, code, dl), ops: []wop{{desc: fmt.Sprintf("WriteGoAway(%d,%#x,pat[%d])", last, code, dl),
					do:   func(fr *http2.Framer) error { return fr.WriteGoAway(last, http2.ErrCode(code), pat(dl)) },
					want: &ref.Fields{Type: 7, Length: uint32(8 + dl), Last: last & mask31, Code: code, Data: pat(dl), PadLen: -1}, mustWrite: true}}})
			}
		}
	}
	// --- WriteWindowUpdate
	for _, ill := range bools {
		for _, sid := range allSids {
			for _, inc := range []uint32{0, 1, 2, mask31, 1 << 31, 1<<31 + 1, 1<<32 - 1} {
				sid, inc := sid, inc
				legal := inc >= 1 && inc <= mask31 && sid&(1<<31) == 0
				run(wcase{feature: fmt.Sprintf("WriteWindowUpdate|%x|%x|ill=%v", sid, inc, ill), illegal: ill, ops: []wop{{desc: fmt.Sprintf("WriteWindowUpdate(%d,%d)", sid, inc),
					do:   func(fr *http2.Framer) error { return fr.WriteWindowUpdate(sid, inc) },
					want: legalOnly(legal, &ref.Fields{Type: 8, Stream: sid, Length: 4, Incr: inc, PadLen: -1}), mustWrite: legal}}})
			}
		}
	}
	// --- WriteRSTStream
	for _, ill := range bools {
		for _, sid := range allSids {
			for _, code := range codes {
				sid, code := sid, code
				run(wcase{feature: fmt.Sprintf("WriteRSTStream|%x|%x|ill=%v", sid, code, ill), illegal: ill, ops: []wop{{desc: fmt.Sprintf("WriteRSTStream(%d,%#x)", sid, code),
					do:   func(fr *http2.Framer) error { return fr.WriteRSTStream(sid, http2.ErrCode(code)) },
					want: legalOnly(validSID(sid), &ref.Fields{Type: 3, Stream: sid, Length: 4, Code: code, PadLen: -1}), mustWrite: validSID(sid)}}})
			}
		}
	}
	// --- WritePriority
	type prioT struct {
		dep  uint32
		excl bool
		w    uint8
	}
	var prios []prioT
	for _, dep := range []uint32{0, 1, mask31, 1 << 31} {
		for _, ex := range bools {
			for _, w := range []uint8{0, 1, 255} {
				prios = append(prios, prioT{dep, ex, w})
			}
		}
	}
	for _, ill := range bools {
		for _, sid := range allSids {
			for _, p := range prios {
				sid, p := sid, p
				legal := validSID(sid) && p.dep&(1<<31) == 0
				run(wcase{feature: fmt.Sprintf("WritePriority|%x|%x/%v/%d|ill=%v", sid, p.dep, p.excl, p.w, ill), illegal: ill, ops: []wop{{desc: fmt.Sprintf("WritePriority(%d,{%d,%v,%d})", sid, p.dep, p.excl, p.w),
					do: func(fr *http2.Framer) error {
						return fr.WritePriority(sid, http2.PriorityParam{StreamDep: p.dep, Exclusive: p.excl, Weight: p.w})
					},
					want: legalOnly(legal, &ref.Fields{Type: 2, Stream: sid, Length: 5, HasPrio: true, Dep: p.dep, Excl: p.excl, Weight: p.w, PadLen: -1}), mustWrite: legal}}})
			}
		}
	}
	// --- WriteHeaders
	for _, ill := range bools {
		for _, sid := range allSids {
			for _, n := range lens {
				for fl := 0; fl < 4; fl++ {
					for _, pl := range []uint8{0, 1, 255} {
						for pi := -1; pi < len(prios); pi++ {
							if !validSID(sid) && !(n <= 1 && pl <= 1 && pi <= 0) {
								continue
							}
							sid, n, pl := sid, n, pl
							es, eh := fl&1 != 0, fl&2 != 0
							var pp http2.PriorityParam
							if pi >= 0 {
								pp = http2.PriorityParam{StreamDep: prios[pi].dep, Exclusive: prios[pi].excl, Weight: prios[pi].w}
							}
							hasP := !pp.IsZero()
							legal := validSID(sid) && pp.StreamDep&(1<<31) == 0
							frag := pat(n)
							flags := b2i(es) | b2i(eh)<<2
							length := n
							w := &ref.Fields{Type: 1, Stream: sid, Data: frag, PadLen: -1}
							if pl != 0 {
								flags |= 8
								length += 1 + int(pl)
								w.PadLen, w.Pad = int(pl), zeros[:pl:pl]
							}
							if hasP {
								flags |= 0x20
								length += 5
								w.HasPrio, w.Dep, w.Excl, w.Weight = true, pp.StreamDep, pp.Exclusive, pp.Weight
							}
							w.Flags, w.Length = flags, uint32(length)
							param := http2.HeadersFrameParam{StreamID: sid, BlockFragment: frag, EndStream: es, EndHeaders: eh, PadLength: pl, Priority: pp}
							run(wcase{feature: fmt.Sprintf("WriteHeaders|%x|n=%d|fl=%d|pad=%d|prio=%v|ill=%v", sid, n, fl, pl, pp, ill), illegal: ill, ops: []wop{{
								desc: fmt.Sprintf("WriteHeaders{StreamID:%d,BlockFragment:pat[%d],EndStream:%v,EndHeaders:%v,PadLength:%d,Priority:%+v}", sid, n, es, eh, pl, pp),
								do:   func(fr *http2.Framer) error { return fr.WriteHeaders(param) },
								want: legalOnly(legal, w), mustWrite: legal}}})
						}
					}
				}
			}
		}
	}
	// --- WriteContinuation after WriteHeaders (same and different stream), and alone
	for _, ill := range bools {
		for _, hs := range []uint32{0, 1, mask31} { // 0 = no HEADERS first
			for _, sid := range allSids {
				for _, eh := range bools {
					for _, n := range lens {
						hs, sid, eh, n := hs, sid, eh, n
						if !validSID(sid) && n > 1 {
							continue
						}
						var ops []wop
						if hs != 0 {
							ops = append(ops, wop{desc: fmt.Sprintf("WriteHeaders{StreamID:%d,BlockFragment:pat[3]}", hs),
								do:   func(fr *http2.Framer) error { return fr.WriteHeaders(http2.HeadersFrameParam{StreamID: hs, BlockFragment: pat(3)}) },
								want: &ref.Fields{Type: 1, Stream: hs, Length: 3, Data: pat(3), PadLen: -1}, mustWrite: true})
						}
						ops = append(ops, wop{desc: fmt.Sprintf("WriteContinuation(%d,%v,pat[%d])", sid, eh, n),
							do:   func(fr *http2.Framer) error { return fr.WriteContinuation(sid, eh, pat(n)) },
							want: legalOnly(validSID(sid), &ref.Fields{Type: 9, Flags: b2i(eh) << 2, Stream: sid, Length: uint32(n), Data: pat(n), PadLen: -1}), mustWrite: validSID(sid)})
						if hs != 0 && eh {
							// the block is closed: a following frame must be readable
							ops = append(ops, wop{desc: "WritePing(false,{})", do: func(fr *http2.Framer) error { return fr.WritePing(false, [8]byte{}) },
								want: &ref.Fields{Type: 6, Length: 8, Data: make([]byte, 8), PadLen: -1}, mustWrite: true})
						}
						run(wcase{feature: fmt.Sprintf("WriteContinuation|after=%x|%x|%v|n=%d|ill=%v", hs, sid, eh, n, ill), illegal: ill, ops: ops})
					}
				}
			}
		}
	}
	// --- WritePushPromise
	for _, ill := range bools {
		for _, sid := range allSids {
			for _, prom := range []uint32{0, 2, mask31, 1<<31 + 2} {
				for _, eh := range bools {
					for _, pl := range []uint8{0, 1, 255} {
						for _, n := range lens {
							if !(validSID(sid) && validSID(prom)) && n > 1 {
								continue
							}
							sid, prom, eh, pl, n := sid, prom, eh, pl, n
							legal := validSID(sid) && validSID(prom)
							w := &ref.Fields{Type: 5, Flags: b2i(eh) << 2, Stream: sid, Length: uint32(4 + n), Promise: prom, Data: pat(n), PadLen: -1}
							if pl != 0 {
								w.Flags |= 8
								w.Length += 1 + uint32(pl)
								w.PadLen, w.Pad = int(pl), zeros[:pl:pl]
							}
							param := http2.PushPromiseParam{StreamID: sid, PromiseID: prom, BlockFragment: pat(n), EndHeaders: eh, PadLength: pl}
							run(wcase{feature: fmt.Sprintf("WritePushPromise|%x|%x|%v|pad=%d|n=%d|ill=%v", sid, prom, eh, pl, n, ill), illegal: ill, ops: []wop{{
								desc: fmt.Sprintf("WritePushPromise{StreamID:%d,PromiseID:%d,BlockFragment:pat[%d],EndHeaders:%v,PadLength:%d}", sid, prom, n, eh, pl),
								do:   func(fr *http2.Framer) error { return fr.WritePushPromise(param) },
								want: legalOnly(legal, w), mustWrite: legal}}})
						}
					}
				}
			}
		}
	}
	// --- WriteRawFrame
	for _, t := range []uint8{0, 1, 2, 3, 4, 5, 6, 7, 8, 9, 10, 0xfa, 0xff} {
		for _, fl := range []uint8{0, 0x5, 0x2d, 0xff} {
			for _, sid := range []uint32{0, 1, mask31, 1<<31 + 1} {
				for _, n := range []int{0, 1, 4, 5, 6, 8, 9, 16384} {
					t, fl, sid, n := t, fl, sid, n
					run(wcase{feature: fmt.Sprintf("WriteRawFrame|%x|%x|%x|%d", t, fl, sid, n), ops: []wop{{desc: fmt.Sprintf("WriteRawFrame(%#x,%#x,%d,pat[%d])", t, fl, sid, n),
						do:      func(fr *http2.Framer) error { return fr.WriteRawFrame(http2.FrameType(t), http2.Flags(fl), sid, pat(n)) },
						wantRaw: &h2wire.Frame{Type: t, Flags: fl, Stream: sid, Payload: pat(n)}, mustWrite: true}}})
				}
			}
		}
	}
}

func legalOnly(legal bool, f *ref.Fields) *ref.Fields {
	if !legal {
		return nil
	}
	f.Stream &= mask31
	if f.Data == nil {
		f.Data = []byte{}
	}
	return f
}

// ---------------------------------------------------------------------------
// part C: header blocks cut into fragments

func partC(c *ctx, thorough bool) {
	type blk struct {
		name   string
		fields []h2wire.HF
	}
	blocks := []blk{
		{"get", []h2wire.HF{{":method", "GET"}, {":scheme", "https"}, {":path", "/a"}, {"x-k", "v1"}}},
		{"status", []h2wire.HF{{":status", "200"}, {"a", "b"}, {"a", "b"}, {"cc", ""}}},
		{"one", []h2wire.HF{{"x-long-name", "zzzzzz"}}},
	}
	for _, b := range blocks {
		enc := h2wire.NewEncoder()
		block := enc.Block(b.fields...)
		if len(block) > 20 || len(block) < 6 {
			c.rep.HarnessError("part C block %s has %d bytes", b.name, len(block))
			continue
		}
		n := len(block)
		// cuts: 0 <= c1 <= c2 <= c3 <= n with nf fragments
		var cuts [][]int
		cuts = append(cuts, []int{})
		for a := 0; a <= n; a++ {
			cuts = append(cuts, []int{a})
			for b2 := a; b2 <= n; b2++ {
				cuts = append(cuts, []int{a, b2})
				for d := b2; d <= n; d++ {
					cuts = append(cuts, []int{a, b2, d})
				}
			}
		}
		for _, cut := range cuts {
			for _, sid := range []uint32{1, mask31} {
				for _, pl := range []uint8{0, 1, 255} {
					for _, withPrio := range []bool{false, true} {
						for _, es := range []bool{false, true} {
							if !c.mine() {
								continue
							}
							cut, sid, pl, withPrio, es := cut, sid, pl, withPrio, es
							var ops []wop
							bounds := append(append([]int{0}, cut...), n)
							for i := 0; i+1 < len(bounds); i++ {
								frag := block[bounds[i]:bounds[i+1]:bounds[i+1]]
								last := i+2 == len(bounds)
								if i == 0 {
									p := http2.HeadersFrameParam{StreamID: sid, BlockFragment: frag, EndStream: es, EndHeaders: last, PadLength: pl}
									w := &ref.Fields{Type: 1, Flags: b2i(es) | b2i(last)<<2, Stream: sid, Length: uint32(len(frag)), Data: append([]byte{}, frag...), PadLen: -1}
									if pl != 0 {
										w.Flags |= 8
										w.Length += 1 + uint32(pl)
										w.PadLen, w.Pad = int(pl), zeros[:pl:pl]
									}
									if withPrio {
										p.Priority = http2.PriorityParam{StreamDep: 3, Exclusive: true, Weight: 41}
										w.Flags |= 0x20
										w.Length += 5
										w.HasPrio, w.Dep, w.Excl, w.Weight = true, 3, true, 41
									}
									ops = append(ops, wop{desc: fmt.Sprintf("WriteHeaders{%d,frag[%d:%d],ES=%v,EH=%v,pad=%d,prio=%v}", sid, bounds[i], bounds[i+1], es, last, pl, withPrio),
										do: func(fr *http2.Framer) error { return fr.WriteHeaders(p) }, want: w, mustWrite: true})
								} else {
									ops = append(ops, wop{desc: fmt.Sprintf("WriteContinuation(%d,%v,frag[%d:%d])", sid, last, bounds[i], bounds[i+1]),
										do:   func(fr *http2.Framer) error { return fr.WriteContinuation(sid, last, frag) },
										want: &ref.Fields{Type: 9, Flags: b2i(last) << 2, Stream: sid, Length: uint32(len(frag)), Data: append([]byte{}, frag...), PadLen: -1}, mustWrite: true})
								}
							}
							// a frame after the unit: the block must be closed
							ops = append(ops, wop{desc: "WriteSettingsAck()", do: func(fr *http2.Framer) error { return fr.WriteSettingsAck() }, want: &ref.Fields{Type: 4, Flags: 1, PadLen: -1, Data: []byte{}}, mustWrite: true})
							c.rep.Add("header_block_cuts", 1)
							c.runWMeta(wcase{feature: fmt.Sprintf("C|%s|frags=%d|sid=%x|pad=%d|prio=%v|es=%v", b.name, len(bounds)-1, sid, pl, withPrio, es), ops: ops}, b.fields)
						}
					}
				}
			}
		}
	}
}

// runWMeta is runW plus the explicit requirement that meta mode yields exactly the encoded field list.
func (c *ctx) runWMeta(w wcase, fields []h2wire.HF) {
	c.runW(w)
	// explicit end-to-end statement of part C (already implied by the reference, spelled out here):
	var buf bytes.Buffer
	fr := http2.NewFramer(&buf, &buf)
	for _, op := range w.ops {
		if err := op.do(fr); err != nil {
			return // reported by runW
		}
	}
	fr.ReadMetaHeaders = hpack.NewDecoder(4096, nil)
	res := readOne(fr)
	okList := res.kind == "accept" && res.fields.Meta && len(res.fields.HeaderList) == len(fields)
	if okList {
		for i := range fields {
			if res.fields.HeaderList[i] != fields[i] {
				okList = false
			}
		}
	}
	if !okList {
		var descs []string
		for _, op := range w.ops {
			descs = append(descs, op.desc)
		}
		c.found(&finding{sig: map[string]any{"kind": "header-block-not-reassembled", "part": "C"},
			what:   fmt.Sprintf("[C] written %v; ReadFrame under ReadMetaHeaders returned %s, want fields %v", descs, res, fields),
			replay: map[string]any{"part": "C", "calls": descs, "fields": fields}})
	}
}

// ---------------------------------------------------------------------------
// part A: header grid

var definedFlags = map[uint8]uint8{0: 0x09, 1: 0x2d, 2: 0, 3: 0, 4: 0x01, 5: 0x0c, 6: 0x01, 7: 0, 8: 0, 9: 0x04, 10: 0, 0xfa: 0}
var gridTypes = []uint8{0, 1, 2, 3, 4, 5, 6, 7, 8, 9, 10, 0xfa}

func subsets(mask uint8) []uint8 {
	var out []uint8
	for s := 0; s < 256; s++ {
		if uint8(s)&^mask == 0 {
			out = append(out, uint8(s))
		}
	}
	return out
}

func flagGrid(t uint8, all bool) []uint8 {
	if all {
		return subsets(0xff)
	}
	var out []uint8
	for _, s := range subsets(definedFlags[t]) {
		out = append(out, s, s|0x40)
	}
	return out
}

// payload patterns of length n for the header grid
func patternsA(n int) [][]byte {
	var out [][]byte
	seen := map[string]bool{}
	add := func(b []byte) {
		if !seen[string(b)] {
			seen[string(b)] = true
			out = append(out, b)
		}
	}
	for _, f := range []byte{0x00, 0x01, 0x7f, 0x80, 0xff} {
		add(bytes.Repeat([]byte{f}, n))
	}
	if n > 0 {
		for _, b0 := range []int{0, 1, n - 7, n - 6, n - 5, n - 2, n - 1, n, 255} {
			if b0 < 0 || b0 > 255 {
				continue
			}
			for _, f := range []byte{0x00, 0xff} {
				b := bytes.Repeat([]byte{f}, n)
				b[0] = byte(b0)
				add(b)
			}
		}
	}
	return out
}

func streamClass(s uint32) string {
	switch {
	case s&mask31 == 0:
		return fmt.Sprintf("0r%d", s>>31)
	default:
		return fmt.Sprintf("nr%d", s>>31)
	}
}

func partA(c *ctx, thorough bool) {
	streams := []uint32{0, 1, 2, mask31, 1 << 31, 1<<31 + 1}
	limits := []uint32{16384, 0, 4, 5, 8, 9}
	for _, t := range gridTypes {
		for _, fl := range flagGrid(t, thorough) {
			for _, sid := range streams {
				for n := 0; n <= 10; n++ {
					for pi, p := range patternsA(n) {
						if !c.mine() {
							continue
						}
						in := h2wire.Raw(nil, -1, t, fl, sid, p)
						_ = pi
						c.reader("A", in, limits, modesFor(t), fmt.Sprintf("%x|%x|%s|n=%d", t, fl&(definedFlags[t]|0x40), streamClass(sid), n))
					}
				}
			}
		}
	}
	// lengths at the limit
	for _, lim := range []uint32{16384, 16385} {
		for _, t := range gridTypes {
			for _, fl := range flagGrid(t, false) {
				for _, sid := range streams[:5] {
					for _, n := range []uint32{lim, lim + 1} {
						for pi, f := range []byte{0x00, 0xff, 0x05} {
							if !c.mine() {
								continue
							}
							p := bytes.Repeat([]byte{f}, int(n))
							in := h2wire.Raw(nil, -1, t, fl, sid, p)
							c.reader("A", in, []uint32{lim}, allModes[:1], fmt.Sprintf("%x|%x|%s|n=lim+%d|p=%d", t, fl&(definedFlags[t]|0x40), streamClass(sid), n-lim, pi))
							if pi == 0 && fl&0x40 == 0 {
								// only the 9 header bytes of an oversized frame are available
								c.reader("A", in[:9], []uint32{lim}, allModes[:1], fmt.Sprintf("%x|hdr-only|n=lim+%d", t, n-lim))
							}
						}
					}
				}
			}
		}
	}
}

// modesFor: HEADERS frames are also read under ReadMetaHeaders, DATA frames also with SetReuseFrames.
func modesFor(t uint8) []mode {
	switch t {
	case h2wire.THeaders:
		return []mode{{false, false}, {true, false}}
	case h2wire.TData:
		return []mode{{false, false}, {false, true}}
	}
	return allModes[:1]
}

// ---------------------------------------------------------------------------
// part B: all short payloads over an alphabet

func partB(c *ctx, thorough bool) {
	alpha := []byte{0x00, 0x01, 0x7f, 0x80, 0xff}
	maxN := 6
	if thorough {
		maxN = 8
	}
	var payloads [][]byte
	var gen func(cur []byte)
	gen = func(cur []byte) {
		payloads = append(payloads, append([]byte{}, cur...))
		if len(cur) == maxN {
			return
		}
		for _, a := range alpha {
			gen(append(cur, a))
		}
	}
	gen(nil)
	c.rep.Info["part_B_payloads"] = len(payloads)
	for _, t := range gridTypes {
		for _, fl := range subsets(definedFlags[t]) {
			for _, sid := range []uint32{0, 1} {
				for _, p := range payloads {
					if !c.mine() {
						continue
					}
					in := h2wire.Raw(nil, -1, t, fl, sid, p)
					// feature: type, flags, stream, length, first byte, and whether the payload is all zero (keeps the distinct set bounded)
					fb := -1
					if len(p) > 0 {
						fb = int(p[0])
					}
					c.reader("B", in, []uint32{16384}, modesFor(t), fmt.Sprintf("%x|%x|%d|n=%d|b0=%d", t, fl, sid, len(p), fb))
				}
			}
		}
	}
}

// ---------------------------------------------------------------------------
// part S: sequences

type letter struct {
	name string
	b    []byte
}

func lettersS() []letter {
	lit := []byte{0x00, 0x01, 'a', 0x01, 'b'} // literal header field a: b, never indexed
	over := h2wire.Raw(nil, -1, 9, 4, 1, make([]byte, 101))
	ls := []letter{
		{"HEADERS(1,-EH)", h2wire.Headers(1, lit, false, false, nil, -1)},
		{"HEADERS(1,+EH)", h2wire.Headers(1, lit, true, true, nil, -1)},
		{"HEADERS(3,-EH,prio,pad)", h2wire.Headers(3, lit, false, false, &h2wire.Prio{Dep: 1, Excl: true, Weight: 9}, 2)},
		{"HEADERS(3,+EH)", h2wire.Headers(3, nil, false, true, nil, -1)},
		{"CONT(1,-EH)", h2wire.Continuation(1, lit, false)},
		{"CONT(1,+EH)", h2wire.Continuation(1, lit, true)},
		{"CONT(1,+EH,empty)", h2wire.Continuation(1, nil, true)},
		{"CONT(3,-EH)", h2wire.Continuation(3, nil, false)},
		{"CONT(3,+EH)", h2wire.Continuation(3, lit, true)},
		{"CONT(0,+EH)", h2wire.Continuation(0, lit, true)},
		{"DATA(1)", h2wire.Data(1, []byte("xy"), false, 1)},
		{"SETTINGS", h2wire.Settings(h2wire.Setting{ID: 3, Val: 100})},
		{"PRIORITY(1)", h2wire.Priority(1, h2wire.Prio{Dep: 3, Weight: 5})},
		{"PING", h2wire.Ping(false, [8]byte{1})},
		{"UNKNOWN(1)", h2wire.Append(nil, 0xfa, 0xff, 1, []byte{1, 2, 3})},
		{"WU(1,0)", h2wire.WindowUpdate(1, 0)},
		{"HEADERS(1,-EH,overpadded)", h2wire.Append(nil, 1, 0x8, 1, []byte{9, 1, 2})},
		{"PP(1,-EH)", h2wire.Append(nil, 5, 0, 1, append([]byte{0, 0, 0, 2}, lit...))},
		{"PP(1,+EH)", h2wire.Append(nil, 5, 4, 1, append([]byte{0, 0, 0, 2}, lit...))},
		{"CONT(1,+EH,101 bytes > limit 100)", over},
		{"TRUNCATED", h2wire.Headers(1, lit, false, true, nil, -1)[:11]},
		// a complete block whose list is malformed (upper-case name): with ReadMetaHeaders a stream error, and the
		// blocks after it must still be decoded and handed out
		{"HEADERS(5,+EH,upper-case name)", h2wire.Headers(5, []byte{0x00, 0x01, 'A', 0x01, 'b'}, false, true, nil, -1)},
		// a legal block that opens with a dynamic table size update (RFC 7541 section 4.2: only legal at the START of
		// a block - a reader that did not finish the block before it in its HPACK decoder refuses this one)
		{"HEADERS(7,+EH,size update first)", h2wire.Headers(7, append([]byte{0x20}, lit...), false, true, nil, -1)},
	}
	return ls
}

func partS(c *ctx, thorough bool) {
	ls := lettersS()
	maxLen := 3
	if thorough {
		maxLen = 5
	}
	c.rep.Info["part_S_letters"] = len(ls)
	modes := []mode{{false, false}, {true, false}, {false, true}}
	var rec func(seq []int)
	rec = func(seq []int) {
		if len(seq) >= 1 {
			if c.mine() {
				var in []byte
				var names []string
				for _, i := range seq {
					in = append(in, ls[i].b...)
					names = append(names, ls[i].name)
				}
				c.rep.Add("sequences", 1)
				c.reader("S", in, []uint32{100}, modes, fmt.Sprintf("len=%d|%s", len(names), strings.Join(names[:min(2, len(names))], ">")))
			}
		}
		if len(seq) == maxLen {
			return
		}
		for i := range ls {
			rec(append(seq, i))
		}
	}
	rec(nil)
	// measured observation (not a verdict): what the Framer does after a PUSH_PROMISE without END_HEADERS
	if c.shard == 0 {
		obs := map[string]string{}
		for _, pair := range [][2]int{{17, 5}, {17, 10}} {
			in := append(append([]byte{}, ls[pair[0]].b...), ls[pair[1]].b...)
			fr := http2.NewFramer(io.Discard, bytes.NewReader(in))
			r1 := readOne(fr)
			r2 := readOne(fr)
			obs[ls[pair[0]].name+" > "+ls[pair[1]].name] = r1.key() + " then " + r2.String()
		}
		c.rep.Info["observation_push_promise_block"] = map[string]any{"observed": obs,
			"note": "RFC 7540 §6.6 requires CONTINUATION after a PUSH_PROMISE without END_HEADERS; the Framer does not track that block (rejects the legal CONTINUATION, accepts another frame). The property statement names HEADERS/CONTINUATION interleavings only and the server rejects any client PUSH_PROMISE with PROTOCOL_ERROR, so this is recorded, not reported"}
	}
}

// ---------------------------------------------------------------------------
// part T: truncations

func partT(c *ctx) {
	lit := []byte{0x00, 0x01, 'a', 0x01, 'b'}
	whole := [][]byte{
		h2wire.Data(1, []byte("hello"), true, 3),
		h2wire.Headers(1, lit, true, true, &h2wire.Prio{Dep: 3, Weight: 1}, 1),
		h2wire.Priority(1, h2wire.Prio{Dep: 3}),
		h2wire.RST(1, 8),
		h2wire.Settings(h2wire.Setting{ID: 4, Val: 65535}, h2wire.Setting{ID: 1, Val: 0}),
		h2wire.Append(nil, 5, 4, 1, append([]byte{0, 0, 0, 2}, lit...)),
		h2wire.Ping(true, [8]byte{1, 2, 3}),
		h2wire.GoAway(7, 2, []byte("bye")),
		h2wire.WindowUpdate(0, 10),
		h2wire.Append(nil, 0xfa, 1, 9, []byte{1, 2, 3, 4}),
		append(h2wire.Headers(1, lit, false, false, nil, -1), h2wire.Continuation(1, lit, true)...),
	}
	for wi, w := range whole {
		for cut := 0; cut <= len(w); cut++ {
			if !c.mine() {
				continue
			}
			c.reader("T", w[:cut], []uint32{16384}, allModes, fmt.Sprintf("%d|cut=%d", wi, cut))
		}
	}
}

// ---------------------------------------------------------------------------
// part M: the maximum read limit

func partM(c *ctx, thorough bool) {
	const max = 1<<24 - 1
	types := []uint8{0, 1, 4, 9, 0xfa}
	if thorough {
		types = gridTypes
	}
	for _, t := range types {
		for _, sid := range []uint32{0, 1} {
			for _, lim := range []uint32{max, max - 1, 1 << 24, 1<<32 - 1} {
				if !c.mine() {
					continue
				}
				in := make([]byte, 0, 9+max)
				in = h2wire.Raw(in, -1, t, 0, sid, zeros[:0])
				in[0], in[1], in[2] = 0xff, 0xff, 0xff
				in = append(in, bigBuf[:max]...)
				c.reader("M", in, []uint32{lim}, allModes[:1], fmt.Sprintf("%x|%d|lim=%d", t, sid, lim))
			}
		}
	}
}

// ---------------------------------------------------------------------------
// part H: HPACK byte strings as header blocks

func partH(c *ctx, thorough bool) {
	alpha := []byte{0x00, 0x0f, 0x40, 0x82, 0x84, 0x88, 0xbe, 0xff, 0x20, 0x3f, 0xe1, 0x01, 0x61}
	maxN := 3
	if thorough {
		maxN = 5
	}
	var blocks [][]byte
	var gen func(cur []byte)
	gen = func(cur []byte) {
		blocks = append(blocks, append([]byte{}, cur...))
		if len(cur) == maxN {
			return
		}
		for _, a := range alpha {
			gen(append(cur, a))
		}
	}
	gen(nil)
	c.rep.Info["part_H_blocks"] = len(blocks)
	meta := []mode{{true, false}}
	for _, b := range blocks {
		for cut := 0; cut <= len(b); cut++ {
			if cut == len(b) && cut != 0 {
				continue
			}
			if !c.mine() {
				continue
			}
			var in []byte
			if cut == 0 {
				in = h2wire.Headers(1, b, true, true, nil, -1)
			} else {
				in = append(h2wire.Headers(1, b[:cut], true, false, nil, -1), h2wire.Continuation(1, b[cut:], true)...)
			}
			// a second block, opening with a table size update: whatever the first block was (accepted, or refused
			// with a stream error for a malformed list), the decoder must be at the start of a block again
			in = append(in, h2wire.Headers(3, []byte{0x20, 0x82}, true, true, nil, -1)...)
			in = append(in, h2wire.Ping(false, [8]byte{})...)
			c.reader("H", in, []uint32{16384}, meta, fmt.Sprintf("n=%d|cut=%d|b0=%x", len(b), cut, first(b)))
		}
	}
}

func first(b []byte) int {
	if len(b) == 0 {
		return -1
	}
	return int(b[0])
}
