//go:build verif

// C01 — X-JA3-Fingerprint equals the JA3 of the ClientHello the client sent.
//
// Seam A (this file): the function the default injector calls,
// fingerprint.JA3Fingerprint(&metadata.Metadata{ClientHelloRecord: rec}), on
// records synthesized by verif/ref/chello. Exhaustive enumeration of bounded
// alphabets (see seamA) against the from-scratch reference ja3ref; a hello
// counts only if the real crypto/tls server accepts it (accepted()).
//
// A second seam (the real proxy stack in a bubble: plumbing / independence
// clauses) can be added as another function called from TestCheck.
package c01

import (
	"bytes"
	"encoding/hex"
	"encoding/json"
	"fmt"
	"log"
	"os"
	"path/filepath"
	"sort"
	"strings"
	"testing"
	"verif/plumb"

	"github.com/wi1dcard/fingerproxy/pkg/fingerprint"
	"github.com/wi1dcard/fingerproxy/pkg/metadata"
	"verif/ev"
	"verif/mc"
	"verif/ref/chello"
	"verif/ref/chello/pcapscan"
	"verif/ref/chello/seqs"
	"verif/ref/chello/tlsdomain"
	"verif/ref/ja3ref"
)

func TestCheck(t *testing.T) {
	rep := ev.New("C01", "exploration")
	defer rep.Write()
	seamA(rep)
	shard, of := mc.ShardFromEnv()
	plumb.SeamB(t, rep, "C01", "X-JA3-Fingerprint", func(rec []byte) ([]string, bool) {
		p, err := chello.Parse(rec)
		if err != nil {
			return nil, false
		}
		if p.HasSNI && (p.SNIListLen&0xff) < (p.SNIListLen>>8) {
			return nil, false // D10 (known finding, reported by seam A)
		}
		return ja3ref.Admissible(p), true
	}, shard, of)
}

// accepted is the domain rule (DESIGN §3 rule 1): the record is fed to a real
// crypto/tls server over an in-memory conn; in the domain iff the server
// reaches GetConfigForClient. Not cached: every enumerated record is parsed by
// the real stack (≈10 µs each).
func accepted(rec []byte) bool { return tlsdomain.Accepted(rec) }

// callJA3 is the seam.
func callJA3(rec []byte) (v string, err error, pv any) {
	defer func() {
		if x := recover(); x != nil {
			pv = x
		}
	}()
	// the binary's -verbose flag only adds log lines: for a quarter of the records (chosen by their bytes, so that a
	// record is always evaluated the same way) the package logs verbosely, to a logger that does format its arguments
	verbose := mc.Hash64(string(rec))[0]&3 == 0
	fingerprint.VerboseLogs = verbose
	if verbose {
		fingerprint.Logger = verboseLogger
	}
	v, err = fingerprint.JA3Fingerprint(&metadata.Metadata{ClientHelloRecord: rec})
	fingerprint.VerboseLogs = false
	return
}

type countingWriter struct{ n int }

func (w *countingWriter) Write(p []byte) (int, error) { w.n += len(p); return len(p), nil }

var verboseLogger = log.New(&countingWriter{}, "", 0)

type recheck struct {
	rec  []byte
	obs  string
	desc string
}

type runner struct {
	rep       *ev.Report
	shard, of int
	k         int64
	bySig     map[string]int
	kinds     map[string]int
	pend      map[string]*pending
	order     []string
	slice     []recheck
	evals     int64
	phase     string
}

func (r *runner) mine() bool {
	k := r.k
	r.k++
	return int(k%int64(r.of)) == r.shard
}

func shape16(vs []uint16) string {
	n := len(vs)
	mask := 0
	for i, v := range vs {
		if chello.IsGREASE(v) && i < 8 {
			mask |= 1 << i
		}
	}
	if n > 8 {
		n = 8
	}
	return fmt.Sprintf("%d.%x", n, mask)
}

// listClass names where GREASE sits in a list (used in violation signatures).
func listClass(vs []uint16) string {
	if len(vs) == 0 {
		return "empty"
	}
	g := 0
	for _, v := range vs {
		if chello.IsGREASE(v) {
			g++
		}
	}
	switch {
	case g == 0 && len(vs) == 1:
		return "singleton"
	case g == 0:
		return "no-grease"
	case g == len(vs):
		return "all-grease"
	case chello.IsGREASE(vs[len(vs)-1]):
		return "grease-last"
	case chello.IsGREASE(vs[0]):
		return "grease-first"
	}
	return "grease-middle"
}

func obsOf(v string, err error, pv any) string {
	switch {
	case pv != nil:
		return fmt.Sprintf("panic: %v", pv)
	case err != nil:
		return "error: " + err.Error()
	}
	return v
}

// eval runs one case: domain test, seam call, reference comparison.
func (r *runner) eval(rec []byte, desc string) {
	rep := r.rep
	rep.Add("cases", 1)
	rep.Add("cases_"+r.phase, 1)
	if !accepted(rec) {
		rep.Add("out_of_domain", 1)
		return
	}
	p, perr := chello.Parse(rec)
	if perr != nil {
		rep.HarnessError("%s: reference parser rejects a record crypto/tls accepts (%s): %v", r.phase, desc, perr)
		return
	}
	orig := append([]byte(nil), rec...)
	v, err, pv := callJA3(rec)
	obs := obsOf(v, err, pv)
	rep.Add("evaluations", 1)
	r.evals++
	if r.evals%50 == 0 && len(r.slice) < 40000 {
		r.slice = append(r.slice, recheck{orig, obs, desc})
	}
	// coverage bookkeeping
	vclass := int(p.Version)
	if vclass < 0x0300 || vclass > 0x0304 {
		vclass = 0
	}
	sh := fmt.Sprintf("v%d x%v c%s e%s g%s p%d", vclass, p.HasExtBlock, shape16(p.Ciphers), shape16(p.ExtTypes()), shape16(p.Groups), min(len(p.Points), 3))
	nontrivial := !p.HasExtBlock || len(p.Ciphers) <= 1 || len(p.Exts) <= 1 || (p.HasGroups && len(p.Groups) <= 1) || strings.ContainsAny(shape16(p.Ciphers)[2:]+shape16(p.ExtTypes())[2:]+shape16(p.Groups)[2:], "123456789abcdef")
	if p.HasSNI && (p.SNIListLen > 255) {
		sh += fmt.Sprintf(" sni%d", p.SNIListLen>>8)
		nontrivial = true
	}
	if nontrivial {
		rep.Note("distinct_nontrivial", sh)
	}
	rep.Note("distinct_shapes", sh)
	if r.evals <= 3 || (nontrivial && r.evals%1000 == 7) {
		rep.Sample(map[string]any{"phase": r.phase, "case": desc, "record": hex.EncodeToString(orig), "ja3_string": ja3ref.String(p), "impl": obs})
	}

	// ---- oracle ----
	adm := ja3ref.Admissible(p)
	var sig map[string]any
	var what string
	refStr := ja3ref.String(p)
	switch {
	case !bytes.Equal(rec, orig):
		sig = map[string]any{"kind": "ja3-mutates-record"}
		what = "JA3Fingerprint modified the captured ClientHello record"
	case pv != nil:
		sig = map[string]any{"kind": "ja3-panic", "cause": errCause(p)}
		what = fmt.Sprintf("JA3Fingerprint panicked on a ClientHello crypto/tls accepts: %v", pv)
	case err != nil:
		sig = map[string]any{"kind": "ja3-missing", "cause": errCause(p)}
		what = fmt.Sprintf("no JA3 for a ClientHello crypto/tls accepts: JA3Fingerprint returned error %q; required %s = md5(%q)", err.Error(), adm[0], refStr)
	default:
		ok := false
		for _, a := range adm {
			if a == v {
				ok = true
			}
		}
		if !ok {
			field, class, bare := diagnose(p, orig)
			sig = map[string]any{"kind": "ja3-mismatch", "field": field, "shape": class}
			what = fmt.Sprintf("JA3 differs from the JA3 of the hello in field %q (%s): got %s (string %q), required %s = md5(%q)", field, class, v, bare, adm[0], refStr)
		}
	}
	if sig == nil {
		return
	}
	rep.Add("violating_cases", 1)
	rep.Add("violating_cases_"+sig["kind"].(string), 1)
	kb, _ := json.Marshal(sig)
	key := string(kb)
	r.bySig[key]++
	pd := r.pend[key]
	if pd != nil && (pd.capable || pd.tries >= 300) {
		return
	}
	// one witness per signature; prefer one for which a permissive crypto/tls server answers with a ServerHello
	capable := tlsdomain.ServerHello(orig)
	if pd == nil {
		pd = &pending{}
		r.pend[key] = pd
		r.order = append(r.order, key)
	} else {
		pd.tries++
		if !capable {
			return
		}
	}
	*pd = pending{sig: sig, rec: orig, obs: obs, desc: desc, what: what, capable: capable, tries: pd.tries, phase: r.phase, refStr: refStr, adm: adm}
}

type pending struct {
	sig                            map[string]any
	rec                            []byte
	obs, desc, what, phase, refStr string
	adm                            []string
	capable                        bool
	tries                          int
}

// flush confirms (5x) and emits the kept witnesses.
func (r *runner) flush() {
	rep := r.rep
	for _, key := range r.order {
		p := r.pend[key]
		kind := p.sig["kind"].(string)
		r.kinds[kind]++
		if r.kinds[kind] > 6 {
			continue
		}
		ok := true
		for i := 0; i < 5 && ok; i++ {
			v2, err2, pv2 := callJA3(append([]byte(nil), p.rec...))
			if o2 := obsOf(v2, err2, pv2); o2 != p.obs {
				// the same bytes gave two different results on one goroutine: the value is not a pure function of the
				// ClientHello bytes (it depends on what was fingerprinted before) - that is itself what the property forbids
				rep.Violate(map[string]any{"kind": "value-depends-on-history", "seam": "A"},
					map[string]any{"record_hex": fmt.Sprintf("%x", p.rec), "first": p.obs, "again": o2, "case": p.desc, "phase": p.phase},
					"the same ClientHello bytes gave %q and, evaluated again, %q - the JA3 value is not a pure function of the ClientHello bytes [case %s]", p.obs, o2, p.desc)
				ok = false
			}
		}
		if !ok {
			continue
		}
		rep.Violate(p.sig, map[string]any{
			"seam": "A: fingerprint.JA3Fingerprint(&metadata.Metadata{ClientHelloRecord: record})", "phase": p.phase, "case": p.desc,
			"record_hex": hex.EncodeToString(p.rec), "observed": p.obs, "required_ja3_string": p.refStr, "required": p.adm,
			"crypto_tls_reaches_GetConfigForClient": true, "crypto_tls_answers_with_ServerHello": p.capable,
			"violating_cases_with_this_signature_in_this_shard": r.bySig[key],
		}, "%s [case %s]", p.what, p.desc)
	}
}

// errCause classifies a hello for which the implementation produced no value,
// so that different defects get different signatures.
func errCause(p *chello.Parsed) string {
	if p.HasSNI && (p.SNIListLen&0xff) < (p.SNIListLen>>8) {
		// D10: tlsx computes the server_name_list length as data[0]<<8|data[0]
		return "sni-list-length-low-byte-lt-high-byte"
	}
	if p.HasSNI {
		return "other-with-sni"
	}
	return "other"
}

// diagnose names the first JA3 field in which the implementation's string
// (through the export shim) differs from the reference.
func diagnose(p *chello.Parsed, rec []byte) (field, class, bare string) {
	bare, err := fingerprint.VerifC01JA3Bare(append([]byte(nil), rec...))
	if err != nil {
		return "unknown", "n/a", "error: " + err.Error()
	}
	want := ja3ref.Fields(p)
	got := strings.Split(bare, ",")
	if len(got) != 5 {
		return "structure", fmt.Sprintf("%d-fields", len(got)), bare
	}
	lists := [5][]uint16{nil, p.Ciphers, p.ExtTypes(), p.Groups, nil}
	for i := range want {
		if got[i] != want[i] {
			c := "n/a"
			if i >= 1 && i <= 3 {
				c = listClass(lists[i])
			} else if i == 4 {
				c = fmt.Sprintf("len%d", min(len(p.Points), 3))
			}
			return ja3ref.FieldNames[i], c, bare
		}
	}
	return "digest", "n/a", bare
}

// ---- alphabets -------------------------------------------------------------

var (
	cipherAlpha = []uint16{0x0a0a, 0xfafa, 0x1301, 0xc02b, 0x00ff}
	extAlpha    = []uint16{0x2a2a, 0, 10, 11, 23, 0x1234}
	groupAlpha  = []uint16{0x3a3a, 29, 23}
	pointAlpha  = []uint8{0, 1, 2}
	defGroups   = []uint16{29, 23}
	defPoints   = []uint8{0}
	defCiphers  = []uint16{0x1301, 0xc02b}
)

func mkExts(types []uint16, groups []uint16, points []uint8) []chello.Ext {
	out := make([]chello.Ext, 0, len(types))
	for _, t := range types {
		switch t {
		case 0:
			out = append(out, chello.SNI("a.example"))
		case 10:
			out = append(out, chello.Groups(groups...))
		case 11:
			out = append(out, chello.PointFormats(points...))
		case 23:
			out = append(out, chello.EMS())
		case 0x1234:
			out = append(out, chello.Raw(0x1234, 1, 2, 3))
		default:
			out = append(out, chello.Raw(t))
		}
	}
	return out
}

func has(ts []uint16, t uint16) bool {
	for _, x := range ts {
		if x == t {
			return true
		}
	}
	return false
}

func hostOfLen(n int) string {
	b := make([]byte, n)
	for i := range b {
		if (i+1)%64 == 0 && i != n-1 {
			b[i] = '.'
		} else {
			b[i] = 'a'
		}
	}
	return string(b)
}

// seamA enumerates the function-level seam.
func seamA(rep *ev.Report) {
	shard, of := mc.ShardFromEnv()
	r := &runner{rep: rep, shard: shard, of: of, bySig: map[string]int{}, kinds: map[string]int{}, pend: map[string]*pending{}}
	L, sniMax := 3, 300
	if ev.Thorough() {
		L, sniMax = 5, 1100
	}
	rep.Info["rule"] = "every record of the bounded alphabets that crypto/tls accepts (GetConfigForClient reached) -> fingerprint.JA3Fingerprint vs ja3ref; distinct_nontrivial = distinct (version, ext-block, per-list length + GREASE-position mask) signatures with a GREASE value, an empty/singleton list, no extension block or a >255-byte SNI list"
	rep.Info["bounds"] = map[string]any{
		"cipher_alphabet": "0x0a0a 0xfafa(GREASE) 0x1301 0xc02b 0x00ff, all sequences len 0..L", "ext_type_alphabet": "0x2a2a(GREASE) 0(SNI) 10 11 23 0x1234, all duplicate-free sequences len 0..L, plus hello without extension block",
		"groups_alphabet": "0x3a3a(GREASE) 29 23, all sequences len 1..3", "points_alphabet": "0 1 2, all sequences len 1..2", "L": L,
		"four_way":         "all lists capped at length 2, legacy version x record version in {0x0301/0x0303, 0x0303/0x0301}",
		"value_sweeps":     "every 16-bit value as cipher (4 position classes), group (3), extension type with empty body (3), legacy version; every 8-bit value as point format (3)",
		"sni_host_lengths": fmt.Sprintf("1..%d in 3 extension layouts + extra non-host name entry", sniMax),
		"framing":          "session id length 0..32 x 3 compression lists x 3 random fills x with/without extension block",
		"domain":           "tlsdomain.Accepted: real crypto/tls server over an in-memory conn reaches GetConfigForClient; evaluated for every record, not cached",
	}
	rep.Assume("seam A only: the value is observed as the return of fingerprint.JA3Fingerprint on a synthesized first record; the plumbing/independence clauses (header reaches the backend for h1 and h2, per-connection attribution, delivery-independence) are the business of seam B",
		"domain membership = crypto/tls (go1.26.8) server reaches GetConfigForClient on the record; handshake completion itself is not simulated for synthesized hellos (each reported witness additionally states whether a permissive server answers with a ServerHello)",
		"reference parser chello and ja3ref are written from RFC 8446/5246/6066/8422/8701 and the JA3 README; self-tested against the two README examples with published digests")

	cipherLists := seqs.U16(cipherAlpha, 0, L, false)
	extLists := seqs.U16(extAlpha, 0, L, true)
	groupLists := seqs.U16(groupAlpha, 1, 3, false)
	pointLists := seqs.U8(pointAlpha, 1, 2, false)
	rep.Info["alphabet_sizes"] = map[string]int{"cipher_lists": len(cipherLists), "ext_type_lists": len(extLists) + 1, "group_lists": len(groupLists), "point_lists": len(pointLists)}

	// ---- phase A: ciphers x extension types (and hello without extension block)
	r.phase = "A_ciphers_x_exts"
	for _, cs := range cipherLists {
		for xi := -1; xi < len(extLists); xi++ {
			if !r.mine() {
				continue
			}
			h := &chello.Hello{Version: 0x0303, Ciphers: cs}
			var d string
			if xi < 0 {
				h.NoExtBlock = true
				d = fmt.Sprintf("ciphers=%04x no-extension-block", cs)
			} else {
				h.Exts = mkExts(extLists[xi], defGroups, defPoints)
				d = fmt.Sprintf("ciphers=%04x exts=%v", cs, extLists[xi])
			}
			r.eval(h.Record(), d)
		}
	}

	// ---- phase B: extension types x supported_groups body x ec_point_formats body
	r.phase = "B_exts_x_groups_x_points"
	one16, one8 := [][]uint16{defGroups}, [][]uint8{defPoints}
	for _, xs := range extLists {
		gs, ps := one16, one8
		if has(xs, 10) {
			gs = groupLists
		}
		if has(xs, 11) {
			ps = pointLists
		}
		if len(gs) == 1 && len(ps) == 1 {
			continue // covered by phase A
		}
		for _, g := range gs {
			for _, pt := range ps {
				if !r.mine() {
					continue
				}
				h := &chello.Hello{Version: 0x0303, Ciphers: defCiphers, Exts: mkExts(xs, g, pt)}
				r.eval(h.Record(), fmt.Sprintf("exts=%v groups=%04x points=%v", xs, g, pt))
			}
		}
	}

	// ---- phase C: full 4-way product, lists capped at length 2, both versions
	r.phase = "C_four_way"
	c2 := seqs.U16(cipherAlpha, 0, 2, false)
	x2 := seqs.U16(extAlpha, 0, 2, true)
	g2 := seqs.U16(groupAlpha, 1, 2, false)
	p2 := seqs.U8(pointAlpha, 1, 2, false)
	for _, ver := range [][2]uint16{{0x0301, 0x0303}, {0x0303, 0x0301}, {0x0302, 0x0301}} {
		for _, cs := range c2 {
			for xi := -1; xi < len(x2); xi++ {
				gs, ps := one16, one8
				var xs []uint16
				if xi >= 0 {
					xs = x2[xi]
					if has(xs, 10) {
						gs = g2
					}
					if has(xs, 11) {
						ps = p2
					}
				}
				for _, g := range gs {
					for _, pt := range ps {
						if !r.mine() {
							continue
						}
						h := &chello.Hello{Version: ver[0], RecordVersion: ver[1], Ciphers: cs, NoExtBlock: xi < 0, Exts: mkExts(xs, g, pt)}
						r.eval(h.Record(), fmt.Sprintf("version=%04x record-version=%04x ciphers=%04x exts=%v(block=%v) groups=%04x points=%v", ver[0], ver[1], cs, xs, xi >= 0, g, pt))
					}
				}
			}
		}
	}

	// ---- phase D: every value in every list position class
	r.phase = "D_value_sweeps"
	for v := 0; v < 65536; v++ {
		u := uint16(v)
		for ci, cs := range [][]uint16{{u}, {u, 0x1301}, {0x1301, u}, {0x1301, u, 0xc02b}} {
			if !r.mine() {
				continue
			}
			h := &chello.Hello{Version: 0x0303, Ciphers: cs, Exts: mkExts([]uint16{10, 11}, defGroups, defPoints)}
			r.eval(h.Record(), fmt.Sprintf("cipher value %#04x in position class %d %04x", u, ci, cs))
		}
		for gi, g := range [][]uint16{{u}, {u, 29}, {29, u}} {
			if !r.mine() {
				continue
			}
			h := &chello.Hello{Version: 0x0303, Ciphers: defCiphers, Exts: mkExts([]uint16{10, 11}, g, defPoints)}
			r.eval(h.Record(), fmt.Sprintf("group value %#04x in position class %d %04x", u, gi, g))
		}
		for xi, xs := range [][]uint16{{u}, {u, 23}, {23, u}} {
			if !r.mine() {
				continue
			}
			// empty body for the swept type; types whose empty body crypto/tls rejects fall out of the domain
			exts := make([]chello.Ext, 0, 2)
			for _, t := range xs {
				exts = append(exts, chello.Raw(t))
			}
			h := &chello.Hello{Version: 0x0303, Ciphers: defCiphers, Exts: exts}
			r.eval(h.Record(), fmt.Sprintf("extension type %#04x (empty body) in position class %d %v", u, xi, xs))
		}
		if r.mine() {
			h := &chello.Hello{Version: u, Ciphers: defCiphers, Exts: mkExts([]uint16{10, 11}, defGroups, defPoints)}
			r.eval(h.Record(), fmt.Sprintf("legacy version %#04x", u))
		}
	}
	for v := 0; v < 256; v++ {
		u := uint8(v)
		for pi, pt := range [][]uint8{{u}, {u, 0}, {0, u}} {
			if !r.mine() {
				continue
			}
			h := &chello.Hello{Version: 0x0303, Ciphers: defCiphers, Exts: mkExts([]uint16{10, 11}, defGroups, pt)}
			r.eval(h.Record(), fmt.Sprintf("point format %d in position class %d %v", u, pi, pt))
		}
	}

	// ---- phase E: every SNI host length (run by shard 0 only so that the reported witness is the smallest one)
	r.phase = "E_sni_length"
	for pass := 0; pass < 2 && shard == 0; pass++ {
		for n := 1; n <= sniMax; n++ {
			host := hostOfLen(n)
			sni := chello.SNI(host)
			var layouts [][]chello.Ext
			if pass == 0 {
				layouts = [][]chello.Ext{
					{sni, chello.Groups(defGroups...), chello.PointFormats(defPoints...)},
					{chello.Groups(defGroups...), chello.PointFormats(defPoints...), sni},
					{sni},
				}
			} else {
				// ServerNameList with an extra entry of an unassigned name_type (crypto/tls skips it)
				two := chello.SNI(host)
				two.Body = append(append([]byte{}, two.Body...), 7, 0, 2, 'x', 'y')
				ll := len(two.Body) - 2
				two.Body[0], two.Body[1] = byte(ll>>8), byte(ll)
				layouts = [][]chello.Ext{{two, chello.Groups(defGroups...)}}
			}
			for li, exts := range layouts {
				h := &chello.Hello{Version: 0x0303, Ciphers: []uint16{0x1301, 0xc02b, 0x002f}, Exts: exts}
				r.eval(h.Record(), fmt.Sprintf("SNI host name of %d bytes, extension layout %d.%d", n, pass, li))
			}
		}
	}

	// ---- phase F: framing before the lists (offsets the parser must skip)
	r.phase = "F_framing"
	for sid := 0; sid <= 32; sid++ {
		for ci, comp := range [][]byte{{0}, {1, 0}, {0, 1, 64}} {
			for _, fill := range []byte{0x00, 0x16, 0xff} {
				for _, noext := range []bool{false, true} {
					if !r.mine() {
						continue
					}
					h := &chello.Hello{Version: 0x0303, Ciphers: []uint16{0x0a0a, 0x1301, 0xc02b}, Compression: comp, NoExtBlock: noext,
						SessionID: bytes.Repeat([]byte{fill}, sid), Exts: mkExts([]uint16{0, 10, 11}, defGroups, defPoints)}
					for i := range h.Random {
						h.Random[i] = fill
					}
					r.eval(h.Record(), fmt.Sprintf("session id %d bytes, compression list %d, fill %#02x, no-extension-block=%v", sid, ci, fill, noext))
				}
			}
		}
	}

	// ---- phase H: record lengths at the widths a length could be kept or bounded in: a padding extension sizes the
	// first record's fragment to every value around 2^8, 2^12, 2^13 and up to the 2^14 limit of a TLS record
	r.phase = "H_record_length"
	{
		base := &chello.Hello{Version: 0x0303, Ciphers: []uint16{0x1301, 0xc02b, 0x002f}, Exts: append(mkExts([]uint16{0, 10, 11}, defGroups, defPoints), chello.Padding(0))}
		base0 := len(base.Record()) - 5
		var want []int
		for _, c := range []int{256, 4096, 8192} {
			for d := -2; d <= 2; d++ {
				want = append(want, c+d)
			}
		}
		for l := 16384 - 12; l <= 16384; l++ {
			want = append(want, l)
		}
		for _, l := range want {
			if l < base0 || !r.mine() {
				continue
			}
			h := *base
			h.Exts = append(append([]chello.Ext(nil), base.Exts[:len(base.Exts)-1]...), chello.Padding(l-base0))
			rec := h.Record()
			r.eval(rec, fmt.Sprintf("first record with a fragment of %d bytes (padding extension of %d)", len(rec)-5, l-base0))
		}
	}

	// ---- phase G: ClientHellos found in the pcap test data of /repo as extra seeds
	r.phase = "G_pcap_seeds"
	repo := os.Getenv("VERIF_REPO")
	if repo == "" {
		repo = "/repo"
	}
	seeds, err := pcapscan.Dir(filepath.Join(repo, "pkg/ja4pcap/testdata/pcap"))
	if err != nil {
		rep.HarnessError("pcap seeds: %v", err)
	}
	seenSeed := map[string]bool{}
	nseed := 0
	for _, s := range seeds {
		if seenSeed[string(s.Record)] {
			continue
		}
		seenSeed[string(s.Record)] = true
		nseed++
		if !r.mine() {
			continue
		}
		r.eval(s.Record, fmt.Sprintf("pcap seed %s@%d", s.File, s.Offset))
	}
	rep.Info["pcap_seed_records"] = nseed

	r.flush()

	// ---- determinism / purity self-check (DESIGN §3 rule 2): a fixed 2 % slice is re-executed after everything else
	for _, c := range r.slice {
		v, err, pv := callJA3(append([]byte(nil), c.rec...))
		rep.Add("rechecked", 1)
		if o := obsOf(v, err, pv); o != c.obs {
			rep.HarnessError("self-check: re-execution of %q gave %q, first run %q (result depends on something else than the record bytes)", c.desc, o, c.obs)
			break
		}
	}
	if r.evals == 0 && of <= 8 {
		rep.HarnessError("vacuous run: no case evaluated in shard %d/%d", shard, of)
	}
	sigs := make([]string, 0, len(r.bySig))
	for k, n := range r.bySig {
		sigs = append(sigs, fmt.Sprintf("%s x%d", k, n))
	}
	sort.Strings(sigs)
	for _, s := range sigs {
		fmt.Println("violating cases in this shard:", s)
	}
}
