//go:build verif

package c16

// Fault-point part of C16: one connection, one failure at a chosen point - the server's k-th I/O operation on the
// connection fails (every k, several error values), the client disappears after its k-th byte, or the client speaks
// something else than TLS - for HTTP/1.1, HTTP/2 and plain-HTTP clients. Whatever happens to the connection, once it
// has ended it is counted exactly once, under ok="1" only with the protocol it negotiated.

import (
	"fmt"
	"net"
	"net/http"
	"sort"
	"testing"
	"testing/synctest"
	"time"

	"github.com/wi1dcard/fingerproxy/pkg/proxyserver"
	"verif/bubble"
	"verif/ev"
	"verif/faults"
)

// only != "": run just the case with that name (replay).
func faultPoints(t *testing.T, rep *ev.Report, shard, of int, only string) {
	opts := bubble.StackOpts{HandshakeTimeout: 10 * time.Second}
	var cases []faults.Case
	var helloH2 []byte
	stride := 16
	if ev.Thorough() {
		stride = 2
	}
	for _, proto := range []string{"h1", "h2"} {
		nb, nops, hello, err := faults.Measure(t, proto, opts)
		if err != nil {
			rep.HarnessError("fault points: measure %s: %v", proto, err)
			return
		}
		if proto == "h2" {
			helloH2 = hello
		}
		for k := 0; k <= int(nb); k++ {
			if k%stride == 0 || k == int(nb) || k < 8 {
				cases = append(cases, faults.Case{Kind: "abort-reset", Proto: proto, K: k})
			}
		}
		for i := 0; i < nops+2; i++ {
			for ei, en := range []string{"ECONNRESET", "EPIPE", "timeout"} {
				if !ev.Thorough() && (i+ei)%3 != 0 {
					continue
				}
				cases = append(cases, faults.Case{Kind: "iofault", Proto: proto, K: i, Err: en})
			}
		}
	}
	for i := 0; i < 8; i++ { // a plain-HTTP client is answered with a few operations only
		for _, en := range []string{"ECONNRESET", "EPIPE", "EOF"} {
			cases = append(cases, faults.Case{Kind: "iofault", Proto: "plain", K: i, Err: en})
		}
	}
	for k := 0; k < 6; k++ {
		cases = append(cases, faults.Case{Kind: "plain-http", K: k, Val: 0}, faults.Case{Kind: "plain-http", K: k, Val: 1})
	}
	// a long history on one h2 connection: more frames of one kind than any per-connection list or limit holds
	for k := 0; k < 6; k++ {
		cases = append(cases, faults.Case{Kind: "h2-flood", Proto: "h2", K: k, Val: 10050})
	}
	for _, k := range []int{1, 20} {
		cases = append(cases, faults.Case{Kind: "abort-many", Proto: "h2", K: k, Val: 0})
	}
	// protocol upgrades (the connection ends hijacked, in the hands of the reverse proxy)
	for k := 0; k < 3; k++ {
		cases = append(cases, faults.Case{Kind: "h1-upgrade", Proto: "h1", K: k})
	}
	// rare but legal (or cleanly refusable) HTTP/2 sequences
	for k := range faults.H2RareNames {
		cases = append(cases, faults.Case{Kind: "h2-rare", Proto: "h2", K: k})
	}
	// the same with "-timeout-tls-handshake 0s" (no handshake timeout at all) for the sessions that run to their end,
	// a client that never completes the handshake, a plain-HTTP client and an upgrade
	type pointCase struct {
		faults.Case
		noHandshakeTimeout bool
	}
	var all []pointCase
	for _, cs := range cases {
		all = append(all, pointCase{cs, false})
	}
	for _, cs := range cases {
		last := cs.Kind == "abort-reset" && (cs.K == 0 || cs.K == 5)
		for _, c2 := range cases {
			if c2.Kind == "abort-reset" && c2.Proto == cs.Proto && c2.K > cs.K {
				last = last && cs.K == 0 // (K == 0 and the largest K of each protocol)
			}
		}
		isLast := cs.Kind == "abort-reset"
		for _, c2 := range cases {
			if c2.Kind == "abort-reset" && c2.Proto == cs.Proto && c2.K > cs.K {
				isLast = false
			}
		}
		if isLast || (cs.Kind == "abort-reset" && cs.K == 0) || (cs.Kind == "plain-http" && cs.K == 0) || cs.Kind == "h1-upgrade" || (cs.Kind == "h2-rare" && cs.K == 0) {
			all = append(all, pointCase{cs, true})
		}
	}
	rep.Info["fault_point_cases_total"] = len(all)
	for i, pc := range all {
		cs := pc.Case
		name := cs.String()
		opts := opts
		if pc.noHandshakeTimeout {
			name += "/no-handshake-timeout"
			opts.HandshakeTimeout = 0
		}
		if only != "" {
			if name != only {
				continue
			}
		} else if i%of != shard {
			continue
		}
		ev.Journal("fault point %s", name)
		res := faults.Run(t, cs, opts, helloH2, func(env *faults.Env) {
			rep.Add("fault_point_cases", 1)
			rep.Add("evaluations", 1)
			cnt := env.St.Counter()
			accepted := 0
			for _, cl := range env.St.Clients() {
				if cl.Srv != nil && cl.Srv.WasAccepted() {
					accepted++
				}
			}
			total := 0.0
			var keys []string
			for k, v := range cnt {
				total += v
				keys = append(keys, fmt.Sprintf("%s=%v", k, v))
			}
			sort.Strings(keys)
			rep.Note("distinct_outcomes", fmt.Sprintf("faultpoint/%s/%s/%v", cs.Kind, cs.Proto, keys))
			want := map[string]string{"h1": "1/http/1.1", "h2": "1/h2"}[cs.Proto]
			sig := ""
			switch {
			case int(total) < accepted:
				sig = "not-counted"
			case int(total) > accepted:
				sig = "counted-twice"
			default:
				for k := range cnt {
					if k != "0/" && k != want {
						sig = "wrong-labels"
					}
				}
			}
			if sig != "" {
				rep.Violate(map[string]any{"kind": sig, "detail": "fault-point", "case_kind": cs.Kind, "proto": cs.Proto}, map[string]any{"fault_point_case": name},
					"fault point %s: %d connection(s) were accepted and have ended, requests_total = %v (a connection that negotiated a protocol may only be counted under %q or as a failure)", name, accepted, keys, want)
			}
		})
		if res.Panic != nil {
			rep.HarnessError("fault point %s: panic %v\n%s", cs, res.Panic, res.Stack)
		}
		if res.Hang != "" {
			rep.Violate(map[string]any{"kind": "not-counted", "detail": "connection-never-ends", "case_kind": cs.Kind, "proto": cs.Proto}, map[string]any{"fault_point_case": name},
				"fault point %s: the connection can never end, so it is never counted: %s", name, res.Hang)
		}
	}
}

// hookPanics: the application's http.Server.ConnState hook panics at one of the four transitions; the connection it
// panicked for (HTTP/1.1 or HTTP/2) is still counted exactly once when it has ended.
func hookPanics(t *testing.T, rep *ev.Report, shard, of int) {
	job := 0
	for _, proto := range []string{"h1", "h2"} {
		for _, state := range []http.ConnState{http.StateNew, http.StateActive, http.StateIdle, http.StateClosed} {
			job++
			if job%of != shard {
				continue
			}
			proto, state := proto, state
			desc := fmt.Sprintf("ConnState hook panics at %v, %s connection", state, proto)
			res := bubble.Run(t, func() {
				st := bubble.NewStack(bubble.StackOpts{HandshakeTimeout: 10 * time.Second, Configure: func(s *proxyserver.Server) {
					s.HTTPServer.ConnState = func(c net.Conn, cs http.ConnState) {
						if cs == state {
							panic("injected panic in ConnState hook")
						}
					}
				}})
				defer st.Shutdown()
				h := helloH1
				if proto == "h2" {
					h = helloH2
				}
				cl := st.Connect("victim", nil, h)
				synctest.Wait()
				if done, err := cl.Handshake(); done && err == nil {
					if proto == "h1" {
						cl.SendH1(bubble.Req{Path: "/x", Host: "localhost"})
					} else {
						cl.StartH2()
						cl.SendH2(1, bubble.Req{Path: "/x", Host: "localhost"})
					}
				}
				synctest.Wait()
				cl.Close()
				synctest.Wait()
				time.Sleep(15 * time.Second)
				synctest.Wait()
				rep.Add("hook_panic_cases", 1)
				rep.Add("evaluations", 1)
				cnt := st.Counter()
				total := 0.0
				var keys []string
				for k, v := range cnt {
					total += v
					keys = append(keys, fmt.Sprintf("%s=%v", k, v))
				}
				sort.Strings(keys)
				rep.Note("distinct_outcomes", fmt.Sprintf("hook/%s/%v/%v", proto, state, keys))
				want := map[string]string{"h1": "1/http/1.1", "h2": "1/h2"}[proto]
				bad := int(total) != 1
				for k := range cnt {
					if k != "0/" && k != want {
						bad = true
					}
				}
				if bad {
					rep.Violate(map[string]any{"kind": "hook-panic-miscount", "proto": proto, "state": state.String()}, map[string]any{"desc": desc},
						"%s: one connection was accepted and has ended, requests_total = %v", desc, keys)
				}
			})
			if res.Panic != nil {
				rep.Violate(map[string]any{"kind": "panic", "detail": "hook-panic"}, map[string]any{"desc": desc}, "%s: panic escaped: %v", desc, res.Panic)
			}
			if res.Hang != "" {
				rep.Violate(map[string]any{"kind": "hang", "detail": "hook-panic"}, map[string]any{"desc": desc}, "%s: %s", desc, res.Hang)
			}
		}
	}
}
