//go:build verif

// C16 — requests_total counts every connection exactly once, with true labels.
package c16

import (
	"fmt"
	"sort"
	"strings"
	"testing"
	"time"
	"verif/raceload"
	"verif/racepass"

	utls "github.com/refraction-networking/utls"
	"verif/bubble"
	"verif/ev"
	"verif/mc"
	"verif/ref/h2wire"
)

type outcome struct {
	name  string
	label string // expected "ok/proto"
	build func(st *bubble.Stack, name string) (*bubble.Client, []bubble.Step)
}

var (
	helloH2 = bubble.Hello{Name: "chrome", ID: &utls.HelloChrome_120, ALPN: []string{"h2", "http/1.1"}, SNI: "localhost"}
	helloH1 = bubble.Hello{Name: "firefox", ID: &utls.HelloFirefox_120, ALPN: []string{"http/1.1"}, SNI: "localhost"}
	helloNo = bubble.Hello{Name: "go-noalpn", SNI: "localhost"}
)

func withManual(h bubble.Hello) bubble.Hello { h.Manual = true; return h }

// holder lets steps share the client created by the first step
type holder struct{ c *bubble.Client }

func connectStep(st *bubble.Stack, h *holder, name string, hello bubble.Hello) bubble.Step {
	return bubble.Step{Name: "connect", Do: func() { h.c = st.Connect(name, nil, hello) }}
}

func outcomes() []outcome {
	mk := func(name, label string, hello bubble.Hello, rest func(h *holder) []bubble.Step) outcome {
		return outcome{name, label, func(st *bubble.Stack, an string) (*bubble.Client, []bubble.Step) {
			h := &holder{}
			steps := []bubble.Step{connectStep(st, h, an, hello)}
			steps = append(steps, rest(h)...)
			return nil, steps
		}}
	}
	closeStep := func(h *holder) bubble.Step { return bubble.Step{Name: "close", Do: func() { h.c.Close() }} }
	abortStep := func(h *holder) bubble.Step { return bubble.Step{Name: "abort", Do: func() { h.c.Abort(nil) }} }
	return []outcome{
		mk("h2ok", "1/h2", helloH2, func(h *holder) []bubble.Step {
			return []bubble.Step{
				{Name: "preface+request", Do: func() {
					h.c.StartH2()
					h.c.SendH2(1, bubble.Req{Path: "/h2", Host: "localhost"})
				}},
				closeStep(h)}
		}),
		mk("h1ok", "1/http/1.1", helloH1, func(h *holder) []bubble.Step {
			return []bubble.Step{
				{Name: "request", Do: func() { h.c.SendH1(bubble.Req{Path: "/h1", Host: "localhost"}) }},
				closeStep(h)}
		}),
		mk("noalpn", "1/", helloNo, func(h *holder) []bubble.Step {
			return []bubble.Step{
				{Name: "request", Do: func() { h.c.SendH1(bubble.Req{Path: "/noalpn", Host: "localhost"}) }},
				closeStep(h)}
		}),
		{"plainhttp", "0/", func(st *bubble.Stack, an string) (*bubble.Client, []bubble.Step) {
			h := &holder{}
			return nil, []bubble.Step{
				{Name: "dial+GET", Do: func() { h.c = st.DialRaw(an, nil); h.c.RawWrite([]byte("GET / HTTP/1.1\r\nHost: x\r\n\r\n")) }},
				{Name: "close", Do: func() { h.c.Abort(nil) }}}
		}},
		{"garbage", "0/", func(st *bubble.Stack, an string) (*bubble.Client, []bubble.Step) {
			h := &holder{}
			return nil, []bubble.Step{
				{Name: "dial+garbage", Do: func() {
					h.c = st.DialRaw(an, nil)
					b := make([]byte, 64)
					for i := range b {
						b[i] = byte(i*37 + 11)
					}
					h.c.RawWrite(b)
				}},
				{Name: "close", Do: func() { h.c.Abort(nil) }}}
		}},
		mk("stall", "0/", withManual(helloH2), func(h *holder) []bubble.Step {
			return []bubble.Step{
				{Name: "deliver 3 bytes", Do: func() { h.c.Deliver(3) }},
				{Name: "clock+11s", Do: func() { time.Sleep(11 * time.Second) }},
				closeStep(h)}
		}),
		mk("abort0", "0/", withManual(helloH1), func(h *holder) []bubble.Step { return []bubble.Step{abortStep(h)} }),
		mk("abortMidHello", "0/", withManual(helloH2), func(h *holder) []bubble.Step {
			return []bubble.Step{{Name: "deliver 50 bytes", Do: func() { h.c.Deliver(50) }}, abortStep(h)}
		}),
		mk("abortAfterHello", "0/", withManual(helloH1), func(h *holder) []bubble.Step {
			return []bubble.Step{{Name: "deliver hello", Do: func() { h.c.Deliver(-1) }}, abortStep(h)}
		}),
		mk("recordVersion0305-h2", "0/", func() bubble.Hello {
			// legal for crypto/tls (the record-layer version of the first record is not checked), but the capture rejects it:
			// the handshake succeeds, the capture fails -> one count under ok="0" with an empty protocol
			h := helloH2
			h.Name = "chrome-recver0305"
			h.Filter = func(off int64, b []byte) []byte {
				if off == 0 && len(b) >= 3 {
					b[1], b[2] = 0x03, 0x05
				}
				return b
			}
			return h
		}(), func(h *holder) []bubble.Step {
			return []bubble.Step{
				{Name: "preface+request", Do: func() {
					if d, err := h.c.Handshake(); d && err == nil {
						h.c.StartH2()
						h.c.SendH2(1, bubble.Req{Path: "/never", Host: "localhost"})
					}
				}},
				closeStep(h)}
		}),
		mk("abortAfterHS-h2", "1/h2", helloH2, func(h *holder) []bubble.Step { return []bubble.Step{abortStep(h)} }),
		mk("abortAfterHS-h1", "1/http/1.1", helloH1, func(h *holder) []bubble.Step { return []bubble.Step{abortStep(h)} }),
		mk("abortMidReq-h1", "1/http/1.1", helloH1, func(h *holder) []bubble.Step {
			return []bubble.Step{{Name: "partial request", Do: func() { h.c.Write([]byte("GET /partial HTT")) }}, abortStep(h)}
		}),
		mk("abortMidReq-h2", "1/h2", helloH2, func(h *holder) []bubble.Step {
			return []bubble.Step{{Name: "preface+HEADERS w/o END_HEADERS", Do: func() {
				h.c.StartH2()
				blk := h.c.Enc.Block(h2wire.HF{Name: ":method", Value: "GET"}, h2wire.HF{Name: ":scheme", Value: "https"}, h2wire.HF{Name: ":authority", Value: "x"}, h2wire.HF{Name: ":path", Value: "/"})
				h.c.Write(h2wire.Headers(1, blk, true, false, nil, -1))
			}}, abortStep(h)}
		}),
	}
}

// withCancel: a fourth actor cancels the server context at some point of the run (shutdown racing with connections)
var withCancel bool

func runOne(t *testing.T, ms []outcome, c *mc.Chooser) (out mc.Outcome) {
	viol := func(sig, f string, a ...any) {
		out.Violations = append(out.Violations, fmt.Sprintf(f, a...))
		out.Sigs = append(out.Sigs, sig)
	}
	res := bubble.Run(t, func() {
		gates := bubble.NewGates("proxyserver.serveConn.handshook", "proxyserver.serveConn.beforeSend", "proxyserver.serveConn.served")
		defer gates.Uninstall()
		st := bubble.NewStack(bubble.StackOpts{HandshakeTimeout: 10 * time.Second})
		var actors []*bubble.Actor
		want := map[string]int{}
		holders := map[string]string{}
		for i, o := range ms {
			an := fmt.Sprintf("c%d", i)
			_, steps := o.build(st, an)
			actors = append(actors, &bubble.Actor{Name: an, Steps: steps})
			want[o.label]++
			holders[an] = o.label
		}
		cancelled := false
		if withCancel {
			actors = append(actors, &bubble.Actor{Name: "cancel", Steps: []bubble.Step{{Name: "cancel server context", Do: func() { cancelled = true; st.Cancel() }}}})
		}
		// name server-side conns after their actor as soon as they exist
		named := 0
		var trace []string
		onQ := func() bool {
			cls := st.Clients()
			for ; named < len(cls); named++ {
				if cls[named].Srv != nil {
					gates.NameKey(cls[named].Srv, cls[named].Name)
				}
			}
			// invariant: per label, counted <= connections with that expected label whose accepted conn has been closed
			cnt := st.Counter()
			closed := map[string]int{}
			for _, cl := range cls {
				if cl.Srv != nil && cl.Srv.NumCloses() > 0 {
					closed[holders[cl.Name]]++
				}
			}
			var keys []string
			for k := range cnt {
				keys = append(keys, k)
			}
			sort.Strings(keys)
			var sb []string
			for _, k := range keys {
				sb = append(sb, fmt.Sprintf("%s=%v", k, cnt[k]))
				if cancelled {
					// after cancellation a connection may legitimately end as a failed handshake: judged at the end only
					continue
				}
				if int(cnt[k]) > closed[k] {
					viol("counted-before-end-or-twice:"+k, "requests_total{%s}=%v but only %d connection(s) expected under that label have ended (expected multiset %v; trace %v)", k, cnt[k], closed[k], want, c.Trace())
					return false
				}
				if _, ok := want[k]; !ok {
					viol("wrong-label:"+k, "requests_total has label set %s which no connection of this execution should produce (expected %v)", k, want)
					return false
				}
			}
			trace = append(trace, strings.Join(sb, ","))
			return true
		}
		// the gate key of a parked serveConn is the accepted conn; it is named in onQ *before* choosing, but a goroutine that
		// parked in the same quiescence interval in which its conn was created was looked up before the name existed:
		// re-resolve names of parked gates here
		bubble.Schedule(c, gates, actors, func() bool {
			ok := onQ()
			gates.Rename()
			return ok
		})
		gates.Open()
		st.Shutdown()
		if len(out.Violations) == 0 && withCancel {
			// with a shutdown in the middle: every ACCEPTED connection is still counted exactly once; a connection whose
			// handshake had not finished at cancellation is counted as failed
			cnt := st.Counter()
			total, accepted := 0.0, 0
			for _, v := range cnt {
				total += v
			}
			for _, cl := range st.Clients() {
				if cl.Srv != nil && cl.Srv.WasAccepted() {
					accepted++
				}
			}
			if int(total) != accepted {
				sig := "not-counted"
				if int(total) > accepted {
					sig = "counted-twice"
				}
				viol(sig, "with cancellation during the run: %d connections were accepted, requests_total = %v (trace %v)", accepted, cnt, c.Trace())
			}
			for k, v := range cnt {
				if k != "0/" && int(v) > want[k] {
					viol("wrong-labels", "requests_total{%s}=%v exceeds the %d connection(s) that negotiated it (trace %v)", k, v, want[k], c.Trace())
				}
			}
			out.Obs = fmt.Sprint(cnt)
		} else if len(out.Violations) == 0 {
			cnt := st.Counter()
			total := 0.0
			for _, v := range cnt {
				total += v
			}
			ok := int(total) == len(ms)
			for k, n := range want {
				if int(cnt[k]) != n {
					ok = false
				}
			}
			if !ok {
				sig := "final-count-wrong"
				if int(total) > len(ms) {
					sig = "counted-twice"
				} else if int(total) < len(ms) {
					sig = "not-counted"
				} else {
					sig = "wrong-labels"
				}
				viol(sig, "after %d connections %v ended: requests_total = %v, expected %v (trace %v)", len(ms), names(ms), cnt, want, c.Trace())
			}
			out.Obs = fmt.Sprint(cnt) + " via " + fmt.Sprint(len(trace))
			out.Obs = fmt.Sprint(cnt)
		}
	})
	if res.Panic != nil {
		if he, ok := res.Panic.(mc.HarnessError); ok {
			panic(he)
		}
		viol("panic", "panic: %v\n%s", res.Panic, res.Stack)
	}
	if res.Hang != "" {
		viol("hang", "%s", res.Hang)
	}
	if res.Deadlock != "" {
		out.Obs += " LEAK"
	}
	return out
}

func names(ms []outcome) []string {
	var s []string
	for _, o := range ms {
		s = append(s, o.name)
	}
	return s
}

func TestCheck(t *testing.T) {
	rep := ev.New("C16", "model_checking")
	defer rep.Write()
	shard, of := mc.ShardFromEnv()
	os := outcomes()
	bound := 1
	budget := 70 * time.Second
	stride := 4 // quick: every 4th multiset (rotated by the seed)
	if ev.Thorough() {
		bound, budget, stride = 2, 40*time.Minute, 1
	}
	deadline := time.Now().Add(budget)
	rep.Info["rule"] = "multisets of 3 outcomes from " + fmt.Sprint(names(os)) + "; per multiset every interleaving of client steps, clock advances and serveConn gate releases with <= bound deviations; oracle at every quiescent state and at the end"
	rep.Info["max_deviation_bound_completed"] = bound
	rep.Assume("interleavings at environment-step and vhook-gate granularity; crypto/tls and net/http goroutines run freely between two quiescent states")
	if rq, ok := ev.ReplayRequest(); ok {
		if fc, ok := rq["fault_point_case"].(string); ok {
			faultPoints(t, rep, 0, 1, fc)
			return
		}
		var ms []outcome
		if names, ok := rq["multiset"].([]any); ok {
			for _, n := range names {
				for _, o := range os {
					if o.name == n {
						ms = append(ms, o)
					}
				}
			}
		}
		withCancel, _ = rq["with_cancel"].(bool)
		o, trace := mc.Replay(ev.Ints(rq["choices"]), func(c *mc.Chooser) mc.Outcome { return runOne(t, ms, c) })
		rep.Add("schedules", 1)
		rep.Add("states", int64(len(trace)))
		rep.Add("transitions", int64(len(trace)))
		rep.Add("traces_validated_against_impl", 1)
		rep.Sample(map[string]any{"replayed_schedule": trace, "observation": o.Obs})
		for i, w := range o.Violations {
			rep.Violate(map[string]any{"kind": strings.SplitN(o.Sigs[i], ":", 2)[0], "detail": o.Sigs[i]}, rq, "%s", w)
		}
		return
	}
	faultPoints(t, rep, shard, of, "")
	hookPanics(t, rep, shard, of)
	idx := 0
	for a := 0; a < len(os); a++ {
		for b := a; b < len(os); b++ {
			for d := b; d < len(os); d++ {
				idx++
				if (idx+int(ev.Seed()))%stride != 0 {
					continue
				}
				if (idx/stride)%of != shard {
					continue
				}
				ms := []outcome{os[a], os[b], os[d]}
				withCancel = (idx/stride)%3 == 2 // every third explored multiset also races a shutdown against the connections
				e := &mc.Explorer{Bound: bound, Deadline: deadline}
				func() {
					defer func() {
						if r := recover(); r != nil {
							if he, ok := r.(mc.HarnessError); ok {
								rep.HarnessError("%v: %v", names(ms), he)
								return
							}
							panic(r)
						}
					}()
					e.Explore(func(c *mc.Chooser) mc.Outcome { return runOne(t, ms, c) })
				}()
				rep.Add("multisets", 1)
				if withCancel {
					rep.Add("multisets_with_cancel", 1)
				}
				rep.Add("schedules", int64(e.Schedules))
				rep.Add("states", int64(e.Points))
				rep.Add("transitions", int64(e.Points))
				rep.Add("traces_validated_against_impl", int64(e.Schedules))
				rep.Add("rechecked", int64(e.Rechecked))
				for k := range e.Outcomes {
					rep.Note("distinct_outcomes", k)
				}
				if len(e.SampleRuns) > 0 {
					rep.Sample(map[string]any{"multiset": names(ms), "schedule": e.SampleRuns[len(e.SampleRuns)-1]})
				}
				if e.Capped {
					rep.NotExhaustive("time budget reached")
				}
				for _, dv := range e.Diverged {
					rep.HarnessError("non-deterministic observation for %v: %s", names(ms), dv)
				}
				for _, f := range e.Found {
					okN := 0
					for i := 0; i < 5; i++ {
						o, _ := mc.Replay(f.Choices, func(c *mc.Chooser) mc.Outcome { return runOne(t, ms, c) })
						if len(o.Violations) > 0 {
							okN++
						}
					}
					if okN != 5 {
						rep.HarnessError("violation did not reproduce 5/5 (%d): %s", okN, f.What)
						continue
					}
					rep.Violate(map[string]any{"kind": strings.SplitN(f.Sig, ":", 2)[0], "detail": f.Sig},
						map[string]any{"multiset": names(ms), "with_cancel": withCancel, "choices": f.Choices, "schedule": f.Trace}, "%s", f.What)
				}
				if time.Now().After(deadline) {
					rep.NotExhaustive("time budget reached")
					return
				}
			}
		}
	}
}

// ---- free-running race-detector pass (the cooperative explorer cannot see memory-model races) ---------------------------

func TestRace(t *testing.T) {
	rep := ev.New("C16", "model_checking")
	defer rep.Write()
	racepass.Parent(t, rep, "TestRaceWorkload", []string{"pkg/proxyserver", "pkg/metadata", "pkg/hack", "pkg/fingerprint", "pkg/reverseproxy", "fingerproxy."},
		"unsynchronised concurrent access in the proxy's own code while connections of every kind run at once and the server shuts down")
}

func TestRaceWorkload(t *testing.T) {
	if !racepass.IsChild() {
		t.Skip("only run as a child of TestRace")
	}
	rounds := 40
	if ev.Thorough() {
		rounds = 200
	}
	raceload.Mixed(t, rounds)
}
