//go:build verif

// C17 — shutdown stops service and returns once HTTP/1.1 exchanges have drained.
package c17

import (
	"errors"
	"fmt"
	"net/http"
	"strings"
	"sync"
	"testing"
	"testing/synctest"
	"time"
	"verif/raceload"
	"verif/racepass"

	utls "github.com/refraction-networking/utls"
	"verif/bubble"
	"verif/ev"
	"verif/mc"
)

var (
	helloH2 = bubble.Hello{Name: "chrome", ID: &utls.HelloChrome_120, ALPN: []string{"h2", "http/1.1"}, SNI: "localhost"}
	helloH1 = bubble.Hello{Name: "firefox", ID: &utls.HelloFirefox_120, ALPN: []string{"http/1.1"}, SNI: "localhost"}
)

type world struct {
	st               *bubble.Stack
	cancelled        bool
	cancelAt         time.Time
	mu               sync.Mutex
	holding          map[string]chan struct{} // path -> release channel (handler parked in the backend)
	entered          map[string]bool
	released         map[string]bool
	afterCancelPaths map[string]bool // requests sent on connections that were dialled after cancel
}

func (w *world) hold(r *bubble.RecReq) {
	if !strings.HasPrefix(r.Path, "/hold") {
		return
	}
	w.mu.Lock()
	ch := make(chan struct{})
	w.holding[r.Path] = ch
	w.entered[r.Path] = true
	w.mu.Unlock()
	<-ch
}

func (w *world) release(path string) {
	w.mu.Lock()
	ch := w.holding[path]
	delete(w.holding, path)
	w.released[path] = true
	w.mu.Unlock()
	if ch != nil {
		close(ch)
	}
}

func (w *world) h1Holding() bool {
	w.mu.Lock()
	defer w.mu.Unlock()
	_, ok := w.holding["/hold-h1"]
	return ok
}

type variant struct {
	name         string
	lateServe    bool // Serve is started by an explicit step (cancel may come before it)
	withH2       bool
	doubleCancel bool
	acceptGate   bool // also park the internal HTTP/1.1 server's accept loop between taking a connection and returning it
	byDeadline   bool // the server's context ends like a deadline (context.DeadlineExceeded), not by cancellation
}

func runOne(t *testing.T, v variant, c *mc.Chooser) (out mc.Outcome) {
	viol := func(sig, f string, a ...any) {
		out.Violations = append(out.Violations, fmt.Sprintf(f, a...)+fmt.Sprintf(" [variant %s; trace %v]", v.name, c.Trace()))
		out.Sigs = append(out.Sigs, sig)
	}
	ev.Journal("variant=%s prefix=%v", v.name, c.Prefix())
	res := bubble.Run(t, func() {
		points := []string{"proxyserver.Serve.beforeInShutdown", "proxyserver.Serve.beforeShutdown", "proxyserver.Serve.beforeLnClose",
			"proxyserver.serveConn.beforeSend", "memnet.Listener.Close.after"}
		if v.acceptGate {
			// Only in the variant made for it: with many connections a parked accept loop, a pending hand-off and the
			// cancelled context can become ready in the same select, which Go resolves randomly - nondeterminism the
			// explorer cannot own. With the two HTTP/1.1 clients of this variant no select ever has two ready cases
			// (a sender that finds the context cancelled never finds a receiver, and vice versa); the explorer's
			// re-execution self-check would report it otherwise.
			points = append(points, "hack.ChannelListener.accepted")
		}
		gates := bubble.NewGates(points...)
		gates.HookMemnet()
		defer gates.Uninstall()
		w := &world{holding: map[string]chan struct{}{}, entered: map[string]bool{}, released: map[string]bool{}, afterCancelPaths: map[string]bool{}}
		st := bubble.NewStack(bubble.StackOpts{HandshakeTimeout: 10 * time.Second, NoServe: v.lateServe, EndByDeadline: v.byDeadline})
		w.st = st
		st.Backend.Hold = w.hold
		gates.NameKey(st.Server, "watcher")
		var w1, w2, w3, w4, w4b, w5 *bubble.Client
		actors := []*bubble.Actor{}
		if v.lateServe {
			actors = append(actors, &bubble.Actor{Name: "serve", Steps: []bubble.Step{{Name: "start Serve", Do: func() { st.StartServe() }}}})
		}
		actors = append(actors,
			&bubble.Actor{Name: "w1", Steps: []bubble.Step{
				{Name: "connect (manual)", Do: func() { h := helloH2; h.Manual = true; w1 = st.Connect("w1", nil, h) }},
				{Name: "deliver 50 bytes and stall", Do: func() {
					if w1.Raw != nil {
						w1.Raw.Deliver(50)
					}
				}},
			}},
			&bubble.Actor{Name: "w2", Steps: []bubble.Step{
				{Name: "connect h1", Do: func() { w2 = st.Connect("w2", nil, helloH1) }},
				{Name: "request /idle", Do: func() { w2.SendH1(bubble.Req{Path: "/idle", Host: "localhost"}) }},
			}},
			&bubble.Actor{Name: "w3", Steps: []bubble.Step{
				{Name: "connect h1", Do: func() { w3 = st.Connect("w3", nil, helloH1) }},
				{Name: "request /hold-h1", Do: func() { w3.SendH1(bubble.Req{Path: "/hold-h1", Host: "localhost"}) }},
			}},
		)
		if v.acceptGate {
			// The two clients only connect. A request already waiting on a connection at the moment the parked
			// accept loop lets it through would be served by a new goroutine in the same instant in which
			// http.Server.Shutdown, released by the same Accept returning, looks for idle connections - two runnable
			// goroutines of net/http whose order the explorer does not own. (In-flight and idle-after-exchange
			// connections are the business of the other variants.)
			for _, a := range actors {
				if a.Name == "w2" || a.Name == "w3" {
					a.Steps = a.Steps[:1]
				}
			}
		}
		if v.withH2 {
			actors = append(actors, &bubble.Actor{Name: "w4", Steps: []bubble.Step{
				{Name: "connect h2 + held stream", Do: func() { w4 = st.Connect("w4", nil, helloH2) }},
				{Name: "preface + /hold-h2", Do: func() { w4.StartH2(); w4.SendH2(1, bubble.Req{Path: "/hold-h2", Host: "localhost"}) }},
				{Name: "idle h2 connect", Do: func() { w4b = st.Connect("w4b", nil, helloH2) }},
				{Name: "idle h2 preface + /h2idle", Do: func() { w4b.StartH2(); w4b.SendH2(1, bubble.Req{Path: "/h2idle", Host: "localhost"}) }},
			}})
		}
		cancelSteps := []bubble.Step{{Name: "cancel", Do: func() { w.cancelled = true; w.cancelAt = time.Now(); st.Cancel() }}}
		if v.doubleCancel {
			cancelSteps = append(cancelSteps, bubble.Step{Name: "cancel again", Do: func() { st.Cancel() }})
		}
		actors = append(actors,
			&bubble.Actor{Name: "cancel", Steps: cancelSteps},
			&bubble.Actor{Name: "watcher"}, // no environment steps: the cancel watcher's gates are scheduled here
			&bubble.Actor{Name: "w5", Steps: []bubble.Step{
				{Name: "late connect", Enabled: func() bool { return w.cancelled }, Do: func() {
					h := helloH1
					if v.withH2 {
						h = helloH2 // an h2 connection is served by serveConn itself, without the h1 hand-off
					}
					w5 = st.Connect("w5", nil, h)
					w.afterCancelPaths["/late"] = true
				}},
				{Name: "late request", Do: func() {
					if done, err := w5.Handshake(); done && err == nil {
						if v.withH2 {
							w5.StartH2()
							w5.SendH2(1, bubble.Req{Path: "/late", Host: "localhost"})
						} else {
							w5.SendH1(bubble.Req{Path: "/late", Host: "localhost"})
						}
					}
				}},
			}},
			&bubble.Actor{Name: "clock", Steps: []bubble.Step{
				{Name: "+2s", Enabled: func() bool { return w.cancelled }, Do: func() { time.Sleep(2 * time.Second) }},
				{Name: "+2s", Do: func() { time.Sleep(2 * time.Second) }},
			}},
			&bubble.Actor{Name: "w3r", Steps: []bubble.Step{
				{Name: "release /hold-h1", Do: func() { w.release("/hold-h1") }, Enabled: func() bool { return w.h1Holding() }},
			}},
		)
		gates.NameKey(st.Ln, "watcher")
		named := 0
		check := func() bool {
			cls := st.Clients()
			for ; named < len(cls); named++ {
				if cls[named].Srv != nil {
					gates.NameKey(cls[named].Srv, cls[named].Name)
				}
			}
			gates.Rename()
			ret, err := st.ServeReturned()
			if ret {
				if !w.cancelled {
					viol("serve-returned-without-cancel", "Serve returned %v although the context was never cancelled", err)
					return false
				}
				if v.lateServe && err != nil && strings.Contains(err.Error(), "use of closed") {
					// fallthrough to the generic check below
				}
				if !errors.Is(err, http.ErrServerClosed) {
					viol("serve-wrong-error", "Serve returned %q after cancellation, required http.ErrServerClosed", fmt.Sprint(err))
					return false
				}
				if w.h1Holding() {
					viol("serve-returned-with-h1-in-flight", "Serve returned while the HTTP/1.1 exchange /hold-h1 was still in flight")
					return false
				}
				if st.Ln.NumCloses() == 0 {
					viol("listener-not-closed", "Serve returned but the listener was not closed")
					return false
				}
			}
			// nothing dialled after cancel is ever served
			for _, r := range st.Backend.All() {
				if w.afterCancelPaths[r.Path] {
					viol("served-after-cancel", "request %s from a connection attempted after cancellation reached the handler", r.Path)
					return false
				}
			}
			return true
		}
		bubble.ScheduleStrict(c, gates, actors, check)
		if len(out.Violations) > 0 {
			gates.Open()
			for p := range w.holding {
				w.release(p)
			}
			st.Shutdown()
			return
		}
		// deterministic suffix: make sure cancel happened, let every gate go, release the h1 exchange, then give it 10 s
		gates.Open()
		if v.lateServe {
			// Serve may never have been started if the explorer finished early; it always is (actor "serve" has one step)
		}
		if !w.cancelled {
			w.cancelled = true
			st.Cancel()
		}
		synctest.Wait()
		if !check() {
			for p := range w.holding {
				w.release(p)
			}
			st.Shutdown()
			return
		}
		w.release("/hold-h1")
		synctest.Wait()
		for i := 0; i < 5; i++ {
			time.Sleep(2 * time.Second)
			synctest.Wait()
		}
		ret, err := st.ServeReturned()
		if !ret {
			viol("serve-not-returned", "Serve has not returned 10 s after cancellation with no HTTP/1.1 exchange in flight (h2 connections open: %v); goroutines: %v", v.withH2, bubble.CensusSummary())
		} else if !errors.Is(err, http.ErrServerClosed) {
			viol("serve-wrong-error", "Serve returned %q, required http.ErrServerClosed", fmt.Sprint(err))
		} else if st.Ln.NumCloses() == 0 {
			viol("listener-not-closed", "Serve returned but the listener was not closed")
		}
		// the in-flight h1 exchange must have completed normally (if it reached the handler)
		if w3 != nil && w.entered["/hold-h1"] {
			rs := w3.TakeH1Responses()
			if len(rs) != 1 || rs[0].Status != 200 || string(rs[0].Body) != "backend:/hold-h1" {
				viol("inflight-h1-broken", "the HTTP/1.1 exchange in flight at cancellation did not complete normally: %d responses, pending %q", len(rs), w3.Pending())
			}
		}
		// idle h1 connections are closed by the server
		if ret && w2 != nil {
			if done, herr := w2.Handshake(); done && herr == nil && w2.ReadErr() == nil {
				viol("idle-h1-not-closed", "the idle HTTP/1.1 connection is still open after Serve returned")
			}
		}
		check()
		obs := fmt.Sprintf("ret=%v err=%v lnclosed=%v served=%d", ret, err, st.Ln.NumCloses() > 0, st.Backend.Count())
		out.Obs = obs
		for p := range w.holding {
			w.release(p)
		}
		st.Shutdown()
		_ = w1
		_ = w4
		_ = w4b
	})
	if res.Panic != nil {
		if he, ok := res.Panic.(mc.HarnessError); ok {
			panic(he)
		}
		viol("panic", "panic: %v\n%s", res.Panic, res.Stack)
	}
	if res.Hang != "" {
		viol("hang", "%s", res.Hang)
	}
	if res.Deadlock != "" {
		out.Obs += " LEAK"
	}
	return out
}

func TestCheck(t *testing.T) {
	rep := ev.New("C17", "model_checking")
	defer rep.Write()
	shard, of := mc.ShardFromEnv()
	bound := 2
	budget := 70 * time.Second
	if ev.Thorough() {
		bound, budget = 4, 40*time.Minute
	}
	deadline := time.Now().Add(budget)
	variants := []variant{{"h1+h2", false, true, true, false, false}, {"late-serve", true, false, false, false, false}, {"h1-only", false, false, true, false, false}, {"h1-handoff", false, false, false, true, false},
		// library use: a context that ends by deadline (the binary's ends by a signal's cancellation)
		{"h1-only-deadline", false, false, true, false, true}}
	rep.Info["rule"] = "workload actors (stalled handshake, idle h1, h1 exchange in flight, h2 stream in flight + idle h2, late client, clock) with the cancel step moved to every position by deviations; deviation-bounded interleavings of steps and gates (cancel watcher, channel listener, serveConn hand-off)"
	rep.Info["max_deviation_bound_completed"] = bound
	rep.Assume("fake clock; time is observed at 2 s granularity because net/http's Shutdown polls with a jittered interval",
		"interleavings at environment-step and vhook-gate granularity")
	if rq, ok := ev.ReplayRequest(); ok {
		for _, v := range variants {
			if v.name == rq["variant"] {
				o, trace := mc.Replay(ev.Ints(rq["choices"]), func(c *mc.Chooser) mc.Outcome { return runOne(t, v, c) })
				rep.Add("schedules", 1)
				rep.Add("states", int64(len(trace)))
				rep.Add("transitions", int64(len(trace)))
				rep.Add("traces_validated_against_impl", 1)
				rep.Sample(map[string]any{"replayed_schedule": trace, "observation": o.Obs})
				for i, w := range o.Violations {
					rep.Violate(map[string]any{"kind": o.Sigs[i], "variant": v.name}, rq, "%s", w)
				}
			}
		}
		return
	}
	binarySignals(t, rep, shard, of)
	sizes := []int{4, 64, 200}
	if ev.Thorough() {
		sizes = append(sizes, 16, 1000)
	}
	for i, n := range sizes {
		if (i+3)%of == shard {
			manyConnections(t, rep, n)
		}
	}
	if 2%of == shard {
		twoListeners(t, rep)
	}
	for i, n := range []int{1, 16, 40} {
		if (i+6)%of == shard {
			acceptHeldUp(t, rep, n)
		}
	}
	for _, v := range variants {
		e := &mc.Explorer{Bound: bound, Shard: shard, Of: of, Deadline: deadline}
		func() {
			defer func() {
				if r := recover(); r != nil {
					if he, ok := r.(mc.HarnessError); ok {
						rep.HarnessError("%s: %v", v.name, he)
						return
					}
					panic(r)
				}
			}()
			e.Explore(func(c *mc.Chooser) mc.Outcome { return runOne(t, v, c) })
		}()
		rep.Add("schedules", int64(e.Schedules))
		rep.Add("states", int64(e.Points))
		rep.Add("transitions", int64(e.Points))
		rep.Add("traces_validated_against_impl", int64(e.Schedules))
		rep.Add("rechecked", int64(e.Rechecked))
		for k := range e.Outcomes {
			rep.Note("distinct_outcomes", v.name+":"+k)
		}
		for _, s := range e.SampleRuns {
			rep.Sample(map[string]any{"variant": v.name, "schedule": s})
		}
		if e.Capped {
			rep.NotExhaustive("time budget reached in " + v.name)
		}
		for _, dv := range e.Diverged {
			rep.HarnessError("non-deterministic observation in %s: %s", v.name, dv)
		}
		for _, f := range e.Found {
			okN := 0
			for i := 0; i < 5; i++ {
				o, _ := mc.Replay(f.Choices, func(c *mc.Chooser) mc.Outcome { return runOne(t, v, c) })
				if len(o.Violations) > 0 {
					okN++
				}
			}
			if okN != 5 {
				rep.HarnessError("violation did not reproduce 5/5 (%d): %s", okN, f.What)
				continue
			}
			rep.Violate(map[string]any{"kind": f.Sig, "variant": v.name}, map[string]any{"variant": v.name, "choices": f.Choices, "schedule": f.Trace}, "%s", f.What)
		}
	}
}

// ---- free-running race-detector pass (the cooperative explorer cannot see memory-model races) ---------------------------

func TestRace(t *testing.T) {
	rep := ev.New("C17", "model_checking")
	defer rep.Write()
	racepass.Parent(t, rep, "TestRaceWorkload", []string{"pkg/proxyserver", "pkg/metadata", "pkg/hack", "pkg/fingerprint", "pkg/reverseproxy", "fingerproxy."},
		"unsynchronised concurrent access in the proxy's own code while connections of every kind run at once and the server shuts down")
}

func TestRaceWorkload(t *testing.T) {
	if !racepass.IsChild() {
		t.Skip("only run as a child of TestRace")
	}
	rounds := 40
	if ev.Thorough() {
		rounds = 200
	}
	raceload.Mixed(t, rounds)
}
