//go:build verif

package c17

import (
	"errors"
	"fmt"
	"net/http"
	"testing"
	"testing/synctest"
	"time"

	"verif/bubble"
	"verif/ev"
	"verif/memnet"
)

// "Regardless of how many connections are mid-handshake, idle, or open on HTTP/2": the population part. N idle
// HTTP/1.1 keep-alive connections (each has completed an exchange), N/4 idle HTTP/2 connections and N/4 connections
// that stall inside the TLS handshake are open when the context is cancelled; no HTTP/1.1 exchange is in flight.
// Oracle as in the interleaving part: 10 s later Serve has returned the 'server closed' error, the listener is closed,
// every idle HTTP/1.1 connection has been closed by the server, and a client that connects afterwards is not served.
func manyConnections(t *testing.T, rep *ev.Report, n int) {
	desc := fmt.Sprintf("%d idle HTTP/1.1 + %d idle HTTP/2 + %d stalled handshakes at cancellation", n, n/4, n/4)
	res := bubble.Run(t, func() {
		st := bubble.NewStack(bubble.StackOpts{HandshakeTimeout: 10 * time.Second})
		defer st.Shutdown()
		var h1s []*bubble.Client
		for i := 0; i < n; i++ {
			cl := st.Connect(fmt.Sprintf("idle-h1-%d", i), nil, helloH1)
			synctest.Wait()
			cl.SendH1(bubble.Req{Path: fmt.Sprintf("/idle/%d", i), Host: "localhost"})
			synctest.Wait()
			if rs := cl.TakeH1Responses(); len(rs) != 1 || rs[0].Status != 200 {
				rep.HarnessError("%s: exchange %d before cancellation failed", desc, i)
				return
			}
			h1s = append(h1s, cl)
		}
		for i := 0; i < n/4; i++ {
			cl := st.Connect(fmt.Sprintf("idle-h2-%d", i), nil, helloH2)
			synctest.Wait()
			cl.StartH2()
			cl.SendH2(1, bubble.Req{Path: fmt.Sprintf("/h2/%d", i), Host: "localhost"})
			synctest.Wait()
			h := helloH2
			h.Manual = true
			stalled := st.Connect(fmt.Sprintf("stalled-%d", i), nil, h)
			if stalled.Raw != nil {
				stalled.Raw.Deliver(50)
			}
			synctest.Wait()
		}
		served := st.Backend.Count()
		st.Cancel()
		synctest.Wait()
		for i := 0; i < 5; i++ {
			time.Sleep(2 * time.Second)
			synctest.Wait()
		}
		rep.Add("many_connection_cases", 1)
		replay := map[string]any{"idle_h1": n, "idle_h2": n / 4, "stalled_handshakes": n / 4}
		ret, err := st.ServeReturned()
		switch {
		case !ret:
			rep.Violate(map[string]any{"kind": "serve-not-returned", "part": "many-connections"}, replay, "%s: Serve has not returned 10 s after cancellation with no HTTP/1.1 exchange in flight; goroutines: %v", desc, bubble.CensusSummary())
		case !errors.Is(err, http.ErrServerClosed):
			rep.Violate(map[string]any{"kind": "serve-wrong-error", "part": "many-connections"}, replay, "%s: Serve returned %q, required http.ErrServerClosed", desc, fmt.Sprint(err))
		case st.Ln.NumCloses() == 0:
			rep.Violate(map[string]any{"kind": "listener-not-closed", "part": "many-connections"}, replay, "%s: Serve returned but the listener was not closed", desc)
		}
		open := 0
		for _, cl := range h1s {
			if cl.ReadErr() == nil {
				open++
			}
		}
		if ret && open > 0 {
			rep.Violate(map[string]any{"kind": "idle-h1-not-closed", "part": "many-connections"}, replay, "%s: %d idle HTTP/1.1 connections are still open after Serve returned", desc, open)
		}
		late := st.Connect("late", nil, helloH1)
		synctest.Wait()
		if d, e := late.Handshake(); d && e == nil {
			late.SendH1(bubble.Req{Path: "/late", Host: "localhost"})
			synctest.Wait()
		}
		if st.Backend.Count() != served {
			rep.Violate(map[string]any{"kind": "served-after-cancel", "part": "many-connections"}, replay, "%s: a connection attempted after the cancellation was served", desc)
		}
	})
	if res.Panic != nil {
		rep.HarnessError("%s: panic %v\n%s", desc, res.Panic, res.Stack)
	}
	if res.Hang != "" {
		rep.Violate(map[string]any{"kind": "hang", "part": "many-connections"}, map[string]any{"hang": res.Hang}, "%s: %s", desc, res.Hang)
	}
}

// One Server, two listening sockets (say :443 and :8443 - Serve may be called once per listener): cancellation ends
// every Serve call with the 'server closed' error and closes every listening socket; idle connections that came in
// through either are closed, and neither socket serves a later client.
func twoListeners(t *testing.T, rep *ev.Report) {
	desc := "one Server serving two listeners, an idle HTTP/1.1 connection on each, then cancellation"
	res := bubble.Run(t, func() {
		st := bubble.NewStack(bubble.StackOpts{HandshakeTimeout: 10 * time.Second})
		defer st.Shutdown()
		ln1 := st.Ln
		ln2 := memnet.NewListener()
		var ret2 bool
		var err2 error
		go func() {
			err2 = st.Server.Serve(ln2)
			ret2 = true
		}()
		synctest.Wait()
		via := func(ln *memnet.Listener, name string) *bubble.Client {
			st.Ln = ln
			defer func() { st.Ln = ln1 }()
			cl := st.Connect(name, nil, helloH1)
			synctest.Wait()
			return cl
		}
		var idle []*bubble.Client
		for i, ln := range []*memnet.Listener{ln1, ln2} {
			cl := via(ln, fmt.Sprintf("idle-on-listener-%d", i+1))
			cl.SendH1(bubble.Req{Path: fmt.Sprintf("/l%d", i+1), Host: "localhost"})
			synctest.Wait()
			if rs := cl.TakeH1Responses(); len(rs) != 1 || rs[0].Status != 200 {
				rep.HarnessError("%s: the exchange over listener %d before cancellation failed", desc, i+1)
				return
			}
			idle = append(idle, cl)
		}
		served := st.Backend.Count()
		st.Cancel()
		synctest.Wait()
		for i := 0; i < 5; i++ {
			time.Sleep(2 * time.Second)
			synctest.Wait()
		}
		rep.Add("two_listener_cases", 1)
		ret1, err1 := st.ServeReturned()
		for i, x := range []struct {
			ret bool
			err error
			ln  *memnet.Listener
		}{{ret1, err1, ln1}, {ret2, err2, ln2}} {
			replay := map[string]any{"listener": i + 1}
			switch {
			case !x.ret:
				rep.Violate(map[string]any{"kind": "serve-not-returned", "part": "two-listeners"}, replay, "%s: Serve on listener %d has not returned 10 s after cancellation with no HTTP/1.1 exchange in flight", desc, i+1)
			case !errors.Is(x.err, http.ErrServerClosed):
				rep.Violate(map[string]any{"kind": "serve-wrong-error", "part": "two-listeners"}, replay, "%s: Serve on listener %d returned %q, required http.ErrServerClosed", desc, i+1, fmt.Sprint(x.err))
			case x.ln.NumCloses() == 0:
				rep.Violate(map[string]any{"kind": "listener-not-closed", "part": "two-listeners"}, replay, "%s: Serve on listener %d returned but its listening socket was not closed", desc, i+1)
			}
			if idle[i].ReadErr() == nil {
				rep.Violate(map[string]any{"kind": "idle-h1-not-closed", "part": "two-listeners"}, replay, "%s: the idle HTTP/1.1 connection that came in through listener %d is still open 10 s after cancellation", desc, i+1)
			}
			late := via(x.ln, fmt.Sprintf("late-on-listener-%d", i+1))
			if d, e := late.Handshake(); d && e == nil {
				late.SendH1(bubble.Req{Path: "/late", Host: "localhost"})
				synctest.Wait()
			}
		}
		if st.Backend.Count() != served {
			rep.Violate(map[string]any{"kind": "served-after-cancel", "part": "two-listeners"}, map[string]any{}, "%s: a connection attempted after the cancellation was served", desc)
		}
	})
	if res.Panic != nil {
		rep.HarnessError("%s: panic %v\n%s", desc, res.Panic, res.Stack)
	}
	if res.Hang != "" {
		rep.Violate(map[string]any{"kind": "hang", "part": "two-listeners"}, map[string]any{"hang": res.Hang}, "%s: %s", desc, res.Hang)
	}
}

// The internal HTTP/1.1 accept loop is held up (it has taken one connection and not yet returned it to net/http - a
// slow ConnState hook does that) while a burst of HTTP/1.1 connections completes its handshakes and waits to be handed
// over; then the context is cancelled. None of these connections has been served; every one of them must be closed,
// Serve returns the 'server closed' error.
func acceptHeldUp(t *testing.T, rep *ev.Report, burst int) {
	desc := fmt.Sprintf("accept loop of the HTTP/1.1 server held up, %d more HTTP/1.1 connections waiting to be handed over, then cancellation", burst)
	res := bubble.Run(t, func() {
		gates := bubble.NewGates("hack.ChannelListener.accepted")
		defer gates.Uninstall()
		st := bubble.NewStack(bubble.StackOpts{HandshakeTimeout: 10 * time.Second})
		defer st.Shutdown()
		var cls []*bubble.Client
		for i := 0; i <= burst; i++ {
			cls = append(cls, st.Connect(fmt.Sprintf("burst-%d", i), nil, helloH1))
			synctest.Wait()
		}
		if len(gates.ParkedList()) != 1 {
			rep.HarnessError("%s: %d goroutines parked at the accept gate, expected 1", desc, len(gates.ParkedList()))
			return
		}
		st.Cancel()
		synctest.Wait()
		gates.Open()
		synctest.Wait()
		for i := 0; i < 5; i++ {
			time.Sleep(2 * time.Second)
			synctest.Wait()
		}
		rep.Add("accept_held_up_cases", 1)
		replay := map[string]any{"burst": burst}
		if ret, err := st.ServeReturned(); !ret {
			rep.Violate(map[string]any{"kind": "serve-not-returned", "part": "accept-held-up"}, replay, "%s: Serve has not returned 10 s after cancellation", desc)
		} else if !errors.Is(err, http.ErrServerClosed) {
			rep.Violate(map[string]any{"kind": "serve-wrong-error", "part": "accept-held-up"}, replay, "%s: Serve returned %q, required http.ErrServerClosed", desc, fmt.Sprint(err))
		}
		open := 0
		for _, cl := range cls {
			if cl.Srv != nil && cl.Srv.NumCloses() == 0 {
				open++
			}
		}
		if open > 0 {
			rep.Violate(map[string]any{"kind": "idle-h1-not-closed", "part": "accept-held-up"}, replay, "%s: 10 s after cancellation the proxy still holds connections open that were never served (at least one of %d)", desc, burst+1)
		}
		if st.Backend.Count() != 0 {
			rep.HarnessError("%s: a request was served although none was sent", desc)
		}
	})
	if res.Panic != nil {
		rep.HarnessError("%s: panic %v\n%s", desc, res.Panic, res.Stack)
	}
	if res.Hang != "" {
		rep.Violate(map[string]any{"kind": "hang", "part": "accept-held-up"}, map[string]any{"hang": res.Hang}, "%s: %s", desc, res.Hang)
	}
}
