//go:build verif

package c17

// Process-level part of C17: "SIGINT or SIGTERM in the binary". The rest of the check cancels the server's context
// directly; this part runs the real fingerproxy.Run() in a child process (this test binary re-executed) and delivers
// every signal history over {SIGINT, SIGTERM} up to length 3, in every phase of a small workload, to the process:
//
//	phase none      no connection was ever made (first signal right after start-up, or once the port accepts)
//	phase idle-h1   one HTTP/1.1 keep-alive connection has completed an exchange and sits idle
//	phase idle-h2   one HTTP/2 connection is open (preface and SETTINGS exchanged)
//	phase inflight  one HTTP/1.1 exchange is in flight (held inside a header injector of the child until released)
//
// and, for the signals after the first, either back to back or once the child has logged that it is shutting down.
// The oracle is the statement: the child stays alive while the exchange is in flight, the client of that exchange
// gets its response, idle HTTP/1.1 connections are closed, and the process ends by itself (exit status 0, after
// logging the 'server closed' error) once nothing is in flight. All waits are bounded by binaryPatience of real
// time, three to four orders of magnitude above what the unchanged tree needs; nothing else depends on wall-clock.

import (
	"bufio"
	"bytes"
	"crypto/tls"
	"fmt"
	"io"
	"net"
	"net/http"
	"os"
	"os/exec"
	"path/filepath"
	"strings"
	"sync"
	"syscall"
	"testing"
	"time"

	fingerproxy "github.com/wi1dcard/fingerproxy"
	"github.com/wi1dcard/fingerproxy/pkg/reverseproxy"
	"verif/bubble"
	"verif/ev"
	"verif/mc"
	"verif/ref/h2wire"
)

const binaryPatience = 30 * time.Second

// ---- child ---------------------------------------------------------------------------------------------------------

type holdInjector struct{ release chan struct{} }

func (h *holdInjector) GetHeaderName() string { return "X-Verif-Hold" }
func (h *holdInjector) GetHeaderValue(req *http.Request) (string, error) {
	if strings.HasPrefix(req.URL.Path, "/hold") {
		fmt.Fprintln(os.Stderr, "VERIF-HELD")
		<-h.release
	}
	return "1", nil
}

func TestMain(m *testing.M) {
	if os.Getenv("VERIF_C17_CHILD") != "1" {
		os.Exit(m.Run())
	}
	h := &holdInjector{release: make(chan struct{})}
	go func() { // one byte on stdin releases every held exchange
		var b [1]byte
		os.Stdin.Read(b[:])
		close(h.release)
	}()
	def := fingerproxy.GetHeaderInjectors
	fingerproxy.GetHeaderInjectors = func() []reverseproxy.HeaderInjector { return append(def(), h) }
	os.Args = append([]string{"fingerproxy"}, strings.Split(os.Getenv("VERIF_C17_ARGS"), "\x1f")...)
	fingerproxy.Run()
	os.Exit(0) // what cmd/main.go does when Run returns
}

// ---- parent --------------------------------------------------------------------------------------------------------

type logTail struct {
	mu   sync.Mutex
	buf  bytes.Buffer
	cond chan struct{}
}

func (l *logTail) Write(p []byte) (int, error) {
	l.mu.Lock()
	l.buf.Write(p)
	ch := l.cond
	l.cond = make(chan struct{})
	l.mu.Unlock()
	close(ch)
	return len(p), nil
}

func (l *logTail) String() string { l.mu.Lock(); defer l.mu.Unlock(); return l.buf.String() }

// waitFor waits until the log contains s, the process has ended, or patience runs out.
func (l *logTail) waitFor(s string, dead <-chan struct{}) bool {
	deadline := time.After(binaryPatience)
	for {
		l.mu.Lock()
		has, ch := strings.Contains(l.buf.String(), s), l.cond
		l.mu.Unlock()
		if has {
			return true
		}
		select {
		case <-ch:
		case <-dead:
			return strings.Contains(l.String(), s)
		case <-deadline:
			return false
		}
	}
}

type binCase struct {
	phase string
	sigs  []syscall.Signal
	paced int  // 0: signals back to back; 1: later signals wait for the "is shutting down" log line; 2: and 100 ms more
	early bool // phase none only: first signal as soon as Run has logged its start-up line
	host  bool // -listen-addr names a host (localhost:port) instead of an address literal
}

func (c binCase) String() string {
	var s []string
	for _, g := range c.sigs {
		s = append(s, map[syscall.Signal]string{syscall.SIGINT: "INT", syscall.SIGTERM: "TERM"}[g])
	}
	mode := []string{"back-to-back", "paced", "settled"}[c.paced]
	if c.early {
		mode += ",early"
	}
	if c.host {
		mode += ",listen-addr=localhost"
	}
	return fmt.Sprintf("binary phase=%s signals=%s %s", c.phase, strings.Join(s, ","), mode)
}

func binCases() []binCase {
	var seqs [][]syscall.Signal
	var gen func(cur []syscall.Signal)
	gen = func(cur []syscall.Signal) {
		if len(cur) > 0 {
			seqs = append(seqs, append([]syscall.Signal{}, cur...))
		}
		if len(cur) == 3 {
			return
		}
		for _, g := range []syscall.Signal{syscall.SIGTERM, syscall.SIGINT} {
			gen(append(cur, g))
		}
	}
	gen(nil)
	var out []binCase
	for _, ph := range []string{"none", "idle-h1", "idle-h2", "inflight"} {
		for _, sq := range seqs {
			for _, paced := range []int{0, 1, 2} {
				if paced > 0 && len(sq) == 1 {
					continue
				}
				out = append(out, binCase{phase: ph, sigs: sq, paced: paced})
				if ph == "none" {
					out = append(out, binCase{phase: ph, sigs: sq, paced: paced, early: true})
					if paced == 0 {
						out = append(out, binCase{phase: ph, sigs: sq, early: true, host: true}, binCase{phase: ph, sigs: sq, host: true})
					}
				}
			}
		}
	}
	return out
}

// Ports come from below the kernel's ephemeral range, so nothing that binds port 0 (other checks, the children's
// own metrics listeners) can take one between the probe and the child's bind; concurrent runs of this check start
// at different offsets, and a child that still loses its port is detected (log line, certificate) and the case re-run.
var nextPort = -1

func freePort() int {
	if nextPort < 0 {
		// every shard of one run has its own 700 ports; runs started at the same time differ by their process ids
		shard, _ := mc.ShardFromEnv()
		nextPort = 20000 + (shard%16)*700 + (os.Getpid()*7)%300
	}
	for {
		nextPort++
		if nextPort >= 32000 {
			nextPort = 20000
		}
		l, err := net.Listen("tcp", fmt.Sprintf("127.0.0.1:%d", nextPort))
		if err != nil {
			continue
		}
		l.Close()
		return nextPort
	}
}

type binResult struct {
	violations []string // "kind\x00text"
	retry      bool     // environment trouble (port taken): run the case again
	lateSignal bool     // a signal of the history arrived after the serve call had returned and ended the process
	harness    string
}

func (r *binResult) violate(kind, format string, a ...any) {
	r.violations = append(r.violations, kind+"\x00"+fmt.Sprintf(format, a...))
}

var errNotOurChild = fmt.Errorf("the port is served by another process")

func runBinary(c binCase, dir string, certDER []byte, backendURL string) (res binResult) {
	port := freePort()
	addr := fmt.Sprintf("127.0.0.1:%d", port)
	listen := addr
	if c.host {
		listen = fmt.Sprintf("localhost:%d", port)
	}
	args := []string{"-listen-addr", listen, "-forward-url", backendURL, "-cert-filename", filepath.Join(dir, "tls.crt"), "-certkey-filename", filepath.Join(dir, "tls.key"),
		"-metrics-listen-addr", "127.0.0.1:0", "-verbose"}
	cmd := exec.Command(os.Args[0])
	cmd.Env = append(os.Environ(), "VERIF_C17_CHILD=1", "VERIF_C17_ARGS="+strings.Join(args, "\x1f"))
	lg := &logTail{cond: make(chan struct{})}
	cmd.Stderr, cmd.Stdout = lg, lg
	stdin, err := cmd.StdinPipe()
	if err != nil {
		res.harness = err.Error()
		return
	}
	if err := cmd.Start(); err != nil {
		res.harness = err.Error()
		return
	}
	dead := make(chan struct{})
	var waitErr error
	go func() { waitErr = cmd.Wait(); close(dead) }()
	defer func() {
		cmd.Process.Kill()
		<-dead
	}()
	alive := func() bool {
		select {
		case <-dead:
			return false
		default:
			return true
		}
	}
	if !lg.waitFor("server listening on "+listen, dead) {
		res.harness = "child did not start: " + lg.String()
		return
	}
	dial := func(alpn string) (*tls.Conn, error) {
		d := &net.Dialer{Timeout: binaryPatience}
		cn, err := tls.DialWithDialer(d, "tcp", addr, &tls.Config{InsecureSkipVerify: true, NextProtos: []string{alpn}})
		if err == nil && !bytes.Equal(cn.ConnectionState().PeerCertificates[0].Raw, certDER) {
			cn.Close()
			return nil, errNotOurChild
		}
		return cn, err
	}
	lostPort := func(err error) bool {
		return err == errNotOurChild || strings.Contains(lg.String(), "address already in use") || strings.Contains(err.Error(), "does not look like a TLS handshake")
	}
	if !c.early {
		// wait until the port accepts
		deadline := time.Now().Add(binaryPatience)
		for {
			cn, err := net.DialTimeout("tcp", listen, time.Second) // (by name where the server listens by name)
			if err == nil {
				cn.Close()
				break
			}
			if !alive() || time.Now().After(deadline) {
				if strings.Contains(lg.String(), "address already in use") {
					res.retry = true
				} else {
					res.harness = "child never accepted on " + addr + ": " + lg.String()
				}
				return
			}
			time.Sleep(5 * time.Millisecond)
		}
	}
	get := func(cn net.Conn, path string) error {
		_, err := fmt.Fprintf(cn, "GET %s HTTP/1.1\r\nHost: localhost\r\n\r\n", path)
		return err
	}
	var idle, held *tls.Conn
	var heldReader *bufio.Reader
	switch c.phase {
	case "idle-h1":
		cn, err := dial("http/1.1")
		if err != nil {
			if lostPort(err) {
				res.retry = true
			} else {
				res.harness = "dial: " + err.Error()
			}
			return
		}
		defer cn.Close()
		br := bufio.NewReader(cn)
		get(cn, "/warm")
		cn.SetReadDeadline(time.Now().Add(binaryPatience))
		rsp, err := http.ReadResponse(br, nil)
		if err != nil {
			res.harness = "warm-up exchange: " + err.Error()
			return
		}
		io.Copy(io.Discard, rsp.Body)
		idle = cn
	case "idle-h2":
		cn, err := dial("h2")
		if err != nil {
			if lostPort(err) {
				res.retry = true
			} else {
				res.harness = "dial: " + err.Error()
			}
			return
		}
		defer cn.Close()
		cn.Write(append([]byte(h2wire.Preface), h2wire.Settings()...))
		cn.SetReadDeadline(time.Now().Add(binaryPatience))
		var hdr [9]byte
		if _, err := io.ReadFull(cn, hdr[:]); err != nil { // the server's SETTINGS: the connection is up
			res.harness = "h2 start: " + err.Error()
			return
		}
	case "inflight":
		cn, err := dial("http/1.1")
		if err != nil {
			if lostPort(err) {
				res.retry = true
			} else {
				res.harness = "dial: " + err.Error()
			}
			return
		}
		defer cn.Close()
		get(cn, "/hold")
		if !lg.waitFor("VERIF-HELD", dead) {
			res.harness = "exchange never reached the injector: " + lg.String()
			return
		}
		held, heldReader = cn, bufio.NewReader(cn)
	}
	// ---- the signal history
	for i, g := range c.sigs {
		if i > 0 && c.paced > 0 {
			if !lg.waitFor("is shutting down", dead) && alive() {
				res.violate("no-shutdown-after-signal", "%v: %v after the first signal the process has not begun to shut down", c, binaryPatience)
				return
			}
			if c.paced == 2 {
				time.Sleep(100 * time.Millisecond) // whatever the first signal set in motion has settled
			}
		}
		if !alive() {
			break
		}
		cmd.Process.Signal(g)
	}
	// ---- while the exchange is in flight
	if c.phase == "inflight" {
		if !lg.waitFor("is shutting down", dead) && alive() {
			res.violate("no-shutdown-after-signal", "%v: %v after the signals the process has not begun to shut down", c, binaryPatience)
			return
		}
		// a connection attempted now is not served
		if cn, err := dial("http/1.1"); err == nil {
			get(cn, "/after")
			cn.SetReadDeadline(time.Now().Add(300 * time.Millisecond))
			if rsp, err := http.ReadResponse(bufio.NewReader(cn), nil); err == nil {
				res.violate("served-after-signal", "%v: a connection made after the signals, while an exchange was draining, was served (status %d)", c, rsp.StatusCode)
			}
			cn.Close()
		}
		if !alive() {
			res.violate("died-with-exchange-in-flight", "%v: the process ended (%v) while an HTTP/1.1 exchange was still in flight", c, waitErr)
			return
		}
		stdin.Write([]byte{1}) // release the exchange
		held.SetReadDeadline(time.Now().Add(binaryPatience))
		rsp, err := http.ReadResponse(heldReader, nil)
		if err != nil {
			res.violate("inflight-exchange-cut", "%v: the exchange in flight at the time of the signals got no response: %v (process: alive=%v %v)", c, err, alive(), waitErr)
		} else {
			io.Copy(io.Discard, rsp.Body)
		}
	}
	// ---- nothing is in flight: the process ends by itself
	select {
	case <-dead:
	case <-time.After(binaryPatience):
		res.violate("no-return", "%v: %v after the signals, with no exchange in flight, the process is still running; log:\n%s", c, binaryPatience, lg.String())
		return
	}
	if strings.Contains(lg.String(), "address already in use") {
		res.retry = true
		return
	}
	if waitErr != nil && strings.Contains(lg.String(), http.ErrServerClosed.Error()) && strings.Contains(waitErr.Error(), "signal:") {
		// The serve call had returned the standard error (Run logs it) before a LATER signal of the history met a
		// process that no longer catches signals (e.g. `defer stop()` of signal.NotifyContext runs when Run returns,
		// before the process has exited). The statement ends at the return of the serve call: counted, not judged.
		res.lateSignal = true
	} else if waitErr != nil {
		res.violate("abnormal-exit", "%v: the process ended with %v instead of returning from Run; log:\n%s", c, waitErr, lg.String())
	} else if !strings.Contains(lg.String(), http.ErrServerClosed.Error()) {
		if strings.Contains(lg.String(), "address already in use") {
			res.retry = true
			return
		}
		res.violate("wrong-serve-error", "%v: Run returned without the serve call reporting %q; log:\n%s", c, http.ErrServerClosed.Error(), lg.String())
	}
	if idle != nil {
		idle.SetReadDeadline(time.Now().Add(binaryPatience))
		var b [1]byte
		if n, err := idle.Read(b[:]); n != 0 || err == nil || os.IsTimeout(err) {
			res.violate("idle-h1-not-closed", "%v: the idle HTTP/1.1 connection was not closed (read n=%d err=%v)", c, n, err)
		}
	}
	if cn, err := net.DialTimeout("tcp", listen, time.Second); err == nil {
		cn.Close()
		res.violate("still-listening", "%v: %s still accepts connections after the process reported 'server closed'", c, addr)
	}
	return
}

func binarySignals(t *testing.T, rep *ev.Report, shard, of int) {
	dir := t.TempDir()
	cert, cp, kp := bubble.GenCert("localhost", 7)
	os.WriteFile(filepath.Join(dir, "tls.crt"), cp, 0o600)
	os.WriteFile(filepath.Join(dir, "tls.key"), kp, 0o600)
	ln, err := net.Listen("tcp", "127.0.0.1:0")
	if err != nil {
		rep.HarnessError("backend listen: %v", err)
		return
	}
	defer ln.Close()
	go http.Serve(ln, http.HandlerFunc(func(w http.ResponseWriter, r *http.Request) { io.WriteString(w, "ok "+r.URL.Path) }))
	backendURL := "http://" + ln.Addr().String()
	stopped := false
	for i, c := range binCases() {
		if i%of != shard {
			continue
		}
		if stopped {
			// one finding per shard: a history that never returns costs its full patience in every run
			rep.NotExhaustive("signal histories: this shard stopped after its first finding")
			break
		}
		var res binResult
		for try := 0; try < 5; try++ {
			res = runBinary(c, dir, cert.Certificate[0], backendURL)
			if !res.retry {
				break
			}
		}
		rep.Add("binary_signal_histories", 1)
		if res.lateSignal {
			rep.Add("binary_observed_outside_statement_signal_after_serve_returned", 1)
		}
		rep.Note("distinct_outcomes", fmt.Sprintf("binary/%s/%d", c.phase, len(res.violations)))
		if res.harness != "" || res.retry {
			rep.HarnessError("%v: %s (retry=%v)", c, res.harness, res.retry)
			continue
		}
		if i < of {
			rep.Sample(map[string]any{"binary_case": c.String(), "violations": len(res.violations)})
		}
		for _, v := range res.violations {
			kind, text, _ := strings.Cut(v, "\x00")
			// A failing history is run again before it is believed. These are real processes under the kernel's
			// scheduler, so how a failure shows (which of the observations trips first) may differ between runs, and
			// a failure that depends on where a signal lands relative to the child's own goroutines need not show in
			// every run; what must recur at least once in the further runs is that the history fails.
			same, reruns := 0, 4
			if kind == "no-return" || kind == "no-shutdown-after-signal" {
				reruns = 2 // each of these waits out the full patience
			}
			stopped = true
			for k := 0; k < reruns; k++ {
				if r2 := runBinary(c, dir, cert.Certificate[0], backendURL); len(r2.violations) > 0 {
					same++
				}
			}
			if same < 1 {
				rep.HarnessError("%v: %s seen once but only %d/%d times on re-execution: %s", c, kind, same, reruns, text)
				break
			}
			rep.Violate(map[string]any{"kind": "binary-" + kind, "phase": c.phase}, map[string]any{"binary_case": c.String()}, "%s (failed in %d of %d runs)", text, same+1, reruns+1)
			break // one report per history
		}
	}
}
