//go:build verif

package c10

// Many exchanges in flight: one client (an h2 connection with K streams, or K HTTP/1.1 connections) starts K uploads
// and never finishes their bodies, so K requests stay open at the backend - through the reverse-proxy handler and the
// http.Transport exactly as the binary configures them, against a real net/http backend over in-memory connections.
// Another client's plain request must still be served.

import (
	"context"
	"crypto/tls"
	"fmt"
	"net/http"
	"net/url"
	"runtime"
	"testing"
	"testing/synctest"

	"github.com/wi1dcard/fingerproxy"
	"github.com/wi1dcard/fingerproxy/pkg/proxyserver"
	"github.com/wi1dcard/fingerproxy/pkg/reverseproxy"
	"verif/bubble"
	"verif/ev"
	"verif/faults"
	"verif/ref/h2wire"
)

func manyInFlight(t *testing.T, rep *ev.Report, shard, of int) {
	job := 0
	for _, proto := range []string{"h2", "h1"} {
		for _, k := range []int{10, 99, 100, 101, 240} {
			job++
			if job%of != shard {
				continue
			}
			proto, k := proto, k
			desc := fmt.Sprintf("many-in-flight: %d unfinished uploads over %s held open at the backend, then another client's GET", k, proto)
			res := bubble.Run(t, func() {
				fingerproxy.VerifSetFlags(fingerproxy.VerifFlags{Probe: true, Flush: "100ms", Idle: "180s", Read: "60s", Write: "60s", TLSHandshake: "10s"})
				to, _ := url.Parse("http://backend.internal:8080")
				h := fingerproxy.VerifDefaultReverseProxyHTTPHandler(to, fingerproxy.DefaultHeaderInjectors())
				be := bubble.NewRealBackend()
				defer be.Close()
				tr := h.(*reverseproxy.HTTPHandler).VerifReverseProxy().Transport.(*http.Transport)
				tr.DialContext = be.Dial
				tr.Proxy = nil
				defer tr.CloseIdleConnections()
				st := bubble.NewStack(bubble.StackOpts{Handler: h, Build: func(ctx context.Context, hh http.Handler, tc *tls.Config) *proxyserver.Server {
					return fingerproxy.VerifDefaultProxyServer(ctx, hh, tc)
				}})
				defer st.Shutdown()
				var holders []*bubble.Client
				if proto == "h2" {
					a := st.Connect("holder", nil, faults.HelloH2)
					synctest.Wait()
					a.StartH2()
					synctest.Wait()
					for i := 0; i < k; i++ {
						id := uint32(1 + 2*i)
						blk := a.Enc.Block(h2wire.HF{Name: ":method", Value: "POST"}, h2wire.HF{Name: ":scheme", Value: "https"}, h2wire.HF{Name: ":authority", Value: "localhost"},
							h2wire.HF{Name: ":path", Value: "/upload"}, h2wire.HF{Name: "content-length", Value: "100"})
						a.Write(h2wire.Headers(id, blk, false, true, nil, -1))
						a.Write(h2wire.Data(id, []byte("0123456789"), false, -1))
					}
					holders = append(holders, a)
				} else {
					for i := 0; i < k; i++ {
						c := st.Connect(fmt.Sprintf("holder-%d", i), nil, faults.HelloH1)
						synctest.Wait()
						c.Write([]byte("POST /upload HTTP/1.1\r\nHost: localhost\r\nContent-Length: 100\r\n\r\n0123456789"))
						holders = append(holders, c)
					}
				}
				synctest.Wait()
				rep.Add("evaluations", 1)
				rep.Note("distinct_nontrivial", desc)
				b := st.Connect("other", nil, faults.HelloH1)
				synctest.Wait()
				b.SendH1(bubble.Req{Path: "/plain", Host: "localhost"})
				synctest.Wait()
				rs := b.TakeH1Responses()
				if len(rs) != 1 || rs[0].Status != 200 || string(rs[0].Body) != "backend:/plain" {
					rep.Violate(map[string]any{"kind": "other-client-not-served", "proto": proto, "held": k}, map[string]any{"desc": desc},
						"%s: the other client's request got %d responses (backend saw %d requests): one client's open exchanges keep every other client from being served", desc, len(rs), be.Count())
				}
				for _, c := range holders {
					c.Abort(nil)
				}
				synctest.Wait()
			})
			if res.Panic != nil {
				rep.Violate(map[string]any{"kind": "panic-escaped", "case_kind": "many-in-flight", "proto": proto}, map[string]any{"desc": desc}, "%s: panic %v\n%s", desc, res.Panic, res.Stack)
			}
			if res.Hang != "" {
				rep.Violate(map[string]any{"kind": "hang", "case_kind": "many-in-flight", "proto": proto}, map[string]any{"desc": desc}, "%s: %s", desc, res.Hang)
			}
		}
	}
}

// volume: one connection carries far more bytes than any per-connection buffer should ever hold (64 MiB of uploads on
// one keep-alive HTTP/1.1 connection, and on one HTTP/2 connection), every exchange complete and correct. While the
// connection is still open the proxy's live heap must not have grown with the volume: memory that grows with what a
// client sends on one connection ends in the process being killed, which takes every other connection down with it.
func volume(t *testing.T, rep *ev.Report, shard, of int) {
	const piece = 48 << 10
	total := 64 << 20
	if ev.Thorough() {
		total = 256 << 20
	}
	for i, proto := range []string{"h1", "h2"} {
		if (i+5)%of != shard {
			continue
		}
		proto := proto
		desc := fmt.Sprintf("volume: %d MiB uploaded in %d KiB requests on one %s connection", total>>20, piece>>10, proto)
		res := bubble.Run(t, func() {
			st := bubble.NewStack(baseOpts())
			defer st.Shutdown()
			st.Backend.Respond = func(r *bubble.RecReq) *bubble.Resp {
				return &bubble.Resp{Status: 200, Body: []byte(fmt.Sprint(len(r.Body)))}
			}
			h := faults.HelloH1
			if proto == "h2" {
				h = faults.HelloH2
			}
			cl := st.Connect("bulk", nil, h)
			synctest.Wait()
			if proto == "h2" {
				cl.StartH2()
				cl.Write(h2wire.WindowUpdate(0, 1<<30))
				synctest.Wait()
			}
			body := make([]byte, piece)
			for i := range body {
				body[i] = byte(i * 7)
			}
			col := bubble.NewH2Collector()
			one := func(n int) bool {
				if proto == "h1" {
					cl.SendH1(bubble.Req{Method: "POST", Path: "/bulk", Host: "localhost", Body: body})
					synctest.Wait()
					rs := cl.TakeH1Responses("POST")
					return len(rs) == 1 && rs[0].Status == 200 && string(rs[0].Body) == fmt.Sprint(piece)
				}
				id := uint32(1 + 2*n)
				cl.SendH2(id, bubble.Req{Method: "POST", Path: "/bulk", Host: "localhost", Body: body})
				synctest.Wait()
				col.Add(cl.Dec, cl.TakeFrames())
				r := col.Resps[id]
				ok := r != nil && r.Ended && r.Status == "200" && string(r.Body) == fmt.Sprint(piece)
				delete(col.Resps, id)
				return ok
			}
			live := func() uint64 {
				st.Backend.Forget()
				runtime.GC()
				runtime.GC()
				var m runtime.MemStats
				runtime.ReadMemStats(&m)
				return m.HeapAlloc
			}
			n := 0
			for ; n < 8; n++ { // warm-up: buffers of their working size
				if !one(n) {
					rep.HarnessError("%s: warm-up exchange %d failed", desc, n)
					return
				}
			}
			before := live()
			for sent := 0; sent < total; sent += piece {
				if !one(n) {
					rep.Violate(map[string]any{"kind": "exchange-failed-under-volume", "proto": proto}, map[string]any{"desc": desc, "exchange": n},
						"%s: exchange %d did not complete correctly", desc, n)
					return
				}
				n++
			}
			after := live()
			rep.Add("evaluations", 1)
			rep.Add("volume_cases", 1)
			rep.Note("distinct_nontrivial", desc)
			growth := int64(after) - int64(before)
			rep.SetMax("volume_live_heap_growth_kib_"+proto, growth>>10)
			if growth > 16<<20 {
				rep.Violate(map[string]any{"kind": "memory-grows-with-connection-volume", "proto": proto}, map[string]any{"desc": desc, "live_heap_before": before, "live_heap_after": after},
					"%s: with the connection still open the live heap grew by %d MiB (from %d to %d KiB); allowed 16 MiB", desc, growth>>20, before>>10, after>>10)
			}
			cl.Close()
		})
		if res.Panic != nil {
			rep.HarnessError("%s: panic %v\n%s", desc, res.Panic, res.Stack)
		}
		if res.Hang != "" {
			rep.Violate(map[string]any{"kind": "hang", "part": "volume"}, map[string]any{"hang": res.Hang}, "%s: %s", desc, res.Hang)
		}
	}
}
