//go:build verif

// C10 — no client behaviour or per-connection failure takes the proxy down.
package c10

import (
	"context"
	"crypto/tls"
	"fmt"
	"net"
	"net/http"
	"strings"
	"testing"
	"testing/synctest"
	"time"

	"github.com/wi1dcard/fingerproxy"
	fp "github.com/wi1dcard/fingerproxy/pkg/fingerprint"
	"github.com/wi1dcard/fingerproxy/pkg/metadata"
	"github.com/wi1dcard/fingerproxy/pkg/proxyserver"
	"github.com/wi1dcard/fingerproxy/pkg/reverseproxy"
	"verif/bubble"
	"verif/ev"
	"verif/faults"
	"verif/mc"
	"verif/ref/h2wire"
)

func baseOpts() bubble.StackOpts {
	return bubble.StackOpts{HandshakeTimeout: 10 * time.Second, Injectors: fingerproxy.DefaultHeaderInjectors()}
}

// binaryOpts: the proxy server as the binary builds it, with the default timeout flags
func binaryOpts() bubble.StackOpts {
	fingerproxy.VerifSetFlags(fingerproxy.VerifFlags{Probe: true, Flush: "100ms", Idle: "180s", Read: "60s", Write: "60s", TLSHandshake: "10s"})
	return bubble.StackOpts{Injectors: fingerproxy.DefaultHeaderInjectors(), Build: func(ctx context.Context, h http.Handler, tc *tls.Config) *proxyserver.Server {
		return fingerproxy.VerifDefaultProxyServer(ctx, h, tc)
	}}
}

// control: a fresh h1 and a fresh h2 client must be served correctly, with their own fingerprints.
func control(st *bubble.Stack, tag string) string {
	for _, proto := range []string{"h1", "h2"} {
		h := faults.HelloH1
		if proto == "h2" {
			h = faults.HelloH2
		}
		cl := st.Connect("control-"+proto, nil, h)
		synctest.Wait()
		if done, err := cl.Handshake(); !done || err != nil {
			return fmt.Sprintf("control %s client could not complete its TLS handshake: done=%v err=%v", proto, done, err)
		}
		path := "/control-" + proto + "-" + tag
		if proto == "h1" {
			cl.SendH1(bubble.Req{Path: path, Host: "localhost"})
		} else {
			cl.StartH2()
			cl.SendH2(1, bubble.Req{Path: path, Host: "localhost"})
		}
		synctest.Wait()
		got := st.Backend.ByPath(path)
		if len(got) != 1 {
			return fmt.Sprintf("control %s request was not forwarded (backend saw it %d times)", proto, len(got))
		}
		md := &metadata.Metadata{ClientHelloRecord: cl.FirstRecord()}
		j3, _ := fp.JA3Fingerprint(md)
		j4, _ := fp.JA4Fingerprint(md)
		if v := got[0].Values("X-JA3-Fingerprint"); len(v) != 1 || v[0] != j3 {
			return fmt.Sprintf("control %s request carries JA3 %v, its own hello gives %s", proto, v, j3)
		}
		if v := got[0].Values("X-JA4-Fingerprint"); len(v) != 1 || v[0] != j4 {
			return fmt.Sprintf("control %s request carries JA4 %v, its own hello gives %s", proto, v, j4)
		}
		if proto == "h1" {
			rs := cl.TakeH1Responses()
			if len(rs) != 1 || rs[0].Status != 200 || string(rs[0].Body) != "backend:"+path {
				return fmt.Sprintf("control h1 client got no/incorrect response (%d)", len(rs))
			}
		} else {
			col := bubble.NewH2Collector()
			col.Add(cl.Dec, cl.TakeFrames())
			r := col.Resps[1]
			if r == nil || r.Status != "200" || string(r.Body) != "backend:"+path {
				return fmt.Sprintf("control h2 client got no/incorrect response: %+v", r)
			}
		}
		cl.Close()
	}
	if ret, err := st.ServeReturned(); ret {
		return fmt.Sprintf("Serve returned (%v): the proxy stopped accepting connections", err)
	}
	return ""
}

type panicCase struct {
	name  string
	proto string
	opts  func() bubble.StackOpts
	// how the victim triggers it
	trigger func(st *bubble.Stack) *bubble.Client
}

type panicInjector struct{}

func (panicInjector) GetHeaderName() string { return "X-Panic-FP" }
func (panicInjector) GetHeaderValue(r *http.Request) (string, error) {
	if strings.HasPrefix(r.URL.Path, "/panic") {
		panic("injected panic in header injector")
	}
	return "ok", nil
}

func victimHello(proto string) bubble.Hello {
	h := faults.HelloH1
	if proto == "h2" {
		h = faults.HelloH2
	}
	h.SNI = "victim.example"
	return h
}

func victimRequest(st *bubble.Stack, proto, path string) *bubble.Client {
	cl := st.Connect("victim", nil, victimHello(proto))
	synctest.Wait()
	if done, err := cl.Handshake(); done && err == nil {
		if proto == "h1" {
			cl.SendH1(bubble.Req{Path: path, Host: "localhost"})
		} else {
			cl.StartH2()
			cl.SendH2(1, bubble.Req{Path: path, Host: "localhost"})
		}
		synctest.Wait()
	}
	return cl
}

func panicCases() []panicCase {
	var out []panicCase
	tlsCase := func(name string, mod func(tc *tls.Config)) {
		for _, proto := range []string{"h1", "h2"} {
			proto := proto
			out = append(out, panicCase{name, proto, func() bubble.StackOpts {
				o := baseOpts()
				tc := bubble.DefaultTLS()
				mod(tc)
				o.TLS = tc
				return o
			}, func(st *bubble.Stack) *bubble.Client { return victimRequest(st, proto, "/x") }})
		}
	}
	tlsCase("tls.GetConfigForClient", func(tc *tls.Config) {
		tc.GetConfigForClient = func(chi *tls.ClientHelloInfo) (*tls.Config, error) {
			if chi.ServerName == "victim.example" {
				panic("injected panic in GetConfigForClient")
			}
			return nil, nil
		}
	})
	tlsCase("tls.GetCertificate", func(tc *tls.Config) {
		cert := bubble.ServerCert()
		tc.Certificates = nil
		tc.GetCertificate = func(chi *tls.ClientHelloInfo) (*tls.Certificate, error) {
			if chi.ServerName == "victim.example" {
				panic("injected panic in GetCertificate")
			}
			return &cert, nil
		}
	})
	tlsCase("tls.VerifyConnection", func(tc *tls.Config) {
		tc.VerifyConnection = func(cs tls.ConnectionState) error {
			if cs.ServerName == "victim.example" {
				panic("injected panic in VerifyConnection")
			}
			return nil
		}
	})
	for _, proto := range []string{"h1", "h2"} {
		proto := proto
		for _, state := range []http.ConnState{http.StateNew, http.StateActive, http.StateIdle, http.StateClosed} {
			state := state
			out = append(out, panicCase{"http.Server.ConnState/" + state.String(), proto, func() bubble.StackOpts {
				o := baseOpts()
				o.Configure = func(s *proxyserver.Server) {
					s.HTTPServer.ConnState = func(c net.Conn, cs http.ConnState) {
						if cs == state && strings.HasPrefix(c.RemoteAddr().String(), "10.66.") {
							panic("injected panic in ConnState hook")
						}
					}
				}
				return o
			}, func(st *bubble.Stack) *bubble.Client {
				cl := st.Connect("victim", &net.TCPAddr{IP: net.ParseIP("10.66.0.1"), Port: 4000}, victimHello(proto))
				synctest.Wait()
				if done, err := cl.Handshake(); done && err == nil {
					if proto == "h1" {
						cl.SendH1(bubble.Req{Path: "/x", Host: "localhost"})
					} else {
						cl.StartH2()
						cl.SendH2(1, bubble.Req{Path: "/x", Host: "localhost"})
					}
					synctest.Wait()
					cl.Close()
					synctest.Wait()
				}
				return cl
			}})
		}
		out = append(out, panicCase{"header injector", proto, func() bubble.StackOpts {
			o := baseOpts()
			o.Injectors = append(fingerproxy.DefaultHeaderInjectors(), panicInjector{})
			return o
		}, func(st *bubble.Stack) *bubble.Client { return victimRequest(st, proto, "/panic-injector") }})
		out = append(out, panicCase{"IsProbeRequest", proto, func() bubble.StackOpts {
			o := baseOpts()
			o.Probe = func(r *http.Request) bool {
				if strings.HasPrefix(r.URL.Path, "/panic") {
					panic("injected panic in IsProbeRequest")
				}
				return reverseproxy.IsKubernetesProbeRequest(r)
			}
			return o
		}, func(st *bubble.Stack) *bubble.Client { return victimRequest(st, proto, "/panic-probe") }})
		out = append(out, panicCase{"backend transport (request handler)", proto, func() bubble.StackOpts {
			return baseOpts()
		}, func(st *bubble.Stack) *bubble.Client {
			st.Backend.Hold = func(r *bubble.RecReq) {
				if strings.HasPrefix(r.Path, "/panic") {
					panic("injected panic in the request handler (transport)")
				}
			}
			return victimRequest(st, proto, "/panic-handler")
		}})
		out = append(out, panicCase{"ReverseProxy.ModifyResponse", proto, func() bubble.StackOpts { return baseOpts() },
			func(st *bubble.Stack) *bubble.Client {
				st.RP.VerifReverseProxy().ModifyResponse = func(r *http.Response) error {
					if strings.HasPrefix(r.Request.URL.Path, "/panic") {
						panic("injected panic in ModifyResponse")
					}
					return nil
				}
				return victimRequest(st, proto, "/panic-modify")
			}})
	}
	return out
}

func TestCheck(t *testing.T) {
	rep := ev.New("C10", "fault_enumeration")
	defer rep.Write()
	shard, of := mc.ShardFromEnv()
	stride := 8
	if ev.Thorough() {
		stride = 1
	}
	rep.Info["offset_stride"] = stride
	rep.Assume("in-memory transport with a fake clock; injected error values stand for kernel behaviour", "a worker process that dies is attributed to the journaled case by the driver")
	var cases []faults.Case
	var helloH2 []byte
	for _, proto := range []string{"h1", "h2"} {
		nb, nops, hello, err := faults.Measure(t, proto, baseOpts())
		if err != nil {
			rep.HarnessError("measure %s: %v", proto, err)
			return
		}
		if proto == "h2" {
			helloH2 = hello
		}
		for k := 0; k <= int(nb); k++ {
			if k%stride != 0 && k != int(nb) && k >= 8 {
				continue
			}
			cases = append(cases, faults.Case{Kind: "abort-close", Proto: proto, K: k}, faults.Case{Kind: "abort-reset", Proto: proto, K: k})
		}
		for i := 0; i < nops+2; i++ {
			for ei, en := range faults.IOErrorNames {
				if !ev.Thorough() && (i+ei)%2 != 0 {
					continue
				}
				cases = append(cases, faults.Case{Kind: "iofault", Proto: proto, K: i, Err: en})
			}
		}
	}
	for k := 0; k < len(helloH2); k++ {
		for v := 0; v < 3; v++ {
			if !ev.Thorough() && (k+v)%4 != 0 && k >= 12 {
				continue
			}
			cases = append(cases, faults.Case{Kind: "hello-mutation", Proto: "h2", K: k, Val: v})
		}
		if ev.Thorough() || k%4 == 0 || k < 12 {
			cases = append(cases, faults.Case{Kind: "hello-truncation", Proto: "h2", K: k})
		}
	}
	for k := 0; k < faults.H2Frames; k++ {
		for v := 0; v < faults.H2FieldVariants(); v++ {
			cases = append(cases, faults.Case{Kind: "h2-mutation", Proto: "h2", K: k, Val: v})
		}
		cases = append(cases, faults.Case{Kind: "plain-http", K: k, Val: 0}, faults.Case{Kind: "plain-http", K: k, Val: 1})
	}
	for _, k := range []int{0, 3, 5, 100, -1} {
		cases = append(cases, faults.Case{Kind: "stall", Proto: "h1", K: k}, faults.Case{Kind: "stall", Proto: "h2", K: k})
	}
	for k := 0; k < 6; k++ {
		for _, n := range []int{300, 10050} {
			if !ev.Thorough() && n > 300 && k > 1 {
				continue
			}
			cases = append(cases, faults.Case{Kind: "h2-flood", Proto: "h2", K: k, Val: n})
		}
	}
	// the ClientHello split over two records at every offset (quick: every offset up to 160, then every 8th)
	for _, proto := range []string{"h1", "h2"} {
		for k := 1; k < 700; k++ {
			if ev.Thorough() || k <= 160 || k%8 == 0 {
				cases = append(cases, faults.Case{Kind: "hello-fragmented", Proto: proto, K: k})
			}
		}
	}
	for _, k := range []int{0, 1, 10, 23, 24, 30} {
		cases = append(cases, faults.Case{Kind: "stall-after-handshake", Proto: "h2", K: k}, faults.Case{Kind: "stall-after-handshake", Proto: "h1", K: k})
	}
	for k := 0; k < 3; k++ {
		cases = append(cases, faults.Case{Kind: "h1-upgrade", Proto: "h1", K: k})
	}
	for k := range faults.H2RareNames {
		cases = append(cases, faults.Case{Kind: "h2-rare", Proto: "h2", K: k})
	}
	for _, sf := range faults.H2ShortFrames() {
		cases = append(cases, faults.Case{Kind: "h2-short-frame", Proto: "h2", K: sf[0], Val: sf[1]})
	}
	for _, proto := range []string{"h1", "h2"} {
		for _, k := range []int{0} { // no fake time may pass while the proxy is blocked writing: the ReverseProxy flush timer goroutine would then wait for a mutex held by the blocked writer, which testing/synctest never sees as durable (the clock stops)
			for v := 0; v < 3; v++ {
				cases = append(cases, faults.Case{Kind: "slow-reader", Proto: proto, K: k, Val: v})
			}
		}
	}
	for _, proto := range []string{"h1", "h2"} {
		for _, code := range []int{100, 101, 199, 200, 204, 304, 418, 599, 600, 799, 999} {
			cases = append(cases, faults.Case{Kind: "odd-backend", Proto: proto, K: code, Val: 0})
		}
		cases = append(cases, faults.Case{Kind: "odd-backend", Proto: proto, K: 200, Val: 1})
	}
	for _, k := range []int{1, 9, 20, 60} {
		cases = append(cases, faults.Case{Kind: "abort-many", Proto: "h2", K: k, Val: 0}, faults.Case{Kind: "abort-many", Proto: "h2", K: k, Val: 1})
	}
	// a backend slower than the proxy's own timeouts (server built by the binary's constructor: write/read 60 s, idle 180 s)
	for _, proto := range []string{"h1", "h2"} {
		for _, k := range []int{30, 61, 125, 200} {
			for v := 0; v < 3; v++ {
				cases = append(cases, faults.Case{Kind: "slow-backend", Proto: proto, K: k, Val: v})
			}
		}
	}
	manyInFlight(t, rep, shard, of)
	volume(t, rep, shard, of)
	pcs := panicCases()
	rep.Info["cases_total"] = len(cases) + len(pcs)
	n := 0
	for _, cs := range cases {
		n++
		if n%of != shard {
			continue
		}
		cs := cs
		ev.Journal("%s", cs)
		opts := baseOpts()
		if cs.Kind == "slow-backend" {
			opts = binaryOpts()
		}
		faults.Bystander = true
		res := faults.Run(t, cs, opts, helloH2, func(env *faults.Env) {
			rep.Add("evaluations", 1)
			rep.Note("distinct_nontrivial", fmt.Sprintf("%s/%s/ops=%d/bytes=%d", cs.Kind, cs.Proto, env.Ops, env.Bytes))
			rep.Sample(map[string]any{"case": cs.String(), "server_io_ops_on_victim_conn": env.Ops, "victim_bytes_on_wire": env.Bytes})
			if env.Problem != "" {
				rep.Violate(map[string]any{"kind": "bystander-harmed", "case_kind": cs.Kind, "proto": cs.Proto}, map[string]any{"case": cs}, "case %s: %s", cs, env.Problem)
			}
			if msg := control(env.St, "x"); msg != "" {
				rep.Violate(map[string]any{"kind": "proxy-broken-after-case", "case_kind": cs.Kind, "proto": cs.Proto}, map[string]any{"case": cs},
					"after case %s: %s", cs, msg)
			}
		})
		if res.Panic != nil {
			rep.Violate(map[string]any{"kind": "panic-escaped", "case_kind": cs.Kind, "proto": cs.Proto}, map[string]any{"case": cs}, "case %s: panic %v\n%s", cs, res.Panic, res.Stack)
		}
		if res.Hang != "" {
			rep.Violate(map[string]any{"kind": "hang", "case_kind": cs.Kind, "proto": cs.Proto}, map[string]any{"case": cs}, "case %s: %s", cs, res.Hang)
		}
		if rep.NumViolations() > 30 {
			break
		}
	}
	for _, pc := range pcs {
		n++
		if n%of != shard {
			continue
		}
		pc := pc
		id := fmt.Sprintf("panic-in-callback/%s/%s", pc.name, pc.proto)
		ev.Journal("%s", id)
		res := bubble.Run(t, func() {
			st := bubble.NewStack(pc.opts())
			defer st.Shutdown()
			// a bystander connection that is open while the panic happens
			by := st.Connect("bystander", nil, faults.HelloH2)
			synctest.Wait()
			by.StartH2()
			by.SendH2(1, bubble.Req{Path: "/by1", Host: "localhost"})
			synctest.Wait()
			v := pc.trigger(st)
			synctest.Wait()
			time.Sleep(15 * time.Second)
			synctest.Wait()
			rep.Add("evaluations", 1)
			rep.Note("distinct_nontrivial", id)
			rep.Sample(map[string]any{"case": id})
			by.SendH2(3, bubble.Req{Path: "/by2", Host: "localhost"})
			synctest.Wait()
			if len(st.Backend.ByPath("/by2")) != 1 {
				rep.Violate(map[string]any{"kind": "bystander-broken", "callback": pc.name, "proto": pc.proto}, map[string]any{"case": id},
					"%s: a connection that was open while the panic happened no longer gets its requests served", id)
			}
			if msg := control(st, "p"); msg != "" {
				rep.Violate(map[string]any{"kind": "proxy-broken-after-case", "case_kind": "panic", "callback": pc.name, "proto": pc.proto}, map[string]any{"case": id}, "after %s: %s", id, msg)
			}
			if v != nil {
				v.Close()
			}
			_ = h2wire.Preface
		})
		if res.Panic != nil {
			rep.Violate(map[string]any{"kind": "panic-escaped", "callback": pc.name, "proto": pc.proto}, map[string]any{"case": id}, "%s: panic escaped to the harness: %v\n%s", id, res.Panic, res.Stack)
		}
	}
}
