//go:build verif

// C09 — forwarding headers tell the backend the truth about the client.
package c09

import (
	"fmt"
	"github.com/wi1dcard/fingerproxy"
	"net"
	"net/http"
	"strings"
	"testing"
	"testing/synctest"

	utls "github.com/refraction-networking/utls"
	"verif/bubble"
	"verif/ev"
	"verif/mc"
	"verif/memnet"
)

// prefill: the connection first carries many distinct uncommon header names (per-connection caches / HPACK tables non-initial)
var prefill bool

type opt struct {
	name  string
	lines [][2]string
}

func opts3(h string) []opt {
	return []opt{{"none", nil}, {"one", [][2]string{{h, "c-" + h + "-1"}}}, {"two", [][2]string{{h, "c-" + h + "-1"}, {h, "c-" + h + "-2"}}}}
}

var xffOpts = []opt{
	{"none", nil},
	{"one", [][2]string{{"X-Forwarded-For", "198.51.100.7"}}},
	{"two", [][2]string{{"X-Forwarded-For", "198.51.100.7"}, {"X-Forwarded-For", "203.0.113.9"}}},
	{"list", [][2]string{{"X-Forwarded-For", "198.51.100.7, 203.0.113.9,192.0.2.1"}}},
}

func flatten(vals []string) []string {
	var out []string
	for _, v := range vals {
		for _, p := range strings.Split(v, ",") {
			out = append(out, strings.TrimSpace(p))
		}
	}
	return out
}

type peer struct {
	name string
	addr net.Addr
	ip   string
}

func TestCheck(t *testing.T) {
	rep := ev.New("C09", "exploration")
	defer rep.Write()
	shard, of := mc.ShardFromEnv()
	hosts := []string{"localhost", "example.com:8443", "[2001:db8::2]:443"}
	peers := []peer{{"v4", memnet.TCPAddr("192.0.2.44", 51000), "192.0.2.44"}, {"v6", memnet.TCPAddr("2001:db8::99", 51001), "2001:db8::99"}}
	job := 0
	for _, preserve := range []bool{false, true} {
		for _, pr := range peers {
			for _, proto := range []string{"h1", "h2"} {
				for _, xff := range xffOpts {
					job++
					if job%of != shard {
						continue
					}
					prefill = false
					runGroup(t, rep, preserve, pr, proto, xff, hosts)
					if ev.Thorough() || job%3 == 0 {
						prefill = true
						runGroup(t, rep, preserve, pr, proto, xff, hosts)
						prefill = false
					}
				}
			}
		}
	}
}

type failing struct {
	name string
	fail bool
}

func (f failing) GetHeaderName() string { return f.name }
func (f failing) GetHeaderValue(*http.Request) (string, error) {
	if f.fail {
		return "", fmt.Errorf("no fingerprint for this connection")
	}
	return "", nil
}

func runGroup(t *testing.T, rep *ev.Report, preserve bool, pr peer, proto string, xff opt, hosts []string) {
	res := bubble.Run(t, func() {
		so := bubble.StackOpts{PreserveHost: preserve}
		if prefill {
			// the second pass also has injectors that produce nothing: one fails, one returns the empty string
			so.Injectors = append(fingerproxy.DefaultHeaderInjectors(), failing{"X-Failing-FP", true}, failing{"X-Empty-FP", false})
			// ... and the proxy server is given an http.Server of the caller's own after NewServer (library use)
			so.OwnHTTPServer = true
		}
		st := bubble.NewStack(so)
		defer st.Shutdown()
		alpn := []string{"http/1.1"}
		if proto == "h2" {
			alpn = []string{"h2", "http/1.1"}
		}
		cl := st.Connect(proto, pr.addr, bubble.Hello{Name: "ff", ID: &utls.HelloFirefox_120, ALPN: alpn, SNI: "localhost"})
		synctest.Wait()
		if done, err := cl.Handshake(); !done || err != nil {
			rep.HarnessError("handshake: %v %v", done, err)
			return
		}
		if proto == "h2" {
			cl.StartH2()
			synctest.Wait()
		}
		col := bubble.NewH2Collector()
		stream := uint32(1)
		n := 0
		if prefill {
			// the connection first carries a request with many distinct, long, uncommon header names
			var fl [][2]string
			for i := 0; i < 48; i++ {
				fl = append(fl, [2]string{fmt.Sprintf("X-Filler-Header-Name-Number-%02d-%s", i, strings.Repeat("z", 40)), "f"})
			}
			rq := bubble.Req{Path: "/fill", Host: "localhost", Lines: fl}
			if proto == "h1" {
				cl.SendH1(rq)
			} else {
				cl.SendH2(stream, rq)
				stream += 2
			}
			synctest.Wait()
			cl.TakeH1Responses()
			col.Add(cl.Dec, cl.TakeFrames())
		}
		for _, fwd := range opts3("Forwarded") {
			for _, xfh := range opts3("X-Forwarded-Host") {
				for _, xfp := range opts3("X-Forwarded-Proto") {
					for _, host := range hosts {
						n++
						var lines [][2]string
						lines = append(lines, xff.lines...)
						lines = append(lines, fwd.lines...)
						lines = append(lines, xfh.lines...)
						lines = append(lines, xfp.lines...)
						lines = append(lines, [2]string{"X-Other", "1"})
						path := fmt.Sprintf("/r%d", n)
						before := st.Backend.Count()
						rq := bubble.Req{Path: path, Host: host, Lines: lines}
						if proto == "h2" && n%2 == 0 {
							rq.Scheme = "http" // legal on a TLS connection (e.g. from an intermediary); the connection is still TLS
						}
						if proto == "h2" && n%5 == 1 {
							// no :authority at all: the host is in the host field (a request translated from HTTP/1.1)
							rq.NoAuthority = true
						}
						if proto == "h2" && n%3 == 0 && !rq.NoAuthority {
							// a Host field next to a differing :authority: the request target is :authority (RFC 9113 section 8.3.1)
							rq.Lines = append(append([][2]string(nil), lines...), [2]string{"Host", "internal-admin.example"})
						}
						if proto == "h1" {
							cl.SendH1(rq)
						} else {
							cl.SendH2(stream, rq)
						}
						synctest.Wait()
						rep.Add("evaluations", 1)
						if proto == "h1" {
							if rs := cl.TakeH1Responses(); len(rs) != 1 || rs[0].Status != 200 {
								rep.HarnessError("h1 response missing for %s (%d) pending=%q", path, len(rs), cl.Pending())
								return
							}
						} else {
							col.Add(cl.Dec, cl.TakeFrames())
							if r := col.Resps[stream]; r == nil || r.Status != "200" {
								rep.HarnessError("h2 response missing for %s: %+v goaway=%v", path, r, col.GoAway)
								return
							}
							stream += 2
						}
						if st.Backend.Count() != before+1 {
							rep.HarnessError("backend saw %d requests for %s", st.Backend.Count()-before, path)
							return
						}
						got := st.Backend.All()[before]
						desc := fmt.Sprintf("%s preserve=%v peer=%s xff=%s fwd=%s xfh=%s xfp=%s host=%s prefilled=%v", proto, preserve, pr.name, xff.name, fwd.name, xfh.name, xfp.name, host, prefill)
						if len(lines) > 1 {
							rep.Note("distinct_nontrivial", desc)
						}
						replay := map[string]any{"proto": proto, "preserve_host": preserve, "peer": pr.addr.String(), "host": host, "client_lines": lines, "backend_header": got.Header}
						// X-Forwarded-For: client's list, then the peer IP last
						want := append(flatten(xff.lines2()), pr.ip)
						gotList := flatten(got.Values("X-Forwarded-For"))
						if strings.Join(gotList, "|") != strings.Join(want, "|") {
							kind := "xff-wrong"
							if len(gotList) == 0 || gotList[len(gotList)-1] != pr.ip {
								kind = "xff-last-not-peer"
							} else if len(gotList) != len(want) {
								kind = "xff-client-list-lost"
							}
							rep.Violate(map[string]any{"kind": kind, "proto": proto}, replay, "%s: X-Forwarded-For at backend %q, required %q", desc, got.Values("X-Forwarded-For"), want)
						}
						if v := got.Values("X-Forwarded-Host"); len(v) != 1 || v[0] != host {
							rep.Violate(map[string]any{"kind": "xfh-wrong", "proto": proto}, replay, "%s: X-Forwarded-Host at backend %q, required exactly [%q]", desc, v, host)
						}
						if v := got.Values("X-Forwarded-Proto"); len(v) != 1 || v[0] != "https" {
							rep.Violate(map[string]any{"kind": "xfp-not-https", "proto": proto}, replay, "%s: X-Forwarded-Proto at backend %q, required exactly [\"https\"]", desc, v)
						}
						if v := got.Values("Forwarded"); len(v) != 0 {
							rep.Violate(map[string]any{"kind": "forwarded-passed-on", "proto": proto}, replay, "%s: client Forwarded header passed on: %q", desc, v)
						}
						if n <= 1 {
							rep.Sample(replay)
						}
					}
				}
			}
		}
	})
	if res.Panic != nil {
		rep.HarnessError("panic: %v\n%s", res.Panic, res.Stack)
	}
	if res.Hang != "" {
		rep.Violate(map[string]any{"kind": "hang"}, map[string]any{"hang": res.Hang}, "the exchange never completed: %s", res.Hang)
	}
	if res.Deadlock != "" {
		rep.HarnessError("goroutines left blocked: %s", res.Deadlock)
	}
}

func (o opt) lines2() []string {
	var v []string
	for _, l := range o.lines {
		v = append(v, l[1])
	}
	return v
}
