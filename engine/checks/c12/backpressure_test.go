//go:build verif

package c12

// Backpressure part of C12: connection-level flow-control credit must be returned also for DATA that arrives while
// the server cannot write (the client does not read, the socket buffer is bounded, so the RST_STREAM(NO_ERROR) the
// server owes after an early response sits in its write queue). Exhaustive over a small grid of response sizes,
// socket-buffer sizes and DATA shapes; each case is one execution on the real serverConn with a peer-side count of
// bytes sent and credit granted, judged after everything has been drained.

import (
	"fmt"
	"io"
	"net/http"
	"strings"
	"testing"
	"testing/synctest"

	"github.com/wi1dcard/fingerproxy/pkg/http2"
	"verif/bubble"
	"verif/ev"
	"verif/ref/h2wire"
)

func backpressure(t *testing.T, rep *ev.Report, shard, of int) {
	// Response sizes: a coarse set, plus every size in a window around the server's 4096-byte write buffer, so that the
	// free space left in that buffer when the RST_STREAM is queued takes every value from 0 up to more than a frame.
	respSizes := []int{0, 100, 5000, 8100, 20000}
	for rs := 3980; rs <= 4100; rs++ {
		respSizes = append(respSizes, rs)
	}
	caps := []int{512, 4096}
	counts := []int{1, 3, 40}
	sizes := []int{1000, 16384}
	pads := []int{-1, 100}
	if !ev.Thorough() {
		counts = []int{1, 40}
	}
	job := 0
	for _, rs := range respSizes {
		for _, cp := range caps {
			for _, k := range counts {
				for _, sz := range sizes {
					for _, pad := range pads {
						if rs >= 3980 && rs <= 4100 && rs != 4080 && !(cp == 512 && k == counts[len(counts)-1] && sz == 16384 && pad == -1) {
							continue // the dense window is swept with one DATA shape only
						}
						job++
						if job%of != shard {
							continue
						}
						desc := fmt.Sprintf("backpressure response=%d cap=%d data=%dx%d pad=%d", rs, cp, k, sz, pad)
						res := bubble.Run(t, func() {
							handler := http.HandlerFunc(func(w http.ResponseWriter, r *http.Request) {
								if strings.HasPrefix(r.URL.Path, "/early") {
									w.Write(make([]byte, rs)) // answer without reading the request body
									return
								}
								io.Copy(io.Discard, r.Body)
								w.WriteHeader(204)
							})
							conn := bubble.StartH2(&http2.Server{}, &http.Server{}, handler)
							defer conn.Close()
							conn.Send([]byte(h2wire.Preface))
							conn.Send(h2wire.Settings(h2wire.Setting{ID: 4, Val: 1 << 20})) // plenty of room for the response
							conn.Send(h2wire.WindowUpdate(0, 1<<20))
							synctest.Wait()
							var granted, sent int64
							absorb := func() {
								for _, f := range conn.Frames() {
									if f.Type == h2wire.TWindowUpdate && f.Stream == 0 {
										granted += int64(f.WindowIncrement())
									}
								}
							}
							absorb() // the server's opening WINDOW_UPDATE raises the window; it is not a refund
							initialGrant := granted
							conn.Send(h2wire.SettingsAck())
							synctest.Wait()
							conn.Sv.SetWriteCap(cp) // from now on the client does not read: the server's writes block after cp bytes
							blk := conn.Enc.Block(h2wire.HF{Name: ":method", Value: "POST"}, h2wire.HF{Name: ":scheme", Value: "https"}, h2wire.HF{Name: ":authority", Value: "x"},
								h2wire.HF{Name: ":path", Value: "/early"})
							conn.Send(h2wire.Headers(1, blk, false, true, nil, -1))
							synctest.Wait()
							for i := 0; i < k; i++ {
								conn.Send(h2wire.Data(1, make([]byte, sz), false, pad))
								n := sz
								if pad >= 0 {
									n += 1 + pad
								}
								sent += int64(n)
								synctest.Wait()
							}
							// the client reads again
							conn.Sv.SetWriteCap(0)
							synctest.Wait()
							absorb()
							conn.Send(h2wire.Ping(false, [8]byte{1}))
							synctest.Wait()
							absorb()
							unreturned := sent - (granted - initialGrant)
							rep.Add("backpressure_cases", 1)
							rep.Add("evaluations", 1)
							rep.Note("distinct_nontrivial", fmt.Sprintf("backpressure/%d/%d/%d/%d/%d/unreturned=%d", rs, cp, k, sz, pad, unreturned))
							if unreturned >= 4096 || unreturned < 0 && false {
								rep.Violate(map[string]any{"kind": "conn-credit-not-returned", "side": "server", "cause": "DATA received while the server's writes were blocked"},
									map[string]any{"case": desc, "sent": sent, "granted_back": granted - initialGrant},
									"%s: the client sent %d flow-controlled bytes on a stream the server had already answered; after everything was drained only %d bytes of connection credit had been returned (un-returned %d, bound 4096)", desc, sent, granted-initialGrant, unreturned)
							}
							if job <= of {
								rep.Sample(map[string]any{"backpressure_case": desc, "sent": sent, "granted_back": granted - initialGrant})
							}
						})
						if res.Panic != nil {
							rep.HarnessError("%s: panic %v\n%s", desc, res.Panic, res.Stack)
						}
						if res.Hang != "" {
							rep.HarnessError("%s: %s", desc, res.Hang)
						}
					}
				}
			}
		}
	}
}
