//go:build verif

// C12 — HTTP/2 flow control is never violated and never leaks window.
//
// Explicit-state breadth-first search over the REAL http2 serverConn
// (bubble.StartH2: Server.ServeConn over memnet inside a testing/synctest
// bubble, raw-frame client verif/ref/h2wire, handlers that write / read /
// close / return on command). Every transition is executed on the real code
// (the action sequence of the state is replayed in a fresh bubble, then the new
// action is applied) and every quiescent state is judged by the peer-side
// flow-control ledger verif/ref/ledger, which sees the frames on the wire only
// (plus how many bytes the handlers wrote / read).
package c12

import (
	"encoding/json"
	"fmt"
	"os"
	"runtime/debug"
	"sort"
	"strconv"
	"strings"
	"sync"
	"testing"
	"time"

	"verif/ev"
	"verif/mc"
	"verif/ref/ledger"
)

const maxW = ledger.MaxWindow

// every recheckEvery-th transition is executed twice and the two results compared (VERIF_C12_RECHECK=1: every one; experiments)
var recheckEvery = func() int64 {
	if n, _ := strconv.Atoi(os.Getenv("VERIF_C12_RECHECK")); n > 0 {
		return int64(n)
	}
	return 50
}()

type result struct {
	key      string
	enabled  []act
	viol     []ledger.Violation
	terminal bool
	trace    []string
	harness  string
	hung     bool // the execution was abandoned (proven deadlock)
	empty    bool // every explored stream is closed and its handler gone (the connection is back to "no open stream")
}

// run executes one action sequence from a fresh connection.
func run(t *testing.T, cfg config, seq []act, keepTrace bool) (res result) {
	ev.Journal("cfg=%s seq=%v", cfg.Name, seqString(seq))
	br := runBubble(t, func() {
		w := newWorld(cfg)
		w.keepTrace = keepTrace
		defer func() {
			w.shutdown()
			if wt := mutexWaiters(); wt != "" {
				res.viol = append(res.viol, ledger.Violation{Kind: "deadlock", Cause: "a mutex of the connection is never released",
					Msg: "after the connection was closed and every handler released, goroutines of the endpoint still wait for a mutex nobody will release: " + wt})
				res.hung = true
			}
		}()
		w.prelude()
		if len(w.viol) == 0 {
			for i, a := range seq {
				ok := false
				for _, e := range w.enabled() {
					if e == a {
						ok = true
						break
					}
				}
				if !ok {
					res.harness = fmt.Sprintf("replay divergence: action %d (%v) of %v is not enabled", i, a, seqString(seq))
					return
				}
				w.apply(a)
				w.settle()
				if len(w.viol) > 0 {
					break
				}
			}
		}
		if w.led.PeerViolated && len(w.viol) == 0 {
			w.drainReads()
		}
		for i := range w.viol {
			w.probeCause(&w.viol[i])
		}
		res.key = w.key()
		res.enabled = w.enabled()
		res.terminal = w.led.Terminal()
		res.empty = !res.terminal && w.empty()
		res.viol = w.viol
		noteObserved(w.led.Observed)
		res.trace = w.trace
	})
	if br.Panic != nil {
		if he, ok := br.Panic.(mc.HarnessError); ok {
			res.harness = he.Msg
		} else {
			res.viol = append(res.viol, ledger.Violation{Kind: "panic", Msg: fmt.Sprintf("panic: %v\n%s", br.Panic, br.Stack)})
		}
	}
	if br.Deadlock != "" {
		res.harness = "goroutines blocked forever at the end of the execution: " + br.Deadlock
	}
	if br.Hang != "" {
		res.viol = append(res.viol, ledger.Violation{Kind: "deadlock", Cause: br.Hang,
			Msg: "the endpoint can never become quiescent again: every goroutine of the connection is blocked and one waits for a mutex nobody will release: " + br.Hang + "\n" + br.HangStack})
		res.hung = true
	}
	if br.Watchdog != "" {
		res.harness = br.Watchdog
	}
	return res
}

// ---------------------------------------------------------------- configurations

func sendConfigs(thorough bool) []config {
	var out []config
	depth, streams := 5, 2
	wr := []int64{1, 5}
	wuk := []int64{1, 7, maxW}
	setv := []int64{0, 5, maxW}
	if thorough {
		depth, streams = 6, 3
		wr = []int64{1, 5, 12}
		wuk = []int64{1, 2, 7, maxW}
		setv = []int64{0, 1, 5, maxW}
	}
	for _, iws := range []int64{0, 1, 5} {
		for _, room := range []int64{-1, 0, 1, 5} {
			out = append(out, config{Name: fmt.Sprintf("send/iws%d/conn%d", iws, room), Mode: "send", IWS0: iws, ConnRoom: room,
				WriteN: wr, WRN: []int64{5}, WUk: wuk, SetV: setv, MaxStreams: streams, Depth: depth})
		}
	}
	// large bodies: the 65535 connection window and the 16384 maximum frame size bind
	out = append(out, config{Name: "send/large", Mode: "send", IWS0: ledger.DefaultWindow, ConnRoom: -1,
		WriteN: []int64{40000}, WUk: []int64{1, 20000}, SetV: []int64{0, 100000}, MFS: []int64{32768}, MaxStreams: 2, Depth: depth})
	return out
}

func recvConfigs(thorough bool) []config {
	var out []config
	depth := 5
	lens := []int64{0, 5, 16384} // 0 with padding: a frame that is charged in full and carries nothing a handler could read
	pads := []int{-1, 255}
	if thorough {
		depth = 6
		lens = []int64{0, 1, 5, 16384}
		pads = []int{-1, 0, 255}
	}
	type pc struct {
		per  int32
		room int64
	}
	for _, c := range []pc{{1, -1}, {10, -1}, {20000, -1}, {20000, 5}, {70000, -1}, {70000, 5}, {70000, 0}} {
		out = append(out, config{Name: fmt.Sprintf("recv/stream%d/conn%d", c.per, c.room), Mode: "recv", PerStream: c.per, PerConn: 65535, RecvRoom: c.room,
			DataLen: lens, Pads: pads, DataEnd: thorough, ReadN: []int64{1, 100000}, ClosedLen: []int64{5, 16384}, MaxStreams: 2, Depth: depth})
	}
	return out
}

// the Transport as subject
func transportConfigs(thorough bool) []tconfig {
	var out []tconfig
	depth := 4
	body := []int64{1, 5}
	wuk := []int64{1, 7, maxW}
	setv := []int64{0, 5, maxW}
	lens := []int64{1, 5, 16384}
	pads := []int{-1, 255}
	if thorough {
		depth = 5
		body = []int64{1, 5, 70000}
		wuk = []int64{1, 2, 7, maxW}
		setv = []int64{0, 1, 5, maxW}
		lens = []int64{0, 1, 5, 16384}
		pads = []int{-1, 0, 1, 255}
	}
	// request bodies against the server's windows
	for _, iws := range []int64{0, 1, 5} {
		for _, room := range []int64{-1, 0, 5} {
			out = append(out, tconfig{Name: fmt.Sprintf("transport/send/iws%d/conn%d", iws, room), SrvIWS: iws, ConnRoom: room, PerStream: 20000, PerConn: 65535,
				BodyN: body, WUk: wuk, SetV: setv, MaxStreams: 2, Depth: depth})
		}
	}
	out = append(out, tconfig{Name: "transport/send/large", SrvIWS: ledger.DefaultWindow, ConnRoom: -1, PerStream: 20000, PerConn: 65535,
		BodyN: []int64{70000}, WUk: []int64{1, 20000}, SetV: []int64{0, 100000}, MaxStreams: 2, Depth: depth})
	// request bodies against a SETTINGS_MAX_FRAME_SIZE the server raises and lowers while a body is being sent
	out = append(out, tconfig{Name: "transport/send/maxframe", SrvIWS: 1 << 20, ConnRoom: -1, PerStream: 20000, PerConn: 65535, SrvMaxFrame: 40000,
		BodyN: []int64{30000}, WUk: []int64{65535}, MaxFrameV: []int64{16384, 40000}, MaxStreams: 1, Depth: depth + 1})
	// fewer stream slots than requests: a request waits inside the Transport while the server changes its settings
	out = append(out, tconfig{Name: "transport/send/maxstreams", SrvIWS: 1000, ConnRoom: -1, PerStream: 20000, PerConn: 65535, SrvMaxStreams: 1,
		BodyN: []int64{2000}, SetV: []int64{5, 100000}, WUk: []int64{7}, MaxStreams: 2, Depth: depth + 2})
	// a server that stops reading for a while: the Transport's writes (DATA, WINDOW_UPDATE, RST_STREAM) block
	out = append(out, tconfig{Name: "transport/pause/send", SrvIWS: ledger.DefaultWindow, ConnRoom: -1, PerStream: 20000, PerConn: 65535,
		BodyN: []int64{1000}, Pause: true, NoRet: true, MaxStreams: 2, Depth: depth + 3})
	out = append(out, tconfig{Name: "transport/pause/recv", SrvIWS: ledger.DefaultWindow, ConnRoom: -1, PerStream: 20000, PerConn: 65535,
		DataLen: []int64{5000}, Pads: []int{-1}, Pause: true, NoRet: true, MaxStreams: 1, Depth: depth + 2})
	// response DATA against the transport's advertised windows
	for _, per := range []int{10, 20000, 70000} {
		out = append(out, tconfig{Name: fmt.Sprintf("transport/recv/stream%d", per), SrvIWS: ledger.DefaultWindow, ConnRoom: -1, PerStream: per, PerConn: 65535,
			DataLen: lens, Pads: pads, ReadN: []int64{1, 100000}, ClosedLen: []int64{5, 16384}, MaxStreams: 2, Depth: depth})
	}
	return out
}

// single-stream histories whose returns to "no open stream" are amplified
func cycleConfigs(thorough bool) []config {
	var out []config
	depth := 5 // every shard repeats this BFS to get the cycle list, so it stays shallow in both tiers
	lens := []int64{0, 5, 16384} // 0: with padding, a frame that consists of padding only
	pads := []int{-1, 255}
	if thorough {
		lens = []int64{0, 1, 5, 16384}
		pads = []int{-1, 0, 1, 255}
	}
	pers := []int32{20000}
	if thorough {
		pers = []int32{10, 20000, 70000}
	}
	for _, per := range pers {
		out = append(out, config{Name: fmt.Sprintf("cycle/stream%d", per), Mode: "recv", PerStream: per, PerConn: 65535, RecvRoom: -1, Cycles: true,
			DataLen: lens, Pads: pads, DataEnd: true, ReadN: []int64{1, 100000}, ClosedLen: []int64{5, 16384}, MaxStreams: 1, Depth: depth})
	}
	return out
}

// a client that announces GOAWAY(NO_ERROR) and goes on using the streams it has
func goawayConfigs(thorough bool) []config {
	depth := 5
	if thorough {
		depth = 6
	}
	return []config{
		{Name: "goaway/send", Mode: "send", IWS0: 5, ConnRoom: -1, WriteN: []int64{12}, WUk: []int64{7, maxW}, GoAway: true, MaxStreams: 2, Depth: depth},
		{Name: "goaway/recv", Mode: "recv", PerStream: 20000, PerConn: 65535, RecvRoom: -1, DataLen: []int64{5, 16384}, Pads: []int{-1}, ReadN: []int64{100000},
			ClosedLen: []int64{5}, GoAway: true, MaxStreams: 2, Depth: depth},
	}
}

// a client that stops reading for a while: the server's writes (DATA, WINDOW_UPDATE, RST_STREAM) block
func pauseConfigs(thorough bool) []config {
	depth := 6
	if thorough {
		depth = 7
	}
	return []config{
		{Name: "pause/send", Mode: "send", IWS0: ledger.DefaultWindow, ConnRoom: -1, WriteN: []int64{1000}, WUk: []int64{7}, Pause: true, MaxStreams: 2, Depth: depth},
		{Name: "pause/recv", Mode: "recv", PerStream: 20000, PerConn: 65535, RecvRoom: -1, DataLen: []int64{5000}, Pads: []int{-1}, ReadN: []int64{100000},
			ClosedLen: []int64{5000}, Pause: true, MaxStreams: 1, Depth: depth},
		{Name: "pause/duplex", Mode: "duplex", IWS0: 5, ConnRoom: -1, PerStream: 20000, PerConn: 65535, RecvRoom: -1, WriteN: []int64{5}, WUk: []int64{7},
			DataLen: []int64{5000}, Pads: []int{-1}, ReadN: []int64{100000}, Pause: true, MaxStreams: 1, Depth: depth},
	}
}

// full-duplex handlers: a response blocked by the client's send window while the request body is being read
func duplexConfigs(thorough bool) []config {
	var out []config
	depth := 5
	if thorough {
		depth = 6
	}
	for _, iws := range []int64{0, 5} {
		for _, per := range []int32{10, 20000} {
			out = append(out, config{Name: fmt.Sprintf("duplex/iws%d/stream%d", iws, per), Mode: "duplex", IWS0: iws, ConnRoom: -1, PerStream: per, PerConn: 65535, RecvRoom: -1,
				WriteN: []int64{5}, WUk: []int64{7}, DataLen: []int64{5, 16384}, Pads: []int{-1}, ReadN: []int64{100000}, MaxStreams: 1, Depth: depth})
		}
	}
	return out
}

// ---------------------------------------------------------------- BFS

// space is one configuration of one of the two subjects (server / transport) as the BFS sees it.
type space struct {
	Name   string
	Mode   string // send recv duplex transport
	Depth  int
	Cycles bool
	cfg    config  // server subject
	tcfg   tconfig // transport subject
}

// subject names the endpoint under test (part of a finding's signature).
func (sp space) subject() string {
	if sp.Mode == "transport" {
		return "transport"
	}
	return "server"
}

func (sp space) run(t *testing.T, seq []act, keepTrace bool) result {
	if sp.Mode == "transport" {
		return trun(t, sp.tcfg, seq, keepTrace)
	}
	return run(t, sp.cfg, seq, keepTrace)
}

func serverSpace(c config) space {
	return space{Name: c.Name, Mode: c.Mode, Depth: c.Depth, Cycles: c.Cycles, cfg: c}
}
func transportSpace(c tconfig) space {
	return space{Name: c.Name, Mode: "transport", Depth: c.Depth, tcfg: c}
}

type found struct {
	v   ledger.Violation
	sp  space
	seq []act
	amp int // >0: seq is a cycle that was repeated amp times on one connection
}

type stats struct {
	states, transitions, runs, terminals, rechecked                     int64
	cycles, cycleIters, lassos, unclosed, maxPeriod, endedByObservation int64
	skipped                                                             int64
	maxDepth                                                            int
	depthDone                                                           int
	capped                                                              bool
}

type node struct {
	seq     []act
	enabled []act
}

func sigOf(v ledger.Violation) string { return v.Kind + ":" + v.Cause }

func explore(t *testing.T, rep *ev.Report, cfg space, deadline time.Time, founds map[string]found, st *stats, onEmpty func(seq []act)) {
	root := cfg.run(t, nil, false)
	st.runs++
	if root.harness != "" {
		rep.HarnessError("%s: %s", cfg.Name, root.harness)
		return
	}
	noteViol := func(r result, seq []act) {
		for _, v := range r.viol {
			k := cfg.subject() + ":" + sigOf(v)
			if _, ok := founds[k]; !ok {
				founds[k] = found{v: v, sp: cfg, seq: append([]act(nil), seq...)}
			}
		}
	}
	noteViol(root, nil)
	visited := map[string]bool{root.key: true}
	st.states++
	frontier := []node{{nil, root.enabled}}
	// action classes after which the subject was proven dead-locked once in this configuration: every further
	// transition of the class is skipped (each costs seconds of real time) and counted; the search is then not exhaustive.
	poisoned := map[string]bool{}
	sampled := 0
	class := func(a act) string { return fmt.Sprintf("%s/%v/%d", a.K, a.S >= 0, a.N) }
	for d := 0; d < cfg.Depth && len(frontier) > 0; d++ {
		var next []node
		for _, n := range frontier {
			for _, a := range n.enabled {
				if time.Now().After(deadline) {
					st.capped = true
					return
				}
				if poisoned[class(a)] {
					st.skipped++
					continue
				}
				seq := append(append(make([]act, 0, len(n.seq)+1), n.seq...), a)
				r := cfg.run(t, seq, false)
				st.runs++
				st.transitions++
				if r.harness != "" {
					rep.HarnessError("%s %v: %s", cfg.Name, seqString(seq), r.harness)
					continue
				}
				if st.transitions%recheckEvery == 1 || recheckEvery == 1 { // determinism self-check
					r2 := cfg.run(t, seq, false)
					st.rechecked++
					if cmpKey(r2) != cmpKey(r) || len(r2.viol) != len(r.viol) {
						rep.HarnessError("non-deterministic execution %s %v: %q vs %q", cfg.Name, seqString(seq), r.key, r2.key)
					}
				}
				rep.Note("distinct_nontrivial", featureOf(cfg, seq, r))
				if len(seq) == cfg.Depth && sampled < 2 {
					sampled++
					rep.Sample(map[string]any{"config": cfg.Name, "actions": seqString(seq), "state_key_hash": mc.Hash64(r.key), "terminal": r.terminal})
				}
				if r.hung {
					poisoned[class(a)] = true
				}
				if len(r.viol) > 0 {
					noteViol(r, seq)
					continue
				}
				if r.empty && onEmpty != nil {
					onEmpty(seq)
				}
				if r.terminal {
					st.terminals++
					rep.Note("terminal_kinds", cfg.Mode+":"+terminalKind(r))
					continue
				}
				if !visited[r.key] {
					visited[r.key] = true
					st.states++
					next = append(next, node{seq, r.enabled})
					if len(seq) > st.maxDepth {
						st.maxDepth = len(seq)
					}
				}
			}
		}
		frontier = next
		st.depthDone = d + 1
	}
}

// assign deals the configurations to the shards: longest-processing-time-first on static weights (measured
// relative costs), so that the heavy receive-side configurations do not pile up on one shard. Deterministic.
func assign(cfgs []space, of int) []int {
	weight := func(n string) int {
		switch {
		case strings.HasPrefix(n, "recv/stream1/"):
			return 30
		case strings.HasPrefix(n, "recv/stream10/"):
			return 100
		case strings.HasPrefix(n, "recv/") && strings.HasSuffix(n, "/conn0"):
			return 5
		case strings.HasPrefix(n, "recv/") && strings.HasSuffix(n, "/conn5"):
			return 40
		case strings.HasPrefix(n, "recv/"):
			return 240
		case n == "send/large", n == "transport/send/large":
			return 30
		case strings.HasPrefix(n, "send/"):
			return 130
		case strings.HasPrefix(n, "transport/recv"):
			return 80
		case strings.HasPrefix(n, "transport/send"):
			return 40
		case strings.HasPrefix(n, "cycle/"):
			return 60
		}
		return 20
	}
	idx := make([]int, len(cfgs))
	for i := range idx {
		idx[i] = i
	}
	sort.SliceStable(idx, func(a, b int) bool { return weight(cfgs[idx[a]].Name) > weight(cfgs[idx[b]].Name) })
	load := make([]int, of)
	owner := make([]int, len(cfgs))
	for _, i := range idx {
		best := 0
		for s := 1; s < of; s++ {
			if load[s] < load[best] {
				best = s
			}
		}
		owner[i] = best
		load[best] += weight(cfgs[i].Name)
	}
	return owner
}

func terminalKind(r result) string {
	pv := strings.Contains(r.key, "pvtrue")
	switch {
	case pv && (strings.Contains(r.key, "gatrue/3") || strings.Contains(r.key, "cctrue")):
		// which of the two a Transport shows is a teardown race (its GOAWAY is written but only flushed by accident)
		return "peer-violation->connection error (GOAWAY(FLOW_CONTROL_ERROR) or connection closed)"
	case pv:
		return "peer-violation->RST_STREAM(FLOW_CONTROL_ERROR)"
	case strings.Contains(r.key, "gatrue"):
		return "goaway"
	}
	return "other"
}

// cmpKey is what the determinism self-check compares: the full state key, except for terminal states (the
// connection is being torn down: which frames still make it to the wire is a race inside the subject and nothing
// is explored from there).
func cmpKey(r result) string {
	if r.terminal {
		return fmt.Sprintf("terminal viol=%d", len(r.viol))
	}
	return r.key
}

// featureOf buckets an execution by the multiset of action kinds (sizes abstracted), for the coverage count.
func featureOf(cfg space, seq []act, r result) string {
	ks := make([]string, 0, len(seq))
	for _, a := range seq {
		k := a.K
		switch a.K {
		case "wu":
			if a.N == maxW {
				k += "max"
			}
			if a.S < 0 {
				k += "c"
			}
		case "set":
			if a.N == maxW {
				k += "max"
			} else if a.N == 0 {
				k += "0"
			}
		case "data":
			if a.P >= 0 {
				k += "p"
			}
			if a.E {
				k += "e"
			}
			if a.N >= 16384 {
				k += "L"
			}
		}
		ks = append(ks, k)
	}
	sort.Strings(ks)
	t := ""
	if r.terminal {
		t = "!"
	}
	return cfg.Mode + ":" + strings.Join(ks, ",") + t
}

// ---------------------------------------------------------------- cycle amplification

type ampResult struct {
	result
	iters    int
	lasso    bool // the connection-level state repeated: from here on the history is periodic
	period   int
	observed bool // ended in an observation outside the property statement
}

const ampMaxIter = 4400 // > inflowMinRefresh: a leak of one byte per cycle crosses the bound within this many repetitions

func streamsOf(cyc []act) int {
	n := 0
	for _, a := range cyc {
		if a.K == "open" {
			n++
		}
	}
	return n
}

// amplify repeats an elementary cycle (a history that returns to "no open
// stream") on ONE connection until the connection-level flow-control state
// repeats (lasso: bounded for ever) or an invariant breaks or maxIter is reached.
func amplify(t *testing.T, cfg config, cyc []act, maxIter int, keepTrace bool) (res ampResult) {
	ev.Journal("cfg=%s amplify cycle=%v", cfg.Name, seqString(cyc))
	br := runBubble(t, func() {
		w := newWorld(cfg)
		w.keepTrace = keepTrace
		w.traceCap = 300
		defer w.shutdown()
		w.prelude()
		base0 := w.base
		n := streamsOf(cyc)
		seen := map[string]int{}
	loop:
		for it := 0; it < maxIter; it++ {
			res.iters = it + 1
			for _, a := range cyc {
				b := a
				if b.S >= 0 {
					b.S += it * n
				}
				w.apply(b)
				w.settle()
				if len(w.viol) > 0 || w.led.Terminal() {
					break loop
				}
			}
			for j := 0; j < n; j++ {
				if !w.retire(uint32(2*(base0+it*n+j) + 1)) {
					res.harness = fmt.Sprintf("cycle %v did not return to the empty state in repetition %d", seqString(cyc), it)
					break loop
				}
			}
			w.base = w.opened
			k := w.connKey()
			if prev, ok := seen[k]; ok {
				res.lasso, res.period = true, it-prev
				break
			}
			seen[k] = it
		}
		if len(w.led.Observed) > 0 {
			res.observed = true
			// the repetition ended in an observation the property statement does not forbid (e.g. credit returned twice):
			// recorded by noteObserved, neither a violation nor a harness problem
		} else if w.led.PeerViolated && res.harness == "" {
			res.harness = fmt.Sprintf("the harness client ran out of window while repeating %v (repetition %d)", seqString(cyc), res.iters)
		}
		for i := range w.viol {
			w.probeCause(&w.viol[i])
		}
		res.viol = w.viol
		noteObserved(w.led.Observed)
		res.trace = w.trace
	})
	if br.Panic != nil {
		res.viol = append(res.viol, ledger.Violation{Kind: "panic", Msg: fmt.Sprintf("panic: %v\n%s", br.Panic, br.Stack)})
	}
	if br.Deadlock != "" {
		res.harness = "goroutines blocked forever at the end of the execution: " + br.Deadlock
	}
	if br.Hang != "" {
		res.viol = append(res.viol, ledger.Violation{Kind: "deadlock", Cause: br.Hang,
			Msg: "the endpoint can never become quiescent again: every goroutine of the connection is blocked and one waits for a mutex nobody will release: " + br.Hang + "\n" + br.HangStack})
		res.hung = true
	}
	if br.Watchdog != "" {
		res.harness = br.Watchdog
	}
	return res
}

func ampOne(t *testing.T, rep *ev.Report, cfg space, cyc []act, founds map[string]found, st *stats) {
	r := amplify(t, cfg.cfg, cyc, ampMaxIter, false)
	st.runs++
	st.cycles++
	st.cycleIters += int64(r.iters)
	if r.harness != "" {
		rep.HarnessError("%s: %s", cfg.Name, r.harness)
		return
	}
	for _, v := range r.viol {
		k := cfg.subject() + ":amp:" + sigOf(v)
		if _, ok := founds[k]; !ok {
			founds[k] = found{v: v, sp: cfg, seq: append([]act(nil), cyc...), amp: r.iters}
		}
	}
	switch {
	case len(r.viol) > 0:
	case r.lasso:
		st.lassos++
		if int64(r.period) > st.maxPeriod {
			st.maxPeriod = int64(r.period)
		}
		rep.Note("cycle_shapes", featureOf(cfg, cyc, r.result))
	case r.observed:
		st.endedByObservation++ // ended in an observation outside the property statement (counted in observed_outside_statement_*)
	default:
		st.unclosed++
	}
}

// ---------------------------------------------------------------- TestCheck

func TestCheck(t *testing.T) {
	rep := ev.New("C12", "model_checking")
	defer rep.Write()
	defer func() {
		obsMu.Lock()
		for k, v := range obsOutside {
			rep.Add("observed_outside_statement_"+k, v)
		}
		obsMu.Unlock()
	}()
	// every execution builds a fresh connection: with the default pacing the collector runs almost continuously on a tiny heap
	debug.SetGCPercent(-1)
	debug.SetMemoryLimit(192 << 20)
	shard, of := mc.ShardFromEnv()
	backpressure(t, rep, shard, of)
	thorough := ev.Thorough()
	budget := 70 * time.Second
	if thorough {
		budget = 22 * time.Minute
	}
	deadline := time.Now().Add(budget)
	rep.Info["rule"] = "state = (wire ledger: every window in both directions, per-stream queued/held bytes and stream states; handler control states; the server's own outflow/inflow variables and scheduler ring); transition = one client frame or one handler step executed on the real serverConn, followed by quiescence; every quiescent state is judged by the ledger; distinct_nontrivial = distinct (mode, multiset of action kinds) of executed transitions"
	rep.Info["bounds"] = map[string]any{
		"tier":             ev.Tier(),
		"server_send":      "client IWS {0,1,5} x connection send window left {65535,0,1,5} (+ one large-body configuration: 40000-byte writes, MAX_FRAME_SIZE change); actions: open (<=2 streams quick, <=3 thorough), handler Write+Flush n, Write n + return, return, WINDOW_UPDATE(stream|conn, k incl. 2^31-1), SETTINGS(IWS=v incl. 0 and 2^31-1), RST_STREAM; all histories to depth 5 (quick) / 6 (thorough) with pruning on the state key",
		"server_receive":   "MaxUploadBufferPerStream {1,10,20000,70000} x connection receive window left {65535,5,0}; actions: open POST, DATA(len, pad) incl. beyond the windows and on closed streams, END_STREAM, RST_STREAM, handler Read n, Body.Close, return; depth 5 / 6",
		"server_duplex":    "handlers with a reader goroutine: response DATA blocked by the client's send window while the request body is read; depth 5 / 6",
		"cycles":           "every transition of the single-stream receive graph (depth 5) that returns to 'no open stream' is repeated on ONE connection until the connection-level state repeats (lasso), an invariant breaks, or 4400 repetitions",
		"transport":        "real http2.Transport ClientConn against a scripted raw-frame server: server IWS {0,1,5} x connection window left {65535,0,5} (+ 70000-byte bodies), response DATA against receive buffers {10,20000,70000}; depth 4 / 5",
		"design_deviation": "DESIGN.md asks for send-side depth 7 (quick 5) and receive buffer set {1,10,20000}; depth 6 is used in the thorough tier (depth 7 is ~10x the budget), 70000 was added so that the connection window can bind below the stream window, cycle amplification uses lasso detection instead of a fixed x1000",
	}
	rep.Assume("the server is observed at quiescent points only (testing/synctest: every goroutine of the connection is durably blocked); the order in which the serve loop consumes a handler message and a client frame that are pending at the same instant is not enumerated here (one environment step at a time)",
		"state keys include the server's own flow-control variables read through an export shim; they are used for pruning and lasso detection only, never as the oracle",
		"a peer that has itself broken a flow-control rule ends the history: only the required FLOW_CONTROL_ERROR answer and non-delivery of the excess are checked after that",
		"cycle amplification: when the connection-level state (ledger windows, un-returned credit, the subject's conn inflow avail/unsent and outflow) repeats after a return to 'no open stream', the infinite repetition of the cycle is periodic; stream ids, HPACK table contents and counters that do not feed flow control are not part of that state",
		"a hung execution is a verdict only when a goroutine dump shows every goroutine of the bubble blocked and one of them waiting for a mutex (the bubble's clock cannot advance then); elapsed real time only decides when to look")

	if rp := os.Getenv("VERIF_REPLAY"); rp != "" {
		replayFile(t, rep, rp)
		return
	}
	var cfgs []space
	for _, c := range sendConfigs(thorough) {
		cfgs = append(cfgs, serverSpace(c))
	}
	for _, c := range recvConfigs(thorough) {
		cfgs = append(cfgs, serverSpace(c))
	}
	for _, c := range duplexConfigs(thorough) {
		cfgs = append(cfgs, serverSpace(c))
	}
	for _, c := range pauseConfigs(thorough) {
		cfgs = append(cfgs, serverSpace(c))
	}
	for _, c := range goawayConfigs(thorough) {
		cfgs = append(cfgs, serverSpace(c))
	}
	for _, c := range transportConfigs(thorough) {
		cfgs = append(cfgs, transportSpace(c))
	}
	for _, c := range cycleConfigs(thorough) {
		cfgs = append(cfgs, serverSpace(c))
	}
	if only := os.Getenv("VERIF_C12_ONLY"); only != "" { // experiments only
		var sel []space
		for _, c := range cfgs {
			if strings.Contains(c.Name, only) {
				if d, _ := strconv.Atoi(os.Getenv("VERIF_C12_DEPTH")); d > 0 {
					c.Depth = d
				}
				sel = append(sel, c)
			}
		}
		cfgs = sel
		rep.NotExhaustive("VERIF_C12_ONLY set")
	}
	founds := map[string]found{}
	var st stats
	// Work units: one per configuration (BFS), dealt round-robin to the shards. The cycle configurations are
	// explored by EVERY shard (only the owner counts the BFS in the evidence) because each shard amplifies its
	// own slice of the cycles found.
	owners := assign(cfgs, of)
	for i, cfg := range cfgs {
		owner := owners[i] == shard
		if !owner && !cfg.Cycles {
			continue
		}
		var cyc [][]act
		var onEmpty func([]act)
		if cfg.Cycles {
			onEmpty = func(seq []act) { cyc = append(cyc, seq) }
		}
		if owner {
			explore(t, rep, cfg, deadline, founds, &st, onEmpty)
		} else {
			var silent stats
			explore(t, ev.New("C12", "model_checking"), cfg, deadline, map[string]found{}, &silent, onEmpty)
			st.capped = st.capped || silent.capped
		}
		for j, c := range cyc {
			if j%of != shard {
				continue
			}
			if time.Now().After(deadline) {
				st.capped = true
				break
			}
			ampOne(t, rep, cfg, c, founds, &st)
		}
		if owner {
			rep.Note("configs_done", cfg.Name)
		}
		if st.capped {
			rep.NotExhaustive("time budget reached in configuration " + cfg.Name)
			break
		}
	}
	rep.Add("states", st.states)
	rep.Add("transitions", st.transitions)
	rep.Add("evaluations", st.runs)
	rep.Add("traces_validated_against_impl", st.runs)
	rep.Add("terminal_states", st.terminals)
	rep.Add("rechecked", st.rechecked)
	rep.SetMax("max_depth", int64(st.maxDepth))
	rep.Add("cycles_amplified", st.cycles)
	rep.Add("cycle_repetitions", st.cycleIters)
	rep.Add("cycles_closed_by_lasso", st.lassos)
	rep.Add("cycles_not_closed", st.unclosed)
	rep.Add("cycles_ended_by_observation_outside_statement", st.endedByObservation)
	rep.SetMax("max_lasso_period", st.maxPeriod)
	rep.Add("transitions_skipped_after_deadlock", st.skipped)
	if st.skipped > 0 {
		rep.NotExhaustive(fmt.Sprintf("%d transitions of an action class that dead-locked the subject were skipped", st.skipped))
	}
	if st.unclosed > 0 {
		rep.NotExhaustive(fmt.Sprintf("%d amplified cycles neither repeated a connection state nor broke an invariant within %d repetitions", st.unclosed, ampMaxIter))
	}
	rep.Info["configs"] = len(cfgs)

	report(t, rep, founds)
}

func report(t *testing.T, rep *ev.Report, founds map[string]found) {
	keys := make([]string, 0, len(founds))
	for k := range founds {
		keys = append(keys, k)
	}
	sort.Strings(keys)
	for _, k := range keys {
		f := founds[k]
		okN := 0
		var last result
		for i := 0; i < 5; i++ {
			if f.amp > 0 {
				last = amplify(t, f.sp.cfg, f.seq, f.amp, true).result
			} else {
				last = f.sp.run(t, f.seq, true)
			}
			for _, v := range last.viol {
				if v.Kind == f.v.Kind && v.Cause == f.v.Cause {
					okN++
					break
				}
			}
		}
		if okN != 5 {
			rep.HarnessError("violation did not reproduce 5/5 (%d): %s %v: %v", okN, f.sp.Name, seqString(f.seq), f.v)
			continue
		}
		sig := map[string]any{"kind": f.v.Kind, "side": f.sp.subject()}
		what := f.v.String()
		if f.v.Cause != "" {
			sig["cause"] = f.v.Cause
			what += " [" + f.v.Cause + "]"
		}
		var cfgJSON any = f.sp.cfg
		if f.sp.Mode == "transport" {
			cfgJSON = f.sp.tcfg
		}
		rep.Violate(sig, map[string]any{"side": f.sp.Mode, "config": cfgJSON, "seq": f.seq, "amplify": f.amp, "actions": seqString(f.seq), "wire": last.trace},
			"%s after %v%s in configuration %s", what, seqString(f.seq), map[bool]string{true: fmt.Sprintf(" repeated x%d on one connection", f.amp), false: ""}[f.amp > 0], f.sp.Name)
	}
}

// replayFile re-executes the counterexample of a replay file written by the driver (bin/check C12 --replay FILE).
func replayFile(t *testing.T, rep *ev.Report, path string) {
	b, err := os.ReadFile(path)
	if err != nil {
		rep.HarnessError("replay: %v", err)
		return
	}
	var f struct {
		Replay struct {
			Side    string          `json:"side"`
			Config  json.RawMessage `json:"config"`
			Seq     []act           `json:"seq"`
			Amplify int             `json:"amplify"`
		} `json:"replay"`
	}
	if err := json.Unmarshal(b, &f); err != nil {
		rep.HarnessError("replay: %v", err)
		return
	}
	var sp space
	if f.Replay.Side == "transport" {
		var c tconfig
		json.Unmarshal(f.Replay.Config, &c)
		sp = transportSpace(c)
	} else {
		var c config
		json.Unmarshal(f.Replay.Config, &c)
		sp = serverSpace(c)
	}
	rep.NotExhaustive("replay of one counterexample")
	var r result
	if f.Replay.Amplify > 0 {
		r = amplify(t, sp.cfg, f.Replay.Seq, f.Replay.Amplify, true).result
	} else {
		r = sp.run(t, f.Replay.Seq, true)
	}
	if r.harness != "" {
		rep.HarnessError("replay: %s", r.harness)
	}
	rep.Add("states", 1)
	rep.Add("transitions", int64(len(f.Replay.Seq)))
	rep.Add("traces_validated_against_impl", 1)
	rep.Sample(map[string]any{"actions": seqString(f.Replay.Seq), "wire": r.trace})
	for _, l := range r.trace {
		t.Log(l)
	}
	founds := map[string]found{}
	for _, v := range r.viol {
		founds[sigOf(v)] = found{v: v, sp: sp, seq: f.Replay.Seq, amp: f.Replay.Amplify}
	}
	report(t, rep, founds)
}

// observations the ledger makes that the property statement does not forbid (see ledger.OutsideStatement)
var (
	obsMu      sync.Mutex
	obsOutside = map[string]int64{}
)

func noteObserved(m map[string]int) {
	obsMu.Lock()
	for k, v := range m {
		obsOutside[k] += int64(v)
	}
	obsMu.Unlock()
}
