//go:build verif

package c12

import (
	"fmt"
	"io"
	"log"
	"net/http"
	"sort"
	"strings"
	"sync"
	"testing/synctest"
	"time"

	"github.com/wi1dcard/fingerproxy/pkg/http2"
	"verif/bubble"
	"verif/ref/h2wire"
	"verif/ref/ledger"
)

// ---------------------------------------------------------------- actions

// act is one step of the environment: a frame from the client or one step of
// a handler ("the application").
type act struct {
	K string // open W WR ret wu set mfs rst data rd cb
	S int    // stream index (stream id = 2*S+1); -1 = connection
	N int64  // size / increment / value
	P int    // DATA padding length, -1 = not padded
	E bool   // END_STREAM on DATA
}

func (a act) String() string {
	switch a.K {
	case "open":
		return fmt.Sprintf("open(%d)", 2*a.S+1)
	case "W", "WR", "rd":
		return fmt.Sprintf("h%d.%s(%d)", 2*a.S+1, a.K, a.N)
	case "ret", "cb":
		return fmt.Sprintf("h%d.%s", 2*a.S+1, a.K)
	case "wu":
		if a.S < 0 {
			return fmt.Sprintf("WINDOW_UPDATE(0,%d)", a.N)
		}
		return fmt.Sprintf("WINDOW_UPDATE(%d,%d)", 2*a.S+1, a.N)
	case "ga":
		return "GOAWAY(last=0,NO_ERROR)"
	case "set":
		return fmt.Sprintf("SETTINGS(IWS=%d)", a.N)
	case "mfs":
		return fmt.Sprintf("SETTINGS(MAX_FRAME_SIZE=%d)", a.N)
	case "rst":
		return fmt.Sprintf("RST_STREAM(%d)", 2*a.S+1)
	case "data":
		return fmt.Sprintf("DATA(%d,len=%d,pad=%d,end=%v)", 2*a.S+1, a.N, a.P, a.E)
	}
	return a.K
}

func seqString(seq []act) []string {
	out := make([]string, len(seq))
	for i, a := range seq {
		out[i] = a.String()
	}
	return out
}

// ---------------------------------------------------------------- configuration

type config struct {
	Name string
	Mode string // "send": GET streams, handlers write; "recv": POST streams, handlers read; "duplex": POST, a reader goroutine and a writer

	// send side
	IWS0     int64 // client's initial SETTINGS_INITIAL_WINDOW_SIZE (after the prelude)
	ConnRoom int64 // connection send window left after the prelude; -1 = no prelude (65535)
	WriteN   []int64
	WRN      []int64
	WUk      []int64
	SetV     []int64
	MFS      []int64

	// receive side
	PerStream int32 // Server.MaxUploadBufferPerStream
	PerConn   int32 // Server.MaxUploadBufferPerConnection
	RecvRoom  int64 // connection receive window left after the prelude; -1 = no prelude
	DataLen   []int64
	Pads      []int
	DataEnd   bool // also DATA frames carrying END_STREAM
	ReadN     []int64
	ClosedLen []int64 // DATA sizes sent on a closed stream

	MaxStreams int
	Depth      int
	Cycles     bool // amplify every transition that returns to "no open stream"
	// Pause: the client may stop reading from the connection (the server's writes then block after one byte) and
	// resume; while it does not read, nothing the server wrote is seen or judged, and the client sends only DATA that
	// fits the windows it has seen (what the server granted in frames it could not yet write is not known to it)
	Pause bool
	// GoAway: the client may send GOAWAY(NO_ERROR) once (it will open no more streams; the streams it has go on)
	GoAway bool
}

// ---------------------------------------------------------------- handler control

type hcmd struct {
	k string
	n int64
}

type hctl struct {
	id   uint32
	cmd  chan hcmd // main goroutine of the handler: W WR ret
	rcmd chan hcmd // reader goroutine of the handler: rd cb (so that a handler blocked in Write can still read: full duplex)

	mu        sync.Mutex // held only for field access, never across a blocking call
	started   bool
	busy      bool // main goroutine is inside a command
	busyIn    string
	rbusy     bool // reader goroutine is inside a command
	returned  bool
	readTotal int64
	readBad   string
	readEnd   string // error that ended the body ("" = not ended)
	writeErr  string
	closed    bool // Body.Close called

	// harness-side (already reported to the ledger)
	repRead     int64
	repClosed   bool
	repReturned bool
}

func sendByte(stream uint32, off int64) byte { return byte(int64(stream)*37 + off*11 + off>>8 + 1) }
func bodyByte(stream uint32, off int64) byte { return byte(int64(stream)*53 + off*7 + off>>9 + 3) }

type world struct {
	cfg                 config
	conn                *bubble.H2Conn
	led                 *ledger.Ledger
	cp                  h2wire.Parser // parses what the client sends (so that the ledger sees wire frames only)
	hs                  map[uint32]*hctl
	hmu                 sync.Mutex
	sc                  http2.VerifC12Conn
	opened              int              // streams opened by the explored part (index of the next one)
	base                int              // first stream index of the explored part (prelude streams come before)
	sentBody            map[uint32]int64 // body bytes the client has sent per stream
	viol                []ledger.Violation
	trace               []string
	keepTrace           bool
	traceCap            int // >0: keep only about this many most recent trace lines
	srvIWS, srvMaxFrame int64
	paused              bool // the client does not read
	goneAway            bool // the client has sent GOAWAY
}

func newWorld(cfg config) *world {
	w := &world{cfg: cfg, led: ledger.New(), hs: map[uint32]*hctl{}, sentBody: map[uint32]int64{}}
	w.led.SendPattern = sendByte
	srv := &http2.Server{}
	if cfg.PerStream > 0 {
		srv.MaxUploadBufferPerStream = cfg.PerStream
	}
	if cfg.PerConn > 0 {
		srv.MaxUploadBufferPerConnection = cfg.PerConn
	}
	base := &http.Server{ErrorLog: log.New(io.Discard, "", 0)}
	w.conn = bubble.StartH2(srv, base, http.HandlerFunc(w.serveHTTP))
	return w
}

func (w *world) handler(id uint32) *hctl {
	w.hmu.Lock()
	defer w.hmu.Unlock()
	return w.hs[id]
}

func (w *world) serveHTTP(rw http.ResponseWriter, r *http.Request) {
	var id uint32
	fmt.Sscanf(r.URL.Path, "/s%d", &id)
	h := w.handler(id)
	if h == nil {
		return
	}
	w.hmu.Lock()
	if !w.sc.Valid() {
		w.sc = http2.VerifC12ConnOf(rw)
	}
	w.hmu.Unlock()
	h.mu.Lock()
	h.started = true
	h.mu.Unlock()
	defer func() {
		h.mu.Lock()
		h.returned = true
		h.busy = false
		h.mu.Unlock()
	}()
	var written int64
	buf := make([]byte, 0, 1024)
	doRead := func(n int64) {
		if int64(cap(buf)) < n {
			buf = make([]byte, n)
		}
		b := buf[:n]
		m, err := r.Body.Read(b)
		h.mu.Lock()
		for i := 0; i < m; i++ {
			if want := bodyByte(id, h.readTotal+int64(i)); b[i] != want && h.readBad == "" {
				h.readBad = fmt.Sprintf("body offset %d: handler read %#x, the client sent %#x", h.readTotal+int64(i), b[i], want)
			}
		}
		h.readTotal += int64(m)
		if err != nil {
			h.readEnd = err.Error()
		}
		h.mu.Unlock()
	}
	go func() { // reader goroutine
		for c := range h.rcmd {
			h.mu.Lock()
			h.rbusy = true
			h.mu.Unlock()
			switch c.k {
			case "rd":
				doRead(c.n)
			case "cb":
				r.Body.Close()
				h.mu.Lock()
				h.closed = true
				h.mu.Unlock()
			}
			h.mu.Lock()
			h.rbusy = false
			h.mu.Unlock()
		}
	}()
	for c := range h.cmd {
		h.mu.Lock()
		h.busy, h.busyIn = true, c.k
		h.mu.Unlock()
		switch c.k {
		case "W", "WR":
			p := make([]byte, c.n)
			for i := range p {
				p[i] = sendByte(id, written+int64(i))
			}
			written += c.n
			_, err := rw.Write(p)
			if err == nil && c.k == "W" {
				err = rw.(interface{ FlushError() error }).FlushError()
			}
			if err != nil {
				h.mu.Lock()
				h.writeErr = err.Error()
				h.mu.Unlock()
			}
			if c.k == "WR" {
				return
			}
		case "ret":
			return
		}
		h.mu.Lock()
		h.busy = false
		h.mu.Unlock()
	}
}

// ---------------------------------------------------------------- wire helpers

func (w *world) note(format string, a ...any) {
	if w.keepTrace {
		w.trace = append(w.trace, fmt.Sprintf(format, a...))
		if w.traceCap > 0 && len(w.trace) > 2*w.traceCap {
			w.trace = append([]string{"... (earlier repetitions omitted)"}, w.trace[len(w.trace)-w.traceCap:]...)
		}
	}
}

// send puts client bytes on the wire; the ledger sees the parsed frames.
func (w *world) send(b []byte) {
	for _, f := range w.cp.Feed(b) {
		w.led.PeerFrame(f)
		w.note("C> %v", f)
	}
	w.conn.Send(b)
}

// settle waits for quiescence, feeds the ledger and runs the quiescent-state invariants.
func (w *world) settle() {
	synctest.Wait()
	var frames []h2wire.Frame
	if !w.paused {
		frames = w.conn.Frames()
	}
	for _, f := range frames {
		w.led.SubjFrame(f)
		if w.keepTrace {
			extra := ""
			switch f.Type {
			case h2wire.TWindowUpdate:
				extra = fmt.Sprintf(" incr=%d", f.WindowIncrement())
			case h2wire.TRSTStream:
				extra = fmt.Sprintf(" code=%d", f.RSTCode())
			case h2wire.TGoAway:
				_, c := f.GoAwayFields()
				extra = fmt.Sprintf(" code=%d", c)
			}
			w.note("S> %v%s", f, extra)
		}
	}
	if w.conn.Cl.PeerGone() && !w.led.ConnClosed {
		w.led.SubjClosedConn()
		w.note("S> (connection closed)")
	}
	for _, id := range w.hids() {
		h := w.hs[id]
		h.mu.Lock()
		rt, cl, ret, bad := h.readTotal, h.closed, h.returned, h.readBad
		h.mu.Unlock()
		if d := rt - h.repRead; d > 0 {
			w.led.AppRead(id, d)
			h.repRead = rt
		}
		if cl && !h.repClosed {
			w.led.AppCloseBody(id)
			h.repClosed = true
		}
		if ret && !h.repReturned {
			w.led.AppReturn(id)
			h.repReturned = true
		}
		if bad != "" {
			w.viol = append(w.viol, ledger.Violation{Kind: "request-body-corrupted", Stream: id, Msg: bad})
		}
		if s := w.led.Streams[id]; s != nil && rt > s.DataAccepted {
			w.viol = append(w.viol, ledger.Violation{Kind: "excess-data-delivered", Stream: id,
				Msg: fmt.Sprintf("the handler of stream %d read %d body bytes, only %d were sent within the advertised windows", id, rt, s.DataAccepted)})
		}
	}
	if w.paused {
		return // what the server owes is in its blocked writes: judged after the client reads again
	}
	for _, v := range w.led.Quiesce() {
		if v.Kind == "window-excess-not-rejected" && w.sc.Valid() {
			// classification only (never the verdict): did the subject accept the frame because, by its own books, it
			// had already granted the room - in a WINDOW_UPDATE that still sits in the stream's write queue behind
			// response DATA blocked by the peer's send window?
			for _, s := range w.sc.Snapshot().Streams {
				if s.ID == v.Stream && s.QueuedWrites >= 2 && s.Out <= 0 {
					v.Cause = "room granted only in a WINDOW_UPDATE still queued behind flow-blocked response DATA (not on the wire)"
				}
			}
		}
		w.viol = append(w.viol, v)
	}
}

func (w *world) hids() []uint32 {
	ids := make([]uint32, 0, len(w.hs))
	for id := range w.hs {
		ids = append(ids, id)
	}
	sort.Slice(ids, func(i, j int) bool { return ids[i] < ids[j] })
	return ids
}

func (w *world) handshake(iws int64) {
	w.conn.Send([]byte(h2wire.Preface))
	w.send(h2wire.Settings(h2wire.Setting{ID: 4, Val: uint32(iws)}))
	w.settle()
	w.send(h2wire.SettingsAck())
	w.settle()
	w.led.EndHandshake()
	w.srvIWS, w.srvMaxFrame = w.led.SubjIWS, w.led.SubjMaxFrame
}

func (w *world) openStream(idx int, post bool) *hctl {
	id := uint32(2*idx + 1)
	h := &hctl{id: id, cmd: make(chan hcmd, 1), rcmd: make(chan hcmd, 1)}
	w.hmu.Lock()
	w.hs[id] = h
	w.hmu.Unlock()
	m := "GET"
	if post {
		m = "POST"
	}
	blk := w.conn.Enc.Block(h2wire.HF{":method", m}, h2wire.HF{":path", fmt.Sprintf("/s%d", id)}, h2wire.HF{":scheme", "https"}, h2wire.HF{":authority", "x"})
	w.send(h2wire.Headers(id, blk, !post, true, nil, -1))
	return h
}

func (w *world) dataFrame(id uint32, n int64, pad int, end bool) []byte {
	off := w.sentBody[id]
	p := make([]byte, n)
	for i := range p {
		p[i] = bodyByte(id, off+int64(i))
	}
	w.sentBody[id] = off + n
	return h2wire.Data(id, p, end, pad)
}

func (w *world) prelude() {
	cfg := w.cfg
	switch cfg.Mode {
	case "send":
		if cfg.ConnRoom < 0 {
			w.handshake(cfg.IWS0)
			return
		}
		// drain the connection send window down to ConnRoom through one stream with a wide window
		w.handshake(1 << 20)
		h := w.openStream(0, false)
		w.settle()
		n := int64(ledger.DefaultWindow) - cfg.ConnRoom
		w.led.AppWrite(h.id, n)
		h.cmd <- hcmd{"WR", n}
		w.settle()
		w.send(h2wire.Settings(h2wire.Setting{ID: 4, Val: uint32(cfg.IWS0)}))
		w.settle()
		w.base, w.opened = 1, 1
	default:
		if cfg.Mode == "duplex" {
			w.handshake(cfg.IWS0)
		} else {
			w.handshake(ledger.DefaultWindow)
		}
		if cfg.RecvRoom < 0 {
			return
		}
		// fill the connection receive window down to RecvRoom with parked streams whose handlers never read
		need := w.led.ConnRecv - cfg.RecvRoom
		idx := 0
		for need > 0 {
			w.openStream(idx, true)
			w.settle()
			id := uint32(2*idx + 1)
			room := w.srvIWS
			for room > 0 && need > 0 {
				n := min(room, need, 16384)
				w.send(w.dataFrame(id, n, -1, false))
				room -= n
				need -= n
			}
			w.settle()
			idx++
			if idx > 8 {
				panic("prelude: cannot fill the connection window")
			}
		}
		w.base, w.opened = idx, idx
	}
}

func (w *world) shutdown() {
	for _, h := range w.hs {
		close(h.cmd)
		close(h.rcmd)
	}
	w.conn.Close()
	synctest.Wait()
}

// ---------------------------------------------------------------- enabled actions, apply

func (w *world) hstat(h *hctl) (started, busy, returned bool, in string) {
	h.mu.Lock()
	defer h.mu.Unlock()
	return h.started, h.busy, h.returned, h.busyIn
}

func (w *world) rbusy(h *hctl) bool {
	h.mu.Lock()
	defer h.mu.Unlock()
	return h.rbusy
}

func (w *world) enabled() []act {
	cfg := w.cfg
	if w.led.Terminal() || len(w.viol) > 0 {
		return nil
	}
	var out []act
	nOpen := 0
	for i := w.base; i < w.opened; i++ {
		if s := w.led.Streams[uint32(2*i+1)]; s != nil && !s.Closed() {
			nOpen++
		}
	}
	if w.opened-w.base < cfg.MaxStreams && nOpen < cfg.MaxStreams && !w.goneAway {
		out = append(out, act{K: "open", S: w.opened})
	}
	if cfg.GoAway && !w.goneAway {
		out = append(out, act{K: "ga"})
	}
	lastClosed := -1
	for i := w.base; i < w.opened; i++ {
		id := uint32(2*i + 1)
		s := w.led.Streams[id]
		h := w.hs[id]
		started, busy, returned, _ := w.hstat(h)
		rb := w.rbusy(h)
		if started && !busy && !returned {
			// (no handler writes while the client does not read: the second frame of a write - DATA after HEADERS -
			// reaches the serve loop while it decides to flush the first; whether it still makes it into the same
			// flush is a race between two goroutines of the server that the explorer does not own)
			for _, n := range cfg.WriteN {
				if !w.paused {
					out = append(out, act{K: "W", S: i, N: n})
				}
			}
			for _, n := range cfg.WRN {
				if !w.paused {
					out = append(out, act{K: "WR", S: i, N: n})
				}
			}
			if !rb {
				out = append(out, act{K: "ret", S: i})
			}
		}
		if started && !returned && !rb && cfg.Mode != "send" {
			if h.readEnd == "" {
				for _, n := range cfg.ReadN {
					out = append(out, act{K: "rd", S: i, N: n})
				}
			}
			if !h.repClosed {
				out = append(out, act{K: "cb", S: i})
			}
		}
		if s.Closed() {
			lastClosed = i
			continue
		}
		for _, k := range cfg.WUk {
			out = append(out, act{K: "wu", S: i, N: k})
		}
		out = append(out, act{K: "rst", S: i})
		if cfg.Mode != "send" && !s.PeerEnded {
			for _, n := range cfg.DataLen {
				for _, p := range cfg.Pads {
					if n+int64(p)+1 > w.srvMaxFrame {
						continue
					}
					if cfg.Pause && (n+int64(p)+1 > s.RecvWin || n+int64(p)+1 > w.led.ConnRecv) {
						continue
					}
					out = append(out, act{K: "data", S: i, N: n, P: p})
					if cfg.DataEnd && p == cfg.Pads[0] {
						out = append(out, act{K: "data", S: i, N: n, P: p, E: true})
					}
				}
			}
			out = append(out, act{K: "data", S: i, N: 0, P: -1, E: true})
		}
	}
	if lastClosed >= 0 {
		for _, n := range cfg.ClosedLen {
			out = append(out, act{K: "data", S: lastClosed, N: n, P: -1})
		}
		// a late WINDOW_UPDATE for a stream that is already closed (legal, RFC 7540 section 6.9: it must be ignored -
		// in particular it must not credit any other window)
		if len(cfg.WUk) > 0 {
			out = append(out, act{K: "wu", S: lastClosed, N: cfg.WUk[len(cfg.WUk)-1]})
		}
	}
	for _, k := range cfg.WUk {
		out = append(out, act{K: "wu", S: -1, N: k})
	}
	for _, v := range cfg.SetV {
		if v != w.led.IWS {
			out = append(out, act{K: "set", N: v})
		}
	}
	for _, v := range cfg.MFS {
		if v != w.led.MaxFrame {
			out = append(out, act{K: "mfs", N: v})
		}
	}
	if cfg.Pause {
		if w.paused {
			out = append(out, act{K: "resume"})
		} else {
			out = append(out, act{K: "pause"})
		}
	}
	return out
}

func (w *world) apply(a act) {
	id := uint32(2*a.S + 1)
	w.note("-- %v", a)
	switch a.K {
	case "open":
		w.openStream(a.S, w.cfg.Mode != "send")
		w.opened = a.S + 1
	case "W", "WR":
		w.led.AppWrite(id, a.N)
		w.hs[id].cmd <- hcmd{a.K, a.N}
	case "ret":
		w.hs[id].cmd <- hcmd{a.K, a.N}
	case "rd", "cb":
		w.hs[id].rcmd <- hcmd{a.K, a.N}
	case "wu":
		sid := uint32(0)
		if a.S >= 0 {
			sid = id
		}
		w.send(h2wire.WindowUpdate(sid, uint32(a.N)))
	case "set":
		w.send(h2wire.Settings(h2wire.Setting{ID: 4, Val: uint32(a.N)}))
	case "mfs":
		w.send(h2wire.Settings(h2wire.Setting{ID: 5, Val: uint32(a.N)}))
	case "ga":
		w.goneAway = true
		w.send(h2wire.GoAway(0, 0, nil))
	case "pause":
		w.paused = true
		w.conn.Sv.SetWriteCap(1)
	case "resume":
		w.paused = false
		w.conn.Sv.SetWriteCap(0)
	case "rst":
		w.send(h2wire.RST(id, 8))
	case "data":
		w.send(w.dataFrame(id, a.N, a.P, a.E))
	default:
		panic("unknown action " + a.K)
	}
}

// afterViolationProbe: once the peer has exceeded a window, let every idle
// handler try to read everything (the excess must never reach it), and let the
// GOAWAY timer run out.
func (w *world) drainReads() {
	for round := 0; round < 2; round++ {
		for _, id := range w.hids() {
			h := w.hs[id]
			started, _, returned, _ := w.hstat(h)
			if started && !w.rbusy(h) && !returned && h.readEnd == "" && w.cfg.Mode != "send" {
				h.rcmd <- hcmd{"rd", 1 << 17}
				w.settle() // one handler at a time: the order in which the serve loop sees them stays fixed
			}
		}
		if round == 0 {
			time.Sleep(2 * time.Second)
			w.settle()
		}
	}
}

// key is the canonical state: ledger (wire view), handler control states and
// the subject's own flow-control variables (so that equal keys imply equal
// futures even for a subject whose variables have drifted from the wire view).
func (w *world) key() string {
	var b strings.Builder
	b.WriteString(w.led.Key())
	fmt.Fprintf(&b, "#o%d p%v g%v|", w.opened, w.paused, w.goneAway)
	for _, id := range w.hids() {
		h := w.hs[id]
		if int(id/2) < w.base {
			continue
		}
		s := w.led.Streams[id]
		started, busy, returned, in := w.hstat(h)
		if s != nil && s.Closed() && (returned || !started) {
			fmt.Fprintf(&b, "h%d:gone|", id)
			continue
		}
		h.mu.Lock()
		fmt.Fprintf(&b, "h%d:%v%v%v%v%s we%v re%v cl%v|", id, started, busy, h.rbusy, returned, map[bool]string{true: in, false: ""}[busy], h.writeErr != "", h.readEnd != "", h.closed)
		h.mu.Unlock()
	}
	if w.sc.Valid() {
		f := w.sc.Snapshot()
		fmt.Fprintf(&b, "#sc %d %d %d %d %d %v%d %v|", f.ConnOut, f.ConnInAvail, f.ConnInUnsent, f.MaxFrameSize, f.InitialSend, f.InGoAway, f.GoAwayCode, f.SchedOrder)
		for _, s := range f.Streams {
			fmt.Fprintf(&b, "%d:%d %d %d %d %d %v %d|", s.ID, s.State, s.Out, s.InAvail, s.InUnsent, s.BodyLen, s.ResetQueued, s.QueuedWrites)
		}
	}
	return b.String()
}

// probeCause refines a "credit not returned" finding: is the credit lost, or
// merely parked behind response DATA that the peer's send window blocks? The
// probe opens the subject's send windows wide and looks whether the missing
// WINDOW_UPDATE then appears on the wire.
func (w *world) probeCause(v *ledger.Violation) {
	if !strings.HasSuffix(v.Kind, "credit-not-returned") || w.led.Terminal() {
		return
	}
	saved := w.viol
	defer func() { w.viol = saved }()
	var total int64
	blocked := false
	for _, id := range w.led.IDs() {
		s := w.led.Streams[id]
		if s.Closed() || s.SubjEnded || s.Queued() <= 0 {
			continue
		}
		blocked = true
		total += s.Queued()
		if need := s.Queued() - s.SendWin; need > 0 {
			w.send(h2wire.WindowUpdate(id, uint32(need)))
		}
	}
	if !blocked {
		v.Cause = "credit lost (no response data was waiting for send window)"
		return
	}
	if need := total - w.led.ConnSend; need > 0 {
		w.send(h2wire.WindowUpdate(0, uint32(need)))
	}
	w.viol = nil
	w.settle()
	still := false
	for _, x := range w.viol {
		if x.Kind == v.Kind && x.Stream == v.Stream {
			still = true
		}
	}
	if still {
		v.Cause = "credit lost (still missing after the peer opened the send windows)"
	} else {
		v.Cause = "WINDOW_UPDATE held behind flow-blocked response DATA (appears only after the peer opens the send window)"
	}
}

// ---------------------------------------------------------------- cycle amplification

// connKey is the connection-level flow-control state that survives a closed stream.
func (w *world) connKey() string {
	f := w.sc.Snapshot()
	return fmt.Sprintf("%d/%d/%d|%d %d %d", w.led.ConnRecv, w.led.ConnUnreturned(), w.led.ConnSend, f.ConnInAvail, f.ConnInUnsent, f.ConnOut)
}

// retire forgets a stream that is closed and whose handler has returned.
func (w *world) retire(id uint32) bool {
	h := w.hs[id]
	s := w.led.Streams[id]
	if h == nil || s == nil || !s.Closed() {
		return false
	}
	started, _, returned, _ := w.hstat(h)
	if started && !returned {
		return false
	}
	close(h.cmd)
	close(h.rcmd)
	w.hmu.Lock()
	delete(w.hs, id)
	w.hmu.Unlock()
	w.led.Forget(id)
	delete(w.sentBody, id)
	return true
}

// empty: every stream of the explored part is closed and its handler gone.
func (w *world) empty() bool {
	if w.opened == w.base {
		return false
	}
	for i := w.base; i < w.opened; i++ {
		id := uint32(2*i + 1)
		s := w.led.Streams[id]
		h := w.hs[id]
		if s == nil || h == nil || !s.Closed() {
			return false
		}
		if started, _, returned, _ := w.hstat(h); started && !returned {
			return false
		}
	}
	return true
}
