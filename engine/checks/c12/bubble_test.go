//go:build verif

package c12

import (
	"fmt"
	"runtime"
	"strings"
	"testing"
	"testing/synctest"

	"github.com/wi1dcard/fingerproxy/pkg/http2"
	"verif/bubble"
)

// runBubble is bubble.Run without the all-goroutine census taken at the end of
// every execution (a stop-the-world runtime.Stack with a 1 MiB buffer, which
// costs more than the execution itself in this check). Same contract: a panic
// of the body is recovered and reported, "blocked goroutines remain" at the
// end of the bubble is reported as Deadlock, the http2 channel pool is reset.
func runBubble(t *testing.T, body func()) (res bubble.RunResult) {
	defer func() {
		if r := recover(); r != nil {
			s := fmt.Sprint(r)
			if strings.Contains(s, "deadlock") || strings.Contains(s, "blocked goroutines remain") {
				res.Deadlock = s
				return
			}
			panic(r)
		}
	}()
	defer http2.VerifResetPools()
	synctest.Test(t, func(t *testing.T) {
		defer func() {
			if r := recover(); r != nil {
				res.Panic = r
				buf := make([]byte, 1<<16)
				res.Stack = string(buf[:runtime.Stack(buf, false)])
			}
		}()
		body()
	})
	return res
}
