//go:build verif

package c12

import (
	"fmt"
	"regexp"
	"runtime"
	"sort"
	"strings"
	"sync/atomic"
	"testing"
	"testing/synctest"
	"time"

	"github.com/wi1dcard/fingerproxy/pkg/http2"
	"verif/bubble"
)

// runResult extends bubble.RunResult with a proven hard deadlock.
type runResult struct {
	bubble.RunResult
	// Hang: the execution can never reach quiescence: every goroutine of the
	// bubble is blocked and at least one of them waits for a sync.Mutex (which
	// no goroutine will ever release). The string names where.
	Hang      string
	HangStack string
	Watchdog  string // the execution neither finished nor was proven dead (harness problem)
}

var bubbleRE = regexp.MustCompile(`synctest bubble (\d+)`)
var gHeadRE = regexp.MustCompile(`^goroutine \d+ \[([^\]]*)\]:`)

// states in which a goroutine cannot make progress by itself
func blockedState(st string) bool {
	st = strings.TrimSpace(strings.Split(st, ",")[0])
	st = strings.TrimSuffix(st, " (durable)")
	switch st {
	case "chan receive", "chan send", "select", "sync.Cond.Wait", "sync.Mutex.Lock", "sync.RWMutex.Lock", "sync.RWMutex.RLock",
		"synctest.Wait", "synctest.Run", "sleep", "sync.WaitGroup.Wait", "semacquire", "chan receive (nil chan)", "select (no cases)":
		return true
	}
	return false
}

// analyse decides from a full goroutine dump whether bubble id is dead.
func analyse(dump, id string) (dead bool, where, stack string) {
	allBlocked, n := true, 0
	for _, blk := range strings.Split(dump, "\n\n") {
		lines := strings.Split(blk, "\n")
		m := gHeadRE.FindStringSubmatch(lines[0])
		if m == nil {
			continue
		}
		b := bubbleRE.FindStringSubmatch(m[1])
		if b == nil || b[1] != id {
			continue
		}
		n++
		if !blockedState(m[1]) {
			allBlocked = false
		}
		if strings.HasPrefix(m[1], "sync.Mutex.Lock") || strings.HasPrefix(m[1], "sync.RWMutex") {
			var fs []string
			for _, l := range lines[1:] {
				if strings.HasPrefix(l, "\t") || strings.HasPrefix(l, "created by") {
					continue
				}
				if i := strings.LastIndex(l, "("); i > 0 {
					l = l[:i]
				}
				if strings.HasPrefix(l, "internal/sync.") || strings.HasPrefix(l, "sync.") || strings.HasPrefix(l, "runtime.") {
					continue
				}
				if i := strings.LastIndex(l, "/"); i >= 0 {
					l = l[i+1:]
				}
				fs = append(fs, l)
				if len(fs) == 3 {
					break
				}
			}
			if where == "" {
				where = "sync.Mutex.Lock in " + strings.Join(fs, " <- ")
				stack = blk
			}
		}
	}
	return n > 0 && allBlocked && where != "", where, stack
}

// runBubble executes body in a fresh testing/synctest bubble (like
// bubble.Run, without the all-goroutine census after every execution) on a
// helper goroutine, and watches it from outside the bubble: if the execution
// does not finish, goroutine dumps are analysed until either it finishes, or
// the bubble is PROVEN dead (all its goroutines blocked, one of them on a
// mutex: inside a bubble the fake clock stands still while a goroutine is
// blocked non-durably, so no timer can fire and nothing outside the bubble can
// reach its mutexes), or a real-time limit passes (harness error). A dead
// bubble is abandoned (its goroutines leak) and the search goes on.
func runBubble(t *testing.T, body func()) (res runResult) {
	done := make(chan struct{})
	var id atomic.Value
	var inner bubble.RunResult
	go func() {
		defer close(done)
		defer func() {
			if r := recover(); r != nil {
				s := fmt.Sprint(r)
				if strings.Contains(s, "deadlock") || strings.Contains(s, "blocked goroutines remain") {
					inner.Deadlock = s
					return
				}
				inner.Panic = r
			}
		}()
		synctest.Test(t, func(t *testing.T) {
			defer func() {
				if r := recover(); r != nil {
					inner.Panic = r
					buf := make([]byte, 1<<16)
					inner.Stack = string(buf[:runtime.Stack(buf, false)])
				}
			}()
			buf := make([]byte, 256)
			if m := bubbleRE.FindSubmatch(buf[:runtime.Stack(buf, false)]); m != nil {
				id.Store(string(m[1]))
			}
			body()
		})
	}()
	tick := time.NewTimer(1 * time.Second)
	defer tick.Stop()
	for waited := 0; ; waited += 3 {
		select {
		case <-done:
			http2.VerifResetPools()
			res.RunResult = inner
			return res
		case <-tick.C:
		}
		bid, _ := id.Load().(string)
		buf := make([]byte, 4<<20)
		dump := string(buf[:runtime.Stack(buf, true)])
		if dead, where, stack := analyse(dump, bid); dead && bid != "" {
			// look twice: the state must be stable
			time.Sleep(200 * time.Millisecond)
			dump2 := string(buf[:runtime.Stack(buf, true)])
			if dead2, where2, _ := analyse(dump2, bid); dead2 && where2 == where {
				select {
				case <-done:
					res.RunResult = inner
					return res
				default:
				}
				http2.VerifResetPools()
				res.Hang, res.HangStack = where, stack
				return res
			}
		}
		if waited >= 120 {
			http2.VerifResetPools()
			res.Watchdog = "execution neither finished nor provably dead after 120 s of real time"
			return res
		}
		tick.Reset(3 * time.Second)
	}
}

// mutexWaiters: goroutines of the current bubble that wait for a mutex of pkg/http2 (built on the channel-based mutex
// shim, such a wait is a durable block, so it no longer stops the bubble - it has to be looked for). Called after an
// execution has been shut down (requests cancelled, connection closed, a minute of fake time passed): whoever still
// waits for a lock then waits for a lock nobody will release.
func mutexWaiters() string {
	var out []string
	for _, g := range bubble.Census() {
		at := -1
		for i, f := range g.Funcs {
			if strings.HasSuffix(f, "pkg/vsync.(*Mutex).Lock") {
				at = i
			}
		}
		if at < 0 {
			continue
		}
		var fs []string
		for _, f := range g.Funcs[at+1:] {
			if strings.Contains(f, "pkg/vsync.") {
				continue
			}
			if i := strings.LastIndex(f, "/"); i >= 0 {
				f = f[i+1:]
			}
			fs = append(fs, f)
			if len(fs) == 3 {
				break
			}
		}
		out = append(out, "Mutex.Lock in "+strings.Join(fs, " <- "))
	}
	sort.Strings(out)
	return strings.Join(out, "; ")
}
