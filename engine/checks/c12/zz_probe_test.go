//go:build verif

package c12

import (
	"fmt"
	"runtime"
	"testing"
	"testing/synctest"
)

func TestProbeT(t *testing.T) {
	var cfg tconfig
	for _, c := range transportConfigs(true) {
		if c.Name == "transport/recv/stream10" {
			cfg = c
		}
	}
	seq := []act{{K: "open", S: 0}, {K: "data", S: 0, N: 1, P: -1}, {K: "cb", S: 0}, {K: "data", S: 0, N: 1, P: -1}, {K: "data", S: 0, N: 0, P: 255}}
	runBubble(t, func() {
		w := newTWorld(cfg)
		w.keepTrace = true
		defer w.shutdown()
		w.prelude()
		for _, a := range seq {
			w.apply(a)
			w.settle()
		}
		synctest.Wait()
		buf := make([]byte, 1<<20)
		fmt.Println(string(buf[:runtime.Stack(buf, true)]))
		for _, l := range w.trace {
			fmt.Println(l)
		}
		fmt.Println(w.viol)
	})
}
